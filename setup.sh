#!/bin/bash
# MANIFEST.setup_cmd: build the whole Coq development from files on disk (offline).
set -e
cd "$(dirname "$0")"
export PYTHONPATH=/repo PYTHONHASHSEED=0 PYTHONWARNINGS=ignore
# forbidden constructs anywhere in the development
if grep -rnE '\b(Admitted|admit|Axiom|Parameter|Conjecture|Admit Obligations)\b|Unset Guard|bypass_check|type-in-type|impredicative-set' coq --include='*.v' --include='_CoqProject' | grep -v '^coq/Gen/' | grep -vE '\(\*.*\b(Axiom|Parameter|admit)' ; then
  echo "forbidden construct found" >&2; exit 3
fi
gen=0
/venv/bin/python -W ignore harness/gen_all.py || gen=$?
cd coq
coq_makefile -f _CoqProject -o Makefile > /dev/null
if [ "$gen" = 4 ]; then
  # a translator refused the current source: build everything that does not depend on it; the check of the property it serves reports it
  timeout 3000 make -k -j16 2>&1 | grep -v '^Closed under\|^COQ' | tail -40
  exit 0
fi
test "$gen" = 0
timeout 3000 make -j16 2>&1 | grep -v '^Closed under\|^COQ' | tail -40
test ${PIPESTATUS[0]} -eq 0
