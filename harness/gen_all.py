"""Regenerate every coq/Gen/*.v from /repo (used by setup.sh; each check regenerates its own)."""
import os
import sys

sys.path.insert(0, os.path.dirname(os.path.abspath(__file__)))
import common  # noqa: E402
from translate import ALL  # noqa: E402

os.makedirs(common.GEN, exist_ok=True)
failed = 0
for g in ALL:
    try:
        out = g(common.REPO)
    except common.TranslateError as e:
        # fail-closed translators are reported by the check of the property they serve; the rest of the build goes on
        print("translator %s failed (reported by its property's check): %s" % (g.__module__, e))
        failed += 1
        continue
    for name, text in out.items():
        common.write_if_changed(os.path.join(common.GEN, name), text)
        print("generated", name)
sys.exit(4 if failed else 0)
