"""Regenerate every coq/Gen/*.v from /repo (used by setup.sh; each check regenerates its own)."""
import os
import sys

sys.path.insert(0, os.path.dirname(os.path.abspath(__file__)))
import common  # noqa: E402
from translate import ALL  # noqa: E402

os.makedirs(common.GEN, exist_ok=True)
for g in ALL:
    for name, text in g(common.REPO).items():
        common.write_if_changed(os.path.join(common.GEN, name), text)
        print("generated", name)
