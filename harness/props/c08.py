"""C08 -- power, amplitude and PAPR constraints enforce their limit on every batch item.

P: coq/Props/C08.v (squared, exact-rational form: positive factor, output power T c/(c+eps) < T and >= 0.999 T above
   c >= 999 eps, second application, rescaling; clamp bounds / idempotence / sign; clipping and positive scaling never
   increase the PAPR, hence the PAPR algorithm never does; peak bound; limit reached when the final clip keeps 98 % of
   the power (partial); composite = sequential; the OFDM chain PAPR -> power -> peak meets all three limits).
T: kernel-evaluated on implementation output (float64 runs): output is a positive multiple with power out_power,
   exact clamp, complex magnitude clip, the 15-iteration PAPR model on the squared magnitudes vs the implementation.
S: on the implementation: every item of every layout (1-D, batch of one, batches, 3-D / 4-D; real / complex; float32 /
   float64) x signal families x scales x targets: per-item power, positivity of the factor, idempotence, rescaling,
   per-antenna budgets, peak bound on every sample, PAPR limit on attainable signals, composites and factories.
"""
import math
from fractions import Fraction

from common import cQ, import_kaira
from props.c07 import cql

HDR = """From Coq Require Import QArith List Bool ZArith.
Import ListNotations.
From KV Require Import Chan.NoiseQ Constr.Power Constr.C08Cases.
"""
FINISH = dict(level="proof", rule=(
    "constraint in {total, average, per-antenna power, peak amplitude, PAPR, composites, OFDM / MIMO factories, constraint chains} x targets 1e-3..1e3 "
    "x real/complex x float32/float64 x shapes (n,), (1,n), (B,n), (B,c,n), (B,c,h,w) x families gaussian / uniform / OFDM-like / heavy-tailed / "
    "constant / sign-alternating x input scales 1e-2..1e4; PAPR limit asked of signals with >= 1/4 of the samples within 20 dB of the peak and "
    "n / #(such samples) <= 0.9 * limit; non-trivial = batched or complex or scale != 1; distinct = distinct (constraint, target, layout, family, scale, seed)"))
TOLQ = Fraction(1, 100000)


def run(ctx):
    ok = ctx.build_props([], ["Constr/C08Cases.vo"])
    ctx.log("props built", ok)
    import_kaira()
    import torch
    import kaira.constraints as K
    from kaira.constraints.utils import apply_constraint_chain, combine_constraints, create_mimo_constraints, create_ofdm_constraints, measure_signal_properties
    rng = ctx.rng
    quick = ctx.quick
    exprs, meta = [], []

    def add(expr, key, what, rep):
        exprs.append(expr)
        meta.append((key, what, rep))

    def signal(fam, shape, cplx, dtype, gen):
        n = 1
        for s_ in shape:
            n *= s_
        r = lambda: torch.randn(shape, generator=gen, dtype=torch.float64)      # noqa: E731
        if fam == "gaussian":
            x = torch.complex(r(), r()) if cplx else r()
        elif fam == "uniform":
            u = lambda: torch.rand(shape, generator=gen, dtype=torch.float64) * 2 - 1      # noqa: E731
            x = torch.complex(u(), u()) if cplx else u()
        elif fam == "ofdm":
            sym = torch.complex(torch.randint(0, 2, shape, generator=gen).double() * 2 - 1, torch.randint(0, 2, shape, generator=gen).double() * 2 - 1)
            t = torch.fft.ifft(sym, dim=-1) * math.sqrt(shape[-1])
            x = t if cplx else t.real + t.imag
        elif fam == "heavy":
            h = lambda: r() * torch.exp(r())      # noqa: E731
            x = torch.complex(h(), h()) if cplx else h()
        elif fam == "constant":
            x = torch.full(shape, 0.7, dtype=torch.float64)
            x = torch.complex(x, -x) if cplx else x
        else:   # sign-alternating
            x = torch.tensor([(-1.0) ** i for i in range(n)], dtype=torch.float64).reshape(shape)
            x = torch.complex(x, x.flip(-1)) if cplx else x
        return x.to({("f32", False): torch.float32, ("f64", False): torch.float64, ("f32", True): torch.complex64, ("f64", True): torch.complex128}[(dtype, cplx)])

    def items(t):
        """the batch items of a tensor as the constraints define them"""
        if t.dim() > 1 and t.shape[0] > 1:
            return [t[i].reshape(-1) for i in range(t.shape[0])]
        return [t.reshape(-1)]

    def pw(v):
        return float((v.abs().double() ** 2).sum())

    def comps(v):
        v = v.reshape(-1)
        return torch.cat([v.real, v.imag]) if torch.is_complex(v) else v

    fams = ["gaussian", "uniform", "ofdm", "heavy", "constant", "alternating"]
    shapes = [(16,), (1, 16), (1, 3, 8), (1, 2, 2, 4), (3, 16), (2, 3, 8), (2, 2, 2, 4)] if quick else [(16,), (33,), (1, 16), (1, 1, 16), (1, 3, 8), (1, 2, 2, 4), (3, 16), (5, 7), (2, 3, 8), (2, 2, 2, 4), (4, 1, 6)]
    scales = [1e-2, 1.0, 37.0, 1e4]
    targets = [1e-3, 0.5, 1.0, 20.0, 1e3]
    gen = torch.Generator().manual_seed(rng.randrange(1 << 30))

    # ------------------------------------------------------------------ total / average power
    for cname, mk, per_sample in (("TotalPowerConstraint", lambda T: K.TotalPowerConstraint(T), False), ("AveragePowerConstraint", lambda T: K.AveragePowerConstraint(T), True)):
        for shape in shapes:
            for cplx in (False, True):
                for fam in fams:
                    for dtype in ("f32", "f64"):
                        if quick and rng.random() < 0.5:
                            continue
                        T = rng.choice(targets)
                        sc = rng.choice(scales)
                        x = signal(fam, shape, cplx, dtype, gen) * sc
                        layout = "1-D" if len(shape) == 1 else ("batch-of-1" if shape[0] == 1 else "batched")
                        key = "C08/%s/%%s/%s,%s" % (cname, layout, "complex" if cplx else "real")
                        rep = {"constraint": cname, "target": T, "shape": list(shape), "complex": cplx, "family": fam, "scale": sc, "dtype": dtype}
                        ctx.count("power-cases")
                        if layout != "1-D" or cplx or sc != 1.0:
                            ctx.nontriv((cname, T, shape, cplx, fam, sc, dtype))
                        c = mk(T)
                        try:
                            y = c(x)
                        except Exception as ex:
                            ctx.violation(key % "raises", "%s(%g) raised on a %s %s input of shape %s: %s" % (cname, T, dtype, "complex" if cplx else "real", shape, str(ex)[:100]), rep)
                            continue
                        if y.shape != x.shape or torch.is_complex(y) != cplx:
                            ctx.violation(key % "shape", "%s(%g): input %s %s -> output %s %s" % (cname, T, tuple(x.shape), x.dtype, tuple(y.shape), y.dtype), rep)
                            continue
                        ftol = 2e-5 if dtype == "f32" else 1e-9
                        bad = None
                        for it, (xi, yi) in enumerate(zip(items(x), items(y))):
                            n = xi.numel()
                            cin = pw(xi) / (n if per_sample else 1)
                            cout = pw(yi) / (n if per_sample else 1)
                            if cout > T * (1 + ftol):
                                bad = ("exceeds", "item %d has %s power %.8g > target %g" % (it, "average" if per_sample else "total", cout, T))
                            elif cin >= 1e-5 and cout < T * (1 - 1e-3 - ftol):
                                bad = ("below-target", "item %d (input power %.4g) has %s power %.8g, target %g" % (it, cin, "average" if per_sample else "total", cout, T))
                            elif cin >= 1e-5:
                                # positive real factor
                                num = complex((yi.to(torch.complex128) * xi.to(torch.complex128).conj()).sum())
                                s = num.real / max(pw(xi), 1e-300)
                                if not (s > 0 and abs(num.imag) <= 1e-5 * abs(num.real)):
                                    bad = ("factor", "item %d is not a positive multiple of the input (factor %s)" % (it, num / max(pw(xi), 1e-300)))
                                elif float((yi.to(torch.complex128) - s * xi.to(torch.complex128)).abs().max()) > (1e-4 if dtype == "f32" else 1e-9) * float(yi.abs().max()):
                                    bad = ("factor", "item %d is not the input times one factor" % it)
                            if bad:
                                break
                        if bad:
                            ctx.violation(key % bad[0], "%s(%g) on %s %s %s input of shape %s, scale %g: %s" % (cname, T, fam, dtype, "complex" if cplx else "real", shape, sc, bad[1]), rep)
                            continue
                        # idempotent and invariant to rescaling the input
                        y2 = c(y)
                        ya = c(x * 8.0)
                        scale_ref = float(y.abs().max())
                        if float((y2 - y).abs().max()) > 2e-3 * scale_ref:
                            ctx.violation(key % "idempotent", "%s(%g): applying it twice changes the output by %.3g relative" % (cname, T, float((y2 - y).abs().max()) / scale_ref), rep)
                        if float((ya - y).abs().max()) > 2e-3 * scale_ref and min(pw(v) / (v.numel() if per_sample else 1) for v in items(x)) >= 1e-5:
                            ctx.violation(key % "rescale", "%s(%g): constraint(8x) differs from constraint(x) by %.3g relative" % (cname, T, float((ya - y).abs().max()) / scale_ref), rep)
                        # T: the model on float64 runs
                        if dtype == "f64" and len(exprs) < (400 if quick else 4000):
                            for xi, yi in zip(items(x), items(y)):
                                if per_sample:
                                    add("c08_avg %s %s %d%%positive %s %s" % (cQ(TOLQ), cQ(Fraction(T)), xi.numel(), cql(comps(xi)), cql(comps(yi))), key % "model",
                                        "%s(%g): an output item is not (positive factor) x input with average power T c/(c+1e-8)" % (cname, T), rep)
                                else:
                                    add("c08_total %s %s %s %s" % (cQ(TOLQ), cQ(Fraction(T)), cql(comps(xi)), cql(comps(yi))), key % "model",
                                        "%s(%g): an output item is not (positive factor) x input with total power T c/(c+1e-8)" % (cname, T), rep)
        # batches whose members differ by several decades in amplitude: every member still gets the target power, by its own factor
        for shape in ((4, 16), (4, 2, 8)):
            for cplx in (False, True):
                T = rng.choice([0.5, 20.0])
                x = signal("gaussian", shape, cplx, "f32", gen)
                rowscale = torch.tensor([1e4, 1.0, 1e-1, 1e-2]).reshape((4,) + (1,) * (len(shape) - 1))
                x = x * rowscale
                y = mk(T)(x)
                ctx.count("power-cases")
                ctx.nontriv((cname, "heterogeneous", shape, cplx))
                for it, (xi, yi) in enumerate(zip(items(x), items(y))):
                    cin = pw(xi) / (xi.numel() if per_sample else 1)
                    cout = pw(yi) / (yi.numel() if per_sample else 1)
                    num = complex((yi.to(torch.complex128) * xi.to(torch.complex128).conj()).sum())
                    if cout > T * (1 + 3e-5) or (cin >= 1e-5 and cout < T * (1 - 1e-3 - 3e-5)) or (cin >= 1e-5 and not (num.real > 0 and abs(num.imag) <= 1e-5 * abs(num.real))):
                        ctx.violation("C08/%s/heterogeneous-batch/%s" % (cname, "complex" if cplx else "real"), "%s(%g): in a batch whose members have amplitudes 1e4, 1, 0.1, 0.01, member %d (input power %.3g) comes out with %s power %.6g" % (
                            cname, T, it, cin, "average" if per_sample else "total", cout), {"constraint": cname, "target": T, "shape": list(shape), "complex": cplx})
                        break
        # all-zero items inside a batch and alone: the replacement has the target power
        for shape in ((8,), (1, 8), (3, 8)):
            for cplx in (False, True):
                T = 2.5
                x = signal("gaussian", shape, cplx, "f32", gen)
                if len(shape) > 1 and shape[0] > 1:
                    x[1] = 0
                else:
                    x = x * 0
                y = mk(T)(x)
                ctx.count("zero-item-cases")
                for it, (xi, yi) in enumerate(zip(items(x), items(y))):
                    cout = pw(yi) / (yi.numel() if per_sample else 1)
                    if pw(xi) == 0 and abs(cout - T) > 1e-4 * T:
                        ctx.violation("C08/%s/zero-item/%s" % (cname, "complex" if cplx else "real"), "%s(%g): an all-zero item of shape %s is replaced by a signal of power %.6g" % (cname, T, shape, cout), {"shape": list(shape)})
    ctx.log("power constraints done", len(exprs))

    # ------------------------------------------------------------------ the same signals held as permuted / transposed / strided views
    for cname, mk in (("TotalPowerConstraint", lambda: K.TotalPowerConstraint(rng.choice(targets))), ("AveragePowerConstraint", lambda: K.AveragePowerConstraint(rng.choice(targets))),
                      ("PeakAmplitudeConstraint", lambda: K.PeakAmplitudeConstraint(rng.choice([0.1, 1.0, 5.0]))), ("PAPRConstraint", lambda: K.PAPRConstraint(rng.choice([2.0, 4.0])))):
        for shape in ((4, 6, 16), (2, 3, 4, 5), (5, 7), (1, 6, 16)):
            for cplx in (False, True):
                base = signal(rng.choice(fams[:4]), shape, cplx, "f32", gen) * rng.choice(scales)
                views = [("transpose(-2,-1) view", base.transpose(-2, -1).contiguous().transpose(-2, -1))]
                if len(shape) >= 3:
                    views.append(("transpose(0,1) view", base.transpose(0, 1).contiguous().transpose(0, 1)))
                    views.append(("permute view", base.permute(*reversed(range(len(shape)))).contiguous().permute(*reversed(range(len(shape))))))
                wide = signal("gaussian", shape[:-1] + (2 * shape[-1],), cplx, "f32", gen)
                views.append(("strided slice [..., ::2]", wide[..., ::2]))
                c = mk()
                for vname, xv in views:
                    if xv.is_contiguous():
                        continue
                    x0 = xv.clone()
                    ctx.count("view-cases")
                    ctx.nontriv((cname, shape, cplx, vname))
                    try:
                        yv = c(xv)
                        yc = c(xv.contiguous())
                    except Exception as ex:
                        ctx.violation("C08/%s/view/raises" % cname, "%s raised on a %s of shape %s: %s" % (cname, vname, shape, str(ex)[:100]), {"constraint": cname, "shape": list(shape), "view": vname})
                        break
                    if not torch.equal(xv, x0):
                        ctx.violation("C08/%s/view/input-modified" % cname, "%s modified its input (a %s of shape %s)" % (cname, vname, shape), {"constraint": cname, "shape": list(shape), "view": vname})
                        break
                    if yv.shape != yc.shape or not torch.allclose(yv, yc, rtol=1e-4, atol=1e-6 * float(yc.abs().max() + 1e-30)):
                        d = float((yv - yc).abs().max()) if yv.shape == yc.shape else float("nan")
                        ctx.violation("C08/%s/view/differs" % cname, "%s on a %s of shape %s (strides %s) differs from the same values held contiguously by up to %.3g (output peak %.3g)" % (
                            cname, vname, shape, tuple(xv.stride()), d, float(yc.abs().max())), {"constraint": cname, "shape": list(shape), "view": vname, "complex": cplx})
                        break
    # ------------------------------------------------------------------ per-antenna power
    for shape in [(2, 3, 8), (1, 4, 6), (3, 2, 2, 5), (2, 4)] if quick else [(2, 3, 8), (1, 4, 6), (3, 2, 2, 5), (2, 4), (5, 1, 7), (2, 3, 2, 2, 2)]:
        for cplx in (False, True):
            for fam in fams:
                for mode in ("uniform", "budget"):
                    A = shape[1]
                    sc = rng.choice(scales)
                    x = signal(fam, shape, cplx, "f32", gen) * sc
                    budget = torch.tensor([rng.choice(targets) for _ in range(A)])
                    c = K.PerAntennaPowerConstraint(uniform_power=float(budget[0])) if mode == "uniform" else K.PerAntennaPowerConstraint(power_budget=budget)
                    rep = {"shape": list(shape), "complex": cplx, "family": fam, "mode": mode, "scale": sc}
                    ctx.count("per-antenna-cases")
                    ctx.nontriv(("antenna", shape, cplx, fam, mode, sc))
                    try:
                        y = c(x)
                    except Exception as ex:
                        ctx.violation("C08/PerAntennaPowerConstraint/raises", "raised on input of shape %s: %s" % (shape, str(ex)[:100]), rep)
                        continue
                    for b in range(shape[0]):
                        for a in range(A):
                            T = float(budget[0] if mode == "uniform" else budget[a])
                            xi, yi = x[b, a].reshape(-1), y[b, a].reshape(-1)
                            cin, cout = pw(xi) / xi.numel(), pw(yi) / yi.numel()
                            s = complex((yi.to(torch.complex128) * xi.to(torch.complex128).conj()).sum()) / max(pw(xi), 1e-300)
                            if cout > T * (1 + 3e-5) or (cin >= 1e-5 and cout < T * (1 - 1e-3 - 3e-5)) or (cin >= 1e-5 and not (s.real > 0 and abs(s.imag) < 1e-5 * s.real)):
                                ctx.violation("C08/PerAntennaPowerConstraint/power/%s" % mode, "batch item %d antenna %d of a %s input of shape %s: mean power %.6g for budget %g (factor %s)" % (
                                    b, a, "complex" if cplx else "real", shape, cout, T, s), rep)
                                break
    # ------------------------------------------------------------------ peak amplitude
    for shape in shapes:
        for cplx in (False, True):
            for fam in fams:
                A = rng.choice([1e-2, 0.5, 1.0, 3.0, 100.0])
                sc = rng.choice(scales)
                x = signal(fam, shape, cplx, "f32", gen) * sc
                rep = {"shape": list(shape), "complex": cplx, "family": fam, "max_amplitude": A, "scale": sc}
                ctx.count("peak-cases")
                ctx.nontriv(("peak", shape, cplx, fam, A, sc))
                try:
                    y = K.PeakAmplitudeConstraint(A)(x)
                except Exception as ex:
                    ctx.violation("C08/PeakAmplitudeConstraint/raises/%s" % ("complex" if cplx else "real"), "PeakAmplitudeConstraint(%g) raised on a %s input: %s" % (A, "complex" if cplx else "real", str(ex)[:100]), rep)
                    continue
                if float(y.abs().max()) > A * (1 + 1e-6):
                    ctx.violation("C08/PeakAmplitudeConstraint/bound/%s" % ("complex" if cplx else "real"), "PeakAmplitudeConstraint(%g): an output sample has magnitude %.8g" % (A, float(y.abs().max())), rep)
                inside = x.abs() <= A
                if not torch.equal(y[inside], x[inside]) and float((y[inside] - x[inside]).abs().max()) > 1e-6 * A:
                    ctx.violation("C08/PeakAmplitudeConstraint/in-range-changed", "PeakAmplitudeConstraint(%g) changes samples that are within the limit" % A, rep)
                y2 = K.PeakAmplitudeConstraint(A)(y)
                if float((y2 - y).abs().max()) > 1e-6 * A:
                    ctx.violation("C08/PeakAmplitudeConstraint/idempotent", "PeakAmplitudeConstraint(%g) is not idempotent" % A, rep)
                v = x.reshape(-1)[:16]
                w = y.reshape(-1)[:16]
                if cplx:
                    add("c08_cclip %s %s %s %s %s %s" % (cQ(Fraction(1, 100000)), cQ(Fraction(float(torch.tensor(A, dtype=torch.float32))) ** 2), cql(v.real), cql(v.imag), cql(w.real), cql(w.imag)),
                        "C08/PeakAmplitudeConstraint/model/complex", "PeakAmplitudeConstraint(%g): complex output is not the input with its magnitude clipped at %g and its phase kept" % (A, A), rep)
                else:
                    add("c08_clamp %s %s %s" % (cQ(Fraction(float(torch.tensor(A, dtype=torch.float32)))), cql(v), cql(w)),
                        "C08/PeakAmplitudeConstraint/model/real", "PeakAmplitudeConstraint(%g): output is not clamp(x, -A, A)" % A, rep)
    ctx.log("per-antenna and peak done", len(exprs))

    # ------------------------------------------------------------------ PAPR
    def papr_of(v):
        p = v.abs().double() ** 2
        return float(p.max() / p.mean()) if float(p.mean()) > 0 else float("inf")

    def attainable(v, m):
        p = v.abs().double() ** 2
        k = float((p >= p.max() / 100).sum())
        return k / v.numel() >= 0.25 and v.numel() / k <= 0.9 * m

    papr_shapes = [(32,), (1, 32), (3, 32), (2, 2, 16), (2, 2, 2, 8), (256,), (4, 512)]
    for m in (1.3, 2.0, 3.0, 4.0, 6.0, 10.0):
        for shape in papr_shapes:
            for cplx in (False, True):
                for fam in fams[:4]:
                    for dtype in ("f32", "f64"):
                        if quick and rng.random() < 0.6:
                            continue
                        sc = rng.choice(scales)
                        x = signal(fam, shape, cplx, dtype, gen) * sc
                        rep = {"max_papr": m, "shape": list(shape), "complex": cplx, "family": fam, "scale": sc, "dtype": dtype}
                        ctx.count("papr-cases")
                        ctx.nontriv(("papr", m, shape, cplx, fam, sc, dtype))
                        c = K.PAPRConstraint(m)
                        try:
                            y = c(x)
                        except Exception as ex:
                            ctx.violation("C08/PAPRConstraint/raises", "PAPRConstraint(%g) raised on shape %s: %s" % (m, shape, str(ex)[:100]), rep)
                            continue
                        if y.shape != x.shape:
                            ctx.violation("C08/PAPRConstraint/shape", "PAPRConstraint(%g): %s -> %s" % (m, tuple(x.shape), tuple(y.shape)), rep)
                            continue
                        for it, (xi, yi) in enumerate(zip(items(x), items(y))):
                            pin, pout = papr_of(xi), papr_of(yi)
                            if attainable(xi, m):
                                ctx.count("papr-attainable-items")
                                if pout > m * (1 + 1e-4):
                                    ctx.violation("C08/PAPRConstraint/limit", "PAPRConstraint(%g): item %d of a %s %s input of shape %s (input PAPR %.3f) comes out with PAPR %.4f" % (
                                        m, it, fam, "complex" if cplx else "real", shape, pin, pout), rep)
                                    break
                            if pout > pin * (1 + 1e-4):
                                ctx.violation("C08/PAPRConstraint/increases", "PAPRConstraint(%g): item %d PAPR grows from %.4f to %.4f" % (m, it, pin, pout), rep)
                                break
                            # phases / signs kept
                            d = (yi.to(torch.complex128) * xi.to(torch.complex128).conj())
                            if float(d.real.min()) < -1e-9 * float(d.abs().max()) or float(d.imag.abs().max()) > 1e-4 * float(d.abs().max()):
                                ctx.violation("C08/PAPRConstraint/phase", "PAPRConstraint(%g): a sample changes sign or phase" % m, rep)
                                break
                            if dtype == "f64" and xi.numel() <= 32 and len(exprs) < (900 if quick else 6000):
                                px = (xi.abs() ** 2)
                                py = (yi.abs() ** 2)
                                add("c08_papr %s %s %s %s" % (cQ(Fraction(1, 10000)), cQ(Fraction(m)), cql(px), cql(py)), "C08/PAPRConstraint/model",
                                    "PAPRConstraint(%g): squared output magnitudes differ from the 15-iteration clipping model (shape %s, %s)" % (m, shape, fam), rep)
    ctx.log("papr done", len(exprs))

    # ------------------------------------------------------------------ composites, chains, factories
    for trial in range(30 if quick else 300):
        pool = [lambda: K.TotalPowerConstraint(rng.choice(targets)), lambda: K.AveragePowerConstraint(rng.choice(targets)), lambda: K.PeakAmplitudeConstraint(rng.choice([0.1, 1.0, 5.0])),
                lambda: K.PAPRConstraint(rng.choice([2.0, 4.0])), lambda: K.IdentityConstraint()]
        cs = [rng.choice(pool)() for _ in range(rng.randint(1, 4))]
        shape = rng.choice(shapes)
        cplx = rng.random() < 0.5
        x = signal(rng.choice(fams), shape, cplx, "f32", gen) * rng.choice(scales)
        ctx.count("composite-cases")
        ctx.nontriv(("composite", trial))
        seq = x
        for c in cs:
            seq = c(seq)
        for nm, out in (("CompositeConstraint", K.CompositeConstraint(cs)(x)), ("apply_constraint_chain", apply_constraint_chain(cs, x)), ("combine_constraints", combine_constraints(cs)(x))):
            if not torch.allclose(out, seq, rtol=1e-6, atol=0, equal_nan=True):
                ctx.violation("C08/%s/sequential" % nm, "%s of %s differs from applying the parts in order (shape %s)" % (nm, [type(c).__name__ for c in cs], shape), {"parts": [type(c).__name__ for c in cs], "shape": list(shape)})
    # nested composites: a composite used as a part of another composite (directly, through combine_constraints, through add_constraint)
    for trial in range(30 if quick else 300):
        mkpart = [lambda: K.TotalPowerConstraint(rng.choice(targets)), lambda: K.AveragePowerConstraint(rng.choice(targets)), lambda: K.PeakAmplitudeConstraint(rng.choice([0.1, 1.0, 5.0])),
                  lambda: K.PAPRConstraint(rng.choice([1.5, 2.0, 4.0]))]
        inner = [rng.choice(mkpart)() for _ in range(rng.randint(2, 3))]
        if trial % 3 == 0:
            inner_c = create_ofdm_constraints(total_power=rng.choice([1.0, 50.0]), max_papr=rng.choice([2.0, 4.0]), is_complex=False, peak_amplitude=rng.choice([None, 0.5]))
            inner = list(inner_c.constraints)
        else:
            inner_c = K.CompositeConstraint(inner)
        before = [rng.choice(mkpart)() for _ in range(rng.randint(0, 2))]
        after = [rng.choice(mkpart)() for _ in range(rng.randint(0, 1))]
        shape = rng.choice([(64,), (1, 64), (3, 64)])
        x = signal(rng.choice(fams[:4]), shape, False, "f32", gen) * rng.choice(scales)
        flat = before + inner + after
        seq = x
        for c in flat:
            seq = c(seq)
        built = {"CompositeConstraint(nested)": K.CompositeConstraint(before + [inner_c] + after), "combine_constraints(nested)": combine_constraints(before + [inner_c] + after),
                 "apply_constraint_chain(nested)": None}
        added = K.CompositeConstraint(list(before)) if before else K.CompositeConstraint([K.IdentityConstraint()])
        added.add_constraint(inner_c)
        for c in after:
            added.add_constraint(c)
        built["add_constraint(nested)"] = added
        ctx.count("composite-cases")
        ctx.nontriv(("nested", trial))
        for nm, comp in built.items():
            out = apply_constraint_chain(before + [inner_c] + after, x) if comp is None else comp(x)
            if not torch.allclose(out, seq, rtol=1e-5, atol=0, equal_nan=True):
                ctx.violation("C08/%s/sequential" % nm.split("(")[0], "%s: %s around the nested composite %s differs from applying all parts in declared order (shape %s; total power %.5g vs %.5g)" % (
                    nm, [type(c).__name__ for c in before] + ["..."] + [type(c).__name__ for c in after], [type(c).__name__ for c in inner], shape, pw(out), pw(seq)),
                    {"parts": [type(c).__name__ for c in flat], "shape": list(shape)})
    for trial in range(40 if quick else 400):
        T = rng.choice([0.5, 1.0, 16.0, 400.0])
        m = rng.choice([3.0, 4.0, 6.0])
        A = rng.choice([None, 0.05, 0.3, 1.0])
        shape = rng.choice([(64,), (1, 64), (3, 64), (2, 2, 32)])
        cplx = rng.random() < 0.5
        fam = rng.choice(fams[:4])
        x = signal(fam, shape, cplx, "f32", gen) * rng.choice(scales)
        c = create_ofdm_constraints(total_power=T, max_papr=m, is_complex=cplx, peak_amplitude=A)
        rep = {"total_power": T, "max_papr": m, "peak_amplitude": A, "shape": list(shape), "complex": cplx, "family": fam}
        ctx.count("factory-cases")
        ctx.nontriv(("ofdm", trial))
        try:
            y = c(x)
        except Exception as ex:
            ctx.violation("C08/create_ofdm_constraints/raises/%s" % ("complex" if cplx else "real"), "OFDM composite raised on a %s input: %s" % ("complex" if cplx else "real", str(ex)[:100]), rep)
            continue
        for it, (xi, yi) in enumerate(zip(items(x), items(y))):
            prop = measure_signal_properties(yi)
            if pw(yi) > T * (1 + 3e-5):
                ctx.violation("C08/create_ofdm_constraints/total-power", "OFDM composite (T=%g, papr=%g, peak=%s): item %d has total power %.6g" % (T, m, A, it, pw(yi)), rep)
                break
            if A is not None and prop["peak_amplitude"] > A * (1 + 1e-5):
                ctx.violation("C08/create_ofdm_constraints/peak-amplitude", "OFDM composite (T=%g, papr=%g, peak=%g): item %d has peak amplitude %.6g" % (T, m, A, it, prop["peak_amplitude"]), rep)
                break
            if attainable(xi, m) and prop["papr"] > m * (1 + 1e-4):
                ctx.violation("C08/create_ofdm_constraints/papr", "OFDM composite (T=%g, papr=%g, peak=%s): item %d has PAPR %.5g" % (T, m, A, it, prop["papr"]), rep)
                break
            if A is None and pw(xi) >= 1e-5 and pw(yi) < T * (1 - 1e-3 - 3e-5):
                ctx.violation("C08/create_ofdm_constraints/total-power-low", "OFDM composite (T=%g, papr=%g): item %d has total power %.6g" % (T, m, it, pw(yi)), rep)
                break
    for trial in range(30 if quick else 300):
        shape = rng.choice([(2, 4, 32), (1, 2, 64), (3, 4, 4, 8)])
        A_ = shape[1]
        cplx = rng.random() < 0.5
        fam = rng.choice(fams[:4])
        m = rng.choice([None, 4.0, 6.0])
        up = rng.choice([None, 0.25, 2.0])
        T = None if up is not None else rng.choice([1.0, 50.0])
        x = signal(fam, shape, cplx, "f32", gen) * rng.choice(scales)
        c = create_mimo_constraints(num_antennas=A_, uniform_power=up, max_papr=m, total_power=T)
        rep = {"uniform_power": up, "total_power": T, "max_papr": m, "shape": list(shape), "complex": cplx, "family": fam}
        ctx.count("factory-cases")
        ctx.nontriv(("mimo", trial))
        try:
            y = c(x)
        except Exception as ex:
            ctx.violation("C08/create_mimo_constraints/raises", "MIMO composite raised: %s" % str(ex)[:100], rep)
            continue
        for it, (xi, yi) in enumerate(zip(items(x), items(y))):
            if T is not None and pw(yi) > T * (1 + 3e-5):
                ctx.violation("C08/create_mimo_constraints/total-power", "MIMO composite: item %d has total power %.6g for limit %g" % (it, pw(yi), T), rep)
                break
            if m is not None and attainable(c.constraints[0](x)[it if y.dim() > 1 and y.shape[0] > 1 else slice(None)].reshape(-1), m) and papr_of(yi) > m * (1 + 1e-4):
                ctx.violation("C08/create_mimo_constraints/papr", "MIMO composite: item %d has PAPR %.5g for limit %g" % (it, papr_of(yi), m), rep)
                break
        if up is not None:
            ap = (y.abs().double() ** 2).mean(dim=tuple(range(2, y.dim())))
            if float(ap.max()) > up * (1 + 3e-5):
                ctx.violation("C08/create_mimo_constraints/per-antenna-power", "MIMO composite: an antenna has mean power %.6g for limit %g" % (float(ap.max()), up), rep)
    ctx.log("composites done", len(exprs))

    if ok and exprs:
        res = ctx.coq_eval("c08", HDR, exprs, per_file=25, timeout=1500)
        ctx.count("kernel-evaluated-checks", len(res))
        for (key, what, rep), v in zip(meta, res):
            if v is not True:
                ctx.violation(key, what, rep)
    ctx.sample({"kernel_checks": len(exprs)})
    ctx.assumptions += ["A-float: float32 / float64 arithmetic of the implementation is compared with the exact model with relative tolerance 1e-5 (power), 1e-4 (PAPR model); the +1e-8 in x/(|x|+1e-8) of the PAPR clipping is below that tolerance for the input scales used and is not modelled",
                        "the PAPR limit is demanded only of signals on which it is attainable by clipping within 20 dB of the peak (n / #(samples within 20 dB of the peak) <= 0.9 * limit)",
                        "SpectralMaskConstraint (part of the MIMO factory when a mask is given) is outside the property and is not exercised"]
    ctx.cov["exhaustive"] = False


def replay(rep):
    import_kaira()
    print("replay of", rep.get("key"), rep.get("replay"))
    return 0
