"""C05 -- noise-free modulation followed by hard demodulation returns the transmitted bits.

P: coq/Props/C05.v (round trip for every table with distinct points and distinct labels, every sequence of groups;
   DPSK on phase indices for every order and length; OQPSK delay structure).
T: the kernel evaluates table_ok on the (constellation, bit_patterns) each modulator publishes and the model
   modulator / hard demodulator on every label / point; compared with the implementation's symbol choice and hard
   decisions; DPSK / OQPSK index-level models evaluated in Coq against the implementation's decisions.
S: demod(mod(bits)) == bits on the implementation: every bit group, every ordered pair of symbols for the schemes
   with memory, random long sequences, 1-D and batched; symbol count = bits / bits-per-symbol; evaluation mode keeps
   the state.
"""
from fractions import Fraction

from common import cQ, cbool, clist, cnat, import_kaira
from props.c14 import clabs, cpts

HDR = """From Coq Require Import QArith List Bool Arith.
Import ListNotations.
From KV Require Import Mod.Constellation Mod.Demod Mod.Stateful Mod.C05Cases.
"""
FINISH = dict(level="proof", rule=(
    "BPSK, QPSK, M-PSK (4..64), QAM (4..256), PAM (2..64), DPSK (2..16), DBPSK, DQPSK, OQPSK, pi/4-QPSK, identity x Gray/"
    "binary x normalised/unnormalised; every bit group, every ordered pair of groups for the schemes with memory, "
    "seeded long sequences, 1-D and batched; non-trivial = order >= 4 or a scheme with memory; distinct = distinct "
    "(scheme configuration, bit sequence)"))


def memoryless(M, quick):
    out = [("BPSK", "default", lambda: M.BPSKModulator(), lambda: M.BPSKDemodulator(), 1)]
    for nz in (True, False):
        out.append(("QPSK", "normalize=%s" % nz, (lambda nz=nz: M.QPSKModulator(normalize=nz)), (lambda nz=nz: M.QPSKDemodulator(normalize=nz)), 2))
    for order in (4, 8, 16, 32, 64):
        for g in (True, False):
            b = order.bit_length() - 1
            out.append(("PSK", "order=%d,gray=%s" % (order, g), (lambda o=order, g=g: M.PSKModulator(o, gray_coding=g)),
                        (lambda o=order, g=g: M.PSKDemodulator(o, gray_coding=g)), b))
    for order in (4, 16, 64, 256):
        for g in (True, False):
            for nz in (True, False):
                if quick and order == 256 and not nz:
                    continue
                b = order.bit_length() - 1
                out.append(("QAM", "order=%d,gray=%s,normalize=%s" % (order, g, nz), (lambda o=order, g=g, nz=nz: M.QAMModulator(o, gray_coding=g, normalize=nz)),
                            (lambda o=order, g=g, nz=nz: M.QAMDemodulator(o, gray_coding=g, normalize=nz)), b))
    for order in (2, 4, 8, 16, 32, 64):
        for g in (True, False):
            for nz in (True, False):
                b = order.bit_length() - 1
                out.append(("PAM", "order=%d,gray=%s,normalize=%s" % (order, g, nz), (lambda o=order, g=g, nz=nz: M.PAMModulator(o, gray_coding=g, normalize=nz)),
                            (lambda o=order, g=g, nz=nz: M.PAMDemodulator(o, gray_coding=g, normalize=nz)), b))
    return out


def run(ctx):
    ok = ctx.build_props([], ["Mod/C05Cases.vo"])
    ctx.log("props built", ok)
    import_kaira()
    import torch
    import kaira.modulations as M
    rng = ctx.rng
    quick = ctx.quick
    exprs, meta = [], []

    def bits_of(v, b):
        return [(v >> (b - 1 - i)) & 1 for i in range(b)]

    def dtype_variants(key, name, cfg, mod, x, rep):
        """the same bits held in the dtypes a caller may hold them in give the same symbols (or are rejected)"""
        def fresh():
            if hasattr(mod, "reset_state"):
                mod.reset_state()
        fresh()
        ref = mod(x)
        # the same bits held as a transposed view (non-contiguous strides)
        if x.dim() == 2 and min(x.shape) > 1:
            xv = x.t().contiguous().t()
            fresh()
            try:
                yv = mod(xv)
                ctx.count("view-cases")
                if tuple(yv.shape) != tuple(ref.shape) or not torch.allclose(yv.to(torch.complex128), ref.to(torch.complex128), rtol=1e-5, atol=1e-6):
                    ctx.violation(key % "view", "%s(%s): bits of shape %s held with strides %s give other symbols than the same bits held contiguously" % (name, cfg, tuple(x.shape), tuple(xv.stride())), rep)
                    return
            except Exception:
                ctx.count("views-rejected")
        for dt in (torch.uint8, torch.int8, torch.int32, torch.int64, torch.bool, torch.float64):
            xin = x.to(dt)
            x0 = xin.clone()
            fresh()
            try:
                yv = mod(xin)
            except Exception:
                ctx.count("dtypes-rejected")
                continue
            ctx.count("dtype-variants")
            if not torch.equal(xin, x0):
                ctx.violation(key % "dtype/input-modified", "%s(%s) modifies its %s bit tensor" % (name, cfg, str(dt).split(".")[1]), dict(rep, dtype=str(dt)))
                return
            if tuple(yv.shape) != tuple(ref.shape) or not torch.allclose(yv.to(torch.complex128), ref.to(torch.complex128), rtol=1e-5, atol=1e-6):
                ctx.violation(key % "dtype", "%s(%s): bits %s held as %s give symbols %s, as float32 they give %s" % (
                    name, cfg, [int(v) for v in x.reshape(-1).tolist()][:12], str(dt).split(".")[1], [complex(v) for v in yv.reshape(-1).tolist()][:4], [complex(v) for v in ref.reshape(-1).tolist()][:4]), dict(rep, dtype=str(dt)))
                return
        fresh()

    # ------------------------------------------------------------------ memoryless schemes
    for name, cfg, mkm, mkd, b in memoryless(M, quick):
        mod, dem = mkm(), mkd()
        mod.eval()
        dem.eval()
        key = "C05/%s/%%s/%s" % (name, cfg)
        rep = {"scheme": name, "config": cfg}
        ctx.count("schemes")
        if b >= 2:
            ctx.nontriv((name, cfg))
        # every bit group alone, then sequences (1-D and batched)
        seqs = [bits_of(v, b) for v in range(1 << b)]
        pair_lim = 1 << min(2 * b, 8 if quick else 12)
        for _ in range(min(pair_lim, 64 if quick else 600)):
            seqs.append(bits_of(rng.randrange(1 << b), b) + bits_of(rng.randrange(1 << b), b))
        for _ in range(6 if quick else 60):
            n = rng.choice([3, 7, 16, 50])
            seqs.append([rng.randint(0, 1) for _ in range(n * b)])
        for s in seqs:
            x = torch.tensor(s, dtype=torch.float32)
            try:
                y = mod(x)
                r = dem(y)
            except Exception as ex:
                ctx.violation(key % "raises", "%s(%s): bits %s raised %s" % (name, cfg, s[:16], str(ex)[:100]), dict(rep, bits=s))
                break
            ctx.count("roundtrips")
            nsym = y.numel()
            if nsym != len(s) // b or r.reshape(-1).tolist() != [float(v) for v in s]:
                ctx.violation(key % "roundtrip", "%s(%s): bits %s -> %d symbols -> %s" % (name, cfg, s[:24], nsym, [int(v) for v in r.reshape(-1).tolist()][:24]), dict(rep, bits=s))
                break
        # batched layout
        B, n = 3, 5
        xb = torch.tensor([[rng.randint(0, 1) for _ in range(n * b)] for _ in range(B)], dtype=torch.float32)
        try:
            yb = mod(xb)
            rb = dem(yb)
            if tuple(yb.shape) != (B, n) or not torch.equal(rb, xb):
                ctx.violation(key % "roundtrip-batched", "%s(%s): batched bits of shape %s -> symbols %s -> bits %s differ" % (name, cfg, tuple(xb.shape), tuple(yb.shape), tuple(rb.shape)), rep)
        except Exception as ex:
            ctx.violation(key % "raises-batched", "%s(%s): batched input raised %s" % (name, cfg, str(ex)[:100]), rep)
        dtype_variants(key, name, cfg, mod, xb, rep)
        # T: table checks and model decisions
        c = mod.constellation
        pts = [(Fraction(float(z.real)), Fraction(float(z.imag))) for z in c]
        labs = [[int(v) for v in row] for row in mod.bit_patterns.tolist()] if hasattr(mod, "bit_patterns") else [[0], [1]]
        if len(pts) <= (64 if quick else 256):
            impl_idx, impl_lab = [], []
            for lab in labs:
                yv = mod(torch.tensor(lab + lab, dtype=torch.float32)).reshape(-1)[0]
                match = [i for i, z in enumerate(c) if complex(z) == complex(yv)]
                impl_idx.append(match[0] if match else len(pts))
            hard = dem(c.reshape(1, -1)).reshape(len(pts), -1).tolist()
            impl_lab = [[int(v) for v in r] for r in hard]
            exprs.append("c05_table %s %s" % (cpts(pts), clabs(labs)))
            meta.append(("table", (name, cfg), (impl_idx, impl_lab)))
    # identity
    im, idm = M.IdentityModulator(), M.IdentityDemodulator()
    xi = torch.tensor([0.0, 1.0, 1.0, 0.0, 1.0])
    if not torch.equal(idm(im(xi)), xi):
        ctx.violation("C05/Identity/roundtrip/default", "identity modulation does not return its input", {})

    # ------------------------------------------------------------------ DPSK family
    dpsk = [("DPSK", "order=%d,gray=%s" % (o, g), (lambda o=o, g=g: M.DPSKModulator(o, gray_coding=g)), (lambda o=o, g=g: M.DPSKDemodulator(o, gray_coding=g)), o.bit_length() - 1)
            for o in (2, 4, 8, 16) for g in (True, False)]
    # the same schemes selected through the alternative keywords (bits_per_symbol=, gray_coded=)
    for o in (2, 4, 8, 16):
        b_ = o.bit_length() - 1
        dpsk.append(("DPSK", "order=%d,gray=False" % o, (lambda b_=b_: M.DPSKModulator(bits_per_symbol=b_, gray_coded=False)), (lambda b_=b_: M.DPSKDemodulator(bits_per_symbol=b_, gray_coded=False)), b_))
        dpsk.append(("DPSK", "order=%d,gray=False" % o, (lambda o=o: M.DPSKModulator(order=o, gray_coded=False)), (lambda o=o: M.DPSKDemodulator(order=o, gray_coded=False)), b_))
        dpsk.append(("DPSK", "order=%d,gray=False" % o, (lambda o=o: M.DPSKModulator(o, gray_coding=False)), (lambda o=o: M.DPSKDemodulator(order=o, gray_coded=False)), b_))
    dpsk.append(("DBPSK", "default", lambda: M.DBPSKModulator(), lambda: M.DBPSKDemodulator(), 1))
    dpsk.append(("DQPSK", "default", lambda: M.DQPSKModulator(), lambda: M.DQPSKDemodulator(), 2))
    for name, cfg, mkm, mkd, b in dpsk:
        mod, dem = mkm(), mkd()
        mod.train()
        dem.train()
        try:
            dem(mod(torch.tensor([[float(v) for v in bits_of(1, b) * 3]])))      # training-mode history before the reset
        except Exception:
            pass
        mod.eval()
        dem.eval()
        mod.reset_state()
        if hasattr(dem, "reset_state"):
            dem.reset_state()
        Mord = 1 << b
        key = "C05/%s/%%s/%s" % (name, cfg)
        rep = {"scheme": name, "config": cfg}
        ctx.count("schemes")
        ctx.nontriv((name, cfg))
        seqs = [bits_of(u, b) + bits_of(v, b) for u in range(Mord) for v in range(Mord)]
        for _ in range(8 if quick else 80):
            seqs.append([rng.randint(0, 1) for _ in range(rng.choice([3, 6, 20]) * b)])
        idx_cases, impl_out = [], []
        for s in seqs:
            if len(s) // b < 2:
                continue
            x = torch.tensor([s], dtype=torch.float32)       # batched input: bits (a 1-D single-bit input is read as indices)
            try:
                y = mod(x)
                r = dem(y).reshape(-1).tolist()
            except Exception as ex:
                ctx.violation(key % "raises", "%s(%s): bits %s raised %s" % (name, cfg, s[:16], str(ex)[:100]), dict(rep, bits=s))
                break
            ctx.count("roundtrips")
            if y.shape[-1] != len(s) // b:
                ctx.violation(key % "symbol-count", "%s(%s): %d bits -> %d symbols" % (name, cfg, len(s), y.shape[-1]), dict(rep, bits=s))
                break
            # state must not change in evaluation mode
            if not torch.equal(mod(x), y):
                ctx.violation(key % "eval-mode-stateless", "%s(%s): a second call in eval mode gives different symbols" % (name, cfg), dict(rep, bits=s))
                break
            if [int(v) for v in r] != s[b:]:
                ctx.violation(key % "roundtrip", "%s(%s): bits %s come back as %s (expected the input without the %d reference bits)" % (
                    name, cfg, s[:20], [int(v) for v in r][:20], b), dict(rep, bits=s))
                break
            idx_cases.append([int("".join(map(str, s[i:i + b])), 2) for i in range(0, len(s), b)])
            impl_out.append([int(v) for v in r])
        if idx_cases:
            labs = [[int(v) for v in row] for row in mod.bit_patterns.tolist()]
            exprs.append("map (fun idx => dpsk_decisions %s (cumphase %s 0 idx)) %s" % (cnat(Mord), cnat(Mord), clist([clist(c, cnat) for c in idx_cases[:200]])))
            meta.append(("dpsk", (name, cfg), (labs, impl_out[:200])))

    # ------------------------------------------------------------------ OQPSK
    for nz in (True, False):
        mod, dem = M.OQPSKModulator(normalize=nz), M.OQPSKDemodulator(normalize=nz)
        mod.train()
        dem(mod(torch.tensor([0.0, 1.0, 1.0, 1.0, 0.0, 1.0])))      # training-mode history before the reset
        mod.eval()
        dem.eval()
        mod.reset_state()
        if hasattr(dem, "reset_state"):
            dem.reset_state()
        key = "C05/OQPSK/%%s/normalize=%s" % nz
        rep = {"scheme": "OQPSK", "config": "normalize=%s" % nz}
        ctx.count("schemes")
        ctx.nontriv(("OQPSK", nz))
        seqs = [bits_of(u, 2) + bits_of(v, 2) for u in range(4) for v in range(4)]
        for _ in range(8 if quick else 80):
            seqs.append([rng.randint(0, 1) for _ in range(2 * rng.choice([1, 3, 9, 30]))])
        cases, outs = [], []
        for s in seqs:
            x = torch.tensor(s, dtype=torch.float32)
            r = [int(v) for v in dem(mod(x)).reshape(-1).tolist()]
            ctx.count("roundtrips")
            I, Q = s[0::2], s[1::2]
            exp = []
            for i in range(len(I)):
                exp += [I[i], 0 if i == 0 else Q[i - 1]]
            if r != exp:
                ctx.violation(key % "roundtrip-delay", "OQPSK(normalize=%s): bits %s come back as %s; expected in-phase bits in place and quadrature bits delayed by one symbol (first 0): %s" % (
                    nz, s[:20], r[:20], exp[:20]), dict(rep, bits=s))
                break
            cases.append(list(zip(I, Q)))
            outs.append(r)
        dtype_variants(key, "OQPSK", "normalize=%s" % nz, mod, torch.tensor([[0, 0, 1, 0, 1, 1, 0, 1, 1, 0]], dtype=torch.float32), rep)
        exprs.append("map (fun ps => oqpsk_demod (oqpsk_mod None ps)) %s" % clist([clist(["(%s, %s)" % (cbool(a), cbool(q)) for a, q in c]) for c in cases[:120]]))
        meta.append(("oqpsk", nz, outs[:120]))
        # batched and higher-dimensional inputs: every row is its own stream
        for shape in ((3, 40), (2, 1, 12), (4, 6), (2, 3, 8)):
            xb = torch.randint(0, 2, shape).float()
            xb[0, ..., 1::2] = 1.0 if len(shape) == 2 else xb[0, ..., 1::2]          # row 0 carries quadrature ones
            mod.reset_state()
            if hasattr(dem, "reset_state"):
                dem.reset_state()
            try:
                rb = dem(mod(xb))
            except Exception as ex:
                ctx.violation(key % "batched-raises", "OQPSK(normalize=%s) raised on a batch of shape %s: %s" % (nz, shape, str(ex)[:100]), dict(rep, shape=list(shape)))
                break
            ctx.count("roundtrips", xb.numel() // shape[-1])
            flat_in = xb.reshape(-1, shape[-1]).tolist()
            flat_out = rb.reshape(-1, shape[-1]).tolist() if rb.numel() == xb.numel() else None
            bad = flat_out is None
            if not bad:
                for s_, r_ in zip(flat_in, flat_out):
                    I, Q = s_[0::2], s_[1::2]
                    exp = []
                    for i in range(len(I)):
                        exp += [I[i], 0 if i == 0 else Q[i - 1]]
                    if [int(v) for v in r_] != [int(v) for v in exp]:
                        bad = (s_, r_, exp)
                        break
            if bad:
                ctx.violation(key % "roundtrip-delay-batched", "OQPSK(normalize=%s) on a batch of shape %s: a row %s comes back as %s, expected %s" % (
                    nz, shape, [int(v) for v in bad[0]][:16] if bad is not True else "?", [int(v) for v in bad[1]][:16] if bad is not True else "shape %s" % (tuple(rb.shape),), [int(v) for v in bad[2]][:16] if bad is not True else ""), dict(rep, shape=list(shape)))
                break

    # ------------------------------------------------------------------ pi/4-QPSK
    for g in (True, False):
        mod, dem = M.Pi4QPSKModulator(gray_coded=g), M.Pi4QPSKDemodulator()
        mod.eval()
        dem.eval()
        mod.reset_state()
        dem.reset_state()
        key = "C05/Pi4QPSK/%%s/gray=%s" % g
        rep = {"scheme": "Pi4QPSK", "config": "gray=%s" % g}
        ctx.count("schemes")
        ctx.nontriv(("Pi4QPSK", g))
        seqs = [bits_of(u, 2) + bits_of(v, 2) for u in range(4) for v in range(4)]
        for _ in range(8 if quick else 60):
            seqs.append([rng.randint(0, 1) for _ in range(2 * rng.choice([3, 5, 12]))])
        # history: use both modules in training mode on an odd number of symbols, then reset -> evaluation mode
        mod.train()
        dem.train()
        warm = torch.tensor([[0.0, 1.0, 1.0, 0.0, 1.0, 1.0]])
        try:
            dem(mod(warm))
        except Exception:
            pass
        mod.reset_state()
        dem.reset_state()
        mod.eval()
        dem.eval()
        for layout in ("batched", "1-D"):
            for s in seqs:
                x = torch.tensor([s] if layout == "batched" else s, dtype=torch.float32)
                try:
                    r = [int(v) for v in dem(mod(x)).reshape(-1).tolist()]
                except Exception as ex:
                    ctx.violation(key % ("raises/%s" % layout), "pi/4-QPSK(gray=%s), %s: raised %s" % (g, layout, str(ex)[:100]), dict(rep, bits=s))
                    break
                ctx.count("roundtrips")
                if r != s:
                    ctx.violation(key % ("roundtrip/%s" % layout), "pi/4-QPSK(gray_coded=%s), %s input: bits %s come back as %s" % (g, layout, s[:16], r[:16]), dict(rep, bits=s, layout=layout))
                    break
    if ok and exprs:
        res = ctx.coq_eval("c05", HDR, exprs, per_file=4, timeout=1200)
        for (kind, cfg, impl), mv in zip(meta, res):
            ctx.count("model-correspondence")
            if kind == "table":
                tok, midx, mlab = mv
                iidx, ilab = impl
                key = "C05/%s/%%s/%s" % cfg
                if not tok and not any(v["key"].startswith("C05/%s/roundtrip" % cfg[0]) and cfg[1] in v["key"] for v in ctx.violations):
                    ctx.violation(key % "table-ok", "%s(%s): published table has coinciding points or duplicate labels (kernel check table_ok = false)" % cfg, {"scheme": cfg[0], "config": cfg[1]}, found_input=False)
                mlab = [[1 if v else 0 for v in l] for l in mlab]
                if tok and (list(midx) != iidx or mlab != ilab):
                    ctx.broken.append("correspondence %s(%s): model symbol indices / hard labels differ from the implementation" % cfg)
            elif kind == "dpsk":
                labs, impl_out = impl
                model_bits = [[v for k in case for v in labs[k]] for case in mv]
                if model_bits != impl_out and not any(v["key"] == "C05/%s/roundtrip/%s" % cfg for v in ctx.violations):
                    ctx.broken.append("correspondence %s(%s): differential decisions differ from the phase-index model" % cfg)
            else:
                model = [[int(v) for pr in case for v in pr] for case in mv]
                if model != impl and not any(v["key"].startswith("C05/OQPSK/roundtrip") for v in ctx.violations):
                    ctx.broken.append("correspondence OQPSK(normalize=%s): decisions differ from the delay model" % cfg)
    ctx.sample({"schemes": ctx.cov["streams"].get("schemes", 0), "example": "QAM order=16 gray normalised: all 16 groups + pairs + long sequences"})
    ctx.assumptions += ["noise-free symbols are exactly constellation points (float32 values taken as exact rationals)",
                        "DPSK / OQPSK are modelled on phase indices / amplitude signs; that a product of unit-modulus float32 phasors realises index addition within the decision margin is observed on the implementation (A-float)",
                        "pi/4-QPSK has an oracle only (no model)"]
    ctx.cov["exhaustive"] = False


def replay(rep):
    import_kaira()
    r = rep.get("replay", {})
    print("replay of", rep.get("key"), r)
    return 0
