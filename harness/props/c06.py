"""C06 -- demodulators decide for the nearest point and emit correctly signed, scaled max-log LLRs.

P: coq/Props/C06.v (nearest-point minimality, sign of the max-log core agrees with the hard decision, inverse scaling,
   for ANY labelled constellation and any rational received point).
T: Mod/Demod.v evaluated in Coq on the table each modulator publishes and on received points (grid over 1.5x the
   bounding box, points next to decision boundaries, seeded random points), exact rationals of the float32 inputs:
   hard labels compared exactly outside an ambiguity band, soft outputs compared as c * core / sigma^2 with ONE
   positive constant c per scheme.
S: on the implementation alone: label returned by the hard decision is at minimum distance (float64), LLR sign
   agrees with the hard decision, LLR(a*sigma^2) = LLR(sigma^2)/a, scalar and per-symbol noise variance; the schemes
   with memory on their decision variable.
"""
from fractions import Fraction

from common import cQ, cnat, import_kaira
from props.c05 import memoryless
from props.c14 import clabs, cpts

HDR = """From Coq Require Import QArith List Bool Arith.
Import ListNotations.
From KV Require Import Mod.Constellation Mod.Demod Mod.C05Cases.
"""
FINISH = dict(level="proof", rule=(
    "memoryless schemes of C05 x received points: grid over 1.5x the bounding box, points within 1e-3 of decision "
    "boundaries, seeded random points x noise variances 1e-3..1e3 scalar and per-symbol; DPSK / OQPSK / pi/4-QPSK on their "
    "decision variable; non-trivial = a received point that is not a constellation point; distinct = distinct "
    "(scheme configuration, point, variance)"))
AMB = 1e-4      # relative margin between the two smallest distances below which a hard decision is called ambiguous


def run(ctx):
    ok = ctx.build_props([], ["Mod/C05Cases.vo"])
    ctx.log("props built", ok)
    import_kaira()
    import torch
    import kaira.modulations as M
    rng = ctx.rng
    quick = ctx.quick
    exprs, meta = [], []
    for name, cfg, mkm, mkd, b in memoryless(M, quick):
        mod, dem = mkm(), mkd()
        c = mod.constellation
        npts = c.numel()
        if npts > (64 if quick else 256):
            continue
        key = "C06/%s/%%s/%s" % (name, cfg)
        rep = {"scheme": name, "config": cfg}
        ctx.count("schemes")
        pts64 = [complex(z) for z in c]
        labs = [[int(v) for v in row] for row in mod.bit_patterns.tolist()] if hasattr(mod, "bit_patterns") else [[0], [1]]
        re = [z.real for z in pts64]
        im = [z.imag for z in pts64]
        span = max(max(re) - min(re), max(im) - min(im), 1.0)
        lo_r, hi_r = min(re) - 0.25 * span, max(re) + 0.25 * span
        lo_i, hi_i = min(im) - 0.25 * span, max(im) + 0.25 * span
        G = 9 if quick else 21
        ys = []
        for a in range(G):
            for d in range(G):
                ys.append(complex(round((lo_r + (hi_r - lo_r) * a / (G - 1)) * 64) / 64, round((lo_i + (hi_i - lo_i) * d / (G - 1)) * 64) / 64))
        for _ in range(20 if quick else 200):           # next to decision boundaries: midpoints of point pairs, nudged
            p, q = rng.sample(pts64, 2) if npts > 1 else (pts64[0], pts64[0])
            mid = (p + q) / 2 + complex(rng.uniform(-1, 1), rng.uniform(-1, 1)) * 1e-3
            ys.append(complex(round(mid.real * 4096) / 4096, round(mid.imag * 4096) / 4096))
        for _ in range(30 if quick else 600):
            ys.append(complex(round(rng.uniform(lo_r, hi_r) * 1024) / 1024, round(rng.uniform(lo_i, hi_i) * 1024) / 1024))
        if name in ("BPSK", "PAM"):
            ys = [complex(z.real, 0.0) for z in ys]
        yt = torch.tensor(ys, dtype=torch.complex64)
        hard = [[int(v) for v in r] for r in dem(yt).reshape(len(ys), -1).tolist()]
        ctx.count("hard-decisions", len(ys))
        # the same received points held as a transposed / permuted view (non-contiguous strides): same decisions and LLRs
        if len(ys) >= 36:
            for vshape, mkview in (((4, 9), lambda t: t.t().contiguous().t()), ((2, 3, 6), lambda t: t.transpose(0, 1).contiguous().transpose(0, 1)), ((2, 3, 6), lambda t: t.transpose(1, 2).contiguous().transpose(1, 2))):
                yc_ = yt[:36].reshape(vshape).clone()
                yv_ = mkview(yc_)
                if yv_.is_contiguous():
                    continue
                try:
                    hv, hc = dem(yv_), dem(yc_)
                    sv, sc_ = dem(yv_, noise_var=0.7), dem(yc_, noise_var=0.7)
                except Exception:
                    ctx.count("views-rejected")
                    continue
                ctx.count("view-cases")
                if hv.shape != hc.shape or not torch.equal(hv, hc):
                    nbad = int((hv != hc).sum()) if hv.shape == hc.shape else -1
                    ctx.violation(key % "view/hard", "%s(%s): received points of shape %s held with strides %s: %d hard bits differ from the same points held contiguously" % (name, cfg, vshape, tuple(yv_.stride()), nbad),
                                  dict(rep, shape=list(vshape), strides=list(yv_.stride())))
                    break
                if sv.shape != sc_.shape or not torch.allclose(sv, sc_, rtol=1e-4, atol=1e-5):
                    ctx.violation(key % "view/soft", "%s(%s): received points of shape %s held with strides %s: LLRs differ from the same points held contiguously" % (name, cfg, vshape, tuple(yv_.stride())),
                                  dict(rep, shape=list(vshape), strides=list(yv_.stride())))
                    break
        # S: nearest point, margin-aware
        amb = []
        for y, h in zip(ys, hard):
            ds = sorted((abs(y - p) ** 2, i) for i, p in enumerate(pts64))
            ambiguous = len(ds) > 1 and (ds[1][0] - ds[0][0]) <= AMB * max(ds[1][0], 1e-12)
            amb.append(ambiguous)
            if y not in pts64:
                ctx.nontriv((name, cfg, y))
            if ambiguous:
                ctx.count("ambiguous-skipped")
                continue
            if h != labs[ds[0][1]]:
                ctx.violation(key % "nearest-point", "%s(%s): received %s decides %s, the nearest point %s is labelled %s" % (
                    name, cfg, y, h, pts64[ds[0][1]], labs[ds[0][1]]), dict(rep, received=[y.real, y.imag]))
                break
        # soft output: one positive constant c per scheme, sign, scaling, per-symbol variance
        cst = None
        for nv in (1e-3, 0.1, 1.0, 10.0, 1e3):
            try:
                soft = dem(yt, noise_var=nv).reshape(len(ys), -1).tolist()
                soft_t = dem(yt, noise_var=torch.full((len(ys),), nv)).reshape(len(ys), -1).tolist()
            except Exception as ex:
                ctx.violation(key % "soft-raises", "%s(%s): soft demodulation raised %s" % (name, cfg, str(ex)[:100]), rep)
                break
            ctx.count("soft-outputs", len(ys) * b)
            bad = None
            for y, h, s, st, a in zip(ys, hard, soft, soft_t, amb):
                for i in range(b):
                    d1 = min(abs(y - p) ** 2 for p, l in zip(pts64, labs) if l[i] == 1)
                    d0 = min(abs(y - p) ** 2 for p, l in zip(pts64, labs) if l[i] == 0)
                    core = d1 - d0
                    tol = 2e-4 * (abs(d1) + abs(d0)) / nv + 1e-6
                    if abs(core) > 1e-3 * (d1 + d0 + 1e-9):
                        ratio = s[i] * nv / core
                        if cst is None:
                            cst = ratio
                        if ratio <= 0:
                            bad = ("llr-sign", "bit %d of received %s: LLR %g has the wrong sign (min d^2 to a 1-point %g, to a 0-point %g)" % (i, y, s[i], d1, d0))
                        elif abs(s[i] - cst * core / nv) > max(tol, 2e-3 * abs(s[i])):
                            bad = ("llr-scale", "bit %d of received %s at noise variance %g: LLR %g, expected %g * (%g) / %g" % (i, y, nv, s[i], cst, core, nv))
                        elif not a and (s[i] > 0) != (h[i] == 0):
                            bad = ("llr-vs-hard", "bit %d of received %s: LLR %g but the hard decision is %d" % (i, y, s[i], h[i]))
                    if abs(s[i] - st[i]) > 1e-5 * max(1.0, abs(s[i])):
                        bad = ("per-symbol-variance", "bit %d of received %s: scalar variance gives %g, per-symbol tensor gives %g" % (i, y, s[i], st[i]))
                    if bad:
                        break
                if bad:
                    break
            if bad:
                ctx.violation(key % bad[0], "%s(%s): %s" % (name, cfg, bad[1]), dict(rep, noise_var=nv))
                break
        # a receive buffer that the caller refills in place between calls on the same demodulator object
        if len(ys) >= 16:
            buf = yt[:8].clone().reshape(1, -1)
            fresh = yt[8:16].clone().reshape(1, -1)
            try:
                dem(buf)
                dem(buf, noise_var=0.7)
                buf.copy_(fresh)
                h_re = dem(buf)
                s_re = dem(buf, noise_var=0.7)
                h_ok = dem(fresh.clone())
                s_ok = dem(fresh.clone(), noise_var=0.7)
                ctx.count("refilled-buffer-cases")
                if not torch.equal(h_re, h_ok) or not torch.allclose(s_re, s_ok, rtol=1e-5, atol=1e-6):
                    ctx.violation(key % "refilled-buffer", "%s(%s): after the receive buffer was refilled in place, the same demodulator object answers for the OLD contents (hard %s vs %s for the new symbols)" % (
                        name, cfg, [int(v) for v in h_re.reshape(-1).tolist()][:8], [int(v) for v in h_ok.reshape(-1).tolist()][:8]), rep)
            except Exception as ex:
                ctx.note("%s(%s): refilled-buffer history raised %s" % (name, cfg, str(ex)[:60]))
        # a per-symbol noise-variance tensor with unequal entries: every LLR is divided by its own symbol's variance
        if b >= 1 and len(ys) >= 8:
            sel_ = list(range(0, len(ys), max(1, len(ys) // 24)))[:24]
            ysub = yt[sel_].reshape(2, -1)
            nvs = torch.tensor([rng.choice([1e-3, 1e-2, 0.1, 0.7, 3.0, 40.0, 1e3]) for _ in range(ysub.numel())]).reshape(ysub.shape)
            try:
                st = dem(ysub, noise_var=nvs).reshape(ysub.numel(), -1)
                ref = torch.stack([dem(ysub.reshape(-1)[i:i + 1].reshape(1, 1), noise_var=float(nvs.reshape(-1)[i])).reshape(-1) for i in range(ysub.numel())])
                ctx.count("soft-outputs", st.numel())
                if st.shape != ref.shape or not torch.allclose(st, ref, rtol=1e-4, atol=1e-5):
                    j = int((st - ref).abs().max(dim=1)[0].argmax()) if st.shape == ref.shape else 0
                    ctx.violation(key % "per-symbol-variance", "%s(%s): with a per-symbol noise-variance tensor of unequal entries, symbol %d (variance %g) gets LLRs %s; with that variance as a scalar it gets %s" % (
                        name, cfg, j, float(nvs.reshape(-1)[j]), [round(v, 4) for v in st[j].tolist()] if st.shape == ref.shape else tuple(st.shape), [round(v, 4) for v in ref[j].tolist()]), rep)
            except Exception as ex:
                ctx.note("%s(%s): per-symbol variance tensor of shape %s raised %s" % (name, cfg, tuple(ysub.shape), str(ex)[:60]))
        # T: model
        pts = [(Fraction(float(z.real)), Fraction(float(z.imag))) for z in c]
        sel = [i for i, a in enumerate(amb) if not a][: (80 if quick else 400)]
        if npts <= 64 or not quick:
            exprs.append("c06_points %s %s %s %s" % (cpts(pts), clabs(labs), cnat(b), cpts([(Fraction(ys[i].real), Fraction(ys[i].imag)) for i in sel])))
            soft1 = dem(yt, noise_var=1.0).reshape(len(ys), -1).tolist()
            meta.append(((name, cfg), [hard[i] for i in sel], [soft1[i] for i in sel], cst))
    # ------------------------------------------------------------------ schemes with memory: sign / scaling on the implementation
    stateful = [("DPSK", "order=%d,gray=%s" % (o, g), M.DPSKModulator(o, gray_coding=g), M.DPSKDemodulator(o, gray_coding=g), o.bit_length() - 1) for o in (2, 4, 8, 16) for g in (True, False)]
    # the same demodulators selected through the alternative keywords (bits_per_symbol=, gray_coded=): decisions against the modulator's own constellation
    stateful += [("DPSK", "bits_per_symbol=%d,gray_coded=False" % b_, M.DPSKModulator(1 << b_, gray_coding=False), M.DPSKDemodulator(bits_per_symbol=b_, gray_coded=False), b_) for b_ in (1, 2, 3, 4)]
    stateful += [("DPSK", "order=%d,gray_coded=True" % o, M.DPSKModulator(o, gray_coding=True), M.DPSKDemodulator(order=o, gray_coded=True), o.bit_length() - 1) for o in (4, 8)]
    stateful.append(("OQPSK", "normalize=True", M.OQPSKModulator(), M.OQPSKDemodulator(), 2))
    stateful.append(("Pi4QPSK", "gray=False", M.Pi4QPSKModulator(gray_coded=False), M.Pi4QPSKDemodulator(), 2))
    for name, cfg, mod, dem, b in stateful:
        mod.eval()
        dem.eval()
        key = "C06/%s/%%s/%s" % (name, cfg)
        rep = {"scheme": name, "config": cfg}
        ctx.count("schemes")
        for trial in range(4 if quick else 30):
            n = 12
            y = torch.complex(torch.randn(1, n), torch.randn(1, n))
            if hasattr(mod, "reset_state"):
                mod.reset_state()
            if hasattr(dem, "reset_state"):
                dem.reset_state()
            h = dem(y).reshape(-1).tolist()
            s1 = dem(y, noise_var=0.5).reshape(-1).tolist()
            s2 = dem(y, noise_var=2.0).reshape(-1).tolist()
            ctx.count("soft-outputs", len(s1))
            ctx.nontriv((name, cfg, trial))
            if name == "DPSK":
                # the decision variable y[i] * conj(y[i-1]) is decided as the nearest (in angle) point of the constellation that the
                # MODULATOR of this configuration publishes, with that point's bit pattern
                import cmath
                import math
                pts_ = [complex(v) for v in mod.constellation.reshape(-1).tolist()]
                pats_ = [[int(v) for v in r_] for r_ in mod.bit_patterns.tolist()]
                yy = [complex(v) for v in y.reshape(-1).tolist()]
                for i in range(1, n):
                    z = yy[i] * yy[i - 1].conjugate()
                    d = sorted((abs((cmath.phase(z) - cmath.phase(p_) + math.pi) % (2 * math.pi) - math.pi), j) for j, p_ in enumerate(pts_))
                    if len(d) > 1 and d[1][0] - d[0][0] < 1e-3:
                        continue
                    got_ = [int(v) for v in h[(i - 1) * b:i * b]]
                    if got_ != pats_[d[0][1]]:
                        ctx.violation(key % "nearest-point", "%s(%s): decision variable %s is nearest to the modulator's point %s labelled %s but is decided as %s" % (
                            name, cfg, z, pts_[d[0][1]], pats_[d[0][1]], got_), dict(rep, y=[[v.real, v.imag] for v in yy]))
                        break
            for i, (hv, a, c2) in enumerate(zip(h, s1, s2)):
                if abs(a) > 1e-4 and (a > 0) != (hv == 0):
                    ctx.violation(key % "llr-vs-hard", "%s(%s): soft output %g of bit %d disagrees with the hard decision %d on the same sample" % (name, cfg, a, i, int(hv)), rep)
                    break
                if abs(a - 4.0 * c2) > 1e-3 * max(1.0, abs(a)):
                    ctx.violation(key % "llr-scale", "%s(%s): LLR at variance 0.5 is %g, at variance 2.0 it is %g (should be 4x smaller)" % (name, cfg, a, c2), rep)
                    break
    if ok and exprs:
        res = ctx.coq_eval("c06", HDR, exprs, per_file=2, timeout=1500)
        for (cfg, ihard, isoft, cst), mv in zip(meta, res):
            ctx.count("model-correspondence")
            mh = [[1 if v else 0 for v in lab] for lab, _ in mv]
            if mh != ihard and not any(v["key"].startswith("C06/%s/nearest-point" % cfg[0]) for v in ctx.violations):
                j = next(i for i, (a, c_) in enumerate(zip(mh, ihard)) if a != c_)
                ctx.broken.append("correspondence %s(%s): hard decision of sample %d: model %s implementation %s" % (cfg[0], cfg[1], j, mh[j], ihard[j]))
            if cst is not None and cst > 0:
                worst = 0.0
                for (_, cores), soft in zip(mv, isoft):
                    for (num, den), s in zip(cores, soft):
                        core = num / den
                        worst = max(worst, abs(s - cst * core) / max(1.0, abs(s)))
                if worst > 3e-3 and not any(v["key"].startswith("C06/%s/llr" % cfg[0]) for v in ctx.violations):
                    ctx.broken.append("correspondence %s(%s): soft outputs differ from c*core/sigma^2 (c=%g) by up to %.2g relative" % (cfg[0], cfg[1], cst, worst))
    ctx.sample({"schemes": ctx.cov["streams"].get("schemes", 0)})
    ctx.assumptions += ["A-float: received points are float32 values taken as exact rationals; hard decisions whose two smallest distances differ by less than 1e-4 relative are classed ambiguous and not compared; soft outputs compared with relative tolerance 2e-3",
                        "the differential / offset / alternating schemes are checked on the implementation only (sign vs hard decision, 1/sigma^2 scaling)"]
    ctx.cov["exhaustive"] = False


def replay(rep):
    import_kaira()
    print("replay of", rep.get("key"), rep.get("replay"))
    return 0
