"""C17 -- pipeline models run their stages in declared order, independent of thread timing.

P: coq/Props/C17.v (sequential order for every stage list; remove keeps order; parallel results/aggregator input
   independent of the completion order for EVERY permutation; branching first match; feedback rounds; MAC encoders).
T: Pipe/Pipeline.v evaluated in Coq vs the real classes with recording stages: every add/remove history up to the
   tier's length, every completion order of 1..n parallel branches FORCED from outside (per-branch Events released
   in the chosen order), branching histories with overlapping conditions, feedback 0..5 rounds, MAC 1..4 users with
   shared / separate / aliased encoders.
S: the property's statements checked directly on the implementation's observable behaviour.
"""
import itertools
import threading
import time

from common import clist, cnat, import_kaira

HDR = """From Coq Require Import List Bool Arith ZArith.
Import ListNotations.
From KV Require Import Pipe.Pipeline Pipe.C17Cases.
"""
FINISH = dict(level="proof", rule=(
    "sequential: every history of add(stage in 3 kinds)/remove(index in -1..3) up to the tier's length (exhaustive) + "
    "seeded random histories to length 40; parallel: n = 1..N branches x every feasible completion order x worker "
    "counts; branching: seeded op histories x inputs; feedback 0..5 rounds; MAC 1..4 users; non-trivial = a history "
    "with a remove, a completion order different from the declared one, overlapping true conditions; distinct = "
    "distinct history / (configuration, order)"))


def cz(i):
    return "(%d)%%Z" % i


class ForcedOrder:
    """Branch callables whose completion order is forced: each blocks on its own Event; the controller releases
    them in the order pi, waiting until the released branch has returned (plus a grace period for the future to be
    marked done) before releasing the next."""

    def __init__(self, n, raising=()):
        self.n = n
        self.go = [threading.Event() for _ in range(n)]
        self.fin = [threading.Event() for _ in range(n)]
        self.raising = set(raising)
        self.calls = []
        self.lock = threading.Lock()

    def branch(self, i, sid):
        def f(x, *args, **kwargs):
            with self.lock:
                self.calls.append((sid, tuple(x), args, tuple(sorted(kwargs.items()))))
            if not self.go[i].wait(20):
                raise RuntimeError("harness: branch %d never released" % i)
            try:
                if i in self.raising:
                    raise ValueError("boom%d" % sid)
                return list(x) + [sid]
            finally:
                self.fin[i].set()
        return f

    def controller(self, pi):
        def run():
            for i in pi:
                self.go[i].set()
                self.fin[i].wait(20)
                time.sleep(0.004)
        t = threading.Thread(target=run, daemon=True)
        t.start()
        return t


def feasible_orders(n, workers):
    """completion orders possible with a pool of `workers` threads (tasks start in submission order)"""
    if workers is None or workers >= n:
        return list(itertools.permutations(range(n)))
    out = []

    def rec(running, nxt, done):
        if len(done) == n:
            out.append(tuple(done))
            return
        for i in sorted(running):
            r2 = set(running) - {i}
            nn = nxt
            if nn < n:
                r2.add(nn)
                nn += 1
            rec(r2, nn, done + [i])
    rec(set(range(workers)), workers, [])
    return out


def run(ctx):
    ok = ctx.build_props([], ["Pipe/C17Cases.vo"])
    ctx.log("props built", ok)
    import_kaira()
    import torch
    from torch import nn
    from kaira.channels.base import BaseChannel
    from kaira.constraints.base import BaseConstraint
    from kaira.models.base import BaseModel, ConfigurableModel
    from kaira.models.channel_code import ChannelCodeModel
    from kaira.models.deepjscc import DeepJSCCModel
    from kaira.models.feedback_channel import FeedbackChannelModel
    from kaira.models.generic.branching import BranchingModel
    from kaira.models.generic.parallel import ParallelModel
    from kaira.models.generic.sequential import SequentialModel
    from kaira.models.multiple_access_channel import MultipleAccessChannelModel
    rng = ctx.rng
    quick = ctx.quick
    LOG = []

    def stage(sid):
        def f(x, *args, **kwargs):
            LOG.append((sid, list(x), args, dict(kwargs)))
            return list(x) + [sid]
        f.sid = sid
        return f

    # ------------------------------------------------------------------ sequential histories
    OPS = [("add", 0), ("add", 1), ("add", 2)] + [("rm", i) for i in (-1, 0, 1, 2, 3)]
    L = 4 if quick else 5
    hist = [h for ln in range(0, L + 1) for h in itertools.product(range(len(OPS)), repeat=ln)]
    for _ in range(100 if quick else 2000):
        hist.append(tuple(rng.randrange(len(OPS)) if rng.random() < 0.8 else rng.choice([0, 1, 2]) for _ in range(rng.randint(6, 40))))
    inits = [None, [], [7], [7, 8, 7]]
    stages = {i: stage(i) for i in (0, 1, 2, 7, 8)}

    def impl_seq(cls, init, h):
        m = cls() if init is None else (cls([stages[i] for i in init]) if cls is SequentialModel else cls())
        if cls is not SequentialModel and init:
            for i in init:
                m.add_step(stages[i])
        oks = []
        for o in h:
            kind, a = OPS[o]
            try:
                if kind == "add":
                    r = m.add_step(stages[a])
                else:
                    r = m.remove_step(a)
                oks.append(r is m)
            except IndexError:
                oks.append(False)
        LOG.clear()
        out = m([], "extra", key=5)
        calls = [(s, x) for s, x, a, k in LOG]
        argsok = all(a == ("extra",) and k == {"key": 5} for s, x, a, k in LOG)
        return [st.sid for st in m.steps], oks, out, calls, argsok

    # the list handed to SequentialModel stays the caller's: two pipelines declared from one list, and later edits of that list
    for trial in range(6):
        lst = [stages[7], stages[8]] if trial % 2 == 0 else [stages[0], stages[1], stages[2]]
        declared = [st.sid for st in lst]
        a_ = SequentialModel(lst)
        b_ = SequentialModel(lst)
        if trial % 3 == 0:
            a_.add_step(stages[1])
        elif trial % 3 == 1:
            a_.remove_step(0)
        else:
            lst.append(stages[2])
            lst.reverse()
        LOG.clear()
        b_([], "extra", key=5)
        ran = [s_ for s_, x_, a__, k_ in LOG]
        ctx.count("shared-list-cases")
        if ran != declared or [st.sid for st in b_.steps] != declared:
            ctx.violation("C17/SequentialModel/declared-order-shared-list", "a pipeline declared with stages %s runs %s after %s" % (
                declared, ran, ["add_step on another pipeline built from the same list", "remove_step on another pipeline built from the same list", "the caller edited its own list"][trial % 3]), {"declared": declared, "ran": ran})
            break

    def ref_seq(init, h):
        steps = list(init or [])
        oks = []
        for o in h:
            kind, a = OPS[o]
            if kind == "add":
                steps.append(a)
                oks.append(True)
            elif 0 <= a < len(steps):
                del steps[a]
                oks.append(True)
            else:
                oks.append(False)
        tr, v = [], []
        for s in steps:
            tr.append((s, list(v)))
            v = v + [s]
        return steps, oks, v, tr

    exprs, impls = [], []
    for hi, h in enumerate(hist):
        init = inits[hi % len(inits)] if len(h) > 2 else inits[hi % 2]
        cls = SequentialModel if hi % 3 else ConfigurableModel
        st, oks, out, calls, argsok = impl_seq(cls, init, h)
        r = ref_seq(init, h)
        ctx.count("sequential-histories")
        if any(OPS[o][0] == "rm" for o in h):
            ctx.nontriv(("seq", tuple(init or ()), h))
        rep = {"class": cls.__name__, "init": init, "ops": [OPS[o] for o in h]}
        if (st, oks, out, calls) != r or not argsok:
            ctx.violation("C17/%s/declared-order" % cls.__name__,
                          "history %s from %s: steps %s flags %s output %s calls %s (extra args forwarded: %s); the list model gives %s"
                          % ([OPS[o] for o in h], init, st, oks, out, calls, argsok, r), rep)
        exprs.append("seq_case %s %s" % (clist(init or [], cnat), clist(
            ["Add %s" % cnat(OPS[o][1]) if OPS[o][0] == "add" else "Remove %s" % cz(OPS[o][1]) for o in h])))
        impls.append((st, [bool(b) for b in oks], out, calls, rep))
    if ok:
        res = ctx.coq_eval("seq", HDR, exprs, per_file=400, timeout=900)
        for (st, oks, out, calls, rep), mv in zip(impls, res):
            (ms, mo, mvv, mt) = mv
            if (list(ms), list(mo), list(mvv), [(a, list(b)) for a, b in mt]) != (st, oks, out, calls):
                ctx.broken.append("correspondence sequential history %s: impl %s model %s" % (rep, (st, oks, out, calls), mv))
                break
    ctx.sample({"sequential history": [OPS[o] for o in hist[-1]][:8], "impl": impl_seq(SequentialModel, [7], hist[-1])[:3]})

    # DeepJSCC / ChannelCode constructors: declared execution order
    class RecModel(BaseModel):
        def __init__(self, sid):
            super().__init__()
            self.sid = sid

        def forward(self, x, *a, **k):
            LOG.append((self.sid, list(x), a, dict(k)))
            return list(x) + [self.sid]

    class RecConstraint(BaseConstraint):
        def __init__(self, sid):
            super().__init__()
            self.sid = sid

        def forward(self, x, *a, **k):
            LOG.append((self.sid, list(x) if not torch.is_tensor(x) else "tensor", a, dict(k)))
            return (list(x) + [self.sid]) if not torch.is_tensor(x) else x

    class RecChannel(BaseChannel):
        def __init__(self, sid):
            super().__init__()
            self.sid = sid

        def forward(self, x, *a, **k):
            LOG.append((self.sid, list(x) if not torch.is_tensor(x) else "tensor", a, dict(k)))
            return (list(x) + [self.sid]) if not torch.is_tensor(x) else x

    LOG.clear()
    dj = DeepJSCCModel(encoder=RecModel(1), constraint=RecConstraint(2), channel=RecChannel(3), decoder=RecModel(4))
    o1 = dj([], "e", key=5)
    c1 = [(s, a, k) for s, x, a, k in LOG]
    LOG.clear()
    cc = ChannelCodeModel(encoder=RecModel(1), constraint=RecConstraint(2), modulator=RecModel(5), channel=RecChannel(3),
                          demodulator=RecModel(6), decoder=RecModel(4))
    o2 = cc([], "e", key=5)
    c2 = [(s, a, k) for s, x, a, k in LOG]
    ctx.count("named-pipelines", 2)
    if o1 != [1, 2, 3, 4] or [c[0] for c in c1] != [1, 2, 3, 4] or any(c[1:] != (("e",), {"key": 5}) for c in c1):
        ctx.violation("C17/DeepJSCCModel/declared-order", "DeepJSCC stages ran as %s" % (c1,), {"calls": str(c1)})
    if o2 != [1, 5, 2, 3, 6, 4] or [c[0] for c in c2] != [1, 5, 2, 3, 6, 4] or any(c[1:] != (("e",), {"key": 5}) for c in c2):
        ctx.violation("C17/ChannelCodeModel/declared-order", "channel-code stages ran as %s" % (c2,), {"calls": str(c2)})
    if ok:
        mv = ctx.coq_eval("named", HDR, ["(deepjscc_steps 1 2 3 4, channelcode_steps 1 2 5 3 6 4)"])[0]
        if [list(mv[0]), list(mv[1])] != [o1, o2]:
            ctx.broken.append("correspondence DeepJSCC/ChannelCode step order: impl %s model %s" % ([o1, o2], mv))

    # ------------------------------------------------------------------ parallel: every completion order
    N = 4 if quick else 5
    pcases = []
    for n in range(1, N + 1):
        for workers in sorted({None, n, 1, max(1, n - 1)}, key=lambda w: (w is None, w)):
            orders = feasible_orders(n, workers)
            if n == 5 and workers is not None and workers != n:
                orders = orders[::7]
            for pi in orders:
                pcases.append((n, workers, pi, "distinct"))
    # duplicate names and raising branches (model/implementation tie; the property's quantifier has distinct names)
    for pi in itertools.permutations(range(3)):
        pcases.append((3, None, pi, "dup"))
        pcases.append((3, None, pi, "raise"))
    exprs, impls = [], []
    for n, workers, pi, mode in pcases:
        names = list(range(10, 10 + n))
        if mode == "dup":
            names[2] = names[0]
        fo = ForcedOrder(n, raising=(1,) if mode == "raise" else ())
        use_ctor = (sum(pi) + n) % 2 == 0
        cfgs = [("s%d" % names[i], fo.branch(i, 100 + i)) for i in range(n)]
        for agg in (None, tuple):
            for e in fo.go + fo.fin:
                e.clear()
            fo.calls.clear()
            if use_ctor:
                m = ParallelModel(max_workers=workers, steps=list(cfgs), aggregator=agg)
            else:
                m = ParallelModel(max_workers=workers, aggregator=agg)
                for nm, f in cfgs:
                    m.add_step(f, nm)
            t = fo.controller(pi)
            out = m([], "extra", key=5)
            t.join(30)
            ctx.count("parallel-runs")
            if tuple(pi) != tuple(range(n)):
                ctx.nontriv(("par", n, workers, pi, mode))
            exp_vals = [("Error: boom%d" % (100 + i)) if (mode == "raise" and i == 1) else [100 + i] for i in range(n)]
            rep = {"n": n, "max_workers": workers, "completion_order": list(pi), "mode": mode, "aggregator": "tuple" if agg else None}
            argsok = all(c[2] == ("extra",) and c[3] == (("key", 5),) for c in fo.calls) and sorted(c[0] for c in fo.calls) == [100 + i for i in range(n)]
            if agg is None:
                got = list(out.items())
                if mode != "dup":
                    want = [("s%d" % names[i], exp_vals[i]) for i in range(n)]
                    if got != want or not argsok:
                        ctx.violation("C17/ParallelModel/results-by-name-in-declared-order",
                                      "%d branches, completion order %s, max_workers=%s: returned %s, declared order is %s" % (n, list(pi), workers, got, want), rep)
                impl_items = got
            else:
                if mode != "dup":
                    if list(out) != exp_vals:
                        ctx.violation("C17/ParallelModel/aggregator-declared-order",
                                      "%d branches, completion order %s, max_workers=%s: aggregator received %s, declared order is %s" % (n, list(pi), workers, list(out), exp_vals), rep)
                impl_agg = list(out)
        exprs.append("par_case %s %s" % (clist(["(%s, %s)" % (cnat(names[i]), cnat(100 + i)) for i in range(n)]), clist(pi, cnat)))
        impls.append((impl_items, impl_agg, rep))
    if ok:
        res = ctx.coq_eval("par", HDR, exprs, per_file=100, timeout=900)
        for (items, agg, rep), (mi, ma) in zip(impls, res):
            def canon(v):
                if isinstance(v, list):
                    return v
                d = str(v).replace("Error: boom", "")
                return [int(d)] if d.isdigit() else [-1, str(v)]      # an unexpected value never matches the model
            it = [(int(k[1:]), canon(v)) for k, v in items]
            ag = [canon(v) for v in agg]
            if it != [(a, list(b)) for a, b in mi] or ag != [list(b) for b in ma]:
                ctx.broken.append("correspondence ParallelModel %s: impl %s / %s model %s / %s" % (rep, it, ag, mi, ma))
                break
    ctx.sample({"parallel case": pcases[-1][:3], "count": len(pcases)})
    if ParallelModel()([]) != {}:
        ctx.violation("C17/ParallelModel/empty", "empty parallel model does not return {}", {})

    # ------------------------------------------------------------------ branching
    EVAL = []

    def mk_cond(name, kind, t, tensor):
        def c(x):
            EVAL.append(name)
            v = {0: x[0] > t, 1: x[0] < t, 2: True, 3: False}[kind]
            return torch.tensor(v) if tensor else v
        return c

    def mk_model(mid):
        def f(x, *a, **k):
            LOG.append((mid, list(x), a, dict(k)))
            return list(x) + [mid]
        return f

    exprs, impls = [], []
    for case in range(150 if quick else 3000):
        nops = rng.randint(1, 8)
        ops = []
        for _ in range(nops):
            r = rng.random()
            if r < 0.6:
                ops.append(("add", rng.randint(0, 3), rng.choice([0, 0, 1, 1, 2, 3]), rng.randint(0, 6), rng.randint(50, 59)))
            elif r < 0.8:
                ops.append(("rm", rng.randint(0, 3)))
            else:
                ops.append(("dflt", rng.randint(60, 63)))
        xs = [rng.randint(0, 7) for _ in range(4)]
        m = BranchingModel()
        oks = []
        for o in ops:
            try:
                if o[0] == "add":
                    m.add_branch("b%d" % o[1], mk_cond(o[1], o[2], o[3], tensor=(case % 2 == 0)), mk_model(o[4]))
                elif o[0] == "rm":
                    m.remove_branch("b%d" % o[1])
                else:
                    m.set_default_branch(mk_model(o[1]))
                oks.append(True)
            except (ValueError, KeyError):
                oks.append(False)
        names = [int(k[1:]) for k in m.branches]
        outs = []
        for x in xs:
            EVAL.clear()
            LOG.clear()
            try:
                out, nm = m([x], True, "extra", key=5)
                ran = [(c[0], c[2], c[3]) for c in LOG]
                if len(ran) != 1 or ran[0][1:] != (("extra",), {"key": 5}):
                    ctx.violation("C17/BranchingModel/exactly-one-model", "input %d: models run %s" % (x, ran), {"ops": ops, "x": x})
                outs.append((list(EVAL), (None if nm == "default" else int(nm[1:]), out)))
            except RuntimeError:
                outs.append((list(EVAL), None))
        ctx.count("branching-cases", len(xs))
        # S: first match in insertion order, conditions after the match not evaluated
        ref_br, ref_d = [], None
        for o, okf in zip(ops, oks):
            if o[0] == "add" and okf:
                ref_br.append(o[1:])
            elif o[0] == "rm" and okf:
                ref_br = [b for b in ref_br if b[0] != o[1]]
            elif o[0] == "dflt":
                ref_d = o[1]
        for x, (ev, res) in zip(xs, outs):
            exp_ev, exp = [], None
            for (nm, kind, t, mid) in ref_br:
                exp_ev.append(nm)
                if {0: x > t, 1: x < t, 2: True, 3: False}[kind]:
                    exp = (nm, [x, mid])
                    break
            else:
                exp = (None, [x, ref_d]) if ref_d is not None else None
            if sum(1 for (nm, kind, t, mid) in ref_br if {0: x > t, 1: x < t, 2: True, 3: False}[kind]) >= 2:
                ctx.nontriv(("br", case, x))
            if (ev, res) != (exp_ev, exp):
                ctx.violation("C17/BranchingModel/first-match", "ops %s input %d: evaluated %s chose %s; first match in insertion order is %s (evaluating %s)" % (
                    ops, x, ev, res, exp, exp_ev), {"ops": ops, "x": x})
        code = []
        for o in ops:
            code.append("CAdd %d %d %d %d" % o[1:] if o[0] == "add" else ("CRemove %d" % o[1] if o[0] == "rm" else "CDefault %d" % o[1]))
        exprs.append("br_case %s %s" % (clist(code), clist(xs, cnat)))
        impls.append((oks, names, outs, ops))
    if ok:
        res = ctx.coq_eval("br", HDR, exprs, per_file=200, timeout=900)
        for (oks, names, outs, ops), (mo, mn, mouts) in zip(impls, res):
            def canon(o):
                ev, r = o
                if r is None:
                    return (list(ev), None)
                return (list(ev), (r[0], list(r[1])))
            mm = []
            for ev, r in mouts:
                if r is None:
                    mm.append((list(ev), None))
                else:
                    nm, v = r["Some"] if isinstance(r, dict) else r
                    mm.append((list(ev), ((nm["Some"] if isinstance(nm, dict) else nm), list(v))))
            if (list(mo), list(mn), mm) != (oks, names, [canon(o) for o in outs]):
                ctx.broken.append("correspondence BranchingModel ops %s: impl %s model %s" % (ops, (oks, names, outs), (mo, mn, mm)))
                break
    # binary constructor
    bm = BranchingModel(condition=lambda x: x[0] > 2, true_branch=mk_model(1), false_branch=mk_model(2))
    if bm([5]) != [5, 1] or bm([1]) != [1, 2]:
        ctx.violation("C17/BranchingModel/binary-constructor", "condition/true/false constructor picks the wrong branch", {})

    # ------------------------------------------------------------------ feedback
    for n in range(0, 6):
        LOG.clear()

        def comp(cid):
            def f(x, *a, **k):
                LOG.append(cid)
                return x
            return f
        fm = FeedbackChannelModel(encoder=comp(1), forward_channel=comp(2), decoder=comp(3), feedback_generator=comp(4),
                                  feedback_channel=comp(5), feedback_processor=comp(0), max_iterations=n)
        out = fm(torch.zeros(2))
        ctx.count("feedback-runs")
        exp = []
        for i in range(n):
            exp += ([0] if i > 0 else []) + [1, 2, 3, 4, 5]
        if LOG != exp or len(out["iterations"]) != n or len(out["feedback_history"]) != n or (("final_output" in out) != (n > 0)):
            ctx.violation("C17/FeedbackChannelModel/rounds", "max_iterations=%d: calls %s (expected %s), %d iteration records" % (n, LOG, exp, len(out["iterations"])), {"max_iterations": n})
        if ok:
            mv = ctx.coq_eval("fb%d" % n, HDR, ["fb_case %s" % cnat(n)])[0]
            if (list(mv[0]), mv[1]) != (list(LOG), n):
                ctx.broken.append("correspondence FeedbackChannelModel n=%d: impl %s model %s" % (n, LOG, mv))

    # ------------------------------------------------------------------ multiple access
    class Enc(nn.Module):
        def __init__(self, eid):
            super().__init__()
            self.eid = eid

        def forward(self, x, *a, **k):
            LOG.append(("enc", self.eid, int(x[0, 0].item())))
            return x * (self.eid + 1)

    class Dec(nn.Module):
        def forward(self, x, *a, **k):
            LOG.append(("dec", float(x[0, 0])))
            return x

    mac_cases = []
    for users in range(1, 5):
        pool = [Enc(i) for i in range(users)]
        mac_cases.append((users, list(range(users)), pool))
        if users > 1:
            mac_cases.append((users, [0] * users, [pool[0]] * users))
            al = [0] * (users - 1) + [1]
            mac_cases.append((users, al, [pool[i] for i in al]))
            al2 = [0, 1] + [1] * (users - 2)
            mac_cases.append((users, al2, [pool[i] for i in al2]))
    exprs, impls = [], []
    for users, ids, encs in mac_cases:
        LOG.clear()
        m = MultipleAccessChannelModel(encoders=list(encs), decoders=Dec(), channel=RecChannel(3), power_constraint=RecConstraint(2), num_devices=users)
        xs = [torch.full((1, 2), float(i)) for i in range(users)]
        out = m(xs)
        encs_called = [(e[1], e[2]) for e in LOG if e[0] == "enc"]
        order = [e[0] if isinstance(e[0], str) else e[0] for e in LOG]
        exp_calls = [(ids[i], i) for i in range(users)]
        exp_sum = float(sum((ids[i] + 1) * i for i in range(users)))
        ctx.count("mac-runs")
        if len(set(ids)) > 1 and len(set(ids)) < users:
            ctx.nontriv(("mac", tuple(ids)))
        if encs_called != exp_calls or order != ["enc"] * users + [2, 3, "dec"] or float(out[0, 0]) != exp_sum:
            ctx.violation("C17/MultipleAccessChannelModel/superposition",
                          "%d users, encoder objects %s: encoder calls (encoder, user) %s (expected %s), call order %s, superposed value %s (expected %s)" % (
                              users, ids, encs_called, exp_calls, order, float(out[0, 0]), exp_sum), {"users": users, "encoder_ids": ids})
        exprs.append("mac_case %s %s" % (clist(ids, cnat), cnat(users)))
        impls.append((encs_called, ids))
    if ok:
        for (ec, ids), mv in zip(impls, ctx.coq_eval("mac", HDR, exprs, per_file=50)):
            if [tuple(x) for x in mv] != ec:
                ctx.broken.append("correspondence MAC encoder ids %s: impl %s model %s" % (ids, ec, mv))
    # encoders that hand back their input (uncoded transmission) or a view of it; the same tensor sent by several users; repeated calls
    class Ident(nn.Module):
        def forward(self, x, *a, **k):
            return x

    class View(nn.Module):
        def forward(self, x, *a, **k):
            return x.view(x.shape)

    class Twice(nn.Module):
        def forward(self, x, *a, **k):
            return x * 2.0
    for users, mkenc in ((2, Ident), (3, Ident), (4, Ident), (3, View), (3, Twice)):
        for reuse in (False, True):
            m = MultipleAccessChannelModel(encoders=[mkenc() for _ in range(users)], decoders=Dec(), channel=RecChannel(3), power_constraint=RecConstraint(2), num_devices=users)
            t0 = torch.tensor([[1.0, 2.0]])
            xs = [t0 if (reuse and i % 2 == 0) else torch.tensor([[10.0 * (i + 1), 20.0 * (i + 1)]]) for i in range(users)]
            keep = [x.clone() for x in xs]
            gain = 2.0 if mkenc is Twice else 1.0
            exp = sum(k_ * gain for k_ in keep)
            for call in (1, 2):
                LOG.clear()
                out = m(xs)
                ctx.count("mac-runs")
                ctx.nontriv(("mac-alias", users, mkenc.__name__, reuse, call))
                if not torch.equal(out, exp) or any(not torch.equal(a, b_) for a, b_ in zip(xs, keep)):
                    ctx.violation("C17/MultipleAccessChannelModel/superposition-aliasing", "%d users with %s encoders%s, call %d on the same inputs: superposed signal %s, the sum of the users' signals is %s; inputs %s" % (
                        users, mkenc.__name__, ", users 0 and 2 sending the same tensor" if reuse else "", call, out.tolist(), exp.tolist(),
                        "modified" if any(not torch.equal(a, b_) for a, b_ in zip(xs, keep)) else "unchanged"), {"users": users, "encoder": mkenc.__name__, "reuse": reuse, "call": call})
                    break
    # a single shared encoder instance
    LOG.clear()
    m = MultipleAccessChannelModel(encoders=Enc(0), decoders=Dec(), channel=RecChannel(3), power_constraint=RecConstraint(2), num_devices=3)
    m([torch.full((1, 2), float(i)) for i in range(3)])
    if [(e[1], e[2]) for e in LOG if e[0] == "enc"] != [(0, 0), (0, 1), (0, 2)]:
        ctx.violation("C17/MultipleAccessChannelModel/shared-instance", "single shared encoder not applied to every user", {})
    ctx.assumptions += ["A-threads: a ThreadPoolExecutor run is characterised by the order in which its futures complete; the harness forces each order with per-branch Events (4 ms grace for the future to be marked done)",
                        "A-cpython: dict preserves insertion order"]
    ctx.cov["exhaustive"] = True
    ctx.note("sequential histories exhaustive to length %d; parallel orders exhaustive for n<=%d" % (L, N))


def replay(rep):
    import_kaira()
    from kaira.models.generic.parallel import ParallelModel
    r = rep.get("replay", {})
    print("replay of", rep.get("key"), r)
    if "completion_order" in r:
        n, pi = r["n"], r["completion_order"]
        fo = ForcedOrder(n)
        m = ParallelModel(max_workers=r["max_workers"], steps=[("s%d" % (10 + i), fo.branch(i, 100 + i)) for i in range(n)],
                          aggregator=tuple if r.get("aggregator") else None)
        t = fo.controller(pi)
        print("forced completion order", pi, "->", m([]))
        t.join(10)
    return 0
