"""C19 -- DeepJSCC pipelines are differentiable end to end and keep their shape contract.

P: coq/Props/C19.v (Coquelicot: directional derivative of the power constraints and of the analog channels for a fixed
   noise realisation, at every point and in every direction; a constraint with a detached scale returns a different
   gradient; conv / transposed-conv size arithmetic: encoders of Same/Half layers map 2^d h -> h, autoencoders return
   every admissible size; the Bourtsoulatze encoder / decoder regenerated from the source; bandwidth-ratio formula).
T: translator harness/translate/archs.py (Gen/Arch.v); the closed-form Jacobian-vector product of the constraints is
   evaluated by the kernel (exact rationals, squared form) against the implementation's autograd JVP (float64); the size
   arithmetic is evaluated on every Conv2d / ConvTranspose2d call traced through the bundled architectures.
S: on the implementation: autograd vs central finite differences for every analog channel and constraint under a frozen
   RNG (real / complex, batch layouts); DeepJSCC pipelines: latent / output shapes, output range, finite non-vanishing
   gradient of every encoder parameter through constraint + channel + decoder, sizes {16,32,48,64} x batches {1,2,5}.
"""
from fractions import Fraction

from common import cQ, cZ, import_kaira
from props.c07 import cql
from translate import archs

HDR = """From Coq Require Import QArith ZArith List Bool.
Import ListNotations.
From KV Require Import Diff.ConvShape Diff.C19Cases Gen.Arch.
"""
FINISH = dict(level="proof", rule=(
    "stages: AWGN / Laplacian (power, SNR), phase noise, flat fading (Rayleigh, Rician; generated and supplied csi), nonlinear (tanh) with noise; total / average / "
    "per-antenna power, PAPR and peak constraints x real/complex x layouts (n,), (1,n), (B,n), (B,c,h,w) x float64 under a frozen seed; pipelines: Bourtsoulatze, "
    "Tung Q / Q2, feedback encoder/decoder, NOMA, Wyner-Ziv (small, full, conditional) with reduced widths x image sizes {16,32,48,64} x batches {1,2,5}; "
    "non-trivial = batched or complex or SNR-configured; distinct = distinct (stage, configuration, layout, seed) / (architecture, size, batch)"))


def run(ctx):
    ok = ctx.build_props([archs.generate], ["Diff/C19Cases.vo"])
    ctx.log("props built", ok)
    import_kaira()
    import torch
    import torch.nn as nn
    import kaira.channels as C
    import kaira.constraints as K
    rng = ctx.rng
    quick = ctx.quick
    exprs, meta = [], []
    torch.set_default_dtype(torch.float32)

    def mkx(shape, cplx, seed, scale=1.0):
        g = torch.Generator().manual_seed(seed)
        x = torch.randn(shape, generator=g, dtype=torch.float64) * scale
        if cplx:
            x = torch.complex(x, torch.randn(shape, generator=g, dtype=torch.float64) * scale)
        return x

    def jvp_and_fd(f, x, v, seed, h=1e-6):
        """autograd JVP (through a double backward-free trick: d/dt f(x + t v)) and central finite differences, same seed"""
        def run(z):
            torch.manual_seed(seed)
            return f(z)
        t = torch.zeros((), dtype=torch.float64, requires_grad=True)
        y = run(x + t * v)
        parts = [y.real, y.imag] if torch.is_complex(y) else [y]
        cols = []
        for p in parts:
            flat = p.reshape(-1)
            g = []
            for i in range(flat.numel()):
                gi = torch.autograd.grad(flat[i], t, retain_graph=True, allow_unused=True)[0]
                g.append(0.0 if gi is None else float(gi))
            cols.append(torch.tensor(g, dtype=torch.float64))
        auto = torch.cat(cols)
        with torch.no_grad():
            yp, ym = run(x + h * v), run(x - h * v)
            d = (yp - ym) / (2 * h)
            fd = torch.cat([d.real.reshape(-1), d.imag.reshape(-1)]) if torch.is_complex(d) else d.reshape(-1)
        return auto, fd.to(torch.float64), y

    # ------------------------------------------------------------------ stages: autograd vs finite differences
    stages = []
    for kind, vals in (("avg_noise_power", (0.01, 0.5, 20.0)), ("snr_db", (-5.0, 10.0, 30.0))):
        for v in vals:
            stages.append(("AWGNChannel(%s=%g)" % (kind, v), "AWGNChannel/%s" % kind, (lambda kind=kind, v=v: C.AWGNChannel(**{kind: v})), "both"))
            stages.append(("LaplacianChannel(%s=%g)" % (kind, v), "LaplacianChannel/%s" % kind, (lambda kind=kind, v=v: C.LaplacianChannel(**{kind: v})), "both"))
            stages.append(("FlatFading(rayleigh,ct=3,%s=%g)" % (kind, v), "FlatFadingChannel/%s" % kind, (lambda kind=kind, v=v: C.FlatFadingChannel("rayleigh", coherence_time=3, **{kind: v})), "both"))
            stages.append(("RicianFading(K=2,%s=%g)" % (kind, v), "RicianFadingChannel/%s" % kind, (lambda kind=kind, v=v: C.RicianFadingChannel(k_factor=2.0, coherence_time=2, **{kind: v})), "both"))
            stages.append(("Nonlinear(tanh,%s=%g)" % (kind, v), "NonlinearChannel/%s" % kind, (lambda kind=kind, v=v: C.NonlinearChannel(torch.tanh, add_noise=True, complex_mode="cartesian", **{kind: v})), "both"))
    stages.append(("LaplacianChannel(scale=0.3)", "LaplacianChannel/scale", lambda: C.LaplacianChannel(scale=0.3), "both"))
    stages.append(("PhaseNoiseChannel(0.2)", "PhaseNoiseChannel", lambda: C.PhaseNoiseChannel(phase_noise_std=0.2), "both"))
    for T in (0.1, 1.0, 50.0):
        stages.append(("TotalPowerConstraint(%g)" % T, "TotalPowerConstraint", (lambda T=T: K.TotalPowerConstraint(T)), "both"))
        stages.append(("AveragePowerConstraint(%g)" % T, "AveragePowerConstraint", (lambda T=T: K.AveragePowerConstraint(T)), "both"))
    stages.append(("PAPRConstraint(3)", "PAPRConstraint", lambda: K.PAPRConstraint(3.0), "both"))
    stages.append(("PeakAmplitudeConstraint(1.3)", "PeakAmplitudeConstraint", lambda: K.PeakAmplitudeConstraint(1.3), "both"))
    stages.append(("PerAntennaPowerConstraint(uniform 0.5)", "PerAntennaPowerConstraint", lambda: K.PerAntennaPowerConstraint(uniform_power=0.5), "antenna"))
    stages.append(("PerAntennaPowerConstraint(budget)", "PerAntennaPowerConstraint", lambda: K.PerAntennaPowerConstraint(power_budget=torch.tensor([0.2, 1.0, 3.0], dtype=torch.float64)), "antenna"))
    shapes = [(6,), (1, 6), (3, 4), (2, 3, 2, 2)]
    for name, cls, mk, mode in stages:
        for shape in (shapes if mode == "both" else [(2, 3, 4), (1, 3, 2, 2)]):
            for cplx in (False, True):
                if quick and rng.random() < 0.35:
                    continue
                seed = rng.randrange(1 << 30)
                x = mkx(shape, cplx, seed, scale=rng.choice([0.3, 1.0, 4.0]))
                v = mkx(shape, cplx, seed + 1)
                layout = "1-D" if len(shape) == 1 else ("batch-of-1" if shape[0] == 1 else "batched")
                key = "C19/%s/%%s/%s,%s" % (cls, layout, "complex" if cplx else "real")
                rep = {"stage": name, "shape": list(shape), "complex": cplx, "seed": seed}
                ctx.count("stage-cases")
                if layout == "batched" or cplx or "snr" in name:
                    ctx.nontriv((name, shape, cplx))
                try:
                    st = mk()
                    auto, fd, y = jvp_and_fd(lambda z: st(z), x, v, seed)
                except Exception as ex:
                    ctx.violation(key % "raises", "%s on a float64 %s input of shape %s raised %s" % (name, "complex" if cplx else "real", shape, str(ex)[:120]), rep)
                    continue
                if not bool(torch.isfinite(auto).all()):
                    ctx.violation(key % "gradient-not-finite", "%s: the autograd derivative contains NaN/inf (input shape %s)" % (name, shape), rep)
                    continue
                scale = max(float(fd.abs().max()), 1e-12)
                if "snr_db" in name:
                    # the noise scale follows the input power through a float32 cast (snr_to_noise_power), which makes small-step finite differences
                    # noisy: compare with the closed form  u = ds + noise * Re<s, ds> / |s|^2  (s = noise-free signal at the noise stage), proved in Diff/Deriv.v
                    try:
                        nm0 = name.split("(")[0]
                        if nm0 == "AWGNChannel" or nm0 == "LaplacianChannel":
                            clean = lambda z: z                                    # noqa: E731
                        elif nm0 == "Nonlinear":
                            clean = lambda z: torch.complex(torch.tanh(z.real), torch.tanh(z.imag)) if torch.is_complex(z) else torch.tanh(z)      # noqa: E731
                        elif nm0 == "FlatFading":
                            c0 = C.FlatFadingChannel("rayleigh", coherence_time=3, avg_noise_power=0.0)
                            clean = lambda z: c0(z)                                # noqa: E731
                        else:
                            c0 = C.RicianFadingChannel(k_factor=2.0, coherence_time=2, avg_noise_power=0.0)
                            clean = lambda z: c0(z)                                # noqa: E731
                        with torch.no_grad():
                            torch.manual_seed(seed)
                            s0 = clean(x)
                            torch.manual_seed(seed)
                            sp = clean(x + 1e-6 * v)
                            torch.manual_seed(seed)
                            sm = clean(x - 1e-6 * v)
                            ds = (sp - sm) / 2e-6
                            nz = y.detach() - s0
                            inner = float((s0.conj() * ds).real.sum()) if torch.is_complex(s0) else float((s0 * ds).sum())
                            closed = ds + nz * (inner / float((s0.abs() ** 2).sum()))
                            fd = torch.cat([closed.real.reshape(-1), closed.imag.reshape(-1)]) if torch.is_complex(closed) else closed.reshape(-1)
                        scale = max(float(fd.abs().max()), 1e-12)
                        if nm0 == "AWGNChannel" and len(exprs) < (120 if quick else 1200):
                            fl = lambda t_: torch.cat([t_.real.reshape(-1), t_.imag.reshape(-1)]) if torch.is_complex(t_) else t_.reshape(-1)      # noqa: E731
                            exprs.append("c19_snr_jvp %s %s %s %s %s" % (cQ(Fraction(1, 100000)), cql(fl(x)), cql(fl(v)), cql(fl(nz)), cql(auto)))
                            meta.append(("jvp", key % "jvp-closed-form", "%s: the autograd Jacobian-vector product differs from v + noise (x.v)/|x|^2 (shape %s)" % (name, shape), rep))
                    except Exception as ex:
                        ctx.note("closed form for %s not available: %s" % (name, str(ex)[:60]))
                        continue
                err = float((auto - fd).abs().max()) / scale
                # kinks (clipping) can make finite differences disagree at isolated samples: PAPR / peak are compared on the unclipped majority
                tol = 2e-5
                if cls in ("PAPRConstraint", "PeakAmplitudeConstraint"):
                    bad = ((auto - fd).abs() > tol * scale)
                    if float(bad.float().mean()) > 0.34:
                        ctx.violation(key % "gradient-vs-finite-differences", "%s: autograd and finite differences disagree on %d of %d outputs (shape %s)" % (name, int(bad.sum()), bad.numel(), shape), rep)
                    continue
                if err > tol:
                    i = int((auto - fd).abs().argmax())
                    ctx.violation(key % "gradient-vs-finite-differences", "%s on a %s input of shape %s: d/dt stage(x + t v) by autograd is %.8g at output %d, central finite differences give %.8g (relative error %.2g)" % (
                        name, "complex" if cplx else "real", shape, float(auto[i]), i, float(fd[i]), err), rep)
                    continue
                # T: closed form of the constraint JVP, decided by the kernel, item by item
                if cls in ("TotalPowerConstraint", "AveragePowerConstraint") and len(exprs) < (120 if quick else 1200):
                    Tt = float(name.split("(")[1].rstrip(")"))
                    B = shape[0] if (len(shape) > 1 and shape[0] > 1) else 1
                    xi = x.reshape(B, -1)
                    vi = v.reshape(B, -1)
                    nel = xi.shape[1]
                    ui = (torch.complex(auto[: auto.numel() // 2], auto[auto.numel() // 2:]) if cplx else auto).reshape(B, -1)
                    for b in range(B):
                        fl = lambda t_: torch.cat([t_.real, t_.imag]) if torch.is_complex(t_) else t_      # noqa: E731
                        nq = Fraction(nel) if cls == "AveragePowerConstraint" else Fraction(1)
                        exprs.append("c19_constraint_jvp %s %s %s %s %s %s %s" % (cQ(Fraction(1, 1000000)), cQ(Fraction(Tt)), cQ(Fraction(1, 100000000)), cQ(nq), cql(fl(xi[b])), cql(fl(vi[b])), cql(fl(ui[b]))))
                        meta.append(("jvp", key % "jvp-closed-form", "%s: the autograd Jacobian-vector product of item %d differs from s (v - x (x.v)/(n (c+eps))) (shape %s)" % (name, b, shape), rep))
    # a silent (all-zero) sample inside a batch must not poison the gradients (NaN at some power level)
    for name, cls, mk, mode in stages:
        if cls not in ("TotalPowerConstraint", "AveragePowerConstraint", "PAPRConstraint", "PerAntennaPowerConstraint", "AWGNChannel/snr_db", "AWGNChannel/avg_noise_power"):
            continue
        for shape in ([(3, 6), (2, 3, 2, 2)] if mode == "both" else [(2, 3, 4)]):
            for cplx in (False, True):
                x = mkx(shape, cplx, rng.randrange(1 << 30))
                x[1] = 0
                x.requires_grad_(True)
                w = mkx(shape, cplx, 5)
                ctx.count("silent-sample-cases")
                try:
                    torch.manual_seed(3)
                    y = mk()(x)
                    loss = (y * w.conj()).real.sum() if torch.is_complex(y) else (y * w).sum()
                    loss.backward()
                except Exception as ex:
                    ctx.violation("C19/%s/silent-sample-raises" % cls, "%s on a batch of shape %s with an all-zero member raised %s" % (name, shape, str(ex)[:100]), {"stage": name, "shape": list(shape)})
                    continue
                if x.grad is None or not bool(torch.isfinite(torch.view_as_real(x.grad) if cplx else x.grad).all()):
                    ctx.violation("C19/%s/silent-sample-gradient" % cls, "%s: a batch of shape %s in which member 1 is all zero gets a non-finite input gradient (%d NaN/inf entries)" % (
                        name, shape, 0 if x.grad is None else int((~torch.isfinite(torch.view_as_real(x.grad) if cplx else x.grad)).sum())), {"stage": name, "shape": list(shape), "complex": cplx})
    # a few exactly-zero samples inside an item (guard band, zero padding) while clipping / scaling is active
    for name, cls, mk, mode in stages:
        if cls not in ("TotalPowerConstraint", "AveragePowerConstraint", "PAPRConstraint", "PeakAmplitudeConstraint", "PerAntennaPowerConstraint"):
            continue
        for shape in ([(12,), (2, 12), (2, 3, 2, 2)] if mode == "both" else [(2, 3, 6)]):
            for cplx in (False, True):
                x = mkx(shape, cplx, rng.randrange(1 << 30))
                flat = x.reshape(-1)
                flat[0] = 0
                flat[flat.numel() // 2] = 0
                flat[-1] = 0
                flat[1] = flat[1] * 6                 # one dominant peak: clipping is active
                x = flat.reshape(shape).clone().requires_grad_(True)
                w = mkx(shape, cplx, 9)
                ctx.count("zero-sample-cases")
                try:
                    y = mk()(x)
                    loss = (y * w.conj()).real.sum() if torch.is_complex(y) else (y * w).sum()
                    loss.backward()
                except Exception as ex:
                    ctx.violation("C19/%s/zero-sample-raises" % cls, "%s on an input of shape %s with exactly-zero samples raised %s" % (name, shape, str(ex)[:100]), {"stage": name, "shape": list(shape)})
                    continue
                g_ = torch.view_as_real(x.grad) if cplx else x.grad
                if x.grad is None or not bool(torch.isfinite(g_).all()):
                    ctx.violation("C19/%s/zero-sample-gradient" % cls, "%s: an input of shape %s with three exactly-zero samples and one dominant peak gets a non-finite gradient (%d NaN/inf entries)" % (
                        name, shape, 0 if x.grad is None else int((~torch.isfinite(g_)).sum())), {"stage": name, "shape": list(shape), "complex": cplx})
    ctx.log("stages done", len(exprs))

    # ------------------------------------------------------------------ architectures: shapes, range, gradients
    from kaira.models.deepjscc import DeepJSCCModel
    from kaira.models.image.bourtsoulatze2019_deepjscc import Bourtsoulatze2019DeepJSCCDecoder, Bourtsoulatze2019DeepJSCCEncoder
    from kaira.models.image.tung2022_deepjscc_q import Tung2022DeepJSCCQ2Decoder, Tung2022DeepJSCCQ2Encoder, Tung2022DeepJSCCQDecoder, Tung2022DeepJSCCQEncoder
    from kaira.utils import calculate_num_filters_factor_image
    sizes = [16, 32, 48, 64]
    batches = [1, 2, 5]
    arch = []
    arch.append(("Bourtsoulatze2019", lambda: (Bourtsoulatze2019DeepJSCCEncoder(8), Bourtsoulatze2019DeepJSCCDecoder(8)), 4, 8, {}, 4, (0.0, 1.0)))
    arch.append(("Tung2022Q", lambda: (Tung2022DeepJSCCQEncoder(N=8, M=4), Tung2022DeepJSCCQDecoder(N=8, M=4)), 16, 4, {}, 16, None))
    arch.append(("Tung2022Q2", lambda: (Tung2022DeepJSCCQ2Encoder(N=8, M=4), Tung2022DeepJSCCQ2Decoder(N=8, M=4)), 4, 4, {"csi": True}, 4, None))
    from kaira.models.image.kurka2020_deepjscc_feedback import DeepJSCCFeedbackDecoder as _KDec, DeepJSCCFeedbackEncoder as _KEnc

    class _PadTo(nn.Module):            # the feedback decoder consumes 256 channels: pad the latent with zeros as the model does
        def __init__(self, dec):
            super().__init__()
            self.dec = dec

        def forward(self, z, *a, **k):
            need = next(p_ for p_ in self.dec.parameters() if p_.dim() == 4).shape[0]
            if z.shape[1] < need:
                z = torch.cat([z, torch.zeros(z.shape[0], need - z.shape[1], z.shape[2], z.shape[3])], dim=1)
            return self.dec(z)
    arch.append(("Kurka2020Feedback", lambda: (_KEnc(8), _PadTo(_KDec(3))), 4, 8, {}, 4, (0.0, 1.0)))
    traced = []
    gradstat = {}

    def trace(model):
        hooks = []

        def hook(m, inp, out):
            traced.append((m, int(inp[0].shape[-2]), int(out.shape[-2]), int(inp[0].shape[-1]), int(out.shape[-1])))
        def block_hook(m, inp, out):
            # the units the translator classifies by their effect on the size (Same / Half / Double) must have that effect
            eff = archs.BLOCKS.get(type(m).__name__)
            if eff and hasattr(out, "shape") and inp and hasattr(inp[0], "shape") and inp[0].dim() == 4:
                hi, ho = int(inp[0].shape[-2]), int(out.shape[-2])
                exp = {"Same": hi, "Half": (hi - 1) // 2 + 1, "Double": 2 * hi}[eff]
                if ho != exp:
                    ctx.broken.append("translator assumption: %s maps size %d to %d, classified as %s" % (type(m).__name__, hi, ho, eff))

        def keep_hook(m, inp, out):
            # layers the translator treats as size-preserving (GDN, PReLU, Sigmoid, ...) must be so
            if type(m).__name__ in archs.ELEMENTWISE and hasattr(out, "shape") and inp and hasattr(inp[0], "shape") and tuple(out.shape) != tuple(inp[0].shape):
                ctx.broken.append("translator assumption: %s changed the shape %s -> %s" % (type(m).__name__, tuple(inp[0].shape), tuple(out.shape)))
        for m in model.modules():
            if isinstance(m, (nn.Conv2d, nn.ConvTranspose2d)):
                hooks.append(m.register_forward_hook(hook))
            elif type(m).__name__ in archs.ELEMENTWISE:
                hooks.append(m.register_forward_hook(keep_hook))
            elif type(m).__name__ in archs.BLOCKS:
                hooks.append(m.register_forward_hook(block_hook))
        return hooks

    for aname, mk, down, cout, extra, mult, out_range in arch:
        for H in sizes:
            for B in batches:
                if quick and (H, B) not in ((16, 1), (32, 2), (48, 5), (64, 1), (48, 1), (16, 5)):
                    continue
                W = H if B != 2 else max(mult, H // 2 // mult * mult)          # also non-square images
                if H % mult or W % mult:
                    ctx.count("inadmissible-sizes-skipped")
                    continue
                torch.manual_seed(rng.randrange(1 << 30))
                try:
                    enc, dec = mk()
                except Exception as ex:
                    ctx.violation("C19/%s/constructor" % aname, "%s: constructor raised %s" % (aname, str(ex)[:100]), {})
                    break
                img = torch.rand(B, 3, H, W)
                kw = {"csi": torch.full((B, 1), 10.0)} if extra.get("csi") else {}
                rep = {"architecture": aname, "size": [H, W], "batch": B}
                key = "C19/%s/%%s" % aname
                ctx.count("architecture-cases")
                ctx.nontriv((aname, H, W, B))
                hooks = trace(enc) + trace(dec)
                del traced[:]
                try:
                    z = enc(img, **kw)
                    out = dec(z, **kw)
                except Exception as ex:
                    ctx.violation(key % "raises", "%s raised on a batch of %d images of %dx%d: %s" % (aname, B, H, W, str(ex)[:120]), rep)
                    for h_ in hooks:
                        h_.remove()
                    continue
                for h_ in hooks:
                    h_.remove()
                if tuple(z.shape) != (B, cout, H // down, W // down):
                    ctx.violation(key % "latent-shape", "%s: %d images of %dx%d give a latent of shape %s, documented (B, %d, H/%d, W/%d)" % (aname, B, H, W, tuple(z.shape), cout, down, down), rep)
                if tuple(out.shape) != tuple(img.shape):
                    ctx.violation(key % "output-shape", "%s: input %s comes back with shape %s" % (aname, tuple(img.shape), tuple(out.shape)), rep)
                    continue
                if out_range is not None and (float(out.min()) < out_range[0] or float(out.max()) > out_range[1]):
                    ctx.violation(key % "output-range", "%s: output values in [%g, %g], documented range %s" % (aname, float(out.min()), float(out.max()), out_range), rep)
                # per-layer size arithmetic, decided by the kernel
                if len(exprs) < (400 if quick else 3000):
                    for m, hi, ho, wi, wo in traced[:40]:
                        for dim, (a, b_) in enumerate(((hi, ho), (wi, wo))):
                            k_, s_, p_ = m.kernel_size[dim], m.stride[dim], m.padding[dim]
                            if m.dilation[dim] != 1:
                                continue
                            lay = "(Conv %d %d %d)" % (k_, s_, p_) if isinstance(m, nn.Conv2d) else "(TConv %d %d %d %d)" % (k_, s_, p_, m.output_padding[dim])
                            exprs.append("c19_layer %s %s" % (lay, cZ(a)))
                            meta.append(("layer", b_, "%s: %s maps size %d to %d" % (aname, lay, a, b_), rep))
                # gradient of every encoder parameter through constraint + channel + decoder
                if (H, B) in ((16, 1), (32, 2), (16, 5), (48, 5)):
                    for cname, cons, chan in (("TotalPower+AWGN(snr)", K.TotalPowerConstraint(1.0), C.AWGNChannel(snr_db=10.0)), ("AveragePower+AWGN(power)", K.AveragePowerConstraint(1.0), C.AWGNChannel(avg_noise_power=0.1)),
                                              ("AveragePower+Rayleigh", K.AveragePowerConstraint(1.0), C.RayleighFadingChannel(coherence_time=4, snr_db=15.0))):
                        if extra.get("csi"):
                            continue
                        model = DeepJSCCModel(enc, cons, chan, dec)
                        for p_ in model.parameters():
                            p_.grad = None
                        try:
                            rec = model(img)
                            rec = rec.real if torch.is_complex(rec) else rec
                            loss = ((rec - img) ** 2).mean()
                            loss.backward()
                        except Exception as ex:
                            if "Rayleigh" in cname:      # complex channel output into a real decoder: interface not offered
                                ctx.count("pipelines-skipped-interface")
                                continue
                            ctx.violation(key % "pipeline-raises", "%s with %s raised: %s" % (aname, cname, str(ex)[:120]), rep)
                            continue
                        ctx.count("pipeline-gradient-cases")
                        for pn, p_ in enc.named_parameters():
                            st_ = gradstat.setdefault((aname, cname, pn), {"n": 0, "live": 0})
                            st_["n"] += 1
                            if p_.grad is None or not bool(torch.isfinite(p_.grad).all()):
                                ctx.violation(key % "encoder-gradient", "%s with %s: encoder parameter %s receives %s gradient (batch %d, size %d)" % (
                                    aname, cname, pn, "no" if p_.grad is None else "a non-finite", B, H), rep)
                                break
                            if float(p_.grad.abs().max()) > 0.0:
                                st_["live"] += 1
    # one model object used for a history of image sizes and batch sizes (size varying fastest, then batch varying fastest)
    from kaira.models.image.kurka2020_deepjscc_feedback import DeepJSCCFeedbackDecoder, DeepJSCCFeedbackEncoder, DeepJSCCFeedbackModel
    hist_models = [("Kurka2020FeedbackModel(base layer)", lambda: DeepJSCCFeedbackModel(channel_snr=10.0, conv_depth=8, channel_type="awgn", feedback_snr=None, refinement_layer=False, layer_id=0),
                    lambda m, im: m(im)["decoded_img"], 4),
                   ("Kurka2020Feedback encoder+decoder", lambda: (DeepJSCCFeedbackEncoder(8), DeepJSCCFeedbackDecoder(3)), None, 4)]
    for aname, mk, _, _, extra, mult, _ in arch:
        if not extra.get("csi"):
            hist_models.append(("%s encoder+decoder" % aname, mk, None, mult))
    for hname, mk, fwd, mult in hist_models:
        try:
            torch.manual_seed(1)
            obj = mk()
        except Exception as ex:
            ctx.note("%s: constructor raised %s" % (hname, str(ex)[:80]))
            continue
        if fwd is None:
            enc_, dec_ = obj
            fwd = lambda m, im, enc_=enc_, dec_=dec_: dec_(enc_(im)) if True else None      # noqa: E731
            if "Kurka2020Feedback enc" in hname:
                def fwd(m, im, enc_=enc_, dec_=dec_):           # noqa: F811  (the decoder consumes the encoder output padded to its input width)
                    z = enc_(im)
                    need = next(p_ for p_ in dec_.parameters() if p_.dim() == 4).shape[1]
                    if z.shape[1] < need:
                        z = torch.cat([z, torch.zeros(z.shape[0], need - z.shape[1], z.shape[2], z.shape[3])], dim=1)
                    return dec_(z)
        order = [(B, H) for B in batches for H in sizes] + [(B, H) for H in sizes for B in batches]
        hist = []
        for B, H in order:
            if H % mult:
                continue
            hist.append((B, H))
            ctx.count("instance-history-calls")
            try:
                out = fwd(obj, torch.rand(B, 3, H, H))
            except Exception as ex:
                ctx.violation("C19/%s/call-history" % hname.split("(")[0].split(" ")[0], "%s: after the call history %s the same object raised on a batch of %d images of %dx%d: %s" % (
                    hname, hist[-4:-1], B, H, H, str(ex)[:100]), {"model": hname, "history": hist[-6:]})
                break
            out = out.real if torch.is_complex(out) else out
            if tuple(out.shape) != (B, 3, H, H):
                ctx.violation("C19/%s/call-history-shape" % hname.split("(")[0].split(" ")[0], "%s: after the call history %s a batch of %d images of %dx%d comes back with shape %s" % (
                    hname, hist[-4:-1], B, H, H, tuple(out.shape)), {"model": hname, "history": hist[-6:]})
                break
    # the loss gradient reaches the encoder: a cut graph (detached stage) leaves EVERY encoder parameter without gradient; a single
    # parameter with an all-zero gradient is a dead unit of a tiny randomly initialised network (seed-dependent), not a violation
    by_pipe = {}
    for (aname, cname, pn), st_ in gradstat.items():
        d_ = by_pipe.setdefault((aname, cname), {"params": 0, "live": 0, "n": st_["n"]})
        d_["params"] += 1
        d_["live"] += 1 if st_["live"] > 0 else 0
    for (aname, cname), d_ in by_pipe.items():
        ctx.count("pipeline-gradient-summaries")
        if d_["live"] * 2 < d_["params"]:
            ctx.violation("C19/%s/encoder-gradient" % aname, "%s with %s: only %d of %d encoder parameters receive a non-zero gradient on any of the %d inputs tried" % (
                aname, cname, d_["live"], d_["params"], d_["n"]), {"architecture": aname, "pipeline": cname})
    # bandwidth-ratio helper
    for nsl in (1, 2, 3, 4):
        for num, den in ((1, 6), (1, 12), (1, 3), (1, 24), (1, 48)):
            for cplx in (False, True):
                try:
                    nf = calculate_num_filters_factor_image(nsl, num / den, is_complex_transmission=cplx)
                except AssertionError:
                    continue
                ctx.count("filter-formula-cases")
                exp = Fraction(3 * 4 ** nsl * num, den) * (2 if cplx else 1)
                if Fraction(nf) != exp:
                    ctx.violation("C19/calculate_num_filters_factor_image/value", "calculate_num_filters_factor_image(%d, %d/%d, complex=%s) = %s, expected %s" % (nsl, num, den, cplx, nf, exp), {})
    ctx.log("architectures done", len(exprs))

    if ok and exprs:
        res = ctx.coq_eval("c19", HDR, exprs, per_file=40, timeout=1200)
        ctx.count("kernel-evaluated-checks", len(res))
        for (kind, a, what, rep), v in zip(meta, res):
            if kind == "jvp":
                if v is not True:
                    ctx.violation(a, what, rep)
            elif kind == "layer":
                if int(v) != a:
                    ctx.broken.append("correspondence: size arithmetic of Diff/ConvShape.v predicts %s but %s" % (v, what))
    ctx.sample({"kernel_checks": len(exprs)})
    ctx.assumptions += ["A-autograd: torch.autograd implements the chain rule for the primitive operations; what is decided is that the stages' own code keeps the signal path inside the graph and computes the function the theorems differentiate",
                        "finite differences: central, step 1e-6 in float64, relative tolerance 2e-5; clipping stages (PAPR, peak) are compared away from their kinks (at most a third of the outputs may disagree)",
                        "end-to-end size theorem instantiated for the Bourtsoulatze nn.Sequential pair (regenerated from the source); the residual / attention architectures are covered per traced layer and on the implementation"]
    ctx.cov["exhaustive"] = False


def replay(rep):
    import_kaira()
    print("replay of", rep.get("key"), rep.get("replay"))
    return 0
