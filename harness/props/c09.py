"""C09 -- a coded, modulated link over an ideal or bounded-error channel returns the data.

P: coq/Props/C09.v (stage order; bounded bit errors / ideal transport => the message comes back, from the kernel-checked
   hypotheses code_pair_ok and min_distance_ge; a symbol displaced by less than half the minimum distance is decided as
   sent, whole sequences demodulate to the transmitted bits, for every labelled constellation).
T: the hypotheses are evaluated by the kernel on the matrices / tables the implementation publishes (certificates from
   the untrusted harness); the bit-level chain model `link` and the model's hard decisions of displaced symbols are
   evaluated on the same inputs as ChannelCodeModel and compared.
S: ChannelCodeModel assembled from real components: (code, decoder) x (modulator, demodulator) whose interfaces match,
   x {ideal, <= t flips per block placed on every position, displacement < dmin/2 in random directions} x hard / soft.
"""
import contextlib
import io
import itertools
import math
from fractions import Fraction

import fec
from common import cQ, cnat, cN, import_kaira
from props.c14 import clabs, cpts

HDR = """From Coq Require Import NArith QArith List Bool.
Import ListNotations.
From KV Require Import Base.GF2 Decoders.Hard Mod.Constellation Mod.Demod Pipe.Chain Pipe.C09Cases.
"""
FINISH = dict(level="proof", rule=(
    "(code, decoder) in {Hamming, extended Hamming, repetition, Golay, BCH, Reed-Muller, cyclic, systematic random x syndrome lookup / brute-force ML / "
    "Berlekamp-Massey / Reed majority; SPC x Wagner; LDPC x BP / min-sum; polar x SC / BP} x (modulator, demodulator) in {BPSK, QPSK, PSK 4..16, QAM 16/64, PAM 4/8; "
    "gray and binary} with matching interfaces x channel in {identity, <= t flips per block on all positions (small n) or sampled, displacement 0.49 dmin in "
    "random directions} x one or several blocks per row; messages exhaustive for k <= 8; non-trivial = flips or displacement present; "
    "distinct = distinct (code, decoder, modem, channel kind, message, pattern)"))


def quiet(f, *a, **k):
    with contextlib.redirect_stdout(io.StringIO()):
        return f(*a, **k)


def run(ctx):
    ok = ctx.build_props([], ["Pipe/C09Cases.vo"])
    ctx.log("props built", ok)
    import_kaira()
    import torch
    import kaira.channels as C
    import kaira.constraints as K
    import kaira.modulations as M
    from kaira.models.channel_code import ChannelCodeModel
    from kaira.models.fec import decoders as D
    from kaira.models.fec import encoders as E
    rng = ctx.rng
    quick = ctx.quick
    exprs, meta = [], []

    # ------------------------------------------------------------------ components
    H63 = torch.tensor([[1, 1, 0, 1, 0, 0], [0, 1, 1, 0, 1, 0], [1, 0, 1, 0, 0, 1]]).float()
    codes = [
        ("Hamming(3)", lambda: E.HammingCodeEncoder(mu=3), [("SyndromeLookupDecoder", lambda e: D.SyndromeLookupDecoder(e), "hard", True), ("BruteForceMLDecoder", lambda e: D.BruteForceMLDecoder(e), "hard", False)]),
        ("Hamming(3,extended)", lambda: E.HammingCodeEncoder(mu=3, extended=True), [("SyndromeLookupDecoder", lambda e: D.SyndromeLookupDecoder(e), "hard", True)]),
        ("Repetition(5)", lambda: E.RepetitionCodeEncoder(5), [("SyndromeLookupDecoder", lambda e: D.SyndromeLookupDecoder(e), "hard", True), ("BruteForceMLDecoder", lambda e: D.BruteForceMLDecoder(e), "hard", False)]),
        ("BCH(15,7)", lambda: E.BCHCodeEncoder(mu=4, delta=5), [("BerlekampMasseyDecoder", lambda e: D.BerlekampMasseyDecoder(e), "hard", False)]),
        ("ReedMuller(1,3)", lambda: E.ReedMullerCodeEncoder(1, 3), [("ReedMullerDecoder", lambda e: D.ReedMullerDecoder(e), "hard", True)]),
        ("Cyclic(7,x^3+x+1)", lambda: E.CyclicCodeEncoder(code_length=7, generator_polynomial=0b1011), [("SyndromeLookupDecoder", lambda e: D.SyndromeLookupDecoder(e), "hard", True)]),
        # codes of the same class and size as an earlier one, in the same process
        ("Cyclic(7,x^3+x^2+1)", lambda: E.CyclicCodeEncoder(code_length=7, generator_polynomial=0b1101), [("SyndromeLookupDecoder", lambda e: D.SyndromeLookupDecoder(e), "hard", True)]),
        ("Hamming(3,right)", lambda: E.HammingCodeEncoder(mu=3, information_set="right"), [("SyndromeLookupDecoder", lambda e: D.SyndromeLookupDecoder(e), "hard", True), ("BruteForceMLDecoder", lambda e: D.BruteForceMLDecoder(e), "hard", False)]),
        ("BCH(15,5)", lambda: E.BCHCodeEncoder(mu=4, delta=7), [("BerlekampMasseyDecoder", lambda e: D.BerlekampMasseyDecoder(e), "hard", False)]),
        ("SingleParityCheck(4)", lambda: E.SingleParityCheckCodeEncoder(4), [("WagnerSoftDecisionDecoder", lambda e: D.WagnerSoftDecisionDecoder(e), "soft", True)]),
        ("LDPC(6,3)", lambda: E.LDPCCodeEncoder(check_matrix=H63), [("BeliefPropagationDecoder", lambda e: D.BeliefPropagationDecoder(e, bp_iters=10), "soft", False), ("MinSumLDPCDecoder", lambda e: D.MinSumLDPCDecoder(e, bp_iters=10), "soft", False)]),
        ("Polar(4,8)", lambda: E.PolarCodeEncoder(4, 8), [("SuccessiveCancellationDecoder", lambda e: D.SuccessiveCancellationDecoder(e), "soft", False), ("BeliefPropagationPolarDecoder", lambda e: D.BeliefPropagationPolarDecoder(e, bp_iters=20), "soft", False)]),
    ]
    # polar codes with the non-default options (interleaved construction, frozen ones) and a length at which sub-block estimates are re-used
    codes.append(("Polar(8,16,polar_i)", lambda: E.PolarCodeEncoder(8, 16, polar_i=True), [("SuccessiveCancellationDecoder", lambda e: D.SuccessiveCancellationDecoder(e), "soft", False)]))
    codes.append(("Polar(8,16,frozen_ones)", lambda: E.PolarCodeEncoder(8, 16, frozen_zeros=False), [("SuccessiveCancellationDecoder", lambda e: D.SuccessiveCancellationDecoder(e), "soft", False),
                                                                                                     ("BeliefPropagationPolarDecoder", lambda e: D.BeliefPropagationPolarDecoder(e, bp_iters=20), "soft", False)]))
    # systematic codes whose information set is a user list that is not ascending: decoders that work from the published matrices
    codes.append(("Hamming(3,info=[5,0,3,2])", lambda: E.HammingCodeEncoder(mu=3, information_set=[5, 0, 3, 2]), [("SyndromeLookupDecoder", lambda e: D.SyndromeLookupDecoder(e), "hard", True), ("BruteForceMLDecoder", lambda e: D.BruteForceMLDecoder(e), "hard", False)]))
    codes.append(("Systematic(6,3,info=[4,1,2])", lambda: E.SystematicLinearBlockCodeEncoder(parity_submatrix=torch.tensor([[1, 1, 0], [0, 1, 1], [1, 0, 1]]).float(), information_set=[4, 1, 2]),
                  [("SyndromeLookupDecoder", lambda e: D.SyndromeLookupDecoder(e), "hard", True)]))
    codes.append(("Hamming(4)", lambda: E.HammingCodeEncoder(mu=4), [("SyndromeLookupDecoder", lambda e: D.SyndromeLookupDecoder(e), "hard", True), ("BruteForceMLDecoder", lambda e: D.BruteForceMLDecoder(e), "hard", False)]))
    if not quick:
        codes += [("Golay(23,12)", lambda: E.GolayCodeEncoder(), [("SyndromeLookupDecoder", lambda e: D.SyndromeLookupDecoder(e), "hard", True)]),
                  ("Golay(23,12)/ML", lambda: E.GolayCodeEncoder(), [("BruteForceMLDecoder", lambda e: D.BruteForceMLDecoder(e), "hard", False)])]
    modems = [("BPSK", lambda: (M.BPSKModulator(), M.BPSKDemodulator()), 1), ("QPSK", lambda: (M.QPSKModulator(), M.QPSKDemodulator()), 2)]
    modems.append(("Identity", lambda: (M.IdentityModulator(), M.IdentityDemodulator()), 1))
    for o in (4, 8, 16, 32, 64):
        for g in ((True, False) if o <= 16 else (True,)):
            modems.append(("PSK%d-%s" % (o, "gray" if g else "binary"), (lambda o=o, g=g: (M.PSKModulator(o, gray_coding=g), M.PSKDemodulator(o, gray_coding=g))), o.bit_length() - 1))
    for o in (16, 64):
        for g in (True, False):
            modems.append(("QAM%d-%s" % (o, "gray" if g else "binary"), (lambda o=o, g=g: (M.QAMModulator(o, gray_coding=g), M.QAMDemodulator(o, gray_coding=g))), o.bit_length() - 1))
    for o in (4, 8):
        for g in (True, False):
            modems.append(("PAM%d-%s" % (o, "gray" if g else "binary"), (lambda o=o, g=g: (M.PAMModulator(o, gray_coding=g), M.PAMDemodulator(o, gray_coding=g))), o.bit_length() - 1))

    # ------------------------------------------------------------------ kernel: hypotheses on tables
    tables = {}
    for mname, mk, b in modems:
        mod, dem = mk()
        if not hasattr(mod, "constellation"):          # identity modem: bits pass through, no table
            tables[mname] = (None, None, None, 1.0, False)
            continue
        c = mod.constellation
        pts64 = [complex(z) for z in c]
        labs = [[int(v) for v in row] for row in mod.bit_patterns.tolist()] if hasattr(mod, "bit_patterns") else [[0], [1]]
        pts = [(Fraction(float(z.real)), Fraction(float(z.imag))) for z in c]
        D2 = min((p[0] - q[0]) ** 2 + (p[1] - q[1]) ** 2 for p, q in itertools.combinations(pts, 2))
        dmin = min(abs(p - q) for p, q in itertools.combinations(pts64, 2))
        tables[mname] = (pts, labs, D2, dmin, torch.is_complex(mod(torch.zeros(1, b * 2))))
        exprs.append("c09_table (combine %s %s) %s" % (cpts(pts), clabs(labs), cQ(D2)))
        meta.append(("table", mname, None))

    # ------------------------------------------------------------------ chains
    def chain(enc, dec, mk, channel):
        mod, dem = mk()
        return ChannelCodeModel(enc, K.IdentityConstraint(), mod, channel, dem, dec)

    for cname, mkenc, decs in codes:
        enc = quiet(mkenc)
        n, k = int(enc.code_length), int(enc.code_dimension)
        if hasattr(enc, "generator_matrix"):
            gs = fec.rows_of(enc.generator_matrix)
            d = fec.min_distance(gs, k, 1 << 16) or 1
            t = (d - 1) // 2
            hs = fec.rows_of(enc.check_matrix) if hasattr(enc, "check_matrix") else fec.null_space(gs, n)
            rs = fec.right_inverse(gs, n)
            ts = fec.kernel_certificate(n, gs, hs, rs)[0] if rs is not None else None
        else:           # polar: no published matrices; only the ideal / displacement clauses (soft decoders)
            gs = hs = rs = ts = None
            t = 0
        have_cert = rs is not None and ts is not None
        if have_cert and n - k <= 11:
            exprs.append("c09_hyp %s %s %s %s %s %s %s" % (cnat(n), cnat(k), fec.cNl(gs), fec.cNl(hs), fec.cNl(rs), fec.cNl(ts), cnat(t)))
            meta.append(("hyp", cname, None))
        all_msgs = list(range(1 << k)) if k <= 8 else sorted({rng.getrandbits(k) for _ in range(64)} | {0, (1 << k) - 1})
        for dname, mkdec, kind, multiblock in decs:
            dec = quiet(mkdec, enc)
            for mname, mkmod, b in modems:
                if mname == "Identity" and kind != "hard":
                    continue                       # bits are not LLRs: the identity modem matches hard-decision decoders only
                blocks = 1
                if n % b:
                    blocks = b // math.gcd(n, b)
                    if not multiblock:
                        ctx.count("pairs-skipped-framing")
                        continue
                if quick and rng.random() < 0.45 and mname not in ("BPSK", "QPSK"):
                    continue
                pts, labs, D2, dmin, cplx_out = tables[mname]
                key = "C09/%s+%s/%%s/%s" % (cname.split("(")[0], dname, mname)
                rep = {"code": cname, "decoder": dname, "modem": mname, "blocks_per_row": blocks}
                ctx.count("pairs")
                kw = {"noise_var": 0.5} if kind == "soft" else {}
                # message batch: rows of `blocks` messages
                msgs = all_msgs if blocks == 1 else [tuple(rng.choice(all_msgs) for _ in range(blocks)) for _ in range(min(len(all_msgs), 64))]
                rows = [[bit for m in (r if isinstance(r, tuple) else (r,)) for bit in fec.int_to_bits(m, k)] for r in msgs]
                x = torch.tensor(rows, dtype=torch.float32)

                def run_chain(channel, xin, what, clause):
                    try:
                        out = quiet(chain(enc, dec, mkmod, channel), xin, **kw)
                    except Exception as ex:
                        ctx.violation(key % (clause + "-raises"), "%s + %s over %s (%s): the chain raised %s" % (cname, dname, mname, what, str(ex)[:120]), rep)
                        return None
                    if tuple(out.shape) != tuple(xin.shape) or not torch.equal(out.to(torch.float32), xin):
                        bad = 0
                        if tuple(out.shape) == tuple(xin.shape):
                            bad = int((out.to(torch.float32) != xin).any(dim=1).nonzero()[0])
                        ctx.violation(key % clause, "%s + %s over %s (%s): message %s comes back as %s" % (
                            cname, dname, mname, what, [int(v) for v in xin[bad].tolist()], [int(v) for v in out[bad].tolist()] if tuple(out.shape) == tuple(xin.shape) else "shape %s" % (tuple(out.shape),)),
                            dict(rep, channel=what, message=[int(v) for v in xin[bad].tolist()]))
                        return None
                    return out

                # 1. ideal channel
                ctx.count("ideal-chains", len(rows))
                run_chain(C.IdentityChannel(), x, "ideal channel", "ideal")
                # 2. at most t flips per block, placed by the harness (hard-decision decoding)
                if kind == "hard" and t >= 1:
                    N_ = n * blocks
                    pats = []
                    for w in range(1, t + 1):
                        combos = list(itertools.combinations(range(n), w))
                        cap = (600 if mname == "BPSK" else 40) if quick else (3000 if mname == "BPSK" else 400)      # every position pattern over BPSK for n <= 15, t <= 3
                        if len(combos) > cap:
                            combos = rng.sample(combos, cap)
                        pats += combos * (8 if k > 8 else 1)      # large codebooks: several messages per pattern
                    sel = [rows[rng.randrange(len(rows))] for _ in pats]
                    xin = torch.tensor(sel, dtype=torch.float32)
                    cw = quiet(enc, xin)
                    flipped = cw.clone()
                    for i, pos in enumerate(pats):
                        for blk in range(blocks):
                            shift = rng.randrange(n) if blk else 0
                            for p in pos:
                                j = blk * n + (p + shift) % n
                                flipped[i, j] = 1 - flipped[i, j]
                    mod_fresh = mkmod()[0]
                    tx = quiet(mod_fresh, flipped)
                    ctx.count("bit-flip-chains", len(pats))
                    for i in range(len(pats)):
                        ctx.nontriv((cname, dname, mname, "flip", pats[i], tuple(sel[i])))
                    run_chain(C.LambdaChannel(lambda s, *a, **kk: tx), xin, "%d..%d flipped bits per block, all/sampled positions" % (1, t), "bit-flips")
                    if mname == "Identity":
                        # the same decoder object sees every pattern twice, with the bits held in the dtypes a caller may use
                        for dt in (torch.int32, torch.int64, torch.float64):
                            for ps in ("first", "second"):
                                try:
                                    out = quiet(chain(enc, dec, mkmod, C.LambdaChannel(lambda s, *a, **kk: tx.to(s.dtype))), xin.to(dt), **kw)
                                except Exception:
                                    ctx.count("dtype-rejected")
                                    break
                                ctx.count("bit-flip-chains", len(pats))
                                if tuple(out.shape) != tuple(xin.shape) or not torch.equal(out.to(torch.float32), xin):
                                    bad = int((out.to(torch.float32) != xin).any(dim=1).nonzero()[0]) if tuple(out.shape) == tuple(xin.shape) else 0
                                    ctx.violation(key % "bit-flips-dtype", "%s + %s over the identity modem, %s pass with %s bits: message %s comes back as %s (<= %d flipped bits per block)" % (
                                        cname, dname, ps, str(dt).split(".")[1], [int(v) for v in xin[bad].tolist()], [int(v) for v in out[bad].tolist()] if tuple(out.shape) == tuple(xin.shape) else tuple(out.shape), t),
                                        dict(rep, dtype=str(dt)))
                                    break
                    # model correspondence for the syndrome decoder: the bit-level chain with the same error words
                    if dname == "SyndromeLookupDecoder" and have_cert and blocks == 1 and n - k <= 8 and len(exprs) < 400:
                        for i in rng.sample(range(len(pats)), min(6, len(pats))):
                            e = 0
                            for p in pats[i]:
                                e |= 1 << p
                            m = fec.bits_to_int(sel[i])
                            exprs.append("c09_link %s %s %s %s %s %s" % (cnat(n), fec.cNl(gs), fec.cNl(hs), fec.cNl(rs), cN(e), cN(m)))
                            meta.append(("link", cname, m))
                    if dname == "BruteForceMLDecoder" and gs is not None and blocks == 1 and k <= 8 and len(exprs) < 400:
                        for i in rng.sample(range(len(pats)), min(4, len(pats))):
                            e = 0
                            for p in pats[i]:
                                e |= 1 << p
                            m = fec.bits_to_int(sel[i])
                            exprs.append("c09_link_ml %s %s %s %s" % (cnat(k), fec.cNl(gs), cN(e), cN(m)))
                            meta.append(("link", cname, m))
                # 3. every symbol displaced by less than half the minimum distance
                if mname == "Identity":
                    continue
                nsym = n * blocks // b
                xin = x[rng.sample(range(len(rows)), min(len(rows), 24))]
                g = torch.Generator().manual_seed(rng.randrange(1 << 30))
                ang = torch.rand(xin.shape[0], nsym, generator=g) * 2 * math.pi
                rad = 0.49 * dmin * (0.5 + 0.5 * torch.rand(xin.shape[0], nsym, generator=g))
                if cplx_out and mname not in ("BPSK",) and not mname.startswith("PAM"):
                    delta = torch.polar(rad, ang)
                else:
                    delta = rad * torch.sign(torch.cos(ang))
                    if cplx_out:
                        delta = torch.complex(delta, torch.randn(xin.shape[0], nsym, generator=g))      # the quadrature component does not matter for a real constellation
                ctx.count("displacement-chains", xin.shape[0])
                for i in range(xin.shape[0]):
                    ctx.nontriv((cname, dname, mname, "disp", i))
                captured = {}

                def disp(s, *a, **kk):
                    y = s + delta.to(s.dtype) if (torch.is_complex(s) or not torch.is_complex(delta)) else s + delta.real
                    captured["y"], captured["s"] = y, s
                    return y
                run_chain(C.LambdaChannel(disp), xin, "every symbol displaced by 0.25..0.49 of the minimum distance", "displacement")
                if "y" in captured and len(exprs) < 400 and rng.random() < 0.3:
                    y = captured["y"][0].reshape(-1)[:8]
                    cwb = quiet(enc, xin[:1])[0].tolist()
                    ys = [(Fraction(float(z.real)), Fraction(float(z.imag) if torch.is_complex(y) else 0.0)) for z in y]
                    if mname == "BPSK" or mname.startswith("PAM"):
                        ys = [(a, Fraction(0)) for a, _ in ys]
                    exprs.append("c09_demod (combine %s %s) %s" % (cpts(pts), clabs(labs), cpts(ys)))
                    meta.append(("demod", mname, [int(v) for v in cwb[: len(ys) * b]]))
    ctx.log("chains done", len(exprs))
    if ok and exprs:
        res = ctx.coq_eval("c09", HDR, exprs, per_file=10, timeout=1500)
        ctx.count("kernel-evaluated-checks", len(res))
        inst = []
        for (kind, name, extra), v in zip(meta, res):
            if kind in ("table", "hyp"):
                inst.append("%s:%s=%s" % (kind, name, v))
                if v is not True:
                    ctx.broken.append("hypothesis of the composition theorem is false for %s %s (certificates or published table)" % (kind, name))
            elif kind == "link":
                if int(v) != extra:
                    ctx.violation("C09/%s/model-link" % name.split("(")[0], "bit-level chain model for %s returns %s for message %s" % (name, v, extra), {"code": name})
            elif kind == "demod":
                got = [1 if u else 0 for u in v]
                if got != extra:
                    ctx.broken.append("correspondence: model hard decisions of displaced %s symbols %s differ from the transmitted bits %s" % (name, got, extra))
        ctx.note("theorem instances: " + ", ".join(inst))
    ctx.sample({"codes": [c[0] for c in codes], "modems": [m[0] for m in modems]})
    ctx.assumptions += ["certificates (right inverse, kernel decomposition) are computed by the untrusted harness and only checked by the kernel",
                        "adversarial bit flips are realised as a channel that outputs the modulated flipped codeword (valid constellation points)",
                        "soft decoders are driven by demodulator(y, noise_var=0.5); decoders that reject several blocks per row are paired only with modems whose bits per symbol divide n"]
    ctx.cov["exhaustive"] = False


def replay(rep):
    import_kaira()
    print("replay of", rep.get("key"), rep.get("replay"))
    return 0
