"""C02 -- hard-decision decoders correct every error pattern within the advertised capability; complete decoders are ML.

P: coq/Props/C02.v (syndrome table = coset leaders, ML and bounded-distance theorems for every H; brute-force ML over
   the whole codebook; Hamming single-error inverse for every H with distinct non-zero columns).
T: Decoders/Hard.v evaluated in Coq vs the implementation: the very error pattern the syndrome table yields (same
   enumeration order), the message of the first-closest codeword, the Hamming-corrected word; kernel evaluation of the
   checkers that instantiate the bounded-distance theorem for each (code, decoder) pairing.
S: on the implementation: decode(enc(m) + e) = m for all codewords x all patterns of weight <= t (exhaustive when
   small, sampled otherwise); for complete decoders dist(enc(dec(r)), r) = coset-leader weight for all 2^n words
   (n <= 12) or a sample.
"""
import contextlib
import io
import itertools
import math

import fec
from common import cnat
from props.c01 import cfg_class

HDR = """From Coq Require Import NArith List Bool.
Import ListNotations.
From KV Require Import Base.GF2 Decoders.Hard Decoders.C02Cases.
Local Open Scope N_scope.
"""
FINISH = dict(level="proof", rule=(
    "(code, decoder) pairings: syndrome lookup and brute-force ML on codes with small redundancy/dimension, "
    "Berlekamp-Massey on BCH, Reed-Muller majority decoder, Hamming and Reed-Muller inverses; per pairing all codewords "
    "x all error patterns of weight <= t when that product is <= the tier bound, seeded samples of each weight "
    "otherwise; ML clause: all 2^n words for n <= 12, samples above; non-trivial = t >= 1 or an ML check with a "
    "non-codeword; distinct = distinct (pairing, codeword, pattern)"))


def quiet(f, *a, **k):
    with contextlib.redirect_stdout(io.StringIO()):
        return f(*a, **k)


def patterns_upto(n, t):
    yield 0
    for w in range(1, t + 1):
        for pos in itertools.combinations(range(n), w):
            e = 0
            for p in pos:
                e |= 1 << p
            yield e


def coset_min_weights(hs, n):
    """syndrome -> minimum weight in its coset (BFS over patterns by weight), for n - rank small"""
    r = fec.rank(hs)
    need = 1 << r
    best = {}
    for w in range(0, n + 1):
        for pos in itertools.combinations(range(n), w):
            e = 0
            for p in pos:
                e |= 1 << p
            s = fec.synd(e, hs)
            if s not in best:
                best[s] = w
        if len(best) == need:
            break
    return best


def run(ctx):
    ok = ctx.build_props([], ["Decoders/C02Cases.vo"])
    ctx.log("props built", ok)
    import torch
    from kaira.models.fec import decoders as D
    from kaira.models.fec import encoders as E
    rng = ctx.rng
    quick = ctx.quick
    cat = fec.catalogue(ctx.tier, rng)
    BUDGET = 1500 if quick else 60000       # decodings per pairing
    exprs, meta = [], []

    def decode_words(dec, words, n, k):
        # bounded batches: the brute-force decoder materialises (words x 2^k x n) distances
        # (also the Reed-Muller nearest-codeword inverse); the bound is harmless for the per-word decoders
        per = max(16, min(4096, int(1.5e8 // ((1 << min(k, 24)) * n))))
        got, outs = [], []
        for i in range(0, len(words), per):
            x = torch.tensor([fec.int_to_bits(w, n) for w in words[i:i + per]], dtype=torch.float32)
            out = quiet(dec, x)
            got += [fec.bits_to_int(r) for r in out.tolist()]
            outs.append(out)
        return got, (torch.cat(outs) if outs else torch.zeros(0, k))

    def bounded_clause(code, decname, dec, enc, n, k, gs, t, base, rep, BUDGET=BUDGET):
        """decode(enc(m)+e) == m for weight(e) <= t"""
        npat = sum(math.comb(n, w) for w in range(t + 1))
        msgs = list(range(1 << k)) if (1 << k) * npat <= BUDGET else sorted({rng.getrandbits(k) for _ in range(max(4, BUDGET // max(npat, 1) // 4))} | {0, (1 << k) - 1})
        if len(msgs) * npat <= BUDGET:
            pats = list(patterns_upto(n, t))
            exhaustive = True
        else:
            per = max(10, BUDGET // (len(msgs) * (t + 1)))
            pats = [0]
            for w in range(1, t + 1):
                for _ in range(per):
                    e = 0
                    for p in rng.sample(range(n), w):
                        e |= 1 << p
                    pats.append(e)
            exhaustive = False
        cws = [fec.comb(m, gs) for m in msgs]
        words, expect = [], []
        for m, c in zip(msgs, cws):
            for e in pats:
                words.append(c ^ e)
                expect.append((m, e))
        try:
            got, _ = decode_words(dec, words, n, k)
        except Exception as ex:
            ctx.violation(base % ("%s-raises" % decname), "%s with %s raised on a batch of words within capability t=%d: %s" % (code.name, decname, t, str(ex)[:150]), rep)
            return
        ctx.count("bounded-distance-decodings", len(words))
        for (m, e), g in zip(expect, got):
            if fec.wt(e) >= 1:
                ctx.nontriv((code.name, decname, m, e))
            if g != m:
                ctx.violation(base % ("%s-corrects-t" % decname), "%s decoded by %s: message %s with error pattern %s (weight %d <= t=%d) returns %s" % (
                    code.name, decname, fec.int_to_bits(m, k), fec.int_to_bits(e, n), fec.wt(e), t, fec.int_to_bits(g, k)),
                    dict(rep, decoder=decname, message=fec.int_to_bits(m, k), error=fec.int_to_bits(e, n), t=t))
                return
        # the same words held in other dtypes, decoded twice by the same decoder object (syndromes repeat): same messages
        idx = list(range(len(words))) if len(words) <= 150 else rng.sample(range(len(words)), 150)
        for dt in (torch.int32, torch.int64, torch.float64):
            xs = torch.tensor([fec.int_to_bits(words[i], n) for i in idx]).to(dt)
            try:
                o1 = quiet(dec, xs)
                o2 = quiet(dec, xs.clone())
            except Exception:
                ctx.count("dtype-rejected")
                continue
            ctx.count("dtype-decodings", 2 * len(idx))
            for ps, out in (("first", o1), ("second", o2)):
                gd = [fec.bits_to_int([int(v) for v in r]) for r in out.tolist()]
                badj = [j for j, i in enumerate(idx) if gd[j] != expect[i][0]]
                if badj:
                    j = badj[0]
                    ctx.violation(base % ("%s-corrects-t-dtype" % decname), "%s decoded by %s: the %s pass over %s words returns %s for message %s with error pattern %s (weight %d <= t=%d)" % (
                        code.name, decname, ps, str(dt).split(".")[1], fec.int_to_bits(gd[j], k), fec.int_to_bits(expect[idx[j]][0], k), fec.int_to_bits(expect[idx[j]][1], n), fec.wt(expect[idx[j]][1]), t),
                        dict(rep, decoder=decname, dtype=str(dt)))
                    return
        ctx.note("%s/%s: %d codewords x %d patterns (t=%d)%s" % (code.name[:60], decname, len(msgs), len(pats), t, " exhaustive" if exhaustive else "")) if len(ctx.notes) < 12 else None

    def ml_clause(code, decname, dec, enc, n, k, gs, hs_ref, base, rep):
        words = list(range(1 << n)) if n <= (10 if quick else 12) else [rng.getrandbits(n) for _ in range(300 if quick else 2000)]
        try:
            got, _ = decode_words(dec, words, n, k)
        except Exception as ex:
            ctx.violation(base % ("%s-raises" % decname), "%s with %s raised on arbitrary received words: %s" % (code.name, decname, str(ex)[:150]), rep)
            return None
        # reference distance to the nearest codeword: coset-leader weights when the redundancy is small, otherwise the
        # codebook itself (small dimension); neither is feasible for a long high-redundancy, high-dimension code
        if fec.rank(hs_ref) <= 16:
            table = coset_min_weights(hs_ref, n)
            best_of = lambda r_: table[fec.synd(r_, hs_ref)]          # noqa: E731
        elif k <= 12:
            book = [fec.comb(m_, gs) for m_ in range(1 << k)]
            best_of = lambda r_: min(fec.wt(r_ ^ c_) for c_ in book)  # noqa: E731
        else:
            ctx.count("ml-clause-skipped-size")
            return None
        ctx.count("ml-decodings", len(words))
        for r, g in zip(words, got):
            d = fec.wt(r ^ fec.comb(g, gs))
            if fec.synd(r, hs_ref):
                ctx.nontriv((code.name, decname, "ml", r))
            b_ = best_of(r)
            if d != b_:
                ctx.violation(base % ("%s-ml" % decname), "%s decoded by %s: received %s -> message %s whose codeword is at distance %d, the nearest codeword is at distance %d" % (
                    code.name, decname, fec.int_to_bits(r, n), fec.int_to_bits(g, k), d, b_),
                    dict(rep, decoder=decname, received=fec.int_to_bits(r, n)))
                return None
        return words, got

    import time as _t
    tfam = {}
    import resource as _res
    for _ci, code in enumerate(cat):
        _t0 = _t.time()
        if _ci % 40 == 0 or (not quick and 80 <= _ci <= 130):
            ctx.log("code %d/%d %s rss=%.1fGB" % (_ci, len(cat), code.name[:50], _res.getrusage(_res.RUSAGE_SELF).ru_maxrss / 1e6))
        enc = code.build()
        if enc is None:
            continue
        n, k = int(enc.code_length), int(enc.code_dimension)
        if k < 1 or k >= n and code.family != "RepetitionCodeEncoder" and n != k:
            continue
        try:
            gs = fec.rows_of(enc.generator_matrix)
        except ValueError:
            continue
        if fec.rank(gs) != k:
            continue
        cls = cfg_class(code)
        base = "C02/%s/%%s/%s" % (code.family, cls)
        rep = {"code": code.name, "n": n, "k": k}
        hs_ref = fec.null_space(gs, n)
        d_true = fec.min_distance(gs, k, 1 << 16)
        adv = None
        if hasattr(enc, "error_correction_capability"):
            adv = int(enc.error_correction_capability)
        elif hasattr(enc, "minimum_distance"):
            v = enc.minimum_distance
            v = v() if callable(v) else v
            adv = (int(v) - 1) // 2
        elif d_true is not None:
            adv = (d_true - 1) // 2
        if code.family == "CyclicCodeEncoder" and k > 12:
            # minimum_distance() is weight(g) there (C03 known finding): use the true capability, from the codebook or, for
            # high-rate codes, from the dual (MacWilliams); if neither is computable the advertised value cannot be relied on here
            if d_true is None and n - k <= 16:
                try:
                    d_true = fec.dual_min_distance(gs, hs_ref, n, k)
                except Exception:
                    d_true = None
            if d_true is None:
                ctx.count("pairings-skipped-unknown-distance")
                continue
            adv = (d_true - 1) // 2
        if adv is None:
            continue
        t = adv
        r = n - k
        # ---- syndrome lookup decoder: small redundancy and length (the table enumerates patterns by weight)
        if isinstance(enc, E.LinearBlockCodeEncoder) and code.family not in ("ReedMullerCodeEncoder",) and r <= (6 if quick else 11) and n <= (15 if quick else 23) and k >= 1:
            try:
                dec = quiet(D.SyndromeLookupDecoder, enc)
            except Exception as ex:
                ctx.violation(base % "SyndromeLookupDecoder-ctor", "%s: SyndromeLookupDecoder constructor raised %s" % (code.name, str(ex)[:120]), rep)
                dec = None
            if dec is not None:
                ctx.count("pairings")
                bounded_clause(code, "SyndromeLookupDecoder", dec, enc, n, k, gs, t, base, rep)
                res = ml_clause(code, "SyndromeLookupDecoder", dec, enc, n, k, gs, hs_ref, base, rep)
                # model correspondence: the error pattern itself (return_errors=True), same enumeration order
                if res is not None and n <= 15:
                    words = res[0][: (256 if quick else 1024)]
                    x = torch.tensor([fec.int_to_bits(w, n) for w in words], dtype=torch.float32)
                    try:
                        _, errs = quiet(dec, x, return_errors=True)
                        ierr = [fec.bits_to_int(e) for e in errs.tolist()]
                        hs_pub = fec.rows_of(enc.check_matrix)
                        own = "calculate_syndrome" in type(enc).__dict__
                        if not own:
                            exprs.append("digest (syn_errors %s %s %s)" % (cnat(n), fec.cNl(hs_pub), fec.cNl(words)))
                            meta.append(("syn", code, fec.digest(ierr)))
                        rs = fec.right_inverse(gs, n)
                        ts, _ = fec.kernel_certificate(n, gs, hs_pub, rs)
                        if ts is not None and k <= 12 and not own:
                            exprs.append("c02_flags %s %s %s %s %s %s %s" % (cnat(n), cnat(k), fec.cNl(gs), fec.cNl(hs_pub), fec.cNl(rs), fec.cNl(ts), cnat(t)))
                            meta.append(("flags", code, t))
                    except Exception as ex:
                        ctx.violation(base % "SyndromeLookupDecoder-return-errors", "%s: return_errors=True raised %s" % (code.name, str(ex)[:120]), rep)
        # ---- brute-force ML: small dimension
        if k <= (6 if quick else 9) and n <= 16:
            dec = quiet(D.BruteForceMLDecoder, enc)
            ctx.count("pairings")
            bounded_clause(code, "BruteForceMLDecoder", dec, enc, n, k, gs, t, base, rep)
            res = ml_clause(code, "BruteForceMLDecoder", dec, enc, n, k, gs, hs_ref, base, rep)
            if res is not None:
                words = res[0][: (128 if quick else 512)]
                exprs.append("digest (ml_messages %s %s %s)" % (cnat(k), fec.cNl(gs), fec.cNl(words)))
                meta.append(("ml", code, fec.digest(res[1][: len(words)])))
        # ---- Berlekamp-Massey on BCH
        if code.family == "BCHCodeEncoder" and t >= 1 and n <= (31 if quick else 63):
            dec = quiet(D.BerlekampMasseyDecoder, enc)
            ctx.count("pairings")
            bounded_clause(code, "BerlekampMasseyDecoder", dec, enc, n, k, gs, t, base, rep, BUDGET=(BUDGET // 2 if n <= 15 else BUDGET // 10))
        # ---- Reed-Muller: majority decoder (hard) and nearest-codeword inverse
        if code.family == "ReedMullerCodeEncoder" and k <= 11:
            dec = quiet(D.ReedMullerDecoder, enc, input_type="hard")
            ctx.count("pairings")
            bounded_clause(code, "ReedMullerDecoder", dec, enc, n, k, gs, t, base, rep)
            inv = lambda x: quiet(enc.inverse_encode, x)[0]          # noqa: E731
            bounded_clause(code, "inverse_encode", inv, enc, n, k, gs, t, base, rep)
            res = ml_clause(code, "inverse_encode", inv, enc, n, k, gs, hs_ref, base, rep)
            if res is not None and k <= 8:
                words = res[0][: (128 if quick else 512)]
                exprs.append("digest (ml_messages %s %s %s)" % (cnat(k), fec.cNl(gs), fec.cNl(words)))
                meta.append(("rm-inverse", code, fec.digest(res[1][: len(words)])))
        # ---- Hamming single-error-correcting inverse
        if code.family == "HammingCodeEncoder":
            inv = lambda x: quiet(enc.inverse_encode, x)[0]          # noqa: E731
            ctx.count("pairings")
            bounded_clause(code, "inverse_encode", inv, enc, n, k, gs, 1, base, rep)
            hs_pub = fec.rows_of(enc.check_matrix)
            info = [int(v) for v in enc.information_set.tolist()]
            words = [fec.comb(m, gs) ^ e for m in (0, 1, (1 << k) - 1, rng.getrandbits(k)) for e in [0] + [1 << j for j in range(n)]]
            got, _ = decode_words(inv, words, n, k)
            exprs.append("(columns_ok %s %s, ham_words %s %s %s)" % (cnat(n), fec.cNl(hs_pub), cnat(n), fec.cNl(hs_pub), fec.cNl(words)))
            meta.append(("hamming", code, (got, info)))
    ctx.log('implementation side done')
    if ok and exprs:
        res = ctx.coq_eval("c02", HDR, exprs, per_file=6, timeout=1500)
        for (kind, code, x), mv in zip(meta, res):
            ctx.count("kernel-evaluations")
            key = "C02/%s/%%s/%s" % (code.family, cfg_class(code))
            viol = [v["key"] for v in ctx.violations]
            if kind == "flags":
                if not all(mv) and not any(k.startswith("C02/%s/SyndromeLookupDecoder" % code.family) for k in viol):
                    ctx.broken.append("kernel: hypotheses of C02_syndrome_decoder_corrects %s for %s (t=%d)" % (mv, code.name, x))
            elif kind == "hamming":
                cols_ok, corrected = mv
                got, info = x
                proj = [sum(((w >> p) & 1) << i for i, p in enumerate(info)) for w in corrected]
                if not cols_ok and key % "inverse_encode-corrects-t" not in viol:
                    ctx.violation(key % "columns-distinct", "%s: columns of the published check matrix are not non-zero and pairwise distinct (kernel check)" % code.name, {"code": code.name}, found_input=False)
                if proj != got and key % "inverse_encode-corrects-t" not in viol:
                    ctx.broken.append("correspondence Hamming inverse_encode vs ham_correct for %s" % code.name)
            else:
                if mv != x and not any(k.startswith("C02/%s/" % code.family) for k in viol):
                    ctx.broken.append("correspondence %s decoder output vs model for %s" % (kind, code.name))
    ctx.sample({"pairings": ctx.cov["streams"].get("pairings", 0), "kernel evaluations": len(exprs)})
    ctx.assumptions += ["Massey's correctness theorem for Berlekamp-Massey is not formalised: BM is checked on the implementation (exhaustively over all <= t patterns where the tier bound allows)",
                        "advertised capability t = error_correction_capability, else floor((minimum_distance-1)/2), else from the true distance"]
    ctx.cov["exhaustive"] = False


def replay(rep):
    import random

    import torch
    from kaira.models.fec import decoders as D
    r = rep.get("replay", {})
    print("replay of", rep.get("key"), {k: v for k, v in r.items()})
    cat = fec.catalogue(rep.get("tier", "quick"), random.Random(rep.get("seed", 0)))
    for code in cat:
        if code.name == r.get("code"):
            enc = code.build()
            n, k = int(enc.code_length), int(enc.code_dimension)
            if "message" in r and "error" in r:
                x = quiet(enc, torch.tensor([r["message"]], dtype=torch.float32))
                y = (x + torch.tensor([r["error"]], dtype=torch.float32)) % 2
                dec = getattr(D, r["decoder"])(enc) if hasattr(D, r.get("decoder", "")) else (lambda v: quiet(enc.inverse_encode, v)[0])
                print("received", y.tolist(), "->", quiet(dec, y).tolist())
    return 0
