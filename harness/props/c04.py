"""C04 -- encoding followed by the encoder's own message extraction is the identity.

P: coq/Props/C04.v (right inverse lifted from the k unit messages to all 2^k; zero syndrome of every codeword;
   project(scatter) = id for every duplicate-free information set; blockwise round trip for every number of
   blocks; rejection of non-multiples).
T: kernel evaluation of right_inverse_ok / rows_in_kernel on the published generator_matrix, generator_right_inverse
   and check_matrix of every catalogue object; model (m.G).R compared with inverse_encode(encoder(m)).
S: the round trip on the implementation for all messages (k <= 10/12) in the layouts 1-D, (B,k), (B1,B2,k) and
   b = 1..4 concatenated blocks, through inverse_encode, extract_message and project_word; exact n/k scaling of the
   last dimension; an error (not a wrong answer) for lengths that are not a multiple of the block size.
"""
import math
import contextlib
import io

import fec
from common import cnat
from props.c01 import cfg_class

HDR = """From Coq Require Import NArith List Bool.
Import ListNotations.
From KV Require Import Base.GF2 Base.FecCases.
Local Open Scope N_scope.
"""
FINISH = dict(level="proof", rule=(
    "same catalogue as C01; per code all messages (k <= 10 quick / 12 thorough, sampled above) x layouts 1-D, (B,k), "
    "(B1,B2,k), (B,b*k) for b in 1..4 x {inverse_encode, extract_message, project_word}; malformed stream: last "
    "dimension not a multiple of k resp. n; non-trivial = 1 <= k < n; distinct = distinct (family, configuration)"))
ERR = (ValueError, AssertionError, RuntimeError, IndexError)


def quiet(f, *a):
    with contextlib.redirect_stdout(io.StringIO()):
        return f(*a)


def run(ctx):
    ok = ctx.build_props([], ["Base/FecCases.vo"])
    ctx.log("props built", ok)
    import torch
    rng = ctx.rng
    cat = fec.catalogue(ctx.tier, rng)
    exprs, meta = [], []
    for code in cat:
        enc = code.build()
        if enc is None:
            continue
        n, k = int(enc.code_length), int(enc.code_dimension)
        base = "C04/%s/%%s/%s" % (code.family, cfg_class(code))
        rep = {"code": code.name, "n": n, "k": k}
        heavy = code.family == "ReedMullerCodeEncoder" and k > 11
        if heavy and k > 16:
            ctx.note("%s skipped: its inverse enumerates 2^%d codewords" % (code.name, k))
            continue
        ctx.count("code-objects")
        if 1 <= k < n:
            ctx.nontriv((code.family, code.cfg))
        kmax = 10 if ctx.quick else 12
        msgs = list(range(1 << k)) if k <= kmax else sorted({rng.getrandbits(k) for _ in range(256)} | {0, 1, (1 << k) - 1})
        if heavy:
            msgs = msgs[:2] + msgs[-2:]
        X = torch.tensor([fec.int_to_bits(m, k) for m in msgs], dtype=torch.float32)
        B = X.shape[0]
        layouts = [("(B,k)", X)]
        layouts.append(("1-D", X[rng.randrange(B)]))
        if B % 2 == 0 and B >= 4:
            layouts.append(("(B1,B2,k)", X.reshape(2, B // 2, k)))
        for b in (2, 3, 4):
            if B >= b:
                rows = (B // b)
                layouts.append(("(B,%d*k)" % b, X[: rows * b].reshape(rows, b * k)))
        layouts.append(("1-D,3*k", X[:3].reshape(-1)) if B >= 3 else ("1-D", X[0]))
        inverses = [("inverse_encode", lambda y: quiet(enc.inverse_encode, y)), ("extract_message", lambda y: quiet(enc.extract_message, y))]
        if hasattr(enc, "project_word"):
            inverses.append(("project_word", lambda y: quiet(enc.project_word, y)))
        for lname, x in layouts:
            try:
                y = quiet(enc, x)
            except ERR as e:
                ctx.violation(base % ("encode-raises/%s" % lname.split(",")[0]), "%s: encoder raised on layout %s: %s" % (code.name, lname, str(e)[:120]), dict(rep, layout=lname))
                continue
            ctx.count("round-trips", len(inverses))
            exp_shape = tuple(x.shape[:-1]) + (x.shape[-1] // k * n,)
            if tuple(y.shape) != exp_shape:
                ctx.violation(base % "shape", "%s: encoder output shape %s for input %s (expected %s)" % (code.name, tuple(y.shape), tuple(x.shape), exp_shape), dict(rep, layout=lname))
                continue
            for iname, inv in inverses:
                try:
                    r = inv(y)
                except ERR as e:
                    ctx.violation(base % ("%s-raises/%s" % (iname, "multi-block" if "*k" in lname else lname)),
                                  "%s: %s raised on the encoder's own output in layout %s: %s" % (code.name, iname, lname, str(e)[:120]), dict(rep, layout=lname))
                    continue
                syn = None
                if isinstance(r, tuple):
                    r, syn = r
                if tuple(r.shape) != tuple(x.shape) or not torch.equal(r.to(torch.float32), x):
                    idx = None
                    if tuple(r.shape) == tuple(x.shape):
                        bad = (r.to(torch.float32) != x).reshape(-1, x.shape[-1]).any(dim=1).nonzero()
                        idx = int(bad[0]) if bad.numel() else None
                    msg = x.reshape(-1, x.shape[-1])[idx].tolist() if idx is not None else None
                    ctx.violation(base % ("%s-roundtrip" % iname), "%s: %s(encoder(m)) != m in layout %s (message block %s, got shape %s)" % (
                        code.name, iname, lname, msg, tuple(r.shape)), dict(rep, layout=lname, message=msg))
                if syn is not None and bool((syn != 0).any()):
                    ctx.violation(base % "syndrome-of-codeword", "%s: inverse_encode reports a non-zero syndrome for the encoder's own output (layout %s)" % (code.name, lname), dict(rep, layout=lname))
        # call history: codewords returned by earlier calls must stay valid after later calls on the same object
        sample = [X[i:i + 1] for i in sorted(rng.sample(range(B), min(B, 5)))]
        try:
            outs = [quiet(enc, xi) for xi in sample]
            batch = quiet(enc, torch.cat(sample, dim=0))
            for i, (xi, ci) in enumerate(zip(sample, outs)):
                ctx.count("call-histories")
                back = quiet(enc.extract_message, ci)
                if not torch.equal(ci, batch[i:i + 1]) or not torch.equal(back.to(torch.float32), xi):
                    ctx.violation(base % "earlier-result-changed", "%s: the codeword returned for message %s by an earlier call reads %s after later calls on the same encoder (batch value %s)" % (
                        code.name, xi[0].tolist(), ci[0].tolist(), batch[i].tolist()), dict(rep, message=xi[0].tolist(), history="encode one message per call, then extract each"))
                    break
        except ERR as e:
            ctx.violation(base % "call-history-raises", "%s: repeated single-message calls raised %s" % (code.name, str(e)[:100]), rep)
        # malformed lengths: an error, not a wrong answer
        for what, f, size in (("encoder", lambda v: quiet(enc, v), k), ("inverse_encode", lambda v: quiet(enc.inverse_encode, v), n)):
            if size > 1:
                shapes_ = [(size + 1,), (2, size - 1), (2, 2 * size + 1)]
                # rows whose length is not a whole number of blocks although the batch as a whole is (a flat reshape would go through)
                for L_ in [g_ for g_ in range(2, 2 * size) if g_ % size and (size % g_ == 0 or (2 * g_) % size == 0)][:5]:
                    B_ = size // math.gcd(L_, size)
                    shapes_.append((B_, L_))
                    if B_ % 2 == 0:
                        shapes_.append((2, B_ // 2, L_))
                for shape in shapes_:
                    v = torch.zeros(shape)
                    try:
                        out = f(v)
                        ctx.violation(base % ("%s-accepts-bad-length" % what), "%s: %s accepted last dimension %d (block size %d) and returned shape %s" % (
                            code.name, what, shape[-1], size, tuple(out[0].shape) if isinstance(out, tuple) else tuple(out.shape)), dict(rep, shape=list(shape)))
                    except ERR:
                        pass
                    ctx.count("malformed")
        # kernel side on the published matrices
        try:
            gs = fec.rows_of(enc.generator_matrix)
            hs = fec.rows_of(enc.check_matrix)
        except ValueError:
            continue
        uses_R = type(enc).inverse_encode.__qualname__.startswith("LinearBlockCodeEncoder") and hasattr(enc, "generator_right_inverse")
        if uses_R:
            try:
                Rm = enc.generator_right_inverse
                rs = fec.rows_of(Rm)
            except ValueError:
                ctx.violation(base % "right-inverse-binary", "%s publishes a non-binary generator_right_inverse" % code.name, rep)
                continue
            dec = [fec.bits_to_int(r) for r in quiet(enc.inverse_encode, quiet(enc, X))[0].reshape(-1, k).tolist()]
            exprs.append("([right_inverse_ok %s %s %s; rows_in_kernel %s %s], digest (map (fun m => comb (comb m %s) %s) %s))" % (
                cnat(k), fec.cNl(gs), fec.cNl(rs), fec.cNl(gs), fec.cNl(hs), fec.cNl(gs), fec.cNl(rs), fec.cNl(msgs[:1024])))
            meta.append((code, fec.digest(dec[:1024])))
    if ok and exprs:
        res = ctx.coq_eval("c04", HDR, exprs, per_file=20, timeout=900)
        for (code, ddec), (flags, mdig) in zip(meta, res):
            ctx.count("kernel-checkers", 2)
            key = "C04/%s/%%s/%s" % (code.family, cfg_class(code))
            rep = {"code": code.name}
            if not flags[0] and not any(v["key"] == key % "inverse_encode-roundtrip" for v in ctx.violations):
                # the published R is not a right inverse on some unit message although the sampled round trips passed
                ctx.violation(key % "right-inverse-matrix", "%s: the published generator_right_inverse R does not satisfy (e_i.G).R = e_i for every unit message (kernel check)" % code.name, rep, found_input=False)
            if not flags[1] and not any(v["key"] == key % "syndrome-of-codeword" for v in ctx.violations):
                ctx.violation(key % "G.Ht=0", "%s: a generator row has non-zero syndrome under the published check matrix (kernel check)" % code.name, rep, found_input=False)
            if mdig != ddec and flags[0]:
                ctx.broken.append("correspondence inverse_encode vs (m.G).R for %s" % code.name)
    ctx.sample({"example": cat[0].name, "kernel evaluations": len(exprs)})
    ctx.assumptions += ["A-lapack: generator_right_inverse may come from torch.linalg.pinv; it is checked a posteriori by the kernel on the published matrix",
                        "Hamming / Reed-Muller override inverse_encode with decoders; their round trip is checked on the implementation only here (decoder theorems: C02)"]
    ctx.cov["exhaustive"] = False


def replay(rep):
    import random

    import torch
    r = rep.get("replay", {})
    print("replay of", rep.get("key"), r)
    cat = fec.catalogue(rep.get("tier", "quick"), random.Random(rep.get("seed", 0)))
    for code in cat:
        if code.name == r.get("code") and r.get("message"):
            enc = code.build()
            x = torch.tensor([r["message"]], dtype=torch.float32)
            y = quiet(enc, x)
            print("encoder:", y.tolist(), "inverse:", quiet(enc.inverse_encode, y))
    return 0
