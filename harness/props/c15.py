"""C15 -- one LLR polarity everywhere: positive means bit 0, negative means bit 1.

P: coq/Props/C15.v (P(1) = sigmoid(-L) strictly decreasing, = 1/2 at 0; threshold consumers monotone, neutral threshold
   decides "1 iff L < 0"; LLR thresholder; hysteresis state machine; producer o consumer composition over Q).
T: Gen/Thresholds.v regenerated from soft_bit_thresholding.py: for every thresholder class how the LLR reaches the
   comparison (sigmoid(-x) / sigmoid(x) / raw) and the comparison direction; the kernel evaluates polarity_ok per class.
S: every consumer alone on a signed grid of LLR magnitudes 1e-3..1e3; every soft demodulator's noise-free output
   (several noise variances) into every consumer: transmitted bits must come back; soft-input decoders fed with
   +magnitude for 0 / -magnitude for 1; LLR -> probability utilities.
"""
import contextlib
import io
import math

import fec
from common import REPO, import_kaira
from translate import thresholders

HDR = """From Coq Require Import List String.
Import ListNotations.
From KV Require Import Gen.Thresholds LLR.C15Cases.
"""
FINISH = dict(level="proof", rule=(
    "consumers: fixed / adaptive / LLR / min-distance / hysteresis / weighted / dynamic / ensemble thresholders in LLR mode, "
    "repetition soft-bit decoder, BP / min-sum / Wagner / SC / polar-BP / soft-RM decoders, llr_to_bits / sign_to_bin, each on a "
    "signed grid of magnitudes 1e-3..1e3; producers: every soft demodulator of C06 on noise-free symbols of exhaustive short "
    "and seeded long bit sequences at noise variances {1e-2, 1, 1e2}; every producer x consumer pair; non-trivial = a pair "
    "with a multi-bit symbol or a stateful consumer; distinct = distinct (producer, consumer, sequence)"))


def quiet(f, *a, **k):
    with contextlib.redirect_stdout(io.StringIO()):
        return f(*a, **k)


def construct(ctx, cname, mk):
    """Build a consumer; a plain-string mode refused loudly at construction is not a polarity statement."""
    try:
        return mk()
    except (ValueError, TypeError) as ex:
        if "['" in cname:
            ctx.count("string-mode-refused")
            ctx.note("%s refused at construction: %s" % (cname, str(ex)[:80]))
            return None
        raise


def run(ctx):
    ok = ctx.build_props([thresholders.generate], ["LLR/C15Cases.vo"])
    ctx.log("props built", ok)
    import_kaira()
    import torch
    import kaira.modulations as M
    from kaira.models.binary import soft_bit_thresholding as T
    from kaira.models.fec import decoders as D
    from kaira.models.fec import encoders as E
    from kaira.models.fec.utils import sign_to_bin
    try:
        from kaira.models.fec.utils import llr_to_bits
    except ImportError:
        llr_to_bits = None
    rng = ctx.rng
    quick = ctx.quick
    LLR = T.InputType.LLR
    DEAD = math.log(1.5) * 1.05          # hysteresis dead zone of the default thresholds 0.6 / 0.4

    # ------------------------------------------------------------------ T: polarity table from the source
    if ok:
        tab = ctx.coq_eval("poltab", HDR, ["polarity_table"])[0]
        for name, good in tab:
            ctx.count("kernel-polarity-table")
            if not good:
                ctx.note("kernel: polarity_ok = false for %s (decision form from the source)" % name)
        ctx.sample({"polarity_table": [list(x) for x in tab]})

    # ------------------------------------------------------------------ consumers
    def consumers():
        out = []
        out.append(("FixedThresholder", lambda: T.FixedThresholder(input_type=LLR), 0.0))
        for meth in ("mean", "median", "otsu"):
            out.append(("AdaptiveThresholder(%s)" % meth, lambda meth=meth: T.AdaptiveThresholder(method=meth, input_type=LLR), 0.0))
        out.append(("LLRThresholder", lambda: T.LLRThresholder(), 0.0))
        out.append(("LLRThresholder(soft)", lambda: T.LLRThresholder(output_type=T.OutputType.SOFT), 0.0))
        out.append(("MinDistanceThresholder", lambda: T.MinDistanceThresholder(input_type=LLR), 0.0))
        out.append(("HysteresisThresholder", lambda: T.HysteresisThresholder(input_type=LLR), DEAD))
        out.append(("WeightedThresholder", lambda: T.WeightedThresholder(weights=1.0, input_type=LLR), 0.0))
        out.append(("DynamicThresholder", lambda: T.DynamicThresholder(input_type=LLR), 0.0))
        out.append(("SoftBitEnsembleThresholder", lambda: T.SoftBitEnsembleThresholder(
            [T.LLRThresholder(), T.WeightedThresholder(weights=1.0, input_type=LLR), T.LLRThresholder(confidence_scaling=2.0)], voting="majority"), 0.0))
        out.append(("RepetitionSoftBitDecoder", lambda: T.RepetitionSoftBitDecoder(repetition_factor=1, input_type=LLR), 0.0))
        out.append(("HysteresisThresholder['llr']", lambda: T.HysteresisThresholder(input_type="llr"), DEAD))
        out.append(("WeightedThresholder['llr']", lambda: T.WeightedThresholder(weights=1.0, input_type="llr"), 0.0))
        out.append(("DynamicThresholder['llr']", lambda: T.DynamicThresholder(input_type="llr"), 0.0))
        out.append(("AdaptiveThresholder['llr']", lambda: T.AdaptiveThresholder(method="mean", input_type="llr"), 0.0))
        out.append(("LLRThresholder['hard']", lambda: T.LLRThresholder(output_type="hard"), 0.0))
        out.append(("RepetitionSoftBitDecoder['llr']", lambda: T.RepetitionSoftBitDecoder(repetition_factor=1, input_type="llr"), 0.0))
        out.append(("sign_to_bin", lambda: (lambda x: sign_to_bin(torch.sign(x))), 0.0))
        if llr_to_bits is not None:
            out.append(("llr_to_bits", lambda: llr_to_bits, 0.0))
        return out

    def decide(cons, x):
        r = cons(x)
        if r.dtype.is_floating_point and ((r > 0) & (r < 1)).any():      # soft output: probability of bit 1
            return (r > 0.5).float()
        return r.float()

    mags = [1e-3, 1e-2, 0.1, 0.5, 1.0, 3.0, 10.0, 100.0, 1e3]
    for cname, mk, dead in consumers():
        # a balanced signed grid (data-dependent thresholders need both signs present)
        vals = [s * m for m in mags for s in (1, -1) if m > dead and not (cname.startswith("AdaptiveThresholder(otsu") and m < 3.0)]
        rng.shuffle(vals)
        x = torch.tensor([vals], dtype=torch.float32)
        cons = construct(ctx, cname, mk)
        if cons is None:
            continue
        try:
            r = decide(cons, x).reshape(-1).tolist()
        except Exception as ex:
            ctx.violation("C15/%s/raises" % cname.split("(")[0].split("[")[0], "%s raised on an LLR grid: %s" % (cname, str(ex)[:100]), {"consumer": cname})
            continue
        ctx.count("consumer-grid", len(vals))
        for v, b in zip(vals, r):
            if (v < 0) != (b == 1.0):
                ctx.violation("C15/%s/polarity" % cname.split("(")[0].split("[")[0], "%s: LLR %+g is decided as bit %d (positive must mean 0, negative 1)" % (cname, v, int(b)),
                              {"consumer": cname, "llr": v})
                break
    # LLR -> probability utility: soft output of LLRThresholder is sigmoid(-LLR), monotone decreasing
    soft = T.LLRThresholder(output_type=T.OutputType.SOFT)
    grid = torch.linspace(-8, 8, 65)
    p = soft(grid)
    if not bool((p[1:] < p[:-1]).all()) or abs(float(p[32]) - 0.5) > 1e-6 or float((p - torch.sigmoid(-grid)).abs().max()) > 1e-6:
        ctx.violation("C15/LLRThresholder/probability", "soft output is not P(1) = sigmoid(-LLR) (monotone decreasing, 1/2 at 0)", {})

    # ------------------------------------------------------------------ producers x consumers
    producers = [("BPSK", M.BPSKModulator(), M.BPSKDemodulator(), 1), ("QPSK", M.QPSKModulator(), M.QPSKDemodulator(), 2),
                 ("PSK4", M.PSKModulator(4), M.PSKDemodulator(4), 2), ("PSK4-binary", M.PSKModulator(4, gray_coding=False), M.PSKDemodulator(4, gray_coding=False), 2),
                 ("PSK8", M.PSKModulator(8), M.PSKDemodulator(8), 3), ("PSK8-binary", M.PSKModulator(8, gray_coding=False), M.PSKDemodulator(8, gray_coding=False), 3),
                 ("QAM16", M.QAMModulator(16), M.QAMDemodulator(16), 4), ("QAM16-binary", M.QAMModulator(16, gray_coding=False), M.QAMDemodulator(16, gray_coding=False), 4),
                 ("QAM16-unnormalised", M.QAMModulator(16, normalize=False), M.QAMDemodulator(16, normalize=False), 4),
                 ("QAM64-binary", M.QAMModulator(64, gray_coding=False), M.QAMDemodulator(64, gray_coding=False), 6),
                 ("PAM4", M.PAMModulator(4), M.PAMDemodulator(4), 2), ("PAM4-binary", M.PAMModulator(4, gray_coding=False), M.PAMDemodulator(4, gray_coding=False), 2),
                 ("PAM8-binary", M.PAMModulator(8, gray_coding=False), M.PAMDemodulator(8, gray_coding=False), 3),
                 ("OQPSK", M.OQPSKModulator(), M.OQPSKDemodulator(), 2), ("DPSK4-binary", M.DPSKModulator(4, gray_coding=False), M.DPSKDemodulator(4, gray_coding=False), 2),
                 ("Pi4QPSK-binary", M.Pi4QPSKModulator(gray_coded=False), M.Pi4QPSKDemodulator(), 2)]
    for pname, mod, dem, b in producers:
        mod.eval()
        dem.eval()
        seqs = []
        if b <= 3:
            seqs += [[(v >> (2 * b - 1 - i)) & 1 for i in range(2 * b)] for v in range(1 << (2 * b))]
        for _ in range(4 if quick else 30):
            n = rng.choice([8, 32, 128])
            half = [rng.randint(0, 1) for _ in range(n * b // 2)]
            seqs.append(half + [1 - v for v in half][: n * b - len(half)])          # balanced, for the data-dependent thresholders
        for nv in (1e-2, 1.0, 1e2):
            for s in seqs:
                for m_ in (mod, dem):
                    if hasattr(m_, "reset_state"):
                        m_.reset_state()
                x = torch.tensor([s], dtype=torch.float32)
                y = mod(x)
                llr = dem(y, noise_var=nv)
                exp = list(s)
                if pname.startswith("DPSK"):
                    exp = s[b:]
                elif pname == "OQPSK":
                    I, Q = s[0::2], s[1::2]
                    exp = [v for i in range(len(I)) for v in (I[i], None if i == 0 else Q[i - 1])]
                if llr.shape[-1] != len(exp):
                    ctx.violation("C15/%s/soft-shape" % pname, "%s: %d bits give %d LLRs" % (pname, len(s), llr.shape[-1]), {"producer": pname})
                    break
                ctx.count("producer-sequences")
                # S: the producer alone
                for i, (L, bit) in enumerate(zip(llr.reshape(-1).tolist(), exp)):
                    if bit is not None and abs(L) > 1e-9 and (L < 0) != (bit == 1):
                        ctx.violation("C15/%s/producer-polarity" % pname, "%s: noise-free LLR %+g for transmitted bit %d (position %d, noise variance %g)" % (pname, L, bit, i, nv),
                                      {"producer": pname, "bits": s, "noise_var": nv})
                        break
                for cname, mk, dead in consumers():
                    if cname in ("FixedThresholder", "MinDistanceThresholder") or cname.startswith("AdaptiveThresholder(otsu"):
                        continue              # reported by the consumer grid; otsu needs a bimodal histogram
                    if cname.startswith(("AdaptiveThresholder", "DynamicThresholder")) and not (pname in ("BPSK", "QPSK") and sum(s) * 2 == len(s)):
                        continue              # data-dependent thresholds: only balanced sequences with equal LLR magnitudes
                    mask = [bit is not None and abs(L) > dead for L, bit in zip(llr.reshape(-1).tolist(), exp)]
                    if not any(mask):
                        continue
                    cons = construct(ctx, cname, mk)
                    if cons is None:
                        continue
                    try:
                        r = decide(cons, llr).reshape(-1).tolist()
                    except Exception as ex:
                        ctx.violation("C15/%s/raises" % cname.split("(")[0].split("[")[0], "%s raised on the soft output of %s: %s" % (cname, pname, str(ex)[:100]), {"consumer": cname, "producer": pname})
                        continue
                    ctx.count("producer-consumer-pairs")
                    if b >= 2:
                        ctx.nontriv((pname, cname, tuple(s[:16]), nv))
                    bad = [i for i, (rv, bit, mk_) in enumerate(zip(r, exp, mask)) if mk_ and int(rv) != bit]
                    if bad and not any(v["key"] == "C15/%s/producer-polarity" % pname for v in ctx.violations):
                        ctx.violation("C15/%s->%s/compose" % (pname, cname.split("(")[0].split("[")[0]), "%s fed with the noise-free soft output of %s (noise variance %g): bits %s come back as %s" % (
                            cname, pname, nv, [e for e in exp][:16], [int(v) for v in r][:16]), {"producer": pname, "consumer": cname, "bits": s, "noise_var": nv})
    # ------------------------------------------------------------------ soft-input decoders: +mag means 0
    H = torch.tensor([[1, 1, 0, 1, 0, 0], [0, 1, 1, 0, 1, 0], [1, 0, 1, 0, 0, 1]], dtype=torch.float32)
    ldpc = quiet(E.LDPCCodeEncoder, H)
    spc = E.SingleParityCheckCodeEncoder(4)
    rm = E.ReedMullerCodeEncoder(1, 3)
    polar = quiet(E.PolarCodeEncoder, 4, 8)
    decs = [("BeliefPropagationDecoder", ldpc, quiet(D.BeliefPropagationDecoder, ldpc, bp_iters=5)), ("MinSumLDPCDecoder", ldpc, quiet(D.MinSumLDPCDecoder, ldpc, bp_iters=5)),
            ("WagnerSoftDecisionDecoder", spc, D.WagnerSoftDecisionDecoder(spc)), ("ReedMullerDecoder(soft)", rm, D.ReedMullerDecoder(rm, input_type="soft")),
            ("SuccessiveCancellationDecoder", polar, quiet(D.SuccessiveCancellationDecoder, polar)), ("BeliefPropagationPolarDecoder", polar, quiet(D.BeliefPropagationPolarDecoder, polar))]
    # longer codes and non-default conventions: frozen ones in polar codes, long parity checks with very small / very large LLRs
    for N_, k_ in ((8, 6), (16, 12), (32, 24)):       # high rates: information bits behind several nested check-node steps
        pe = quiet(E.PolarCodeEncoder, k_, N_)
        decs.append(("SuccessiveCancellationDecoder(N=%d,k=%d)" % (N_, k_), pe, quiet(D.SuccessiveCancellationDecoder, pe)))
        decs.append(("BeliefPropagationPolarDecoder(N=%d,k=%d)" % (N_, k_), pe, quiet(D.BeliefPropagationPolarDecoder, pe)))
    for N_, k_ in ((16, 8), (32, 12)):
        for fz in (True, False):
            for pi_ in (False, True):
                try:
                    pe = quiet(E.PolarCodeEncoder, k_, N_, frozen_zeros=fz, polar_i=pi_)
                    decs.append(("SuccessiveCancellationDecoder(N=%d,frozen_zeros=%s,polar_i=%s)" % (N_, fz, pi_), pe, quiet(D.SuccessiveCancellationDecoder, pe)))
                    decs.append(("BeliefPropagationPolarDecoder(N=%d,frozen_zeros=%s,polar_i=%s)" % (N_, fz, pi_), pe, quiet(D.BeliefPropagationPolarDecoder, pe)))
                except Exception as ex:
                    ctx.note("polar N=%d frozen_zeros=%s polar_i=%s: %s" % (N_, fz, pi_, str(ex)[:60]))
    for kk in (15, 31, 63):
        sp_ = E.SingleParityCheckCodeEncoder(kk)
        decs.append(("WagnerSoftDecisionDecoder(SPC %d)" % (kk + 1), sp_, D.WagnerSoftDecisionDecoder(sp_)))
    qam = M.QAMModulator(16)
    qdem = M.QAMDemodulator(16)
    for dname, enc, dec in decs:
        k = int(enc.code_dimension)
        msgs_ = list(range(1 << k)) if k <= 8 else sorted({rng.getrandbits(k) for _ in range(48)} | {0, (1 << k) - 1})
        X = torch.tensor([fec.int_to_bits(m_, k) for m_ in msgs_], dtype=torch.float32)
        C = quiet(enc, X)
        mags = (1e-3, 1e-2, 0.1, 0.5, 1.0, 30.0, 1e3) + ((1e-4, 1e4) if "SPC" in dname else ())
        # unequal per-bit magnitudes as a 16-QAM soft demodulator produces them (noise-free), when the length allows
        if C.shape[1] % 4 == 0 and ("Successive" in dname or "Polar" in dname or "SPC" in dname):
            llr_q = qdem(qam(C), noise_var=0.5)
            out = quiet(dec, llr_q)
            ctx.count("decoder-polarity", X.shape[0])
            if not torch.equal(out.float(), X):
                j = int((out.float() != X).any(dim=1).nonzero()[0])
                ctx.violation("C15/%s/polarity" % dname.split("(")[0], "%s fed with the noise-free soft output of 16-QAM: message %s comes back as %s" % (dname, [int(v) for v in X[j].tolist()], [int(v) for v in out[j].tolist()]), {"decoder": dname})
                continue
        for mag in mags:
            out = quiet(dec, (1 - 2 * C) * mag)
            ctx.count("decoder-polarity", X.shape[0])
            if not torch.equal(out.float(), X):
                ctx.violation("C15/%s/polarity" % dname.split("(")[0], "%s: LLRs +%g for 0 / -%g for 1 of the codewords do not decode to the messages" % (dname, mag, mag), {"decoder": dname, "magnitude": mag})
                break
    # the two-input check-node rules themselves: sign = product of signs on the whole magnitude grid (polarity only: magnitudes are C10/C11's business)
    from kaira.models.fec import utils as FU
    grid = [s_ * m_ for m_ in (1e-3, 3e-3, 1e-2, 0.1, 0.5, 1.0, 3.0, 10.0, 30.0, 100.0, 1e3) for s_ in (1, -1)]
    for fname in ("sum_product", "min_sum"):
        f_ = getattr(FU, fname, None)
        if f_ is None:
            continue
        xs = torch.tensor([a for a in grid for _ in grid], dtype=torch.float32)
        ys = torch.tensor([b for _ in grid for b in grid], dtype=torch.float32)
        out = f_(xs, ys)
        ctx.count("check-node-rule-points", int(xs.numel()))
        bad = (torch.sign(out) != torch.sign(xs) * torch.sign(ys))
        if bool(bad.any()):
            j = int(bad.nonzero()[0])
            ctx.violation("C15/%s/check-node-sign" % fname, "%s(%g, %g) = %g: a check of two LLRs must carry the product of their signs" % (fname, float(xs[j]), float(ys[j]), float(out[j])),
                          {"function": fname, "x": float(xs[j]), "y": float(ys[j])})
    ctx.assumptions += ["real-number theorems use the standard-library axioms of Coq's Reals (named in axioms_used)",
                        "HysteresisThresholder is exercised outside the dead zone of its default thresholds (|LLR| > ln 1.5): inside it the output is the previous state by design",
                        "data-dependent thresholders (adaptive mean/median, dynamic) are exercised on balanced inputs; their decision is proved monotone, the threshold itself is data"]
    ctx.cov["exhaustive"] = False


def replay(rep):
    import_kaira()
    import torch
    from kaira.models.binary import soft_bit_thresholding as T
    r = rep.get("replay", {})
    print("replay of", rep.get("key"), r)
    if "llr" in r and r.get("consumer", "").startswith("FixedThresholder"):
        print(T.FixedThresholder(input_type=T.InputType.LLR)(torch.tensor([r["llr"]])))
    return 0
