"""C13 -- flat fading: block-constant, correctly normalised gains, y = h.x + n.

P: coq/Props/C13.v (block constancy and coverage for every length / coherence time incl. non-divisors, y = h.x + n
   position by position, shape, batch items with their own coefficients; Rayleigh / Rician unit gain and K-factor
   split for every draw list; noise stage = C07's complex stage on the faded signal).
T: kernel-evaluated on implementation output: _expand_coefficients on integer coefficients; forward(x, csi, noise)
   on small-integer data (exact); coefficients observed through x = 1 without noise are the expansion of their block
   heads with distinct neighbours; Rician coefficients under the same seed as K = 0 (K + 1 a perfect square);
   noise under the same seed as unit noise power, SNR referred to the faded signal (C07 checkers).
S: on the implementation alone: shapes and dtypes, block constancy on every generated case, independence across blocks
   and batch items (distinctness; sample correlation), E|h|^2 = 1, LOS/scattered = K on >= 2^20..2^22 blocks (6.5 sigma).
"""
import math
from fractions import Fraction

from common import cQ, cZ, cnat, import_kaira
from props.c07 import TOL, ZS, cql

HDR = """From Coq Require Import QArith List Bool ZArith Arith.
Import ListNotations.
From KV Require Import Chan.Fading Chan.NoiseQ Chan.C07Cases Chan.C13Cases.
"""
FINISH = dict(level="proof", rule=(
    "fading in {rayleigh, rician K in {0,.5,1,3,8,15,99,100}, lognormal} (base class and the three convenience classes) x coherence "
    "times 1..L incl. non-divisors and > L x real/complex x shapes 1-D, (B,L), (B,C,H,W) x noise by power / SNR; "
    "non-trivial = coherence time that does not divide the length or K > 0; distinct = distinct (fading, K, ct, shape, dtype, seed)"))


def cc(t):
    """complex tensor -> Coq list of (Q * Q)"""
    return "[" + "; ".join("(%s, %s)" % (cQ(Fraction(float(z.real))), cQ(Fraction(float(z.imag)))) for z in t.reshape(-1)) + "]"


def run(ctx):
    ok = ctx.build_props([], ["Chan/C13Cases.vo"])
    ctx.log("props built", ok)
    import_kaira()
    import torch
    import kaira.channels as C
    rng = ctx.rng
    quick = ctx.quick
    exprs, meta = [], []

    def add(expr, key, what, rep):
        exprs.append(expr)
        meta.append((key, what, rep))

    def makers(ct, kind, v):
        kw = {kind: v}
        out = [("rayleigh", None, lambda: C.FlatFadingChannel("rayleigh", coherence_time=ct, **kw)),
               ("rayleigh", None, lambda: C.RayleighFadingChannel(coherence_time=ct, **kw)),
               ("lognormal", None, lambda: C.FlatFadingChannel("lognormal", coherence_time=ct, shadow_sigma_db=4.0, **kw)),
               ("lognormal", None, lambda: C.LogNormalFadingChannel(shadow_sigma_db=6.0, coherence_time=ct, **kw))]
        for K in (0.0, 0.5, 3.0, 100.0):
            out.append(("rician", K, lambda K=K: C.FlatFadingChannel("rician", coherence_time=ct, k_factor=K, **kw)))
        out.append(("rician", 8.0, lambda: C.RicianFadingChannel(k_factor=8.0, coherence_time=ct, **kw)))
        return out

    # ------------------------------------------------------------------ _expand_coefficients on integer coefficients
    for L in ([1, 2, 5, 7, 12] if quick else list(range(1, 14)) + [31, 64]):
        for ct in sorted(set([1, 2, 3, 4, 5, 7, L, L + 1, 2 * L + 3])):
            nb = (L + ct - 1) // ct
            ch = C.FlatFadingChannel("rayleigh", coherence_time=ct, avg_noise_power=0.0)
            B = 2
            h = torch.complex(torch.arange(1, B * nb + 1, dtype=torch.float32).reshape(B, nb), torch.zeros(B, nb))
            e = ch._expand_coefficients(h, L)
            ctx.count("expand-cases")
            if L % ct:
                ctx.nontriv(("expand", L, ct))
            if tuple(e.shape) != (B, L):
                ctx.violation("C13/expand/shape", "_expand_coefficients: %s coefficients for length %d, coherence time %d give shape %s" % (tuple(h.shape), L, ct, tuple(e.shape)), {"L": L, "ct": ct})
                continue
            for b in range(B):
                add("c13_expand_ok %s %s %s %s" % (cnat(ct), cnat(L), "[" + "; ".join(cZ(int(v.real)) for v in h[b]) + "]", "[" + "; ".join(cZ(int(v.real)) for v in e[b]) + "]"),
                    "C13/expand/value", "_expand_coefficients(L=%d, coherence_time=%d) = %s for block coefficients %s" % (L, ct, [int(v.real) for v in e[b]], [int(v.real) for v in h[b]]), {"L": L, "ct": ct})

    # every coherence time 1..T_max, several blocks each: sample i carries the coefficient of block i // ct (integer arithmetic reference)
    for ct in range(1, (257 if quick else 1025)):
        L = (8 if ct <= 64 else 3) * ct + 1
        nb = (L + ct - 1) // ct
        ch = C.FlatFadingChannel("rayleigh", coherence_time=ct, avg_noise_power=0.0)
        h = torch.complex(torch.arange(1, nb + 1, dtype=torch.float32).reshape(1, nb), torch.zeros(1, nb))
        e = ch._expand_coefficients(h, L)
        ctx.count("expand-sweep")
        want = [i // ct + 1 for i in range(L)]
        got = [int(v) for v in e[0].real.tolist()] if tuple(e.shape) == (1, L) else None
        if got != want:
            bad = [i for i in range(L) if got is None or got[i] != want[i]][:6]
            ctx.violation("C13/expand/value", "_expand_coefficients(L=%d, coherence_time=%d): samples %s do not carry the coefficient of block i // %d" % (L, ct, bad, ct), {"L": L, "ct": ct})
            break
    # and through forward(): generated gains are constant exactly on the blocks [k*ct, (k+1)*ct) for large coherence times too
    for ct in ([41, 47, 61, 83, 97, 110, 127] if quick else list(range(33, 160))):
        L = 4 * ct + 3
        for mk_ in (lambda: C.RayleighFadingChannel(coherence_time=ct, avg_noise_power=0.0), lambda: C.FlatFadingChannel("rician", coherence_time=ct, k_factor=2.0, avg_noise_power=0.0)):
            y = mk_()(torch.ones(2, L))
            ctx.count("forward-block-sweep")
            for b in range(2):
                g = y[b].reshape(-1)
                chg = [i for i in range(1, L) if g[i] != g[i - 1]]
                if chg != [k * ct for k in range(1, (L + ct - 1) // ct)]:
                    ctx.violation("C13/block-constancy/large-coherence-time", "coherence time %d, length %d: the gain changes at samples %s, block boundaries are %s" % (ct, L, chg[:8], [k * ct for k in range(1, (L + ct - 1) // ct)][:8]),
                                  {"ct": ct, "L": L})
                    break
    # ------------------------------------------------------------------ supplied csi and noise: y = h.x + n exactly; shape / dtype
    shapes = [(7,), (1,), (3, 5), (1, 6), (2, 2, 3), (2, 3, 2, 2)]
    for shape in shapes:
        for cplx in (False, True):
            for kind, v in (("avg_noise_power", 0.2), ("snr_db", 7.0)):
                B = shape[0] if len(shape) > 1 else 1
                L = 1
                for s_ in shape[1:] if len(shape) > 1 else shape:
                    L *= s_
                gi = lambda *sh: torch.randint(-4, 5, sh).float()      # noqa: E731
                x = torch.complex(gi(*shape), gi(*shape)) if cplx else gi(*shape)
                h = torch.complex(gi(B, L), gi(B, L))
                nz = torch.complex(gi(B, L), gi(B, L))
                ch = C.FlatFadingChannel("rician", coherence_time=2, k_factor=2.0, **{kind: v})
                rep = {"shape": list(shape), "complex": cplx, kind: v}
                ctx.count("supplied-csi-noise")
                ctx.nontriv(("supplied", shape, cplx, kind))
                try:
                    y = ch(x, csi=h, noise=nz)
                except Exception as ex:
                    ctx.violation("C13/forward/supplied-raises", "forward(x, csi, noise) raised for input shape %s: %s" % (shape, str(ex)[:100]), rep)
                    continue
                if tuple(y.shape) != tuple(shape):
                    ctx.violation("C13/forward/shape", "forward(x, csi, noise): input shape %s, output shape %s" % (shape, tuple(y.shape)), rep)
                    continue
                # the same input held as a permuted view (non-contiguous strides): the same output
                if len(shape) >= 2 and min(shape[0], shape[1]) > 1:
                    xv = x.transpose(0, 1).contiguous().transpose(0, 1)
                    x0 = xv.clone()
                    try:
                        yv = ch(xv, csi=h, noise=nz)
                        ctx.count("view-cases")
                        if not torch.equal(xv, x0) or tuple(yv.shape) != tuple(y.shape) or not torch.equal(yv, y):
                            ctx.violation("C13/forward/view", "forward(x, csi, noise) on an input of shape %s held with strides %s differs from the same values held contiguously (or modifies the input)" % (shape, tuple(xv.stride())), rep)
                    except Exception:
                        ctx.count("views-rejected")
                xc = (x if cplx else torch.complex(x, torch.zeros_like(x))).reshape(B, L)
                add("c13_forward_ok %s %s %s %s" % (cc(h), cc(xc), cc(nz), cc(y)), "C13/forward/supplied-csi-noise",
                    "forward(x, csi=h, noise=n) differs from h.x + n for input shape %s (%s)" % (shape, "complex" if cplx else "real"), rep)

    # ------------------------------------------------------------------ generated coefficients: structure, same-seed relations
    cases = [((12,), 5), ((12,), 1), ((12,), 12), ((12,), 30), ((3, 10), 4), ((3, 10), 3), ((2, 3, 2, 2), 5), ((2, 3, 4, 4), 7), ((1, 9), 2), ((4, 1), 3)]
    if not quick:
        cases += [((64,), c_) for c_ in (6, 9, 63, 65)] + [((5, 33), c_) for c_ in (2, 8, 32, 33, 34)]
    for shape, ct in cases:
        B = shape[0] if len(shape) > 1 else 1
        L = 1
        for s_ in (shape[1:] if len(shape) > 1 else shape):
            L *= s_
        for fading, K, mk in makers(ct, "avg_noise_power", 0.0):
            for cplx in (False, True):
                seed = rng.randrange(1 << 30)
                one = torch.ones(shape, dtype=torch.complex128 if cplx else torch.float64)
                torch.manual_seed(seed)
                rep = {"fading": fading, "k_factor": K, "coherence_time": ct, "shape": list(shape), "complex": cplx, "seed": seed}
                cls = "%s/%s" % (fading, "divisor" if L % ct == 0 else "non-divisor")
                ctx.count("generated-cases")
                if L % ct or (K or 0) > 0:
                    ctx.nontriv((fading, K, ct, shape, cplx))
                try:
                    hf = mk()(one)
                except Exception as ex:
                    ctx.violation("C13/%s/raises" % cls, "%s fading, coherence time %d raised on input shape %s: %s" % (fading, ct, shape, str(ex)[:100]), rep)
                    continue
                if tuple(hf.shape) != tuple(shape) or not torch.is_complex(hf):
                    ctx.violation("C13/%s/shape" % cls, "%s fading: input shape %s -> output shape %s dtype %s" % (fading, shape, tuple(hf.shape), hf.dtype), rep)
                    continue
                hf2 = hf.reshape(B, L)
                for b in range(B):
                    add("c13_blocks_ok %s %s %s" % (cnat(ct), cnat(L), cc(hf2[b])), "C13/%s/block-constant" % cls,
                        "%s fading, coherence time %d, length %d: the gains of batch item %d are not constant on blocks of %d with distinct neighbouring blocks: %s" % (
                            fading, ct, L, b, ct, [complex(round(z.real, 3), round(z.imag, 3)) for z in hf2[b].tolist()][:12]), rep)
                heads = hf2[:, ::ct]
                flat = heads.reshape(-1)
                if flat.numel() > 1 and len(set((round(float(z.real), 7), round(float(z.imag), 7)) for z in flat)) < flat.numel():
                    ctx.violation("C13/%s/independent-draws" % cls, "%s fading: two blocks / batch items share the same coefficient (shape %s, coherence time %d)" % (fading, shape, ct), rep)
                # a second input scaled and shifted sees y = h.x with the same h under the same seed
                x = torch.randn(shape, dtype=torch.float64)
                if cplx:
                    x = torch.complex(x, torch.randn(shape, dtype=torch.float64))
                torch.manual_seed(seed)
                y = mk()(x)
                if not torch.allclose(y, hf * x, rtol=1e-6, atol=1e-9):
                    ctx.violation("C13/%s/multiplicative" % cls, "%s fading (no noise): y != h.x with the coefficients observed under the same seed" % fading, rep)
                # Rician under the same seed as K = 0
                if fading == "rician" and K in (3.0, 8.0) and not cplx:
                    torch.manual_seed(seed)
                    h0 = C.FlatFadingChannel("rician", coherence_time=ct, k_factor=0.0, avg_noise_power=0.0)(one).reshape(-1)
                    hk = hf.reshape(-1)
                    r = int(round(math.sqrt(K + 1)))
                    add("c13_rician_ok %s %s %s %s %s %s %s" % (cQ(Fraction(K)), cQ(Fraction(r)), cQ(Fraction(1, 100000)), cql(h0.real), cql(hk.real), cql(h0.imag), cql(hk.imag)),
                        "C13/rician/same-seed-k-factor", "rician K=%g: under the same seed as K=0 the coefficients are not sqrt(K/(K+1)) + h0/sqrt(K+1)" % K, rep)
        # noise stage relative to the faded signal (same seed: coefficients first, then noise)
        for fading, K, _ in makers(ct, "avg_noise_power", 0.0)[:1] + makers(ct, "avg_noise_power", 0.0)[6:7]:
            for cplx in (False, True):
                seed = rng.randrange(1 << 30)
                x = torch.randn(shape, dtype=torch.float64) * rng.choice([0.1, 1.0, 20.0])
                if cplx:
                    x = torch.complex(x, torch.randn(shape, dtype=torch.float64))
                mkk = lambda kind, v: [m for f_, K_, m in makers(ct, kind, v) if (f_, K_) == (fading, K)][0]()        # noqa: E731
                torch.manual_seed(seed)
                faded = mkk("avg_noise_power", 0.0)(x)
                torch.manual_seed(seed)
                ref = mkk("avg_noise_power", 1.0)(x) - faded
                S = float((faded.abs() ** 2).mean())
                refl = torch.cat([ref.real.reshape(-1), ref.imag.reshape(-1)])
                rep = {"fading": fading, "k_factor": K, "coherence_time": ct, "shape": list(shape), "complex": cplx, "seed": seed}
                ctx.count("noise-stage-cases")
                for P in (0.01, 2.5):
                    torch.manual_seed(seed)
                    n = mkk("avg_noise_power", P)(x) - faded
                    nl = torch.cat([n.real.reshape(-1), n.imag.reshape(-1)])
                    add("c07_scale %s %s %s %s" % (cQ(Fraction(P)), cQ(TOL), cql(refl), cql(nl)), "C13/%s/noise-power" % fading,
                        "%s fading: with the same seed the noise at power %g is not sqrt(%g) times the noise at power 1" % (fading, P, P), dict(rep, noise_power=P))
                for nn, dd in ((-5, 1), (10, 1), (27, 2)):
                    torch.manual_seed(seed)
                    n = mkk("snr_db", nn / dd)(x) - faded
                    nl = torch.cat([n.real.reshape(-1), n.imag.reshape(-1)])
                    add("c07_snr %s %s (%d)%%Z %d%%positive %s %s" % (cQ(TOL), cQ(Fraction(S)), nn, dd, cql(refl), cql(nl)), "C13/%s/noise-snr" % fading,
                        "%s fading at %g dB: the noise power is not (power of the faded signal %g) / 10^(%g/10)" % (fading, nn / dd, S, nn / dd), dict(rep, snr_db=nn / dd))

    # a K-factor written as a Python int behaves like the float; parameters re-assigned on a live channel object take effect
    for K in (0, 1, 5, 100):
        for ct, shape in ((3, (2, 9)), (1, (7,))):
            seed = rng.randrange(1 << 30)
            one = torch.ones(shape, dtype=torch.float64)
            outs = []
            for kv in (K, float(K)):
                for mk in (lambda kv=kv: C.RicianFadingChannel(k_factor=kv, coherence_time=ct, avg_noise_power=0.0), lambda kv=kv: C.FlatFadingChannel("rician", coherence_time=ct, k_factor=kv, avg_noise_power=0.0)):
                    torch.manual_seed(seed)
                    outs.append(mk()(one))
            ctx.count("int-k-cases")
            ctx.nontriv(("int-k", K, ct))
            if not all(torch.allclose(o, outs[-1], rtol=1e-6, atol=1e-7) for o in outs):
                ctx.violation("C13/rician/int-k-factor", "rician fading with k_factor=%d (a Python int) gives coefficients %s, with k_factor=%.1f and the same seed %s" % (
                    K, [complex(round(z.real, 4), round(z.imag, 4)) for z in outs[0].reshape(-1)[:3].tolist()], float(K), [complex(round(z.real, 4), round(z.imag, 4)) for z in outs[-1].reshape(-1)[:3].tolist()]),
                    {"k_factor": K, "coherence_time": ct, "seed": seed})
    for fading, mk0 in (("rayleigh", lambda **kw: C.RayleighFadingChannel(coherence_time=2, **kw)), ("rician", lambda **kw: C.FlatFadingChannel("rician", coherence_time=3, k_factor=2.0, **kw))):
        for kind, first, second in (("snr_db", 0.0, 20.0), ("snr_db", 15.0, -5.0), ("avg_noise_power", 0.01, 2.0)):
            x = torch.randn(3, 12, dtype=torch.float64)
            ch = mk0(**{kind: first})
            seed = rng.randrange(1 << 30)
            torch.manual_seed(seed)
            ch(x)
            setattr(ch, kind, second)
            torch.manual_seed(seed + 1)
            a = ch(x)
            torch.manual_seed(seed + 1)
            b = mk0(**{kind: second})(x)
            ctx.count("reassigned-parameter-cases")
            if not torch.allclose(a, b, rtol=1e-6, atol=1e-9):
                ctx.violation("C13/%s/parameter-reassigned" % fading, "%s fading: after one forward at %s=%g and `channel.%s = %g` the channel still behaves as before (differs from a fresh channel at %g under the same seed)" % (
                    fading, kind, first, kind, second, second), {"fading": fading, "kind": kind, "first": first, "second": second})
    ctx.log("deterministic cases prepared", len(exprs))
    # ------------------------------------------------------------------ statistics of the gains
    NB = 1 << 20 if quick else 1 << 22
    stats = [("rayleigh", None, lambda ct: C.RayleighFadingChannel(coherence_time=ct, avg_noise_power=0.0)),
             ("rayleigh", None, lambda ct: C.FlatFadingChannel("rayleigh", coherence_time=ct, avg_noise_power=0.0))]
    for K in ([0.0, 1.0, 3.7, 5, 100.0] if quick else [0.0, 0.1, 0.5, 1.0, 2, 3.7, 5, 10.0, 40.0, 100.0]):
        stats.append(("rician", K, lambda ct, K=K: C.RicianFadingChannel(k_factor=K, coherence_time=ct, avg_noise_power=0.0)))
        stats.append(("rician", K, lambda ct, K=K: C.FlatFadingChannel("rician", coherence_time=ct, k_factor=K, avg_noise_power=0.0)))
    for idx, (fading, K, mk) in enumerate(stats):
        ct = (1, 3, 4)[idx % 3]
        Bn, Ln = (1024, NB // 1024 * ct) if idx % 2 == 0 else (NB // 64, 64 * ct - (ct - 1))       # the second layout ends in a partial block
        torch.manual_seed(rng.randrange(1 << 30))
        h = mk(ct)(torch.ones(Bn, Ln))[:, ::ct]
        nblk = h.numel()
        ctx.count("gain-statistics-cases")
        ctx.count("gain-statistics-blocks", nblk)
        ctx.nontriv((fading, K, "stat", idx))
        hd = h.to(torch.complex128)
        g2 = float((hd.abs() ** 2).mean())
        # var(|h|^2) <= 1 for Rayleigh (exponential), smaller for Rician; 4th-moment bound 2 covers both
        tol = ZS * math.sqrt(2.0 / nblk) + 1e-5
        rep = {"fading": fading, "k_factor": K, "coherence_time": ct, "blocks": nblk}
        if abs(g2 - 1.0) > tol:
            ctx.violation("C13/%s/unit-gain" % fading, "%s fading%s: mean |h|^2 = %.5f over %d blocks (tolerance %.4f)" % (fading, "" if K is None else " K=%g" % K, g2, nblk, tol), dict(rep, measured=g2))
        mean = complex(hd.mean())
        sc = hd - (math.sqrt(K / (K + 1)) if K else 0.0)
        k_exp = K or 0.0
        # LOS amplitude (mean of h) and scattered power
        s2 = 1.0 / (k_exp + 1)
        if abs(mean - math.sqrt(k_exp / (k_exp + 1))) > ZS * math.sqrt(s2 / nblk) * 1.5 + 1e-6:
            ctx.violation("C13/%s/line-of-sight" % fading, "%s fading K=%s: mean coefficient %s, expected sqrt(K/(K+1)) = %.5f" % (fading, K, mean, math.sqrt(k_exp / (k_exp + 1))), rep)
        sp = float((sc.abs() ** 2).mean())
        if abs(sp - s2) > (ZS * math.sqrt(2.0 / nblk) + 1e-5) * s2 * 1.5:
            ctx.violation("C13/%s/scattered-power" % fading, "%s fading K=%s: scattered power %.6f, expected 1/(K+1) = %.6f (LOS/scattered = %.4f instead of %s)" % (
                fading, K, sp, s2, (abs(mean) ** 2) / max(sp, 1e-30), K), rep)
        for nm, part in (("real", sc.real), ("imag", sc.imag)):
            pv = float((part ** 2).mean())
            if abs(pv - s2 / 2) > (ZS * math.sqrt(2.0 / nblk) + 1e-5) * s2 / 2 * 1.5:
                ctx.violation("C13/%s/component-balance" % fading, "%s fading K=%s: scattered %s part has power %.6f, expected %.6f" % (fading, K, nm, pv, s2 / 2), rep)
        # independence across blocks and batch items: sample correlation of neighbours
        a = sc[:, :-1].reshape(-1)
        b = sc[:, 1:].reshape(-1)
        corr_blocks = abs(complex((a * b.conj()).mean())) / s2
        a2 = sc[:-1, :].reshape(-1)
        b2 = sc[1:, :].reshape(-1)
        corr_items = abs(complex((a2 * b2.conj()).mean())) / s2
        for nm, cv, cnt in (("blocks", corr_blocks, a.numel()), ("batch items", corr_items, a2.numel())):
            if cv > ZS * 1.5 / math.sqrt(cnt):
                ctx.violation("C13/%s/independence" % fading, "%s fading: neighbouring %s are correlated (|rho| = %.4f over %d pairs)" % (fading, nm, cv, cnt), rep)

    ctx.log("statistics done")
    if ok and exprs:
        res = ctx.coq_eval("c13", HDR, exprs, per_file=40, timeout=1500)
        ctx.count("kernel-evaluated-checks", len(res))
        for (key, what, rep), v in zip(meta, res):
            if v is not True:
                ctx.violation(key, what, rep)
    ctx.sample({"blocks_per_statistical_case": NB, "kernel_checks": len(exprs)})
    ctx.assumptions += ["A-rng: torch.randn draws i.i.d. standard normal samples (validated through second moments, means and neighbour correlation only)",
                        "log-normal shadowing is checked for structure (block constancy, shape, noise stage) only: the property asks unit mean-square gain of Rayleigh and Rician fading",
                        "float arithmetic: exact rationals of float64 runs compared with relative tolerance 2e-5 on squares"]
    ctx.cov["exhaustive"] = False


def replay(rep):
    import_kaira()
    print("replay of", rep.get("key"), rep.get("replay"))
    return 0
