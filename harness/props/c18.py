"""C18 -- binary polynomial and GF(2^m) arithmetic (kaira/models/fec/algebra.py).

P: coq/Props/C18.v (ring laws, Euclidean division, gcd/Bezout, lcm, field laws from the regenerated
   modulus table, order of the designated primitive element).
T: model (Algebra/BinPoly.v, GF2m.v, Field.v) evaluated in Coq vs the implementation:
   exhaustive grids compared by per-row digests (drill-down on mismatch), random big operands compared
   value by value.
S: the laws themselves checked on the implementation's outputs (independent of the model).
"""
import random

from common import cN, clist, import_kaira
from translate import primpolys

HDR = """From Coq Require Import NArith ZArith List Bool.
Import ListNotations.
From KV Require Import Algebra.BinPoly Algebra.GF2m Algebra.Field Algebra.C18Cases.
Local Open Scope N_scope.
"""
MOD = 2305843009213693951

FINISH = dict(level="proof", rule=(
    "polynomials: every pair (a,b) below the grid bound with every operator (exhaustive) + seeded random pairs "
    "up to degree 200; fields: every pair / element for small m (exhaustive) + seeded random elements for large m; "
    "a case is non-trivial when both operands are non-zero and not 1; distinct = distinct (operator, operands)"))


def digest(vals):
    acc = 7
    for v in vals:
        acc = (acc * 1000003 + v + 1) % MOD
    return acc


def oN(v):
    return 0 if v is None else v + 1


# ---- independent reference arithmetic (for the oracle only) ---------------------------------
def ref_clmul(a, b):
    r = 0
    while b:
        if b & 1:
            r ^= a
        a <<= 1
        b >>= 1
    return r


def ref_divmod(a, d):
    q = 0
    dl = d.bit_length()
    while a.bit_length() >= dl:
        s = a.bit_length() - dl
        q ^= 1 << s
        a ^= d << s
    return q, a


def ref_irreducible(p):
    d = p.bit_length() - 1
    if d <= 0:
        return False
    for f in range(2, 1 << (d // 2 + 1)):
        if f.bit_length() - 1 >= 1 and ref_divmod(p, f)[1] == 0 and f != p:
            return False
    return True


class Impl:
    def __init__(self):
        import_kaira()
        from kaira.models.fec.algebra import BinaryPolynomial, FiniteBifield
        self.BP = BinaryPolynomial
        self.FB = FiniteBifield
        FiniteBifield._instances.clear()

    def guard(self, f):
        try:
            return f()
        except (ValueError, ZeroDivisionError, RuntimeError, NotImplementedError):
            return None

    def poly_ops(self, a, b):
        A, B = self.BP(a), self.BP(b)
        return [(A * B).value, oN(self.guard(lambda: (A % B).value)), oN(self.guard(lambda: A.div(B).value)),
                oN(self.guard(lambda: A.gcd(B).value)), oN(self.guard(lambda: A.lcm(B).value))]

    def poly_unary(self, a):
        A = self.BP(a)
        cl = A.to_coefficient_list()
        return [A.degree + 1, A.derivative().value, sum(int(c) << i for i, c in enumerate(cl)), len(cl),
                A.evaluate(0), A.evaluate(1), A.evaluate(2), A.evaluate(3), A.evaluate(5)]

    def field(self, m):
        return self.FB(m)

    def f_binary(self, m, a, b):
        F = self.field(m)
        return [(F(a) + F(b)).value, (F(a) * F(b)).value]

    def f_unary(self, m, a):
        F = self.field(m)
        x = F(a)
        return [oN(self.guard(lambda: x.inverse().value)), x.trace(), digest([c.value for c in x.conjugates()])]

    def f_minpoly(self, m, a):
        F = self.field(m)
        x = self.FB.__call__(F, a)
        # bypass the per-element cache so the search really runs
        from kaira.models.fec.algebra import FiniteBifieldElement
        x = FiniteBifieldElement(F, a)
        return oN(self.guard(lambda: x.minimal_polynomial().value))

    def f_pow(self, m, a, e):
        return (self.field(m)(a) ** e).value


OPN = ["__mul__", "__mod__", "div", "gcd", "lcm"]


def run(ctx):
    ok = ctx.build_props([primpolys.generate], ["Algebra/C18Cases.vo"])
    ctx.log('props built', ok)
    im = Impl()
    ctx.log('kaira imported')
    rng = ctx.rng
    quick = ctx.quick
    # ------------------------------------------------------------------ fields: table / primitive element
    try:
        tab = primpolys.extract(__import__("common").REPO)
    except Exception as e:      # translator fail-closed: theorems no longer tied; fall back to searching the implementation
        ctx.note("translator failed (%s): oracle-only search on the implementation" % e)
        oracle_only(ctx, im, rng, quick)
        return
    ms = sorted(tab["table"])
    info = ctx.coq_eval("finfo", HDR, ["map (fun m => f_info (N.of_nat m)) %s" % clist(ms, lambda m: "%d%%nat" % m)])[0]
    for m, (pmv, primv, order) in zip(ms, info):
        F = im.field(m)
        ctx.count("field-info")
        if F.modulus.value != pmv or F.primitive_element().value != primv:
            ctx.violation("C18/translator/modulus-table/m=%d" % m,
                          "translator and running code disagree on modulus/primitive element for m=%d" % m,
                          {"m": m, "impl": [F.modulus.value, F.primitive_element().value], "gen": [pmv, primv]},
                          found_input=False)
        # S: order of the designated primitive element on the implementation
        g = F.primitive_element()
        cur, j = g, 1
        n = (1 << m) - 1
        while cur.value != 1 and j <= n:
            cur = cur * g
            j += 1
        if cur.value != 1 or j != n or F.modulus.degree != m:
            ctx.violation("C18/FiniteBifield/primitive-order/m=%d" % m,
                          "GF(2^%d): designated primitive element %d has order %s (needs %d); modulus degree %d"
                          % (m, g.value, j if cur.value == 1 else "none", n, F.modulus.degree),
                          {"m": m, "modulus": F.modulus.value, "element": g.value, "observed_order": j if cur.value == 1 else None})
        elif order != n:
            ctx.broken.append("model/impl disagree on order of primitive element for m=%d" % m)
    ctx.sample({"field_info(m, [modulus, primitive, order])": list(zip(ms, info))[:4]})

    ctx.log('field info done')
    # ------------------------------------------------------------------ polynomial grid (exhaustive)
    NB = 128 if quick else 256
    rows = list(range(NB))
    shard = 8 if quick else 16
    exprs = ["map (poly_row %d%%nat) %s" % (NB, clist(rows[i:i + shard], cN)) for i in range(0, NB, shard)]
    model_rows = [v for part in ctx.coq_eval("pgrid", HDR, exprs) for v in part]
    for a in rows:
        ops = [im.poly_ops(a, b) for b in range(NB)]
        un = im.poly_unary(a)
        ctx.count("poly-grid", NB * 5 + len(un))
        for b in range(NB):
            if a > 1 and b > 1:
                ctx.nontriv(("p", a, b))
            poly_oracle(ctx, a, b, ops[b])
        d = digest(un + [v for o in ops for v in o])
        if d != model_rows[a]:
            drill_poly(ctx, im, a, NB)
    ctx.sample({"poly_ops(a=11,b=6) [mul, mod+1, div+1, gcd+1, lcm+1]": im.poly_ops(11, 6)})

    ctx.log('poly grid done')
    # ------------------------------------------------------------------ random big polynomials
    nrand = 600 if quick else 20000
    cases = []
    for i in range(nrand):
        da = rng.choice([rng.randint(0, 12), rng.randint(8, 70), rng.randint(60, 200)])
        db = rng.choice([rng.randint(0, 12), rng.randint(1, da + 1), rng.randint(0, 200)])
        a = rng.getrandbits(da + 1) | (1 << da)
        b = rng.getrandbits(db + 1) | (1 << db)
        if i % 50 == 0:
            b = a
        if i % 97 == 0:
            b = ref_clmul(a, rng.getrandbits(20) | 1)   # exact multiples (gcd/lcm/div paths)
        if i % 101 == 0:
            a, b = ref_clmul(a, 0b111), ref_clmul(b, 0b111)  # common factor
        cases.append((a, b))
    impl = [im.poly_ops(a, b) for a, b in cases]
    for (a, b), o in zip(cases, impl):
        ctx.count("poly-random", 5)
        ctx.nontriv(("p", a, b))
        poly_oracle(ctx, a, b, o)
    per = 100
    exprs = []
    for i in range(0, nrand, per):
        items = ["(%s, %s, %s)" % (cN(a), cN(b), clist(o, cN)) for (a, b), o in zip(cases[i:i + per], impl[i:i + per])]
        exprs.append("map (fun '(a, b, o) => if list_eq_dec N.eq_dec (poly_ops a b) o then [] else poly_ops a b) [%s]"
                     % "; ".join(items))
    res = [v for part in ctx.coq_eval("prand", HDR, exprs) for v in part]
    for (a, b), o, mv in zip(cases, impl, res):
        if mv != []:
            for k, (x, y) in enumerate(zip(o, mv)):
                if x != y:
                    ctx.broken.append("correspondence BinaryPolynomial.%s(%d,%d): impl %d model %d" % (OPN[k], a, b, x, y))
    ctx.sample({"random poly case (a, b, impl ops)": [cases[0][0], cases[0][1], impl[0]]})

    ctx.log('poly random done')
    # ------------------------------------------------------------------ field grids
    full_ms = [m for m in ms if m <= (6 if quick else 8)]
    exprs, index = [], []
    for m in full_ms:
        n = 1 << m
        step = max(1, min(n, 16 if m >= 7 else 64))
        for s in range(0, n, step):
            exprs.append("map (f_row %d) %s" % (m, clist(range(s, min(n, s + step)), cN)))
            index.append((m, s, min(n, s + step)))
    parts = ctx.coq_eval("fgrid", HDR, exprs)
    for (m, s, e), part in zip(index, parts):
        n = 1 << m
        for a, mv in zip(range(s, e), part):
            vals = im.f_unary(m, a) + [v for b in range(n) for v in im.f_binary(m, a, b)]
            ctx.count("field-grid", len(vals))
            if a > 1:
                ctx.nontriv(("f", m, a))
            if digest(vals) != mv:
                drill_field(ctx, im, m, a)
    # S on the implementation: field laws (exhaustive for m <= 4 triples, pairs above)
    for m in full_ms:
        field_oracle(ctx, im, m, rng, triples=(m <= (3 if quick else 5)))
    # sample rows of the bigger fields
    big = [m for m in ms if m not in full_ms]
    nel = 12 if quick else 200
    exprs, index = [], []
    for m in big:
        n = 1 << m
        els = sorted(set([0, 1, 2, n - 1] + [rng.randrange(n) for _ in range(nel)]))
        pairs = [(a, rng.randrange(n)) for a in els for _ in range(4)]
        exprs.append("(map (fun a => f_unary %d a) %s, map (fun '(a,b) => f_binary %d a b) [%s])" % (
            m, clist(els, cN), m, "; ".join("(%s,%s)" % (cN(a), cN(b)) for a, b in pairs)))
        index.append((m, els, pairs))
    parts = ctx.coq_eval("fbig", HDR, exprs)
    for (m, els, pairs), (un, bi) in zip(index, parts):
        for a, mv in zip(els, un):
            iv = im.f_unary(m, a)
            ctx.count("field-random", 3)
            ctx.nontriv(("f", m, a))
            if iv != mv:
                ctx.broken.append("correspondence GF(2^%d) unary ops at %d: impl %s model %s" % (m, a, iv, mv))
            F = im.field(m)
            if a != 0 and (F(a) * F(a).inverse()).value != 1:
                ctx.violation("C18/FiniteBifieldElement.inverse/m=%d" % m, "a*inverse(a) != 1 in GF(2^%d) for a=%d" % (m, a),
                              {"m": m, "a": a})
        for (a, b), mv in zip(pairs, bi):
            iv = im.f_binary(m, a, b)
            ctx.count("field-random", 2)
            if iv != mv:
                ctx.broken.append("correspondence GF(2^%d) add/mul (%d,%d): impl %s model %s" % (m, a, b, iv, mv))
    for m in big:
        field_oracle(ctx, im, m, rng, triples=False, samples=60 if quick else 2000)

    ctx.log('field grids done')
    # ------------------------------------------------------------------ pow grids
    pow_ms = [m for m in ms if m <= (4 if quick else 5)]
    exprs = ["f_pow_grid %d %d" % (m, (1 << m) + 3) for m in pow_ms]
    parts = ctx.coq_eval("fpow", HDR, exprs)
    for m, part in zip(pow_ms, parts):
        F = im.field(m)
        for a, mv in zip(range(1 << m), part):
            vals = [im.f_pow(m, a, e) for e in range((1 << m) + 3)]
            ctx.count("field-pow", len(vals))
            # S: pow = iterated product
            cur = F(1)
            for e, v in enumerate(vals):
                if cur.value != v:
                    ctx.violation("C18/FiniteBifieldElement.__pow__/m=%d" % m,
                                  "a**e differs from the e-fold product in GF(2^%d): a=%d e=%d" % (m, a, e), {"m": m, "a": a, "e": e})
                    break
                cur = cur * F(a)
            if digest(vals) != mv:
                ctx.broken.append("correspondence GF(2^%d) pow row a=%d" % (m, a))
    # random big exponents in big fields
    exprs, index = [], []
    for m in big:
        n = 1 << m
        cs = [(rng.randrange(n), rng.choice([rng.randrange(4), rng.randrange(n), n - 2, n - 1, rng.randrange(n * n)]))
              for _ in range(10 if quick else 100)]
        exprs.append("map (fun '(a,e) => f_pow %d a e) [%s]" % (m, "; ".join("(%s,%s)" % (cN(a), cN(e)) for a, e in cs)))
        index.append((m, cs))
    for (m, cs), part in zip(index, ctx.coq_eval("fpowbig", HDR, exprs)):
        for (a, e), mv in zip(cs, part):
            ctx.count("field-pow")
            if im.f_pow(m, a, e) != mv:
                ctx.broken.append("correspondence GF(2^%d) pow(%d,%d)" % (m, a, e))

    # exponents of 2^16 and more, interleaved with small ones on the same field object (both orders): a**e = a**(e mod (2^m - 1)) for a != 0
    for m in [mm for mm in ms if mm <= 16][: (6 if quick else 16)] + ([16] if 16 in ms else []):
        n = 1 << m
        hist = []
        for _ in range(12 if quick else 60):
            a = rng.randrange(1, n)
            r_ = rng.randrange(0, 9)
            big_e = rng.choice([65536, 65537, 65538, 65539, 65543, 131070, 131072 + r_, (n - 1) * 4096 + r_, 2 * (n - 1)])
            b_ = a ^ 1 if (a ^ 1) and (a ^ 1) < n else a
            seq = [(a, big_e), (b_, r_), (a, big_e), (b_, big_e & 0xFFFF), (a, r_)]
            rng.shuffle(seq)
            hist += seq
        for a, e in hist:
            got = im.f_pow(m, a, e)
            red = e % (n - 1) if n > 2 else 0
            want = im.f_pow(m, a, red) if e >= n else None
            ctx.count("field-pow")
            if want is not None and got != want:
                # settle which of the two is wrong with the e-fold product computed by repeated squaring in the harness
                acc, base, ee = 1, a, e
                one = 1
                def mul(x, y, m=m):          # noqa: E306
                    return (im.field(m)(x) * im.field(m)(y)).value
                while ee:
                    if ee & 1:
                        acc = mul(acc, base)
                    base = mul(base, base)
                    ee >>= 1
                ctx.violation("C18/FiniteBifieldElement.pow/large-exponent", "in GF(2^%d), after a history of other powers on the same field, %d ** %d returns %d; the e-fold product is %d (and %d ** %d = %d)" % (
                    m, a, e, got, acc, a, red, want), {"m": m, "a": a, "e": e})
                break
    ctx.log('pow done')
    # ------------------------------------------------------------------ minimal polynomials
    mp_full = [m for m in ms if m <= (6 if quick else 8)]
    mp_cases = [(m, a) for m in mp_full for a in range(1 << m)]
    for m in ms:
        if m in mp_full:
            continue
        n = 1 << m
        if quick:
            els = [2] + ([rng.randrange(1, n) for _ in range(2)] if m <= 10 else [])
        else:
            els = [2] + [rng.randrange(1, n) for _ in range(40 if m <= 10 else 6 if m <= 13 else 1)]
        mp_cases += [(m, a) for a in sorted(set(els))]
    per = 16
    exprs = ["map (fun '(m,a) => f_minpoly m a) [%s]" % "; ".join("(%s,%s)" % (cN(m), cN(a)) for m, a in mp_cases[i:i + per])
             for i in range(0, len(mp_cases), per)]
    res = [v for part in ctx.coq_eval("fminpoly", HDR, exprs, timeout=1200) for v in part]
    for (m, a), mv in zip(mp_cases, res):
        iv = im.f_minpoly(m, a)
        ctx.count("minpoly")
        ctx.nontriv(("mp", m, a))
        minpoly_oracle(ctx, im, m, a, iv)
        if iv != mv:
            ctx.broken.append("correspondence minimal_polynomial GF(2^%d) a=%d: impl %s model %s" % (m, a, iv, mv))
    ctx.log('minpoly done')
    ctx.sample({"minimal_polynomial cases (m, a)": mp_cases[-5:]})
    ctx.assumptions += ["A-cpython: Python ints are unbounded (model uses N)",
                        "the per-field element cache and the unused _exp_table/_log_table are not modelled"]
    ctx.cov["exhaustive"] = False
    ctx.note("polynomial grid bound %d, full field grids m<=%d, minimal polynomials exhaustive m<=%d" % (NB, full_ms[-1], mp_full[-1]))


def oracle_only(ctx, im, rng, quick):
    """The property's statements checked on the implementation alone (used when the model tie is broken)."""
    ms = []
    for m in range(1, 17):
        try:
            F = im.field(m)
        except Exception:
            continue
        ms.append(m)
        g = F.primitive_element()
        cur, j = g, 1
        n = (1 << m) - 1
        while cur.value != 1 and j <= n:
            cur = cur * g
            j += 1
        ctx.count("field-info")
        if cur.value != 1 or j != n or F.modulus.degree != m:
            ctx.violation("C18/FiniteBifield/primitive-order/m=%d" % m,
                          "GF(2^%d): designated primitive element %d has order %s (needs %d); modulus %s of degree %d"
                          % (m, g.value, j if cur.value == 1 else "none", n, bin(F.modulus.value), F.modulus.degree),
                          {"m": m, "modulus": F.modulus.value, "element": g.value, "observed_order": j if cur.value == 1 else None})
    for a in range(64):
        for b in range(64):
            ctx.count("poly-grid", 5)
            poly_oracle(ctx, a, b, im.poly_ops(a, b))
    for m in ms:
        field_oracle(ctx, im, m, rng, triples=(m <= 3), samples=0 if m <= 6 else 60)
        for a in ([1, 2, 3] if m > 6 else range(1, 1 << m)):
            if a < (1 << m):
                minpoly_oracle(ctx, im, m, a, im.f_minpoly(m, a))
    ctx.cov["exhaustive"] = False


def poly_oracle(ctx, a, b, o):
    """Laws on the implementation's own outputs: a = q b + r, deg r < deg b; gcd divides and is the reference gcd;
    lcm * gcd = a * b."""
    mul, mod1, div1, gcd1, lcm1 = o
    if mul != ref_clmul(a, b):
        ctx.violation("C18/BinaryPolynomial.__mul__/product", "a*b is not the GF(2) product for a=%d b=%d" % (a, b), {"a": a, "b": b, "impl": mul})
    if b != 0:
        if mod1 == 0 or div1 == 0:
            ctx.violation("C18/BinaryPolynomial.divmod/raises", "division by non-zero polynomial raised: a=%d b=%d" % (a, b), {"a": a, "b": b})
        else:
            q, r = div1 - 1, mod1 - 1
            if ref_clmul(q, b) ^ r != a or r.bit_length() >= b.bit_length():
                ctx.violation("C18/BinaryPolynomial.divmod/euclid", "a != q*b + r or deg r >= deg b for a=%d b=%d (q=%d r=%d)" % (a, b, q, r),
                              {"a": a, "b": b, "q": q, "r": r})
    else:
        if mod1 != 0 or div1 != 0:
            ctx.violation("C18/BinaryPolynomial.divmod/zero-divisor", "division by the zero polynomial did not raise (a=%d)" % a, {"a": a, "b": 0})
    if gcd1 == 0:
        ctx.violation("C18/BinaryPolynomial.gcd/raises", "gcd raised for a=%d b=%d" % (a, b), {"a": a, "b": b})
        return
    g = gcd1 - 1
    x, y = a, b
    while y:
        x, y = y, ref_divmod(x, y)[1]
    if g != x:
        ctx.violation("C18/BinaryPolynomial.gcd/value", "gcd(%d,%d) = %d but the monic gcd is %d" % (a, b, g, x), {"a": a, "b": b, "impl": g})
    if lcm1 == 0:
        ctx.violation("C18/BinaryPolynomial.lcm/raises", "lcm raised for a=%d b=%d" % (a, b), {"a": a, "b": b})
    elif ref_clmul(lcm1 - 1, g) != ref_clmul(a, b):
        ctx.violation("C18/BinaryPolynomial.lcm/product", "lcm*gcd != a*b for a=%d b=%d" % (a, b), {"a": a, "b": b, "lcm": lcm1 - 1, "gcd": g})


def drill_poly(ctx, im, a, NB):
    exprs = ["(poly_unary %s, map (fun b => poly_ops %s (N.of_nat b)) (seq 0 %d))" % (cN(a), cN(a), NB)]
    un, ops = ctx.coq_eval("pdrill%d" % a, HDR, exprs)[0]
    iu = im.poly_unary(a)
    if iu != un:
        ctx.broken.append("correspondence BinaryPolynomial unary ops at a=%d: impl %s model %s" % (a, iu, un))
        # S for the unary ops
        A = a
        if iu[0] != A.bit_length():
            ctx.violation("C18/BinaryPolynomial.degree", "degree(%d) wrong" % a, {"a": a})
        deriv = 0
        for i in range(1, A.bit_length(), 2):
            if (A >> i) & 1:
                deriv |= 1 << (i - 1)
        if iu[1] != deriv:
            ctx.violation("C18/BinaryPolynomial.derivative", "derivative(%d) = %d, formal derivative is %d" % (a, iu[1], deriv), {"a": a})
    for b in range(NB):
        io = im.poly_ops(a, b)
        if io != ops[b]:
            for k in range(5):
                if io[k] != ops[b][k]:
                    ctx.broken.append("correspondence BinaryPolynomial.%s(%d,%d): impl %d model %d" % (OPN[k], a, b, io[k], ops[b][k]))


def drill_field(ctx, im, m, a):
    n = 1 << m
    un, bi = ctx.coq_eval("fdrill%d_%d" % (m, a), HDR,
                          ["(f_unary %d %s, map (fun b => f_binary %d %s (N.of_nat b)) (seq 0 %d))" % (m, cN(a), m, cN(a), n)])[0]
    iu = im.f_unary(m, a)
    if iu != un:
        ctx.broken.append("correspondence GF(2^%d) unary ops [inverse+1, trace, digest conjugates] at %d: impl %s model %s" % (m, a, iu, un))
    for b in range(n):
        ib = im.f_binary(m, a, b)
        if ib != bi[b]:
            ctx.broken.append("correspondence GF(2^%d) [add, mul] at (%d,%d): impl %s model %s" % (m, a, b, ib, bi[b]))
            if len(ctx.broken) > 40:
                return


def field_oracle(ctx, im, m, rng, triples, samples=0):
    """Field axioms on the implementation itself."""
    F = im.field(m)
    n = 1 << m
    key = "C18/FiniteBifield/field-axioms/m=%d" % m

    def chk(a, b, c=None):
        A, B = F(a), F(b)
        ab = (A * B).value
        ctx.count("field-axioms")
        if ab != (B * A).value:
            ctx.violation(key, "a*b != b*a in GF(2^%d) for a=%d b=%d" % (m, a, b), {"m": m, "a": a, "b": b, "law": "comm"})
        if a and b and ab == 0:
            ctx.violation(key, "zero divisors in GF(2^%d): %d*%d = 0" % (m, a, b), {"m": m, "a": a, "b": b, "law": "integral"})
        if not (0 <= ab < n):
            ctx.violation(key, "product outside the field", {"m": m, "a": a, "b": b})
        if (A + B).value != a ^ b:
            ctx.violation(key, "addition is not xor", {"m": m, "a": a, "b": b})
        if c is not None:
            C = F(c)
            if ((A * B) * C).value != (A * (B * C)).value:
                ctx.violation(key, "(a*b)*c != a*(b*c) in GF(2^%d) for %d,%d,%d" % (m, a, b, c), {"m": m, "a": a, "b": b, "c": c, "law": "assoc"})
            if (A * (B + C)).value != ((A * B) + (A * C)).value:
                ctx.violation(key, "a*(b+c) != a*b+a*c in GF(2^%d) for %d,%d,%d" % (m, a, b, c), {"m": m, "a": a, "b": b, "c": c, "law": "distrib"})

    if samples:
        for _ in range(samples):
            chk(rng.randrange(n), rng.randrange(n), rng.randrange(n))
    else:
        for a in range(n):
            for b in range(n):
                if triples:
                    for c in range(n):
                        chk(a, b, c)
                else:
                    chk(a, b, rng.randrange(n))
    els = range(n) if not samples else [rng.randrange(n) for _ in range(samples)]
    for a in els:
        A = F(a)
        if a:
            if (A * A.inverse()).value != 1:
                ctx.violation("C18/FiniteBifieldElement.inverse/m=%d" % m, "a*inverse(a) != 1 in GF(2^%d) for a=%d" % (m, a), {"m": m, "a": a})
        # trace = sum of the m Frobenius images, lies in {0,1}
        s, e = 0, A
        for _ in range(m):
            s ^= e.value
            e = e * e
        if s not in (0, 1) or A.trace() != s:
            ctx.violation("C18/FiniteBifieldElement.trace/m=%d" % m, "trace(%d) in GF(2^%d): returned %s, sum of conjugates is %d" % (a, m, A.trace(), s), {"m": m, "a": a})
        # conjugates = orbit under squaring without repetition
        orb, e = [], A
        while e.value not in orb:
            orb.append(e.value)
            e = e * e
        if [c.value for c in A.conjugates()] != orb:
            ctx.violation("C18/FiniteBifieldElement.conjugates/m=%d" % m, "conjugates(%d) in GF(2^%d) is not the squaring orbit" % (a, m), {"m": m, "a": a})


def minpoly_oracle(ctx, im, m, a, iv):
    key = "C18/FiniteBifieldElement.minimal_polynomial/m=%d" % m
    if iv == 0:
        ctx.violation(key, "minimal_polynomial raised for a=%d in GF(2^%d)" % (a, m), {"m": m, "a": a})
        return
    p = iv - 1
    F = im.field(m)
    # independent: product over the cyclotomic coset computed with reference arithmetic in GF(2^m)[X]
    modulus = F.modulus.value

    def fm(x, y):
        return ref_divmod(ref_clmul(x, y), modulus)[1]
    orb, e = [], a
    while e not in orb:
        orb.append(e)
        e = fm(e, e)
    poly = [1]                       # coefficients in GF(2^m), lowest first
    for c in orb:
        new = [0] * (len(poly) + 1)
        for i, co in enumerate(poly):
            new[i + 1] ^= co
            new[i] ^= fm(co, c)
        poly = new
    ok = all(co in (0, 1) for co in poly)
    ref = sum(co << i for i, co in enumerate(poly)) if ok else None
    if ref is not None and ref_irreducible(ref) and p != ref:
        ctx.violation(key, "minimal_polynomial(%d) in GF(2^%d) = %d, the irreducible vanishing polynomial is %d" % (a, m, p, ref),
                      {"m": m, "a": a, "impl": p, "reference": ref})
    elif ref is None or not ref_irreducible(ref):
        # the field itself is broken (modulus not irreducible); reported by the order check
        if not ref_irreducible(p) and a not in (0,):
            ctx.violation(key, "minimal_polynomial(%d) in GF(2^%d) = %d is reducible" % (a, m, p), {"m": m, "a": a, "impl": p})


def replay(rep):
    im = Impl()
    r = rep.get("replay", {})
    print("replay of", rep.get("key"), r)
    if "m" in r and "a" in r and "b" in r:
        print("impl:", im.f_binary(r["m"], r["a"], r["b"]))
    elif "a" in r and "b" in r:
        print("impl poly ops [mul, mod+1, div+1, gcd+1, lcm+1]:", im.poly_ops(r["a"], r["b"]))
    elif "m" in r:
        F = im.field(r["m"])
        print("modulus", F.modulus.value, "primitive", F.primitive_element().value)
    return 0
