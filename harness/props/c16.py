"""C16 -- error-rate metrics are exact counts; streaming form is partition-independent.

P: coq/Props/C16.v (streaming refinement for every update/compute/reset history, reset, order / partition
   independence, symmetry, zero-iff-equal, BER <= BLER <= min(1, B BER), rejection of non-divisors).
T: Metrics/ErrorRate.v evaluated in Coq vs BitErrorRate / BlockErrorRate (= SER = FER) / StandardMetrics:
   every history up to length L over a pool of batches (exhaustive, digests per shard with drill-down),
   seeded random long histories, one-shot forward on adversarial pairs, shapes, block sizes, real/complex.
S: an independent reference counter in Python compared with the implementation on the same histories, plus
   the property's inequalities evaluated on the implementation's outputs.
"""
import itertools
from fractions import Fraction

import numpy as np

from common import cQ, clist, cnat, import_kaira

HDR = """From Coq Require Import NArith QArith List Bool Arith.
Import ListNotations.
From KV Require Import Metrics.ErrorRate Metrics.C16Cases.
"""
MOD = 2305843009213693951
FINISH = dict(level="proof", rule=(
    "histories: every sequence of update(batch i)/compute/reset up to the tier's length over a pool of 4 batches "
    "(exhaustive) + seeded random histories up to length 200 over random pools; one-shot: adversarial and random "
    "pairs x shapes x block sizes; non-trivial = a history with >=2 updates and >=1 compute, or a pair with "
    ">=1 difference; distinct = distinct (metric, history) resp. (metric, pair, block size)"))


def digest(vals):
    acc = 7
    for v in vals:
        acc = (acc * 1000003 + v + 1) % MOD
    return acc


def cpairs(xs, ys):
    return "[" + "; ".join("(%s, %s)" % (cQ(Fraction(a)), cQ(Fraction(b))) for a, b in zip(xs, ys)) + "]"


def f32_ratio(n, d):
    """correctly rounded float32 of n/d (n, d < 2^24)"""
    return float(np.float32(n) / np.float32(d))


class Ref:
    """independent reference counter (pure Python)"""

    def __init__(self, kind, thr, bsz):
        self.kind, self.thr, self.bsz = kind, thr, bsz
        self.total = self.errs = 0

    def count(self, x, y):
        """x, y: nested python lists (rows) for BLER / flat lists for BER; returns (n, e) or None"""
        if self.kind == "ber":
            n = len(x)
            e = sum(1 for a, b in zip(x, y) if (a > self.thr) != (b > self.thr))
            return n, e
        n = e = 0
        for rx, ry in zip(x, y):
            if self.bsz is None:
                blocks = [(rx, ry)]
            else:
                if len(rx) % self.bsz:
                    return None
                blocks = [(rx[i:i + self.bsz], ry[i:i + self.bsz]) for i in range(0, len(rx), self.bsz)]
            for bx, by in blocks:
                n += 1
                e += any(abs(a - b) > self.thr for a, b in zip(bx, by))
        return n, e


def flat(x):
    return [v for r in x for v in flat(r)] if isinstance(x, list) else [x]


def run(ctx):
    ok = ctx.build_props([], ["Metrics/C16Cases.vo"])
    ctx.log("props built", ok)
    import_kaira()
    import torch
    from kaira.metrics.signal.ber import BitErrorRate
    from kaira.metrics.signal import bler as blermod
    from kaira.benchmarks.metrics import StandardMetrics
    rng = ctx.rng
    quick = ctx.quick
    VALS = [0.0, 1.0, 0.0, 1.0, 0.25, 0.75, 0.5]

    def rand_rows(nrows, ncols, pdiff):
        x = [[rng.choice(VALS) for _ in range(ncols)] for _ in range(nrows)]
        y = [[(v if rng.random() > pdiff else rng.choice(VALS)) for v in r] for r in x]
        return x, y

    def mk_metric(kind, thr, bsz):
        return BitErrorRate(threshold=thr) if kind == "ber" else blermod.BlockErrorRate(block_size=bsz, threshold=thr)

    def impl_trace(kind, thr, bsz, pool, codes):
        """run a history on the implementation; returns the same integer trace as C16Cases.trace"""
        m = mk_metric(kind, thr, bsz)
        k = len(pool)
        outs = []
        for c in codes:
            if c < k:
                x, y = pool[c]
                try:
                    m.update(torch.tensor(x), torch.tensor(y))
                except ValueError:
                    outs.append(("rej",))
            elif c == k:
                outs.append(("rate", float(m.compute())))
            else:
                m.reset()
        tot = int(m.total_bits if kind == "ber" else m.total_blocks)
        err = int(m.error_bits if kind == "ber" else m.error_blocks)
        return tot, err, outs

    def ref_trace(kind, thr, bsz, pool, codes):
        r = Ref(kind, thr, bsz)
        k = len(pool)
        outs = []
        for c in codes:
            if c < k:
                x, y = pool[c]
                ce = r.count(flat(x), flat(y)) if kind == "ber" else r.count(x, y)
                if ce is None:
                    outs.append(("rej",))
                else:
                    r.total += ce[0]
                    r.errs += ce[1]
            elif c == k:
                outs.append(("rate", r.errs, max(r.total, 1)))
            else:
                r.total = r.errs = 0
        return r.total, r.errs, outs

    def compare(kind, thr, bsz, pool, codes, tag):
        """implementation vs reference counter; returns the integer trace (model format) of the implementation,
        reconstructing exact numerators from the reference when the float agrees"""
        it, ie, io = impl_trace(kind, thr, bsz, pool, codes)
        rt, re_, ro = ref_trace(kind, thr, bsz, pool, codes)
        key = "C16/%s/streaming/%s" % ("BitErrorRate" if kind == "ber" else "BlockErrorRate", tag)
        rep = {"metric": kind, "threshold": thr, "block_size": bsz, "pool": pool, "codes": list(codes)}
        bad = (it, ie) != (rt, re_) or len(io) != len(ro)
        vals = [it, ie]
        if not bad:
            for a, b in zip(io, ro):
                if a[0] != b[0]:
                    bad = True
                    break
                if a[0] == "rate":
                    exp = f32_ratio(b[1], b[2])
                    if abs(a[1] - exp) > 1e-6 * max(exp, 1e-30) + 1e-12:
                        bad = True
                        break
                    vals += [b[1] + 1, b[2]]
                else:
                    vals += [0]
        if bad:
            ctx.violation(key, "history %s over %d batches: counters/outputs %s differ from the exact counts %s" % (
                list(codes), len(pool), (it, ie, io), (rt, re_, ro)), rep)
            return None
        return vals

    # ------------------------------------------------------------------ exhaustive histories
    x0, y0 = [[0.0, 1.0, 1.0, 0.0]], [[0.0, 1.0, 0.0, 0.0]]
    x1, y1 = [[1.0, 1.0, 0.0, 0.0], [0.0, 0.0, 1.0, 1.0]], [[1.0, 0.0, 0.0, 1.0], [0.0, 0.0, 1.0, 1.0]]
    x2, y2 = [[0.25, 0.75], [1.0, 0.0], [0.5, 0.5]], [[0.75, 0.75], [1.0, 0.0], [0.5, 1.0]]
    x3, y3 = [[1.0, 0.0, 1.0]], [[0.0, 0.0, 1.0]]          # row length 3: rejected by BLER(block_size=2)
    pool = [(x0, y0), (x1, y1), (x2, y2), (x3, y3)]
    K = len(pool) + 2
    L = 5 if quick else 6
    configs = [("ber", 0.5, None), ("bler", 0.0, 2), ("bler", 0.3, None)]
    for kind, thr, bsz in configs:
        if kind == "ber":
            cpool = "[" + "; ".join(cpairs(flat(x), flat(y)) for x, y in pool) + "]"
            fn = "ber_shard %s %s" % (cQ(Fraction(thr)), cpool)
        else:
            cpool = "[" + "; ".join("[" + "; ".join(cpairs(rx, ry) for rx, ry in zip(x, y)) + "]" for x, y in pool) + "]"
            fn = "bler_shard %s %s %s" % (cQ(Fraction(thr)), "None" if bsz is None else "(Some %s)" % cnat(bsz), cpool)
        shards = [(c, ln) for ln in range(0, L) for c in range(K)]
        model = ctx.coq_eval("hist_%s_%s" % (kind, bsz), HDR, ["%s %s %s %s" % (fn, cnat(K), cnat(c), cnat(ln)) for c, ln in shards],
                             per_file=3, timeout=900) if ok else [None] * len(shards)
        for (c, ln), mv in zip(shards, model):
            vals = []
            good = True
            for tl in itertools.product(range(K), repeat=ln):
                codes = (c,) + tl
                v = compare(kind, thr, bsz, pool, codes, "exhaustive")
                ctx.count("histories-exhaustive-%s" % kind)
                if sum(1 for q in codes if q < len(pool)) >= 2 and len(pool) in codes:
                    ctx.nontriv((kind, bsz, codes))
                if v is None:
                    good = False
                    break
                vals += v
            if good and mv is not None and digest(vals) != mv:
                ctx.broken.append("correspondence %s(threshold=%s, block_size=%s): histories starting with op %d of length %d" % (
                    kind, thr, bsz, c, ln + 1))
    ctx.sample({"exhaustive history example (codes: 0-3 update batch i, 4 compute, 5 reset)": [0, 2, 4, 5, 1, 4],
                "impl trace": impl_trace("ber", 0.5, None, pool, [0, 2, 4, 5, 1, 4])})

    # ------------------------------------------------------------------ random long histories
    nh = 60 if quick else 1500
    cases = []
    for i in range(nh):
        kind, thr, bsz = rng.choice([("ber", 0.5, None), ("ber", 0.25, None), ("bler", 0.0, rng.choice([1, 2, 3, 4])),
                                     ("bler", 0.3, None), ("bler", 0.0, None)])
        npool = rng.randint(2, 6)
        rpool = []
        for _ in range(npool):
            ncols = rng.choice([0, 1, 2, 3, 4, 6, 8, 12]) if kind == "ber" else rng.choice([bsz or 3, 2 * (bsz or 2), 3 * (bsz or 1), 12, 5])
            rpool.append(rand_rows(rng.randint(1, 4), ncols, rng.choice([0.0, 0.1, 0.5, 1.0])))
        ln = rng.choice([rng.randint(1, 12), rng.randint(10, 60), rng.randint(50, 200)])
        codes = [rng.choice(list(range(npool)) * 3 + [npool, npool, npool + 1]) for _ in range(ln)]
        cases.append((kind, thr, bsz, rpool, codes))
    exprs, expected = [], []
    for kind, thr, bsz, rpool, codes in cases:
        v = compare(kind, thr, bsz, rpool, codes, "random")
        ctx.count("histories-random-%s" % kind)
        ctx.nontriv((kind, bsz, tuple(codes), len(rpool)))
        if v is None:
            continue
        if kind == "ber":
            cpool = "[" + "; ".join(cpairs(flat(x), flat(y)) for x, y in rpool) + "]"
            exprs.append("digest (ber_trace %s %s %s)" % (cQ(Fraction(thr)), cpool, clist(codes, cnat)))
        else:
            cpool = "[" + "; ".join("[" + "; ".join(cpairs(rx, ry) for rx, ry in zip(x, y)) + "]" for x, y in rpool) + "]"
            exprs.append("digest (bler_trace %s %s %s %s)" % (cQ(Fraction(thr)), "None" if bsz is None else "(Some %s)" % cnat(bsz), cpool, clist(codes, cnat)))
        expected.append((digest(v), kind, thr, bsz, codes))
    if ok:
        res = ctx.coq_eval("rand", HDR, exprs, per_file=25, timeout=900)
        for mv, (d, kind, thr, bsz, codes) in zip(res, expected):
            if mv != d:
                ctx.broken.append("correspondence %s(threshold=%s, block_size=%s) random history of length %d" % (kind, thr, bsz, len(codes)))

    # ------------------------------------------------------------------ one-shot forward, adversarial pairs, inequalities
    def oneshot_cases():
        out = []
        for n in (1, 2, 4, 6, 8, 12):
            base = [float(rng.randint(0, 1)) for _ in range(n)]
            out.append((base, list(base)))
            out.append((base, [1.0 - v for v in base]))
            for p in range(n):
                y = list(base)
                y[p] = 1.0 - y[p]
                out.append((base, y))
        for _ in range(40 if quick else 600):
            n = rng.choice([2, 4, 6, 8, 12, 24])
            x, y = rand_rows(1, n, rng.choice([0.05, 0.3, 0.7]))
            out.append((x[0], y[0]))
        return out

    exprs, meta = [], []
    for x, y in oneshot_cases():
        n = len(x)
        tx, ty = torch.tensor(x), torch.tensor(y)
        ber_m = BitErrorRate()
        ber = float(ber_m(tx, ty))
        ber_sym = float(ber_m(ty, tx))
        rber = Ref("ber", 0.5, None).count(x, y)
        ctx.count("oneshot-ber")
        if rber[1]:
            ctx.nontriv(("os", tuple(x), tuple(y)))
        rep = {"x": x, "y": y}
        if abs(ber - rber[1] / rber[0]) > 1e-6 or ber != ber_sym or ((ber == 0) != (rber[1] == 0)):
            ctx.violation("C16/BitErrorRate/forward/exact-count", "BER(x,y)=%r, BER(y,x)=%r, exact %d/%d" % (ber, ber_sym, rber[1], rber[0]), rep)
        h = StandardMetrics.bit_error_rate(tx, ty)
        if all(v in (0.0, 1.0) for v in x + y) and abs(h - ber) > 1e-6:
            ctx.violation("C16/StandardMetrics.bit_error_rate/agrees", "helper BER %r differs from metric BER %r" % (h, ber), rep)
        exprs.append("(out_code (oneshot (ber_count (1#2) %s)), out_code (oneshot (helper_ber %s)))" % (cpairs(x, y), cpairs(x, y)))
        meta.append(("ber", x, y, None, rber, None))
        for B in [b for b in (1, 2, 3, 4, 5, 6) if b <= n]:
            for shape in ((1, n), (2, n // 2)) if n % 2 == 0 else ((1, n),):
                rows_x = [x[i * shape[1]:(i + 1) * shape[1]] for i in range(shape[0])]
                rows_y = [y[i * shape[1]:(i + 1) * shape[1]] for i in range(shape[0])]
                m = blermod.BlockErrorRate(block_size=B)
                rb = Ref("bler", 0.0, B).count(rows_x, rows_y)
                ctx.count("oneshot-bler")
                rep2 = dict(rep, block_size=B, shape=list(shape))
                try:
                    bl = float(m(torch.tensor(rows_x), torch.tensor(rows_y)))
                    bl_sym = float(m(torch.tensor(rows_y), torch.tensor(rows_x)))
                    bs_sum = float(blermod.BlockErrorRate(block_size=B, reduction="sum")(torch.tensor(rows_x), torch.tensor(rows_y)))
                    bs_none = blermod.BlockErrorRate(block_size=B, reduction="none")(torch.tensor(rows_x), torch.tensor(rows_y)).tolist()
                except ValueError:
                    bl = None
                if rb is None:
                    if bl is not None:
                        ctx.violation("C16/BlockErrorRate/forward/rejects-nondivisor", "block_size %d does not divide row length %d but no error was raised" % (B, shape[1]), rep2)
                    continue
                if bl is None:
                    ctx.violation("C16/BlockErrorRate/forward/raises", "BLER raised on a divisible layout", rep2)
                    continue
                if abs(bl - rb[1] / rb[0]) > 1e-6 or bl != bl_sym or bs_sum != rb[1] or len(bs_none) != rb[0] or sum(bs_none) != rb[1]:
                    ctx.violation("C16/BlockErrorRate/forward/exact-count", "BLER=%r (sym %r, sum %r) but exactly %d of %d blocks differ" % (bl, bl_sym, bs_sum, rb[1], rb[0]), rep2)
                # BER <= BLER <= min(1, B*BER) on the implementation's own outputs (binary data: thresholds coincide)
                if all(v in (0.0, 1.0) for v in x + y):
                    if not (ber <= bl + 1e-9 and bl <= min(1.0, B * ber) + 1e-9):
                        ctx.violation("C16/ber-le-bler", "BER=%r BLER=%r B=%d violates BER <= BLER <= min(1,B*BER)" % (ber, bl, B), rep2)
                    for alias in ("SymbolErrorRate", "FrameErrorRate", "SER", "FER", "BLER"):
                        if float(getattr(blermod, alias)(block_size=B)(torch.tensor(rows_x), torch.tensor(rows_y))) != bl:
                            ctx.violation("C16/%s/alias" % alias, "alias %s differs from BlockErrorRate" % alias, rep2)
                    if shape[0] == 1 and n % B == 0:
                        hb = StandardMetrics.block_error_rate(tx, ty, B)
                        if abs(hb - bl) > 1e-6:
                            ctx.violation("C16/StandardMetrics.block_error_rate/agrees", "helper BLER %r differs from metric BLER %r (B=%d)" % (hb, bl, B), rep2)
        if n >= 2:
            B = rng.choice([b for b in (1, 2, 3, 4, 5) if b <= n])
            exprs.append("(oneshot_code (bler_count 0 (Some %s) [%s]), out_code (oneshot (helper_bler %s %s)))" % (cnat(B), cpairs(x, y), cnat(B), cpairs(x, y)))
            rb = Ref("bler", 0.0, B).count([x], [y])
            nb = n // B
            hb_ref = (nb, sum(1 for i in range(nb) if x[i * B:(i + 1) * B] != y[i * B:(i + 1) * B]))
            meta.append(("bler", x, y, B, rb, hb_ref))
    if ok:
        res = ctx.coq_eval("oneshot", HDR, exprs, per_file=60, timeout=900)
        for (kind, x, y, B, r, hb_ref), (mv, mh) in zip(meta, res):
            ctx.count("oneshot-correspondence")
            exp = [0] if r is None else [r[1] + 1, max(r[0], 1)]
            if mv != exp:
                ctx.broken.append("correspondence one-shot %s B=%s x=%s y=%s: model %s reference %s" % (kind, B, x, y, mv, exp))
            if kind == "ber":
                he = [sum(1 for a, b in zip(x, y) if a != b) + 1, max(len(x), 1)]
                hi = StandardMetrics.bit_error_rate(torch.tensor(x), torch.tensor(y))
                if mh != he or abs(hi - (he[0] - 1) / he[1]) > 1e-6:
                    ctx.broken.append("correspondence StandardMetrics.bit_error_rate x=%s y=%s" % (x, y))
            elif hb_ref[0] > 0:
                he = [hb_ref[1] + 1, max(hb_ref[0], 1)]
                hi = StandardMetrics.block_error_rate(torch.tensor(x), torch.tensor(y), B)
                if mh != he or abs(hi - hb_ref[1] / hb_ref[0]) > 1e-6:
                    ctx.broken.append("correspondence StandardMetrics.block_error_rate B=%d x=%s y=%s" % (B, x, y))

    # ------------------------------------------------------------------ complex BER, shape mismatch, multi-dim BLER
    for _ in range(20 if quick else 300):
        n = rng.randint(1, 10)
        xr, yr = rand_rows(1, 2 * n, 0.4)
        xc = torch.complex(torch.tensor(xr[0][:n]), torch.tensor(xr[0][n:]))
        yc = torch.complex(torch.tensor(yr[0][:n]), torch.tensor(yr[0][n:]))
        m = BitErrorRate()
        r = Ref("ber", 0.5, None).count(xr[0], yr[0])
        m.update(xc, yc)
        m.update(xc, yc)
        ctx.count("complex-ber")
        if abs(float(m(xc, yc)) - r[1] / r[0]) > 1e-6 or int(m.total_bits) != 2 * r[0] or int(m.error_bits) != 2 * r[1]:
            ctx.violation("C16/BitErrorRate/complex", "complex BER counts real and imaginary parts wrongly", {"x": xr[0], "y": yr[0], "n": n})
    # complex forms of the block metrics: a block is in error when any of its complex elements differs, in the real OR the imaginary part
    for case in range(24 if quick else 300):
        Bsz, nrow, ncol = rng.choice([None, 1, 2, 4]), rng.choice([1, 2, 3]), rng.choice([4, 8])
        re = [[float(rng.randint(0, 1)) for _ in range(ncol)] for _ in range(nrow)]
        im = [[float(rng.randint(0, 1)) for _ in range(ncol)] for _ in range(nrow)]
        re2, im2 = [list(r_) for r_ in re], [list(r_) for r_ in im]
        kind = ("imag-only", "real-only", "both", "none")[case % 4]
        for _ in range(rng.randint(1, 3)):
            i_, j_ = rng.randrange(nrow), rng.randrange(ncol)
            if kind in ("imag-only", "both"):
                im2[i_][j_] = 1.0 - im2[i_][j_]
            if kind in ("real-only", "both"):
                re2[i_][j_] = 1.0 - re2[i_][j_]
        xc = torch.complex(torch.tensor(re), torch.tensor(im))
        yc = torch.complex(torch.tensor(re2), torch.tensor(im2))
        code = lambda a, b_: [[u + 2 * v for u, v in zip(ra, rb)] for ra, rb in zip(a, b_)]      # noqa: E731
        r = Ref("bler", 0.0, Bsz).count(code(re, im), code(re2, im2))
        ctx.count("complex-bler")
        for cname in ("BlockErrorRate", "SymbolErrorRate", "FrameErrorRate"):
            try:
                one = float(getattr(blermod, cname)(block_size=Bsz)(xc, yc))
                sym = float(getattr(blermod, cname)(block_size=Bsz)(yc, xc))
                ms = getattr(blermod, cname)(block_size=Bsz)
                for i_ in range(nrow):
                    ms.update(xc[i_:i_ + 1], yc[i_:i_ + 1])
                st = float(ms.compute())
            except Exception as ex:
                ctx.note("%s on complex inputs raised %s" % (cname, str(ex)[:60]))
                break
            if max(abs(one - r[1] / r[0]), abs(sym - r[1] / r[0]), abs(st - r[1] / r[0])) > 1e-6:
                ctx.violation("C16/%s/complex" % cname, "%s(block_size=%s) on complex inputs that differ in %s (%d x %d): one-shot %r, swapped %r, streamed row by row %r; exactly %d of %d blocks differ" % (
                    cname, Bsz, kind, nrow, ncol, one, sym, st, r[1], r[0]), {"re": re, "im": im, "re2": re2, "im2": im2, "block_size": Bsz})
                break
    m = BitErrorRate()
    m.update(torch.tensor([1.0, 0.0]), torch.tensor([0.0, 0.0]))
    try:
        m.update(torch.zeros(3), torch.zeros(4))
        ctx.violation("C16/BitErrorRate/shape-mismatch", "update with mismatching shapes did not raise", {})
    except (ValueError, RuntimeError):
        pass
    if (int(m.total_bits), int(m.error_bits)) != (2, 1):
        ctx.violation("C16/BitErrorRate/shape-mismatch", "rejected update changed the counters", {})
    # blocks are cut from each item's flattened elements: block sizes that divide the item but not its last dimension included
    md_exprs, md_meta = [], []
    for shape in ((2, 3, 4), (3, 2, 2, 2), (2, 2, 3), (1, 2, 6), (2, 3, 2), (2, 2, 5)):
        per = int(np.prod(shape[1:]))
        for B in [b_ for b_ in (2, 3, 4, 5, 6) if per % b_ == 0]:
            for trial in range(4):
                x = torch.tensor([float(rng.randint(0, 1)) for _ in range(int(np.prod(shape)))]).reshape(shape)
                y = x.clone()
                for pos in ([0], [x.numel() - 1], [shape[-1] - 1], rng.sample(range(x.numel()), 2))[trial]:
                    y.view(-1)[pos] = 1 - y.view(-1)[pos]
                r = Ref("bler", 0.0, B).count(x.reshape(shape[0], -1).tolist(), y.reshape(shape[0], -1).tolist())
                ctx.count("multidim-bler")
                nerr = int((x != y).sum())
                mb = BitErrorRate()
                mb.update(x, y)
                if abs(float(BitErrorRate()(x, y)) - nerr / x.numel()) > 1e-6 or abs(float(mb.compute()) - nerr / x.numel()) > 1e-6:
                    ctx.violation("C16/BitErrorRate/forward/multi-dim", "BER on shape %s with %d differing bits: one-shot %r, streaming %r" % (shape, nerr, float(BitErrorRate()(x, y)), float(mb.compute())), {"shape": list(shape)})
                    break
                try:
                    bl = float(blermod.BlockErrorRate(block_size=B)(x, y))
                    ms = blermod.BlockErrorRate(block_size=B)
                    ms.update(x, y)
                    bs = float(ms.compute())
                except Exception as ex:
                    ctx.violation("C16/BlockErrorRate/forward/multi-dim", "BLER on shape %s with block_size %d (a divisor of the %d elements per item) raised %s: %s" % (shape, B, per, type(ex).__name__, str(ex)[:80]), {"shape": list(shape), "B": B})
                    break
                # the same tensors held as permuted views (non-contiguous strides): the same rates
                if shape[0] > 1 and shape[1] > 1:
                    xv_, yv_ = x.transpose(0, 1).contiguous().transpose(0, 1), y.transpose(0, 1).contiguous().transpose(0, 1)
                    try:
                        blv = float(blermod.BlockErrorRate(block_size=B)(xv_, yv_))
                        bev = float(BitErrorRate()(xv_, yv_))
                        msv = blermod.BlockErrorRate(block_size=B)
                        msv.update(xv_, yv_)
                        ctx.count("view-cases")
                        if abs(blv - bl) > 1e-6 or abs(bev - nerr / x.numel()) > 1e-6 or abs(float(msv.compute()) - bl) > 1e-6:
                            ctx.violation("C16/BlockErrorRate/forward/view", "shape %s held with strides %s, block_size %d: BLER %r (streaming %r), BER %r; on the same values held contiguously BLER %r, BER %r" % (
                                shape, tuple(xv_.stride()), B, blv, float(msv.compute()), bev, bl, nerr / x.numel()), {"shape": list(shape), "B": B})
                            break
                    except Exception:
                        ctx.count("views-rejected")
                if len(md_exprs) < (40 if quick else 400):
                    it_x, it_y = x.reshape(shape[0], -1, shape[-1]).tolist(), y.reshape(shape[0], -1, shape[-1]).tolist()
                    md_exprs.append("bler_multidim %s [%s]" % (cnat(B), "; ".join("[" + "; ".join(cpairs(rx, ry) for rx, ry in zip(ix, iy)) + "]" for ix, iy in zip(it_x, it_y))))
                    md_meta.append((list(shape), B, bl, bs))
                if abs(bl - r[1] / r[0]) > 1e-6 or abs(bs - r[1] / r[0]) > 1e-6:
                    ctx.violation("C16/BlockErrorRate/forward/multi-dim", "BLER on shape %s, block_size %d, differences at flat positions %s: one-shot %r, streaming %r, reference %d/%d" % (
                        shape, B, (x != y).reshape(-1).nonzero().reshape(-1).tolist(), bl, bs, r[1], r[0]), {"shape": list(shape), "B": B})
                    break
    if ok and md_exprs:
        # T: the model's count on the flattened items (Metrics/C16Cases.v bler_multidim), evaluated by the kernel
        res = ctx.coq_eval("multidim", HDR, md_exprs, per_file=60, timeout=900)
        for (shape, B, bl, bs), mv in zip(md_meta, res):
            ctx.count("multidim-correspondence")
            if len(mv) != 2 or abs(bl - (mv[0] - 1) / mv[1]) > 1e-6 or abs(bs - (mv[0] - 1) / mv[1]) > 1e-6:
                ctx.broken.append("correspondence multi-dimensional BLER shape %s block_size %d: implementation %r / %r, model %s" % (shape, B, bl, bs, mv))
                break
    # ------------------------------------------------------------------ the same tensor objects used again, in the dtypes a caller may hold bits in
    for dt in (torch.bool, torch.uint8, torch.int32, torch.int64, torch.float32, torch.float64):
        xb_ = torch.tensor([[1, 0, 1, 1, 0, 0, 1, 0], [0, 0, 1, 0, 1, 1, 1, 0]]).to(dt)
        yb_ = torch.tensor([[1, 1, 1, 0, 0, 0, 1, 1], [0, 0, 0, 0, 1, 1, 0, 0]]).to(dt)
        x0, y0 = xb_.clone(), yb_.clone()
        errs = int((x0.to(torch.int64) != y0.to(torch.int64)).sum())
        nbits = x0.numel()
        for mname, mk in (("BitErrorRate", lambda: BitErrorRate()), ("BlockErrorRate", lambda: blermod.BlockErrorRate(block_size=4))):
            try:
                m = mk()
                f1 = float(m(xb_, yb_))
                f2 = float(m(yb_, xb_))
                m.reset()
                m.update(xb_, yb_)
                m.update(xb_, yb_)
                m.update(yb_, xb_)
                v3 = float(m.compute())
            except Exception as ex:
                ctx.note("%s on %s inputs raised %s" % (mname, str(dt).split(".")[1], str(ex)[:60]))
                continue
            ctx.count("reused-tensor-cases")
            ctx.nontriv(("reuse", mname, str(dt)))
            if mname == "BitErrorRate":
                exp = errs / nbits
            else:
                blk_err = int(((x0.to(torch.int64) != y0.to(torch.int64)).reshape(-1, 4).any(dim=1)).sum())
                exp = blk_err / (nbits // 4)
            bad = not (torch.equal(xb_, x0) and torch.equal(yb_, y0))
            if bad or abs(f1 - exp) > 1e-6 or abs(f2 - exp) > 1e-6 or abs(v3 - exp) > 1e-6:
                ctx.violation("C16/%s/reused-tensors" % mname, "%s on %s tensors used again: forward(x,y)=%.6f, forward(y,x)=%.6f, three updates then compute=%.6f, exact rate %.6f; inputs %s" % (
                    mname, str(dt).split(".")[1], f1, f2, v3, exp, "modified" if bad else "unchanged"), {"metric": mname, "dtype": str(dt)})
    # ------------------------------------------------------------------ long accumulation: counts beyond 2^24 stay exact
    big = (1 << 24) + 3
    xb = torch.zeros(big)
    yb = torch.ones(big)
    for kind, prehist in (("ber", ""), ("bler", ""), ("ber", "update; reset"), ("bler", "update; reset"), ("ber", "update; compute; reset; reset")):
        m = BitErrorRate() if kind == "ber" else blermod.BlockErrorRate(block_size=1)
        for op in [o.strip() for o in prehist.split(";") if o.strip()]:      # the object has a past: counts must restart exactly
            if op == "update":
                m.update(torch.tensor([[1.0, 0.0, 1.0]]), torch.tensor([[0.0, 0.0, 1.0]]))
            elif op == "compute":
                m.compute()
            else:
                m.reset()
        m.update(xb, yb) if kind == "ber" else m.update(xb.reshape(1, -1), yb.reshape(1, -1))
        small = 3000
        for i in range(small):
            m.update(torch.tensor([[1.0]]), torch.tensor([[1.0]]))
        for i in range(5):
            m.update(torch.tensor([[1.0]]), torch.tensor([[0.0]]))
        tot = int(m.total_bits if kind == "ber" else m.total_blocks)
        err = int(m.error_bits if kind == "ber" else m.error_blocks)
        val = float(m.compute())
        exp = (big + 5) / (big + small + 5)
        ctx.count("long-accumulation")
        ctx.nontriv(("long", kind))
        if (tot, err) != (big + small + 5, big + 5) or abs(val - exp) > 2e-7:
            ctx.violation("C16/%s/streaming/long-accumulation" % ("BitErrorRate" if kind == "ber" else "BlockErrorRate"),
                          "%safter one batch of 2^24+3 erroneous items, %d clean and 5 erroneous single-item updates: counters (%d, %d), rate %.9f; exact (%d, %d), %.9f"
                          % (("after the history [%s], " % prehist) if prehist else "", small, tot, err, val, big + small + 5, big + 5, exp),
                          {"history": "%s%supdate(2^24+3 errors); %d x update(1 clean); 5 x update(1 error); compute" % (prehist, "; " if prehist else "", small)})
    ctx.assumptions += ["int64 counters do not overflow (model counters are unbounded N)",
                        "the float32 returned by compute() is compared with the correctly rounded exact ratio (relative 1e-6)"]
    ctx.cov["exhaustive"] = True
    ctx.note("exhaustive histories up to length %d over %d op codes for %d metric configurations" % (L, K, len(configs)))


def replay(rep):
    import_kaira()
    import torch
    from kaira.metrics.signal.ber import BitErrorRate
    from kaira.metrics.signal.bler import BlockErrorRate
    r = rep.get("replay", {})
    print("replay of", rep.get("key"))
    if "codes" in r:
        m = BitErrorRate(threshold=r["threshold"]) if r["metric"] == "ber" else BlockErrorRate(block_size=r["block_size"], threshold=r["threshold"])
        k = len(r["pool"])
        for c in r["codes"]:
            if c < k:
                try:
                    m.update(torch.tensor(r["pool"][c][0]), torch.tensor(r["pool"][c][1]))
                    print("update", c)
                except ValueError as e:
                    print("update", c, "rejected:", e)
            elif c == k:
                print("compute ->", float(m.compute()))
            else:
                m.reset()
                print("reset")
    elif "x" in r:
        print("BER", float(BitErrorRate()(torch.tensor(r["x"]), torch.tensor(r["y"]))))
    return 0
