"""C14 -- constellations bijectively labelled, normalised, Gray when requested; Gray utilities.

P: coq/Props/C14.v  (Gray code laws for all n : N; checker soundness for label tables / geometry).
T: (a) Gen/GrayConst.v regenerated from kaira/modulations/utils.py (special cases) -- `exceptions_ok` is evaluated
       by the kernel on every run;  (b) b2g / g2b model vs implementation: exhaustive below 2^16 (digests per
       chunk, drill-down), random up to 2^60, literals +-1, scalar and array forms;  (c) label-table model
       (Mod/Labels.v) vs the published bit_patterns / bit_to_symbol_map / levels;  (d) the four verified checkers
       evaluated in Coq on the tables each modulator publishes (exact rationals of the float32 coordinates).
S: the same laws checked directly on the implementation in Python (independent of the model).
"""
import os
from fractions import Fraction

from common import REPO, cN, cQ, clist, cnat, import_kaira
from translate import grayconst

HDR = """From Coq Require Import NArith ZArith QArith List Bool.
Import ListNotations.
From KV Require Import Gen.GrayConst Mod.Gray Mod.Constellation Mod.Labels Mod.C14Cases.
"""
MOD = 2305843009213693951
FINISH = dict(level="proof", rule=(
    "Gray utilities: every n < 2^16 in scalar form (exhaustive), array forms on chunks, seeded random n < 2^60 and "
    "source literals +-1; constellations: every scheme x order x labelling x normalisation that publishes a table; "
    "a case is non-trivial when n >= 2 resp. the table has >= 4 points; distinct = distinct n / distinct configuration"))
TOL_NN = Fraction(1, 10000)
TOL_E = Fraction(1, 100000)


def digest(vals):
    acc = 7
    for v in vals:
        acc = (acc * 1000003 + v + 1) % MOD
    return acc


def catalogue(M, quick):
    """(class name, config key, constructor thunk, gray requested, unit energy expected)"""
    out = []
    out.append(("BPSKModulator", "default", lambda: M.BPSKModulator(), False, True))
    for nz in (True, False):
        out.append(("QPSKModulator", "normalize=%s" % nz, (lambda nz=nz: M.QPSKModulator(normalize=nz)), True, nz))
        out.append(("OQPSKModulator", "normalize=%s" % nz, (lambda nz=nz: M.OQPSKModulator(normalize=nz)), True, nz))
    for order in (4, 8, 16, 32, 64):
        for g in (True, False):
            out.append(("PSKModulator", "order=%d,gray=%s" % (order, g), (lambda o=order, g=g: M.PSKModulator(o, gray_coding=g)), g, True))
    for order in (4, 16, 64) + (() if quick else (256,)):
        for g in (True, False):
            for nz in (True, False):
                out.append(("QAMModulator", "order=%d,gray=%s,normalize=%s" % (order, g, nz),
                            (lambda o=order, g=g, nz=nz: M.QAMModulator(o, gray_coding=g, normalize=nz)), g, nz))
    for order in (2, 4, 8, 16, 32, 64):
        for g in (True, False):
            for nz in (True, False):
                out.append(("PAMModulator", "order=%d,gray=%s,normalize=%s" % (order, g, nz),
                            (lambda o=order, g=g, nz=nz: M.PAMModulator(o, gray_coding=g, normalize=nz)), g, nz))
    for order in (2, 4, 8, 16):
        for g in (True, False):
            out.append(("DPSKModulator", "order=%d,gray=%s" % (order, g), (lambda o=order, g=g: M.DPSKModulator(o, gray_coding=g)), g, True))
    out.append(("DBPSKModulator", "default", lambda: M.DBPSKModulator(), False, True))
    out.append(("DQPSKModulator", "default", lambda: M.DQPSKModulator(), True, True))
    for g in (True, False):
        out.append(("Pi4QPSKModulator", "gray=%s" % g, (lambda g=g: M.Pi4QPSKModulator(gray_coded=g)), g, True))
    return out


def table_of(m, cls):
    c = m.constellation
    pts = [(Fraction(float(z.real)), Fraction(float(z.imag))) for z in c]
    if hasattr(m, "bit_patterns"):
        labs = [[int(v) for v in row] for row in m.bit_patterns.tolist()]
    else:  # BPSK: documented mapping 0 -> +1, 1 -> -1 (labels "0", "1" of plot_constellation)
        labs = [[0], [1]]
    return pts, labs


def cpts(pts):
    return "[" + "; ".join("(%s, %s)" % (cQ(a), cQ(b)) for a, b in pts) + "]"


def clabs(labs):
    return "[" + "; ".join("[" + "; ".join("true" if v else "false" for v in l) + "]" for l in labs) + "]"


def py_table_oracle(ctx, cls, cfg, pts, labs, gray, unit):
    """Independent check of the four clauses on the published table (float64/Fraction arithmetic)."""
    n = len(pts)
    b = max(1, (n - 1).bit_length())
    key = "C14/%s/%%s/%s" % (cls, cfg)
    rep = {"class": cls, "config": cfg}
    if len(labs) != n or n != 2 ** b or any(len(l) != b for l in labs) or len({tuple(l) for l in labs}) != n:
        ctx.violation(key % "labels-bijective", "%s(%s): the %d labels are not all %d distinct %d-bit patterns" % (cls, cfg, len(labs), n, b),
                      dict(rep, labels=labs))
    if len(set(pts)) != n:
        ctx.violation(key % "points-distinct", "%s(%s): constellation points are not pairwise distinct" % (cls, cfg), rep)
    if unit:
        e = sum(x * x + y * y for x, y in pts) / n
        if abs(e - 1) > TOL_E:
            ctx.violation(key % "unit-energy", "%s(%s): average energy %.8f, expected 1" % (cls, cfg, float(e)), dict(rep, energy=float(e)))
    if gray and n >= 2 and len(labs) == n:
        for i in range(n):
            ds = [((pts[i][0] - pts[j][0]) ** 2 + (pts[i][1] - pts[j][1]) ** 2, j) for j in range(n) if j != i]
            dm = min(ds)[0]
            for d, j in ds:
                if d <= (1 + TOL_NN) * dm:
                    h = sum(1 for x, y in zip(labs[i], labs[j]) if x != y)
                    if h != 1:
                        ctx.violation(key % "gray-neighbours",
                                      "%s(%s): nearest neighbours #%d (%s) and #%d (%s) differ in %d bits" % (
                                          cls, cfg, i, "".join(map(str, labs[i])), j, "".join(map(str, labs[j])), h),
                                      dict(rep, i=i, j=j, label_i=labs[i], label_j=labs[j],
                                           point_i=[float(v) for v in pts[i]], point_j=[float(v) for v in pts[j]]))
                        return


def run(ctx):
    ok = ctx.build_props([grayconst.generate], ["Mod/C14Cases.vo"])
    ctx.log("props built", ok)
    import_kaira()
    import torch
    import kaira.modulations as M
    from kaira.modulations import utils as U
    rng = ctx.rng
    quick = ctx.quick

    # ---------------------------------------------------------------- Gray utilities: special cases
    try:
        exc = grayconst.extract(REPO)
    except Exception as e:  # translator failed: already recorded by build_props
        exc = {"b2g": [], "g2b": []}
        ctx.note("translator failed: %s" % e)
    if ok:
        eok = ctx.coq_eval("excok", HDR, ["exceptions_ok"])[0]
        ctx.count("exceptions_ok")
        if not eok:
            ctx.note("kernel: exceptions_ok = false for the regenerated special-case tables %s" % exc)

    def gray_ref(n):
        return n ^ (n >> 1)

    def ungray_ref(n):
        r = 0
        while n:
            r ^= n
            n >>= 1
        return r

    def gray_oracle(ns, tag):
        """The three laws of the property on the implementation, on the integers ns (and their successors)."""
        for n in ns:
            g = U.binary_to_gray(n)
            ctx.count("gray-laws-" + tag, 3)
            if U.gray_to_binary(g) != n:
                ctx.violation("C14/gray-utils/inverse-g2b-b2g/n=%d" % n,
                              "gray_to_binary(binary_to_gray(%d)) = %d" % (n, U.gray_to_binary(g)), {"n": n, "law": "g2b(b2g(n))=n"})
            if U.binary_to_gray(U.gray_to_binary(n)) != n:
                ctx.violation("C14/gray-utils/inverse-b2g-g2b/n=%d" % n,
                              "binary_to_gray(gray_to_binary(%d)) = %d" % (n, U.binary_to_gray(U.gray_to_binary(n))), {"n": n, "law": "b2g(g2b(n))=n"})
            h = bin(g ^ U.binary_to_gray(n + 1)).count("1")
            if h != 1:
                ctx.violation("C14/gray-utils/consecutive-one-bit/n=%d" % n,
                              "binary_to_gray(%d) and binary_to_gray(%d) differ in %d bits" % (n, n + 1, h), {"n": n, "law": "hamming(b2g(n),b2g(n+1))=1"})

    LIM = 1 << 16
    gray_oracle(range(LIM), "exhaustive")
    for n in range(2, 50):
        ctx.nontriv(("g", n))
    rnd = [rng.randrange(1 << rng.choice([17, 24, 32, 48, 60])) for _ in range(500 if quick else 5000)]
    lits = sorted({max(0, k + d) for kv in exc["b2g"] + exc["g2b"] for k in kv for d in (-2, -1, 0, 1, 2)}
                  | {max(0, (gray_ref(k) if i == 0 else ungray_ref(k))) for i, l in enumerate((exc["b2g"], exc["g2b"])) for kv in l for k in kv})
    gray_oracle(rnd, "random")
    gray_oracle(lits, "literals")
    for n in rnd:
        ctx.nontriv(("g", n))

    # ---------------------------------------------------------------- Gray utilities: model vs implementation
    if ok:
        CH = 2048
        exprs = ["gray_chunk %s %s" % (cN(lo), cnat(CH)) for lo in range(0, LIM, CH)]
        model = ctx.coq_eval("gchunk", HDR, exprs, per_file=4)
        for lo, mv in zip(range(0, LIM, CH), model):
            vals = []
            for n in range(lo, lo + CH):
                vals += [U.binary_to_gray(n), U.gray_to_binary(n)]
            ctx.count("gray-correspondence", 2 * CH)
            if digest(vals) != mv:
                pairs = ctx.coq_eval("gdrill%d" % lo, HDR, ["gray_pairs (map N.of_nat (seq %d %d))" % (lo, CH)])[0]
                for n, (a, b) in zip(range(lo, lo + CH), pairs):
                    if (U.binary_to_gray(n), U.gray_to_binary(n)) != (a, b):
                        ctx.broken.append("correspondence binary_to_gray/gray_to_binary at n=%d: impl %s model %s" % (
                            n, (U.binary_to_gray(n), U.gray_to_binary(n)), (a, b)))
                        break
        big = rnd + lits
        pairs = ctx.coq_eval("gbig", HDR, ["gray_pairs %s" % clist(big, cN)])[0]
        for n, (a, b) in zip(big, pairs):
            ctx.count("gray-correspondence", 2)
            if (U.binary_to_gray(n), U.gray_to_binary(n)) != (a, b):
                ctx.broken.append("correspondence binary_to_gray/gray_to_binary at n=%d" % n)
    # array forms = element-wise scalar forms (lists, long tensors, float tensors with truncation)
    for lo in range(0, LIM, 4096):
        ns = list(range(lo, lo + 4096, 1 if not quick else 3))
        forms = [("list", ns), ("long", torch.tensor(ns)), ("float64", torch.tensor(ns, dtype=torch.float64) + 0.25)]
        for tag, arr in forms:
            a = [int(v) for v in U.binary_array_to_gray(arr).tolist()]
            b = [int(v) for v in U.gray_array_to_binary(arr).tolist()]
            ctx.count("gray-array-" + tag, 2 * len(ns))
            ea, eb = [U.binary_to_gray(n) for n in ns], [U.gray_to_binary(n) for n in ns]
            if a != ea or b != eb:
                bad = next(n for n, x, y, u, v in zip(ns, a, ea, b, eb) if x != y or u != v)
                ctx.violation("C14/gray-utils/array-form/%s" % tag, "array form (%s) differs from the scalar function at n=%d" % (tag, bad),
                              {"n": bad, "form": tag})
    # array forms on the large integers too (up to 2^60, powers of two and their neighbours): element-wise the reference, and mutually inverse
    bigs = sorted(set(n for n in (rnd + lits + [1 << e for e in range(16, 61)] + [(1 << e) - 1 for e in range(16, 61)] + [(1 << e) + 1 for e in range(16, 60)]) if 0 <= n <= (1 << 60)))
    for tag, arr in (("list", bigs), ("long", torch.tensor(bigs, dtype=torch.int64))):
        a = [int(v) for v in U.binary_array_to_gray(arr).tolist()]
        b = [int(v) for v in U.gray_array_to_binary(arr).tolist()]
        ctx.count("gray-array-big-" + tag, 2 * len(bigs))
        excl = {k for l in (exc["b2g"], exc["g2b"]) for kv in l for k in kv}
        for n, x, u in zip(bigs, a, b):
            if n in excl:
                continue
            if x != gray_ref(n) or u != ungray_ref(n):
                ctx.violation("C14/gray-utils/array-form/%s" % tag, "array form (%s) at n=%d: binary_array_to_gray gives %d (n xor n>>1 is %d), gray_array_to_binary gives %d (prefix xor is %d)" % (
                    tag, n, x, gray_ref(n), u, ungray_ref(n)), {"n": n, "form": tag})
                break
        back = [int(v) for v in U.gray_array_to_binary(torch.tensor(a, dtype=torch.int64) if tag == "long" else a).tolist()]
        bad = [n for n, r_ in zip(bigs, back) if n != r_ and n not in excl and gray_ref(n) not in excl]
        if bad:
            ctx.violation("C14/gray-utils/array-form/%s" % tag, "array forms are not mutually inverse at n=%d" % bad[0], {"n": bad[0], "form": tag})
    if len(U.binary_array_to_gray([])) != 0 or len(U.gray_array_to_binary(torch.tensor([]))) != 0:
        ctx.violation("C14/gray-utils/array-form/empty", "empty array not mapped to empty array", {})
    for f in (U.binary_to_gray, U.gray_to_binary):
        try:
            f(-1)
            ctx.violation("C14/gray-utils/negative", "%s(-1) did not raise" % f.__name__, {"n": -1})
        except ValueError:
            pass
    ctx.sample({"binary_to_gray/gray_to_binary": [[n, U.binary_to_gray(n), U.gray_to_binary(n)] for n in (5, 1022, 1023, 1365, 65535)]})

    # ---------------------------------------------------------------- constellations
    cat = catalogue(M, quick)
    tables = []
    for cls, cfg, mk, gray, unit in cat:
        m = mk()
        pts, labs = table_of(m, cls)
        tables.append((cls, cfg, m, pts, labs, gray, unit))
        ctx.count("constellation-tables")
        if len(pts) >= 4:
            ctx.nontriv((cls, cfg))
        py_table_oracle(ctx, cls, cfg, pts, labs, gray, unit)
    # the published table of a configuration does not depend on which other modulators were built earlier in the process:
    # fresh interpreters build the catalogue in other orders (largest first; each Gray configuration first) and must publish the same tables
    import json as _json
    import subprocess as _sp
    import sys as _sys
    main_tab = {"%s|%s" % (cls, cfg): ([[float(a), float(b_)] for a, b_ in pts], labs) for cls, cfg, m, pts, labs, gray, unit in tables}
    script = (
        "import sys, json; sys.path.insert(0, %r); sys.path.insert(0, %r)\n"
        "import io, contextlib\n"
        "from props.c14 import catalogue, table_of\n"
        "import kaira.modulations as M\n"
        "cat = catalogue(M, %r)\n"
        "order = json.loads(sys.argv[1])\n"
        "out = {}\n"
        "for i in order:\n"
        "    cls, cfg, mk, gray, unit = cat[i]\n"
        "    try:\n"
        "        pts, labs = table_of(mk(), cls)\n"
        "    except Exception as ex:\n"
        "        out[cls + '|' + cfg] = ('ERR', type(ex).__name__ + ': ' + str(ex)[:80])\n"
        "        continue\n"
        "    out[cls + '|' + cfg] = ([[float(a), float(b)] for a, b in pts], labs)\n"
        "print('TABLES' + json.dumps(out))\n") % (REPO, os.path.join(os.path.dirname(os.path.dirname(os.path.abspath(__file__)))), quick)
    n_cat = len(cat)
    orders = [list(range(n_cat - 1, -1, -1))]
    big_gray = [i for i, c_ in enumerate(cat) if c_[3] and ("order=64" in c_[1] or "order=32" in c_[1] or "order=16" in c_[1])]
    for i in (big_gray if not quick else big_gray[:: max(1, len(big_gray) // 5)]):
        orders.append([i] + [j for j in range(n_cat) if j != i][: 6])
    for od in orders:
        try:
            pr = _sp.run([_sys.executable, "-W", "ignore", "-c", script, _json.dumps(od)], capture_output=True, text=True, timeout=600, env=dict(os.environ, PYTHONPATH=REPO))
            line = [l for l in pr.stdout.splitlines() if l.startswith("TABLES")]
            sub = _json.loads(line[-1][6:]) if line else None
        except Exception as ex:
            sub = None
            ctx.note("construction-order subprocess failed: %s" % str(ex)[:80])
        if sub is None:
            ctx.broken.append("construction-order check could not run (subprocess gave no tables): %s" % (pr.stderr[-200:] if 'pr' in dir() else ""))
            break
        ctx.count("construction-orders")
        for kname, (p2, l2) in sub.items():
            p1, l1 = main_tab[kname]
            if p2 == "ERR":
                cls_, cfg_ = kname.split("|")
                ctx.violation("C14/%s/construction-order" % cls_, "%s(%s) cannot be built (%s) when the catalogue is built in the order starting with %s(%s); built in ascending order it publishes a valid table" % (
                    cls_, cfg_, l2, cat[od[0]][0], cat[od[0]][1]), {"class": cls_, "config": cfg_, "built_first": "%s(%s)" % (cat[od[0]][0], cat[od[0]][1])})
                break
            if l1 != l2 or any(abs(a[0] - b_[0]) > 1e-6 or abs(a[1] - b_[1]) > 1e-6 for a, b_ in zip(p1, p2)):
                cls_, cfg_ = kname.split("|")
                first = "%s(%s)" % (cat[od[0]][0], cat[od[0]][1])
                ctx.violation("C14/%s/construction-order" % cls_, "%s(%s) publishes a different table when %s is the first modulator built in the process (labels %s... vs %s...)" % (
                    cls_, cfg_, first, l2[:3], l1[:3]), {"class": cls_, "config": cfg_, "built_first": first})
                pts2 = [(Fraction(a), Fraction(b_)) for a, b_ in p2]
                gray_ = [c_[3] for c_ in cat if c_[0] == cls_ and c_[1] == cfg_][0]
                unit_ = [c_[4] for c_ in cat if c_[0] == cls_ and c_[1] == cfg_][0]
                py_table_oracle(ctx, cls_, cfg_, pts2, l2, gray_, unit_)
                break
    # buffers of one modulator written in place (gain applied, a checkpoint of another configuration loaded): a modulator built
    # afterwards with the same options still publishes its own table
    for i, (cls, cfg, mk, gray, unit) in enumerate(cat):
        if not any(t_ in cfg for t_ in ("order=16", "order=64", "order=4,")) or cls in ("OQPSKModulator",):
            continue
        first = mk()
        if not hasattr(first, "bit_patterns"):
            continue
        ref_pts, ref_labs = table_of(first, cls)
        donors = [mk2 for (c2, cfg2, mk2, g2, u2) in cat if c2 == cls and cfg2 != cfg and cfg2.split(",")[0] == cfg.split(",")[0]]
        try:
            with torch.no_grad():
                first.constellation.mul_(0.5)
            if donors:
                first.load_state_dict(donors[0]().state_dict(), strict=False)
        except Exception as ex:
            ctx.note("%s(%s): in-place buffer edit raised %s" % (cls, cfg, str(ex)[:60]))
            continue
        again = mk()
        pts2, labs2 = table_of(again, cls)
        ctx.count("buffer-edit-cases")
        if labs2 != ref_labs or any(abs(float(a[0] - b_[0])) > 1e-6 or abs(float(a[1] - b_[1])) > 1e-6 for a, b_ in zip(ref_pts, pts2)):
            ctx.violation("C14/%s/construction-after-buffer-edit" % cls, "%s(%s) built after another modulator of the same options had its buffers edited in place publishes a different table (first point %s vs %s, first labels %s vs %s)" % (
                cls, cfg, [float(v) for v in pts2[0]], [float(v) for v in ref_pts[0]], labs2[:2], ref_labs[:2]), {"class": cls, "config": cfg})
            py_table_oracle(ctx, cls, cfg, pts2, labs2, gray, unit)
    if ok:
        exprs = []
        for cls, cfg, m, pts, labs, gray, unit in tables:
            b = max(1, (len(pts) - 1).bit_length())
            exprs.append("check_table %s %s %s %s %s" % (cnat(b), cQ(TOL_NN), cQ(TOL_E), cpts(pts), clabs(labs)))
        res = ctx.coq_eval("tables", HDR, exprs, per_file=4, timeout=900)
        names = ["labels-bijective", "points-distinct", "gray-neighbours", "unit-energy", "lengths"]
        for (cls, cfg, m, pts, labs, gray, unit), r in zip(tables, res):
            applies = [True, True, gray, unit, True]
            for nm, v, ap in zip(names, r, applies):
                ctx.count("kernel-checkers")
                if ap and not v:
                    key = "C14/%s/%s/%s" % (cls, nm, cfg)
                    if not any(x["key"] == key for x in ctx.violations):
                        # the kernel rejects the table but the Python oracle found nothing: report, no input
                        ctx.violation(key, "kernel checker %s = false on the table published by %s(%s)" % (nm, cls, cfg),
                                      {"class": cls, "config": cfg, "checker": nm}, found_input=False)
        # label-table model vs published tables
        exprs, meta = [], []
        for cls, cfg, m, pts, labs, gray, unit in tables:
            b = max(1, (len(pts) - 1).bit_length())
            g = "true" if getattr(m, "gray_coding", False) else "false"
            if cls == "PSKModulator":
                exprs.append("(psk_patterns %s %s, map N.of_nat (psk_symbol_map %s %s))" % (cnat(b), g, cnat(b), g))
                meta.append((cls, cfg, labs, [int(v) for v in m.bit_to_symbol_map.tolist()]))
            elif cls == "PAMModulator" and not m.normalize:
                exprs.append("(pam_patterns %s %s, pam_levels %s %s)" % (cnat(b), g, cnat(b), g))
                meta.append((cls, cfg, labs, [int(round(float(v))) for v in m.levels.tolist()]))
            elif cls == "QAMModulator" and not m.normalize:
                exprs.append("(qam_patterns %s %s, qam_grid %s)" % (cnat(b), g, cnat(b)))
                meta.append((cls, cfg, labs, [(int(round(float(z.real))), int(round(float(z.imag)))) for z in m.constellation]))
        res = ctx.coq_eval("labels", HDR, exprs, per_file=6)
        for (cls, cfg, labs, extra), (ml, me) in zip(meta, res):
            ctx.count("label-model-correspondence")
            ml = [[1 if v else 0 for v in l] for l in ml]
            me = [tuple(x) if isinstance(x, (tuple, list)) else x for x in me]
            if ml != labs:
                ctx.broken.append("correspondence %s(%s).bit_patterns differs from Mod/Labels.v" % (cls, cfg))
            if me != extra:
                ctx.broken.append("correspondence %s(%s) symbol map / levels / grid differs from Mod/Labels.v" % (cls, cfg))
    ctx.sample({"tables checked": [c[0] + "(" + c[1] + ")" for c in cat][:6], "count": len(cat)})
    ctx.assumptions += ["float32 constellation coordinates are taken as exact dyadic rationals; nearest-neighbour relation uses relative tolerance 1e-4, unit energy 1e-5 (A-float)",
                        "array forms are compared with the scalar functions on the implementation (element-wise), not modelled separately"]
    ctx.cov["exhaustive"] = True
    ctx.note("Gray utilities exhaustive below 2^16; %d constellation tables" % len(cat))


def replay(rep):
    import_kaira()
    import kaira.modulations as M
    from kaira.modulations import utils as U
    r = rep.get("replay", {})
    print("replay of", rep.get("key"), r)
    if "n" in r:
        n = r["n"]
        print("b2g(n)=%d g2b(n)=%d g2b(b2g(n))=%d b2g(g2b(n))=%d b2g(n+1)=%d" % (
            U.binary_to_gray(n), U.gray_to_binary(n), U.gray_to_binary(U.binary_to_gray(n)), U.binary_to_gray(U.gray_to_binary(n)), U.binary_to_gray(n + 1)))
    if "class" in r:
        for cls, cfg, mk, gray, unit in catalogue(M, False):
            if cls == r["class"] and cfg == r["config"]:
                m = mk()
                print(m.constellation, getattr(m, "bit_patterns", None))
    return 0
