"""C01 -- encoder, generator matrix and parity-check matrix describe one and the same code.

P: coq/Props/C01.v (linearity of m.G and of the syndrome for all matrices; soundness of the checkers code_pair_ok /
   rowspace_dim_ok for ALL matrices and certificates).
T: for every code object of the catalogue the kernel evaluates the checkers on the matrices the implementation
   publishes (generator_matrix, check_matrix) -- so "injective, kernel = code, rank H = n-k" is decided by a theorem
   instance, not by sampling -- and the model m.G / x.H^T (Base/GF2.v) is compared with encoder(m) and
   calculate_syndrome(w) on all messages (k <= 12) resp. perturbed codewords.
S: the same clauses checked in Python on the implementation (independent bit-mask elimination), which supplies the
   concrete failing message / word when a clause fails.
"""
import contextlib
import io

import fec
from common import cN, clist, cnat

HDR = """From Coq Require Import NArith List Bool.
Import ListNotations.
From KV Require Import Base.GF2 Base.FecCases.
Local Open Scope N_scope.
"""
FINISH = dict(level="proof", rule=(
    "catalogue: every code family x admissible parameters up to the tier's length bound x information sets (left, right, "
    "sorted, permuted) + random full-rank generators + LDPC from user matrices incl. rank-deficient; per code: all 2^k "
    "messages (k <= 12, sampled above), all single-bit and 32 random multi-bit perturbations of sampled codewords; "
    "non-trivial = a code with 1 <= k < n; distinct = distinct (family, configuration)"))


def cfg_class(code):
    """coarse configuration class used in violation keys (so a known finding names a class, not every parameter)"""
    f, i = code.family, code.info
    if f in ("CyclicCodeEncoder", "BCHCodeEncoder", "ReedSolomonCodeEncoder"):
        return "information_set=%s" % i.get("iset", "left")
    if f == "ReedMullerCodeEncoder":
        return "r=0" if i["r"] == 0 else "r>=1"
    if f in ("HammingCodeEncoder", "GolayCodeEncoder", "SystematicLinearBlockCodeEncoder"):
        t = i["iset"]
        t = "left" if t == "left" else "right" if t == "right" else "sorted-list" if t.startswith("sorted") else "permuted-list"
        return "information_set=%s" % t
    if f == "LDPCCodeEncoder":
        return "user-matrix"
    if f == "LinearBlockCodeEncoder":
        return "non-systematic-generator"
    return "all"


def impl_syndrome(enc, words, n):
    import torch
    x = torch.tensor([fec.int_to_bits(w, n) for w in words], dtype=torch.float32)
    with contextlib.redirect_stdout(io.StringIO()):
        s = enc.calculate_syndrome(x)
    return [fec.bits_to_int(r) for r in s.tolist()]


def run(ctx):
    ok = ctx.build_props([], ["Base/FecCases.vo"])
    ctx.log("props built", ok)
    rng = ctx.rng
    cat = fec.catalogue(ctx.tier, rng)
    ctx.log("catalogue of %d code objects" % len(cat))
    exprs, meta = [], []
    fam_count = {}
    for code in cat:
        enc = code.build()
        if enc is None:
            ctx.note("constructor rejected %s: %s" % (code.name, code.err))
            ctx.count("constructor-rejections")
            continue
        n, k = int(enc.code_length), int(enc.code_dimension)
        fam_count[code.family] = fam_count.get(code.family, 0) + 1
        cls = cfg_class(code)
        base = "C01/%s/%%s/%s" % (code.family, cls)
        rep = {"code": code.name, "n": n, "k": k}
        try:
            gs = fec.rows_of(enc.generator_matrix)
            hs = fec.rows_of(enc.check_matrix)
        except ValueError as e:
            ctx.violation(base % "binary-matrices", "%s publishes a non-binary matrix: %s" % (code.name, e), rep)
            continue
        ctx.count("code-objects")
        if 1 <= k < n:
            ctx.nontriv((code.family, code.cfg))
        G_shape_ok = len(gs) == k and all(g < (1 << n) for g in gs) and tuple(enc.generator_matrix.shape) == (k, n)
        if not G_shape_ok:
            ctx.violation(base % "generator-shape", "%s: generator matrix shape %s for (n,k)=(%d,%d)" % (code.name, tuple(enc.generator_matrix.shape), n, k), rep)
            continue
        # ---- S1: encoder = m.G, linear, injective
        msgs = list(range(1 << k)) if k <= (10 if ctx.quick else 12) else sorted({rng.getrandbits(k) for _ in range(512)} | {0, 1, (1 << k) - 1})
        try:
            cws, _ = fec.encode_all(enc, k, msgs)
        except Exception as e:
            ctx.violation(base % "encoder-raises", "%s: encoder raised %s" % (code.name, e), rep)
            continue
        ctx.count("encodings", len(msgs))
        bad = next((m for m, c in zip(msgs, cws) if c != fec.comb(m, gs)), None)
        if bad is not None:
            ctx.violation(base % "encoder-equals-mG", "%s: encoder(%s) = %s but m.G = %s" % (
                code.name, fec.int_to_bits(bad, k), fec.int_to_bits(cws[msgs.index(bad)], n), fec.int_to_bits(fec.comb(bad, gs), n)),
                dict(rep, message=fec.int_to_bits(bad, k)))
        if len(set(cws)) != len(cws):
            seen = {}
            for m, c in zip(msgs, cws):
                if c in seen:
                    ctx.violation(base % "injective", "%s: messages %s and %s encode to the same word" % (code.name, fec.int_to_bits(seen[c], k), fec.int_to_bits(m, k)),
                                  dict(rep, message=fec.int_to_bits(m, k), other=fec.int_to_bits(seen[c], k)))
                    break
                seen[c] = m
        rs = fec.right_inverse(gs, n)
        if rs is None:
            ctx.violation(base % "generator-rank", "%s: the published generator matrix has rank %d < k = %d" % (code.name, fec.rank(gs), k), rep)
        # ---- S2: H describes the same code
        rH = fec.rank(hs)
        if any(h >= (1 << n) for h in hs) or (len(hs) and enc.check_matrix.shape[-1] != n):
            ctx.violation(base % "check-shape", "%s: check matrix shape %s" % (code.name, tuple(enc.check_matrix.shape)), rep)
            continue
        gb, _, gp = fec.echelon(gs)
        ts = None
        if rs is not None:
            badrow = next((g for g in gs if fec.synd(g, hs)), None)
            if badrow is not None:
                ctx.violation(base % "G.Ht=0", "%s: row %s of the generator matrix has non-zero syndrome %s under the published check matrix" % (
                    code.name, fec.int_to_bits(badrow, n), fec.int_to_bits(fec.synd(badrow, hs), len(hs))), dict(rep, word=fec.int_to_bits(badrow, n)))
            ts, wit = fec.kernel_certificate(n, gs, hs, rs)
            if ts is None and badrow is None:
                ctx.violation(base % "kernel-is-code", "%s: the word %s has an all-zero syndrome under the published check matrix (rank %d, need %d) but is not a codeword" % (
                    code.name, fec.int_to_bits(wit, n) if wit is not None else "?", rH, n - k), dict(rep, word=fec.int_to_bits(wit or 0, n)))
            elif rH != n - k and badrow is None:
                ctx.violation(base % "check-rank", "%s: rank of the check matrix is %d, n-k = %d" % (code.name, rH, n - k), rep)
        # ---- S3: implementation's own syndrome function on codewords and perturbations
        words = []
        for c in (cws[:8] + cws[-4:]):
            words.append(c)
            for i in range(n):
                words.append(c ^ (1 << i))
            for _ in range(4 if ctx.quick else 32):
                words.append(c ^ rng.getrandbits(n))
        heavy = code.family == "ReedMullerCodeEncoder" and k > 11     # its syndrome enumerates all 2^k codewords per call
        if heavy:
            words = words[:3] if k <= 16 else []
            ctx.note("%s: calculate_syndrome enumerates 2^%d codewords; %d words checked" % (code.name, k, len(words)))
        try:
            isyn = impl_syndrome(enc, words, n) if words else []
        except Exception as e:
            ctx.violation(base % "syndrome-raises", "%s: calculate_syndrome raised %s" % (code.name, e), rep)
            isyn = None
        if isyn is not None:
            ctx.count("syndromes", len(words))
            for w, s in zip(words, isyn):
                member = fec.express(w, gb, gp) is not None
                if (s == 0) != member:
                    ctx.violation(base % "syndrome-iff-codeword", "%s: word %s is %sa codeword but calculate_syndrome gives %s" % (
                        code.name, fec.int_to_bits(w, n), "" if member else "not ", fec.int_to_bits(s, max(1, len(hs)))), dict(rep, word=fec.int_to_bits(w, n)))
                    break
        # ---- T: kernel-evaluated checkers on the published matrices + model correspondence
        if rs is not None and ts is not None:
            d, bs, ls, cs, ds = fec.rowspace_certificate(hs, n)
            if all(c is not None for c in cs):
                exprs.append("(c01_case %s %s %s %s %s %s %s %s %s %s %s, enc_list %s %s, synd_list %s %s)" % (
                    cnat(n), cnat(k), fec.cNl(gs), fec.cNl(hs), fec.cNl(rs), fec.cNl(ts), cnat(n - k), fec.cNl(bs), fec.cNl(ls), fec.cNl(cs), fec.cNl(ds),
                    fec.cNl(gs), fec.cNl(msgs[:2048]), fec.cNl(hs), fec.cNl(words[:600])))
                # implementation syndromes use the published H unless the class overrides calculate_syndrome
                own_syndrome = "calculate_syndrome" in type(enc).__dict__      # RM / RS define their own syndrome; only zero/non-zero is property-relevant
                meta.append((code, fec.digest(cws[:2048]), fec.digest(isyn[:600]) if (isyn is not None and not own_syndrome) else None, rH == n - k))
    if ok and exprs:
        res = ctx.coq_eval("c01", HDR, exprs, per_file=12, timeout=900)
        for (code, dcw, dsy, rank_ok), (flags, menc, msyn) in zip(meta, res):
            ctx.count("kernel-checkers", 2)
            key = "C01/%s/%%s/%s" % (code.family, cfg_class(code))
            if not flags[0]:
                ctx.broken.append("kernel: code_pair_ok = false for %s although the harness found certificates" % code.name)
            if not flags[1] and rank_ok:
                ctx.broken.append("kernel: rowspace_dim_ok = false for %s" % code.name)
            if menc != dcw and not any(v["key"] == key % "encoder-equals-mG" for v in ctx.violations):
                ctx.broken.append("correspondence encoder vs comb m G for %s" % code.name)
            if dsy is not None and msyn != dsy and not any(v["key"].startswith("C01/%s/syndrome" % code.family) for v in ctx.violations):
                ctx.broken.append("correspondence calculate_syndrome vs syndN for %s" % code.name)
    ctx.sample({"families": fam_count, "example": cat[0].name})
    ctx.assumptions += ["A-lapack: what SVD / pinv return inside compute_null_space_matrix / compute_right_pseudo_inverse is opaque; the published matrices are checked a posteriori",
                        "certificates (right inverse, kernel decomposition, row-space basis) are computed by the untrusted harness and only checked by the kernel"]
    ctx.cov["exhaustive"] = False
    ctx.note("%d code objects; %d with full kernel certificates" % (sum(fam_count.values()), len(exprs)))


def replay(rep):
    r = rep.get("replay", {})
    print("replay of", rep.get("key"), {k: r[k] for k in r if k != "word"})
    import random
    cat = fec.catalogue(rep.get("tier", "quick"), random.Random(rep.get("seed", 0)))
    for code in cat:
        if code.name == r.get("code"):
            enc = code.build()
            print("G =", enc.generator_matrix.tolist())
            print("H =", enc.check_matrix.tolist())
            if "word" in r:
                print("syndrome of", r["word"], "=", impl_syndrome(enc, [fec.bits_to_int(r["word"])], int(enc.code_length)))
            if "message" in r:
                print("encoder(", r["message"], ") =", fec.encode_all(enc, int(enc.code_dimension), [fec.bits_to_int(r["message"])])[1].tolist())
    return 0
