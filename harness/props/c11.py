"""C11 -- polar encoding is the Arikan transform on the 5G information set, and inverts.

P: coq/Props/C11.v (transform = Kronecker power for every m; linear involution; ranking = pinned 5G sequence and a
   permutation below every power of two; exactly k nested information positions; successive cancellation returns the
   message from noise-free LLRs of any positive magnitudes for every sign-consistent check function; min-sum instance).
T: Gen/PolarRank.v regenerated from rank_polar.csv; Codes/Polar.v evaluated in Coq vs PolarCodeEncoder: information
   masks for every (N,k) of the tier, encoder outputs for all 2^k messages (k <= 10) incl. frozen value, interleaving
   and user masks, Kronecker rows vs get_generator_matrix; SC (min-sum, exact dyadic LLRs, arbitrary inputs) vs the
   model for both interleavings.
S: encoder = (placed vector).F^(xm) computed independently; SC and polar-BP return the message from noise-free LLRs
   at magnitudes 0.5..100, both regimes, batches.
"""
import contextlib
import io
from fractions import Fraction

from common import REPO, cN, cQ, clist, cnat, cbool, import_kaira
from translate import polarrank

HDR = """From Coq Require Import List Bool Arith NArith QArith.
Import ListNotations.
From KV Require Import Gen.PolarRank Codes.Polar Codes.PolarInfo Codes.C11Cases.
"""
MOD = 2305843009213693951
FINISH = dict(level="proof", rule=(
    "N in {2..1024} powers of two x k (all k for N <= 32 quick/64 thorough, seeded k above) x frozen zeros/ones x "
    "interleaving on/off x user masks; all 2^k messages for k <= 10, seeded above; SC/BP on noise-free LLRs at "
    "magnitudes {0.5, 2, 100} and SC on arbitrary dyadic LLR vectors; non-trivial = 1 <= k < N with N >= 4; "
    "distinct = distinct (N, k, options, message/LLR vector)"))


def digest(vals):
    acc = 7
    for v in vals:
        acc = (acc * 1000003 + v + 1) % MOD
    return acc


def quiet(f, *a, **k):
    with contextlib.redirect_stdout(io.StringIO()):
        return f(*a, **k)


def bits_to_int(bits):
    v = 0
    for i, b in enumerate(bits):
        if int(round(float(b))) & 1:
            v |= 1 << i
    return v


def ref_transform(u):
    """x_j = xor of u_i over i superset of j (u . F^{(x)m}), computed by the butterfly on ints"""
    x = list(u)
    n = len(x)
    d = 1
    while d < n:
        for p in range(n):
            if not p & d:
                x[p] ^= x[p + d]
        d *= 2
    return x


def bitrev(p, m):
    return int(format(p, "0%db" % m)[::-1], 2) if m else 0


def run(ctx):
    ok = ctx.build_props([polarrank.generate], ["Codes/C11Cases.vo"])
    ctx.log("props built", ok)
    import_kaira()
    import torch
    from kaira.models.fec.decoders import BeliefPropagationPolarDecoder, SuccessiveCancellationDecoder
    from kaira.models.fec.encoders import PolarCodeEncoder
    rng = ctx.rng
    quick = ctx.quick
    try:
        rank = polarrank.extract(REPO)
    except Exception as e:
        rank = None
        ctx.note("translator failed: %s" % e)
    # ------------------------------------------------------------------ configurations
    cfgs = []
    for m in range(1, 11):
        N = 1 << m
        if N <= (32 if quick else 64):
            ks = list(range(1, N))
            if quick and N == 32:
                ks = ks[::3]
        else:
            ks = sorted({1, N - 1, N // 2} | {rng.randint(1, N - 1) for _ in range(2 if quick else 10)})
        for k in ks:
            cfgs.append((m, N, k))
    exprs, meta = [], []
    enc_cache = {}

    def mk(N, k, **kw):
        key = (N, k, tuple(sorted((a, str(b)) for a, b in kw.items())))
        if key not in enc_cache:
            enc_cache[key] = quiet(PolarCodeEncoder, k, N, **kw)
        return enc_cache[key]

    for (m, N, k) in cfgs:
        enc = mk(N, k)
        mask = [bool(v) for v in enc.info_indices.tolist()]
        ctx.count("info-sets")
        if N >= 4:
            ctx.nontriv(("cfg", N, k))
        rep = {"N": N, "k": k}
        # S: exactly k positions, the k most reliable below N, nested
        if sum(mask) != k:
            ctx.violation("C11/PolarCodeEncoder/info-set-size", "N=%d k=%d: %d information positions" % (N, k, sum(mask)), rep)
        if rank is not None:
            below = [q for q in rank if q < N]
            want = set(below[N - k:])
            if {i for i, b in enumerate(mask) if b} != want:
                ctx.violation("C11/PolarCodeEncoder/info-set-5g", "N=%d k=%d: information set differs from the %d most reliable indices of the 5G ranking" % (N, k, k), rep)
        exprs.append("info_maskN %s %s" % (cnat(N), cnat(k)))
        meta.append(("mask", (N, k), bits_to_int(mask)))
    # ------------------------------------------------------------------ encoder on messages, all option combinations
    enc_cfgs = [c for c in cfgs if c[1] <= (64 if quick else 256)]
    if quick:
        enc_cfgs = enc_cfgs[::2]
    for (m, N, k) in enc_cfgs + [c for c in cfgs if c[1] >= 512][:2]:
        for frozen_zeros in (False, True):
            for polar_i in (False, True):
                if quick and (N + k + frozen_zeros + 2 * polar_i) % 3 == 0 and N > 16:
                    continue
                enc = mk(N, k, frozen_zeros=frozen_zeros, polar_i=polar_i)
                mask = [bool(v) for v in enc.info_indices.tolist()]
                msgs = list(range(1 << k)) if k <= (8 if quick else 10) else sorted({rng.getrandbits(k) for _ in range(40)} | {0, (1 << k) - 1})
                X = torch.tensor([[(x >> i) & 1 for i in range(k)] for x in msgs], dtype=torch.float32)
                Y = quiet(enc, X)
                outs = [bits_to_int(r) for r in Y.tolist()]
                ctx.count("encodings", len(msgs))
                rep = {"N": N, "k": k, "frozen_zeros": frozen_zeros, "polar_i": polar_i}
                fv = 0 if frozen_zeros else 1
                for x, o in zip(msgs, outs):
                    u, it = [], iter(range(k))
                    for b in mask:
                        u.append(((x >> next(it)) & 1) if b else fv)
                    c = ref_transform(u)
                    if polar_i:
                        c = [c[bitrev(p, m)] for p in range(N)]
                    ctx.nontriv(("enc", N, k, frozen_zeros, polar_i, x)) if N >= 4 else None
                    if bits_to_int(c) != o:
                        ctx.violation("C11/PolarCodeEncoder/encoder-is-kronecker/polar_i=%s" % polar_i,
                                      "N=%d k=%d frozen_zeros=%s polar_i=%s: message %s encodes to %s, (placed vector).F^(x%d)%s is %s" % (
                                          N, k, frozen_zeros, polar_i, [(x >> i) & 1 for i in range(k)], [int(v) for v in Y[msgs.index(x)].tolist()], m,
                                          " bit-reversed" if polar_i else "", c), dict(rep, message=[(x >> i) & 1 for i in range(k)]))
                        break
                if N <= 256:
                    exprs.append("encode_case %s %s %s %s %s" % (cnat(m), cnat(k), cbool(not frozen_zeros), cbool(polar_i), clist(msgs, cN)))
                    meta.append(("enc", (N, k, frozen_zeros, polar_i), digest(outs)))
    # user-supplied masks (load_rank=False)
    for _ in range(12 if quick else 60):
        m = rng.randint(1, 5)
        N = 1 << m
        k = rng.randint(1, N - 1) if N > 1 else 1
        pos = sorted(rng.sample(range(N), k))
        mask = [i in pos for i in range(N)]
        for polar_i in (False, True):
            fz = rng.random() < 0.5
            enc = quiet(PolarCodeEncoder, k, N, load_rank=False, info_indices=torch.tensor(mask), polar_i=polar_i, frozen_zeros=fz)
            msgs = list(range(1 << k)) if k <= 8 else [rng.getrandbits(k) for _ in range(30)]
            X = torch.tensor([[(x >> i) & 1 for i in range(k)] for x in msgs], dtype=torch.float32)
            outs = [bits_to_int(r) for r in quiet(enc, X).tolist()]
            ctx.count("encodings", len(msgs))
            exprs.append("encode_mask_case %s %s %s %s %s %s" % (cnat(m), cN(bits_to_int(mask)), cnat(k), cbool(not fz), cbool(polar_i), clist(msgs, cN)))
            meta.append(("enc-mask", (N, k, fz, polar_i, pos), digest(outs)))
            # successive cancellation with the user mask: noise-free LLRs (S) and arbitrary dyadic LLRs vs the model (T)
            C = quiet(enc, X)
            for regime in ("min_sum", "sum_product"):
                dec = quiet(SuccessiveCancellationDecoder, enc, regime=regime)
                for mag in (0.5, 3.0):
                    llr = (1 - 2 * C) * mag * (0.5 + torch.rand(C.shape))
                    out = quiet(dec, llr)
                    ctx.count("noise-free-decodings", len(msgs))
                    if not torch.equal(out.float(), X):
                        bad = int((out.float() != X).any(dim=1).nonzero()[0])
                        ctx.violation("C11/SuccessiveCancellationDecoder/noise-free/%s" % regime,
                                      "N=%d user mask %s frozen_zeros=%s polar_i=%s regime=%s: message %s decoded as %s" % (
                                          N, [int(b) for b in mask], fz, polar_i, regime, X[bad].tolist(), out[bad].tolist()),
                                      {"N": N, "k": k, "mask": [int(b) for b in mask], "frozen_zeros": fz, "polar_i": polar_i, "regime": regime,
                                       "message": X[bad].tolist(), "llr": llr[bad].tolist()})
            dec = quiet(SuccessiveCancellationDecoder, enc, regime="min_sum")
            ys = [[Fraction(rng.randint(-8192, 8192) * 2 + 1, 64) for _ in range(N)] for _ in range(6 if quick else 30)]
            out = quiet(dec, torch.tensor([[float(v) for v in y] for y in ys], dtype=torch.float32))
            exprs.append("sc_case_t %s %s %s %s 1000 [%s]" % (cnat(m), cN(bits_to_int(mask)), cbool(not fz), cbool(polar_i),
                                                            "; ".join("[" + "; ".join(cQ(v) for v in y) + "]" for y in ys)))
            meta.append(("sc", (N, k, fz, polar_i, "user-mask"), [bits_to_int(r) for r in out.tolist()]))
    # Kronecker rows vs get_generator_matrix
    for m in range(1, 7 if quick else 9):
        G = mk(1 << m, 1).get_generator_matrix()
        exprs.append("kron_rows %s" % cnat(m))
        meta.append(("kron", m, [bits_to_int(r) for r in G.tolist()]))
    # ------------------------------------------------------------------ decoders on noise-free LLRs (S) and SC vs model (T)
    dec_cfgs = [c for c in cfgs if 2 <= c[1] <= (64 if quick else 256)]
    dec_cfgs = dec_cfgs[:: (7 if quick else 3)] + [c for c in cfgs if c[1] in (512, 1024)][: (1 if quick else 4)]
    for (m, N, k) in dec_cfgs:
        for frozen_zeros in (False, True):
            for polar_i in (False, True):
                enc = mk(N, k, frozen_zeros=frozen_zeros, polar_i=polar_i)
                nb = rng.randint(1, 8)
                msgs = [rng.getrandbits(k) for _ in range(nb)]
                X = torch.tensor([[(x >> i) & 1 for i in range(k)] for x in msgs], dtype=torch.float32)
                C = quiet(enc, X)
                for regime in ("min_sum", "sum_product"):
                    for mag in (0.5, 2.0, 100.0):
                        if regime == "sum_product" and mag == 0.5 and N >= 256:
                            ctx.note("sum-product at |LLR|=0.5, N>=256 not checked: float32 underflow region (A-float)") if len(ctx.notes) < 10 else None
                            continue
                        llr = (1 - 2 * C) * mag * (0.5 + torch.rand(C.shape))
                        decs = [("SuccessiveCancellationDecoder", quiet(SuccessiveCancellationDecoder, enc, regime=regime))]
                        if not polar_i and N <= (64 if quick else 256):
                            decs.append(("BeliefPropagationPolarDecoder", quiet(BeliefPropagationPolarDecoder, enc, regime=regime, bp_iters=10)))
                            # other iteration budgets and options: as many iterations as stages, fewer (one iteration already decodes clean input
                            # on the unchanged tree), early stopping, cyclic stage permutations
                            if mag == 2.0:
                                for extra in ({"bp_iters": m}, {"bp_iters": 1}, {"bp_iters": max(1, m - 1)}, {"bp_iters": 10, "early_stop": True}, {"bp_iters": 10, "perm": "cycle"}):
                                    try:
                                        decs.append(("BeliefPropagationPolarDecoder%s" % sorted(extra.items()), quiet(BeliefPropagationPolarDecoder, enc, regime=regime, **extra)))
                                    except Exception as ex:
                                        ctx.note("BeliefPropagationPolarDecoder(%s) constructor: %s" % (extra, str(ex)[:60])) if len(ctx.notes) < 10 else None
                        for dname, dec in decs:
                            out = quiet(dec, llr)
                            ctx.count("noise-free-decodings", nb)
                            ctx.nontriv(("dec", dname, N, k, frozen_zeros, polar_i, regime, mag))
                            if tuple(out.shape) != (nb, k) or not torch.equal(out.float(), X):
                                bad = 0
                                if tuple(out.shape) == (nb, k):
                                    bad = int((out.float() != X).any(dim=1).nonzero()[0])
                                ctx.violation("C11/%s/noise-free/%s" % (dname.split("[")[0] + ("/options" if "[" in dname else ""), regime),
                                              "%sN=%d k=%d frozen_zeros=%s polar_i=%s regime=%s |LLR|~%g: message %s decoded as %s" % (
                                                  (dname[dname.index("["):] + " ") if "[" in dname else "", N, k, frozen_zeros, polar_i, regime, mag, X[bad].tolist(), out[bad].tolist() if tuple(out.shape) == (nb, k) else tuple(out.shape)),
                                              {"N": N, "k": k, "frozen_zeros": frozen_zeros, "polar_i": polar_i, "regime": regime, "magnitude": mag,
                                               "message": X[bad].tolist(), "llr": llr[bad].tolist()})
                # T: SC min-sum on arbitrary dyadic LLRs, exact
                if N <= 64:
                    dec = quiet(SuccessiveCancellationDecoder, enc, regime="min_sum")
                    ys = [[Fraction(rng.randint(-8192, 8192) * 2 + 1, 64) for _ in range(N)] for _ in range(6 if quick else 30)]
                    out = quiet(dec, torch.tensor([[float(v) for v in y] for y in ys], dtype=torch.float32))
                    mask = bits_to_int([bool(v) for v in enc.info_indices.tolist()])
                    exprs.append("sc_case_t %s %s %s %s 1000 [%s]" % (cnat(m), cN(mask), cbool(not frozen_zeros), cbool(polar_i),
                                                                  "; ".join("[" + "; ".join(cQ(v) for v in y) + "]" for y in ys)))
                    meta.append(("sc", (N, k, frozen_zeros, polar_i), [bits_to_int(r) for r in out.tolist()]))
                    ctx.count("sc-arbitrary-llr", len(ys))
    if ok and exprs:
        res = ctx.coq_eval("c11", HDR, exprs, per_file=max(4, len(exprs) // 48), timeout=1500)
        for (kind, cfg, impl), mv in zip(meta, res):
            ctx.count("model-correspondence")
            if kind == "sc":
                ties = sum(1 for _, t in mv if t)
                if ties:
                    ctx.count("sc-ties-excluded", ties)
                mv, impl = [v for v, t in mv if not t], [o for o, (v, t) in zip(impl, mv) if not t]
            if mv != impl:
                ctx.broken.append("correspondence %s %s: implementation %s model %s" % (kind, cfg, str(impl)[:80], str(mv)[:80]))
                if len(ctx.broken) > 6:
                    break
    ctx.sample({"configurations": len(cfgs), "example": {"N": 8, "k": 4, "info": [bool(v) for v in mk(8, 4).info_indices.tolist()]}})
    ctx.assumptions += ["A-float: sum-product (tanh/arctanh) successive cancellation and polar BP are not modelled over the reals; they are checked on the implementation only, outside the float32 underflow region (|LLR| = 0.5 with N >= 256 is skipped and reported)",
                        "the 5G table is the copy pinned in coq/Spec/Polar5G.v (taken from the pinned commit); the 3GPP document itself is not available offline",
                        "polar BP and the interleaved (polar_i) variants have executable models / oracles but no theorem (partial)"]
    ctx.cov["exhaustive"] = False


def replay(rep):
    import_kaira()
    import torch
    from kaira.models.fec.encoders import PolarCodeEncoder
    r = rep.get("replay", {})
    print("replay of", rep.get("key"), {k: v for k, v in r.items() if k != "llr"})
    if "N" in r and "message" in r:
        enc = quiet(PolarCodeEncoder, r["k"], r["N"], frozen_zeros=r.get("frozen_zeros", False), polar_i=r.get("polar_i", False))
        print("info", enc.info_indices.int().tolist())
        print("encoded", quiet(enc, torch.tensor([r["message"]], dtype=torch.float32)).tolist())
    return 0
