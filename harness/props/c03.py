"""C03 -- the (n, k, d) and structure a code object advertises are its true parameters.

P: coq/Props/C03.v (soundness of min_distance_ge / shift_closed_ok / rows_multiples_ok / multiples_in_code_ok /
   divides_xn1 for all matrices; Hamming sphere-packing equality for every mu; Golay by computation).
T: per code object the kernel evaluates those checkers on the published generator matrix, together with
   code_pair_ok for the reference parity-check matrix used for membership (so every link is a theorem instance);
   enumeration bound 2^k with k <= 12 (quick) / 16 (thorough), stated in the evidence.
S: Python reference: exact d by Gray-code enumeration (k <= 20) or MacWilliams on the dual (n-k <= 20), compared
   with every advertised value; cyclic closure / divisibility on the implementation's matrices.
"""
import fec
from common import cN, cnat
from props.c01 import cfg_class

HDR = """From Coq Require Import NArith List Bool.
Import ListNotations.
From KV Require Import Base.GF2 Base.FecCases Codes.Cyclic Codes.C03Cases.
Local Open Scope N_scope.
"""
FINISH = dict(level="proof", rule=(
    "same catalogue as C01 (families x parameters x information sets); true distance by exhaustive enumeration of the "
    "2^k codewords (k <= 20) or MacWilliams (n-k <= 20) in the reference, by kernel enumeration for k <= 12 (quick) / 16 "
    "(thorough); non-trivial = 1 <= k < n; distinct = distinct (family, configuration)"))
EXACT = {"HammingCodeEncoder", "GolayCodeEncoder", "ReedMullerCodeEncoder", "SingleParityCheckCodeEncoder", "CyclicCodeEncoder", "RepetitionCodeEncoder"}


def advertised(enc):
    out = {}
    for a in ("minimum_distance", "error_correction_capability", "delta"):
        if hasattr(enc, a):
            v = getattr(enc, a)
            try:
                v = v() if callable(v) else v
                out[a] = int(v)
            except Exception as e:      # noqa
                out[a] = "error: %s" % e
    return out


def run(ctx):
    ok = ctx.build_props([], ["Base/FecCases.vo", "Codes/C03Cases.vo"])
    ctx.log("props built", ok)
    rng = ctx.rng
    cat = fec.catalogue(ctx.tier, rng)
    KMAX = 12 if ctx.quick else 16
    exprs, meta = [], []
    for code in cat:
        enc = code.build()
        if enc is None:
            continue
        n, k = int(enc.code_length), int(enc.code_dimension)
        cls = cfg_class(code)
        if code.family == "CyclicCodeEncoder":
            cls += ",k>12" if k > 12 else ",k<=12"
        base = "C03/%s/%%s/%s" % (code.family, cls)
        rep = {"code": code.name, "n": n, "k": k}
        try:
            gs = fec.rows_of(enc.generator_matrix)
        except ValueError:
            continue
        ctx.count("code-objects")
        if 1 <= k < n:
            ctx.nontriv((code.family, code.cfg))
        # ---- length, dimension, rate
        true_k = fec.rank(gs)
        if len(gs) != k or true_k != k or any(g >> n for g in gs):
            ctx.violation(base % "dimension", "%s advertises (n,k)=(%d,%d) but its generator matrix has %d rows of rank %d" % (code.name, n, k, len(gs), true_k), rep)
            continue
        if abs(float(enc.code_rate) - k / n) > 1e-12:
            ctx.violation(base % "rate", "%s: code_rate %r, k/n = %r" % (code.name, enc.code_rate, k / n), rep)
        # encoder output set = row space (sampled; C01 checks encoder = m.G exhaustively)
        msgs = sorted({rng.getrandbits(k) for _ in range(32)} | {1, (1 << k) - 1})
        cws, _ = fec.encode_all(enc, k, msgs)
        gb, _, gp = fec.echelon(gs)
        if any(fec.express(c, gb, gp) is None for c in cws):
            ctx.violation(base % "encoder-in-code", "%s: the encoder produces a word outside the row space of its generator matrix" % code.name, rep)
            continue
        # ---- true minimum distance
        d = fec.min_distance(gs, k, 1 << (16 if ctx.quick else 20))
        hs = fec.null_space(gs, n)
        if d is None and n - k <= (16 if ctx.quick else 20):
            d = fec.dual_min_distance(gs, hs, n, k, 1 << 20)
        adv = advertised(enc)
        if code.family == "RepetitionCodeEncoder":
            adv.setdefault("minimum_distance", n)          # documented: (n, 1, n) code
        rep["advertised"] = adv
        rep["true_distance"] = d
        ctx.count("distance-computations")
        if d is not None:
            md = adv.get("minimum_distance")
            if isinstance(md, int):
                if d < md:
                    w = next((fec.comb(m, gs) for m in range(1, min(1 << k, 1 << 20)) if fec.wt(fec.comb(m, gs)) == d), None)
                    ctx.violation(base % "minimum-distance-at-least", "%s advertises minimum distance %d but the codeword %s has weight %d" % (
                        code.name, md, fec.int_to_bits(w, n) if w is not None else "?", d), dict(rep, codeword=fec.int_to_bits(w or 0, n)))
                elif d != md and code.family in EXACT:
                    ctx.violation(base % "minimum-distance-exact", "%s documents the exact minimum distance %d but the true one is %d" % (code.name, md, d), rep)
            t = adv.get("error_correction_capability")
            if isinstance(t, int) and d < 2 * t + 1:
                ctx.violation(base % "error-correction-capability", "%s advertises t=%d (needs d >= %d) but the true minimum distance is %d" % (code.name, t, 2 * t + 1, d), rep)
            de = adv.get("delta")
            if isinstance(de, int) and d < de:
                ctx.violation(base % "design-distance", "%s advertises design distance %d but the true minimum distance is %d" % (code.name, de, d), rep)
            for a, v in adv.items():
                if isinstance(v, str):
                    ctx.violation(base % ("%s-raises" % a), "%s: %s raised: %s" % (code.name, a, v), rep)
        # ---- perfect codes
        perfect = ("perfect" in code.tags)
        # ---- cyclic structure
        cyc = None
        if "cyclic" in code.tags and code.info.get("iset") in ("left", "right"):
            g = int(enc.generator_poly.value)
            code_set_closed = all(fec.express(fec.rot1(r, n), gb, gp) is not None for r in gs)
            if not code_set_closed:
                bad = next(r for r in gs if fec.express(fec.rot1(r, n), gb, gp) is None)
                ctx.violation(base % "cyclic-closure", "%s: codeword %s shifted cyclically by one position is not a codeword" % (code.name, fec.int_to_bits(bad, n)),
                              dict(rep, codeword=fec.int_to_bits(bad, n)))
            if fec.pmod((1 << n) | 1, g) != 0 or g.bit_length() - 1 != n - k:
                ctx.violation(base % "generator-divides", "%s: generator polynomial %s (degree %d) does not divide X^%d+1 with degree n-k=%d" % (code.name, bin(g), g.bit_length() - 1, n, n - k), rep)
            orient = None
            for name, f in (("natural", lambda x: x), ("reversed", lambda x: fec.revn(x, n))):
                rows = [f(r) for r in gs]
                rb, _, rp = fec.echelon(rows)
                if all(fec.pmod(r, g) == 0 for r in rows) and all(fec.express(g << i, rb, rp) is not None for i in range(k)):
                    orient = (name, f)
                    break
            if orient is None:
                ctx.violation(base % "multiples-of-generator", "%s: the code is not the set of multiples of its generator polynomial %s in either coefficient order" % (code.name, bin(g)), rep)
            elif code_set_closed:
                cyc = (g, orient)
        # ---- kernel side
        rs = fec.right_inverse(gs, n)
        ts, _ = fec.kernel_certificate(n, gs, hs, rs)
        if d is not None and k <= KMAX and k >= 1:
            exprs.append("c03_distance %s %s %s %s %s %s %s" % (cnat(n), cnat(k), fec.cNl(gs), fec.cNl(hs), fec.cNl(rs), fec.cNl(ts), cnat(d)))
            meta.append(("distance", code, d))
        if cyc is not None:
            g, (oname, f) = cyc
            gso = [f(r) for r in gs]
            hso = fec.null_space(gso, n)
            rso = fec.right_inverse(gso, n)
            tso, _ = fec.kernel_certificate(n, gso, hso, rso)
            exprs.append("c03_cyclic %s %s %s %s %s %s %s" % (cnat(n), cnat(k), fec.cNl(gso), fec.cNl(hso), fec.cNl(rso), fec.cNl(tso), cN(g)))
            meta.append(("cyclic", code, oname))
        if perfect and isinstance(adv.get("minimum_distance"), int):
            t = (adv["minimum_distance"] - 1) // 2
            exprs.append("[c03_perfect %s %s %s]" % (cnat(n), cnat(k), cnat(t)))
            meta.append(("perfect", code, t))
            vol = sum(__import__("math").comb(n, i) for i in range(t + 1))
            if (1 << k) * vol != (1 << n):
                ctx.violation(base % "sphere-packing", "%s: 2^k * V(n,t) = %d != 2^n with the advertised (n,k,t)=(%d,%d,%d)" % (code.name, (1 << k) * vol, n, k, t), rep)
    if ok and exprs:
        res = ctx.coq_eval("c03", HDR, exprs, per_file=10, timeout=1500)
        for (kind, code, x), flags in zip(meta, res):
            ctx.count("kernel-checkers", len(flags))
            if not all(flags):
                ctx.broken.append("kernel: %s checkers %s for %s (%s)" % (kind, flags, code.name, x))
                if len(ctx.broken) > 8:
                    break
    ctx.sample({"example": cat[0].name, "kernel evaluations": len(exprs)})
    # encoders built one at a time and dropped again (a sweep over codes): what each advertises must be its own
    import gc
    import torch
    from kaira.models.fec import encoders as E
    seen = 0
    for n_ in range(3, 13 if ctx.quick else 16):
        for g_ in fec.divisors_of_xn1(n_):
            k_ = n_ - (g_.bit_length() - 1)
            if not (1 <= k_ <= 8):
                continue
            for tag in ("left", "right"):
                try:
                    e_ = E.CyclicCodeEncoder(code_length=n_, generator_polynomial=g_, information_set=tag)
                except Exception:
                    continue
                adv = e_.minimum_distance()
                adv = int(adv() if callable(adv) else adv)
                true = fec.min_distance(fec.rows_of(e_.generator_matrix), k_)
                seen += 1
                ctx.count("drop-and-rebuild-objects")
                if adv != true:
                    ctx.violation("C03/CyclicCodeEncoder/minimum-distance-exact/object-lifetime", "CyclicCodeEncoder(n=%d, g=%s, %s) built after %d earlier encoders had been dropped advertises minimum distance %d, its code has %d" % (
                        n_, bin(g_), tag, seen - 1, adv, true), {"n": n_, "g": g_, "information_set": tag})
                del e_
                gc.collect()
    ctx.assumptions += ["true distances above the kernel enumeration bound (k > %d) are computed by the Python reference only (Gray-code enumeration / MacWilliams), not by a theorem instance" % KMAX,
                        "the general BCH bound and the Reed-Muller distance formula for arbitrary parameters are not formalised: each catalogue instance is decided by enumeration"]
    ctx.cov["exhaustive"] = False
    ctx.note("kernel enumeration bound k <= %d" % KMAX)


def replay(rep):
    import random
    r = rep.get("replay", {})
    print("replay of", rep.get("key"), r)
    cat = fec.catalogue(rep.get("tier", "quick"), random.Random(rep.get("seed", 0)))
    for code in cat:
        if code.name == r.get("code"):
            enc = code.build()
            gs = fec.rows_of(enc.generator_matrix)
            print("advertised", advertised(enc), "true minimum distance", fec.min_distance(gs, int(enc.code_dimension)))
    return 0
