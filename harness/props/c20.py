"""C20 -- per-sample components are pure: the batch result equals the stack of the single results.

P: coq/Props/C20.v (functional model: batch = map f -- stack of singles, member independence, permutations, batch of one,
   splitting; blockwise along the last dimension -- grouping of blocks does not matter, single block = the block
   function, rows independent, lengths that are not a whole number of blocks are rejected).
   Iterative decoders (Batch/IterStop.v): a message-passing loop that runs a fixed number of passes, or that retires rows
   one by one through an index set, is batch-pure for every step / criterion / budget; a whole-batch stopping test is not
   (refuted with a witness).  harness/translate/iterloops.py reads which discipline the LDPC BP and polar BP loops follow
   from the source on every run (Gen/IterLoops.v) and fails closed on any other loop shape.
T: the layout law (Base/Layout.v blockwise2) is evaluated by the kernel on the component's own single-block answers and
   compared with what the component returns for (B, b*n) inputs.
S: on the real objects: f(stack xs) = stack f(x) for batches of 1..6 in every permutation (small batches), layouts 1-D /
   (B,n) / (B1,B2,n) / (B,b*n) (agree or raise), repeated and interleaved calls on one object, input tensors unmodified,
   members that trigger special paths (zero syndrome, zero signal, ties).  Hidden state and in-place modification are
   decided by this part alone (a pure model cannot express them).
"""
import contextlib
import io
import itertools

import fec
from common import cbool, clist, cnat, import_kaira
from translate import iterloops

HDR = """From Coq Require Import List Bool Arith.
Import ListNotations.
From KV Require Import Base.Layout Batch.C20Cases.
"""
FINISH = dict(level="proof", rule=(
    "encoders (catalogue subset: Hamming, extended Hamming, repetition, SPC, BCH, Golay, Reed-Muller, cyclic, systematic, LDPC, polar), decoders (syndrome lookup, "
    "brute-force ML, Berlekamp-Massey, Reed majority, Wagner, BP, min-sum, SC, polar BP), memoryless modulators / demodulators (hard and soft), total / average / "
    "PAPR / per-antenna constraints x batches of 1..6 x all permutations for B <= 4 x layouts 1-D, (B,n), (B1,B2,n), (B,b*n) x two passes over the same objects "
    "with interleaved inputs; non-trivial = B >= 2 or a multi-block layout; distinct = distinct (component, layout, batch)"))


def quiet(f, *a, **k):
    with contextlib.redirect_stdout(io.StringIO()):
        return f(*a, **k)


def run(ctx):
    ok = ctx.build_props([iterloops.generate], ["Batch/C20Cases.vo"])
    ctx.log("props built", ok)
    import_kaira()
    import torch
    import kaira.constraints as K
    import kaira.modulations as M
    from kaira.models.fec import decoders as D
    from kaira.models.fec import encoders as E
    from props.c05 import memoryless
    rng = ctx.rng
    quick = ctx.quick
    exprs, meta = [], []

    def same(a, b, exact):
        if a is None or b is None or tuple(a.shape) != tuple(b.shape):
            return False
        if exact is True:
            return torch.equal(a.to(torch.float64) if not torch.is_complex(a) else a, b.to(torch.float64) if not torch.is_complex(b) else b)
        if isinstance(exact, float):             # iterated float32 arithmetic (tanh/atanh): batched and single kernels round differently
            return torch.allclose(a, b.to(a.dtype), rtol=exact, atol=exact, equal_nan=True)
        return torch.allclose(a, b.to(a.dtype), rtol=2e-5, atol=1e-7, equal_nan=True)

    def check(name, cls, f, items, exact=True, n_in=None, multiblock=True, nested=True, one_d=True, kw=None, fresh=None):
        """f: callable on tensors; items: list of 1-D tensors (one sample / block each)"""
        kw = kw or {}
        key = "C20/%s/%%s" % cls
        rep = {"component": name}
        ctx.count("components")

        def call(x):
            x0 = x.clone()
            out = quiet(f, x, **kw)
            if not torch.equal(x, x0):
                ctx.violation(key % "input-modified", "%s modifies its input tensor (shape %s)" % (name, tuple(x.shape)), rep)
            return out
        # singles, as rows of a batch of one (the universally supported layout), twice (statelessness)
        try:
            singles = [call(it.unsqueeze(0))[0] for it in items]
            again = [call(it.unsqueeze(0))[0] for it in reversed(items)][::-1]
        except Exception as ex:
            ctx.note("%s: batch-of-one call raised %s" % (name, str(ex)[:80]))
            ctx.count("components-skipped")
            return
        for i, (a, b_) in enumerate(zip(singles, again)):
            if not same(a, b_, exact):
                ctx.violation(key % "repeated-call", "%s: the same input gives a different answer on a later call (item %d after %d other calls)" % (name, i, 2 * len(items) - 1 - i), rep)
                return
        ctx.count("single-calls", 2 * len(items))
        # a freshly built object answers each member the same way as the object that has already seen the others
        if fresh is not None:
            for i, it in enumerate(items):
                try:
                    fr = quiet(quiet(fresh), it.unsqueeze(0), **kw)[0]
                except Exception:
                    break
                ctx.count("fresh-object-calls")
                if not same(fr, singles[i], exact):
                    ctx.violation(key % "history-dependent", "%s: member %d is answered %s by an object that has seen the other members and %s by a freshly built one" % (
                        name, i, singles[i].reshape(-1).tolist()[:12], fr.reshape(-1).tolist()[:12]), rep)
                    return
        # 1-D call
        if one_d:
            try:
                o = call(items[0])
                if not same(o, singles[0], exact):
                    ctx.violation(key % "layout-1d", "%s: a 1-D input is answered with %s, the same sample as a batch of one gives %s" % (name, o.tolist()[:12], singles[0].tolist()[:12]), rep)
            except Exception:
                ctx.count("layouts-rejected")
        # batches of 1..6, permutations
        for B in range(1, min(6, len(items)) + 1):
            idxs = list(range(B))
            perms = list(itertools.permutations(idxs)) if B <= (4 if not quick else 3) else [tuple(rng.sample(idxs, B)) for _ in range(4)]
            for pi in perms:
                x = torch.stack([items[i] for i in pi])
                try:
                    out = call(x)
                except Exception as ex:
                    ctx.violation(key % "batch-raises", "%s raised on a batch of %d: %s" % (name, B, str(ex)[:100]), rep)
                    return
                ctx.count("batched-calls")
                if B >= 2:
                    ctx.nontriv((name, "batch", pi))
                exp = torch.stack([singles[i] for i in pi])
                if not same(out, exp, exact):
                    j = 0
                    if tuple(out.shape) == tuple(exp.shape):
                        diff = [r for r in range(B) if not same(out[r], exp[r], exact)]
                        j = diff[0] if diff else 0
                    ctx.violation(key % "batch-vs-singles", "%s: batch of %d (members %s): row %d is %s, the member alone gives %s" % (
                        name, B, list(pi), j, out[j].reshape(-1).tolist()[:10] if tuple(out.shape) == tuple(exp.shape) else "shape %s" % (tuple(out.shape),), exp[j].reshape(-1).tolist()[:10]), dict(rep, batch=list(pi)))
                    return
        # the same members held in other dtypes (binary-valued inputs only): same answer on two passes, input left alone
        if exact is True and all(set(it.reshape(-1).tolist()) <= {0.0, 1.0} for it in items):
            for dt in (torch.int32, torch.int64, torch.float64):
                xin = torch.stack(items[: min(4, len(items))]).to(dt)
                x0 = xin.clone()
                try:
                    o1 = quiet(f, xin, **kw)
                    o2 = quiet(f, xin, **kw)
                except Exception:
                    ctx.count("layouts-rejected")
                    continue
                ctx.count("dtype-variants")
                exp = torch.stack([singles[i] for i in range(xin.shape[0])])
                if not torch.equal(xin, x0):
                    ctx.violation(key % "input-modified", "%s modifies its %s input tensor" % (name, str(dt).split(".")[1]), dict(rep, dtype=str(dt)))
                    break
                if not same(o1, exp, True) or not same(o2, exp, True):
                    ctx.violation(key % "dtype-or-repeat", "%s on %s copies of the same members answers differently from float32 (first pass equal: %s, second pass equal: %s)" % (
                        name, str(dt).split(".")[1], same(o1, exp, True), same(o2, exp, True)), dict(rep, dtype=str(dt)))
                    break
        # (B1, B2, n)
        if nested and len(items) >= 4:
            x = torch.stack([torch.stack([items[0], items[1]]), torch.stack([items[2], items[3]])])
            try:
                out = call(x)
                exp = torch.stack([torch.stack([singles[0], singles[1]]), torch.stack([singles[2], singles[3]])])
                ctx.count("nested-calls")
                ctx.nontriv((name, "nested"))
                if not same(out, exp, exact):
                    ctx.violation(key % "layout-nested", "%s: a (2,2,n) input is answered with shape %s / values that differ from the members alone" % (name, tuple(out.shape)), rep)
            except Exception:
                ctx.count("layouts-rejected")
        # the same batches held as permuted / transposed views (same values, non-contiguous strides): same answers, or a rejection
        if len(items) >= 4:
            views = []
            xb = torch.stack(items[:4])
            views.append(("(B,n) view of an (n,B) tensor", xb.transpose(0, 1).contiguous().transpose(0, 1), torch.stack(singles[:4])))
            if nested:
                xn = torch.stack([torch.stack([items[0], items[1], items[2]]), torch.stack([items[3], items[1], items[0]])])            # (2,3,n)
                en = torch.stack([torch.stack([singles[0], singles[1], singles[2]]), torch.stack([singles[3], singles[1], singles[0]])])
                views.append(("(B1,B2,n) view with swapped leading dimensions", xn.transpose(0, 1).contiguous().transpose(0, 1), en))
            for vname, xv, exp in views:
                if xv.is_contiguous():
                    continue
                try:
                    out = call(xv)
                except Exception:
                    ctx.count("layouts-rejected")
                    continue
                ctx.count("view-calls")
                ctx.nontriv((name, "view", vname))
                if not same(out, exp, exact):
                    ctx.violation(key % "layout-view", "%s: a %s (strides %s) is answered with values that differ from the members alone: %s vs %s" % (
                        name, vname, tuple(xv.stride()), out.reshape(-1).tolist()[:12] if out is not None else None, exp.reshape(-1).tolist()[:12]), dict(rep, view=vname))
                    break
        # (B, b*n): blocks grouped along the last dimension
        if multiblock and len(items) >= 4:
            for groups in ([[0, 1], [2, 3]], [[0, 1, 2]], [[3, 2, 1, 0], [0, 0, 1, 1]]):
                if max(max(g) for g in groups) >= len(items):
                    continue
                x = torch.stack([torch.cat([items[i] for i in g]) for g in groups])
                try:
                    out = call(x)
                except Exception:
                    ctx.count("layouts-rejected")
                    continue
                exp = torch.stack([torch.cat([singles[i].reshape(-1) for i in g]) for g in groups])
                ctx.count("multi-block-calls")
                ctx.nontriv((name, "multiblock", str(groups)))
                if not same(out, exp, exact):
                    ctx.violation(key % "layout-multiblock", "%s: rows of %d blocks are answered with %s, block by block the answer is %s" % (
                        name, len(groups[0]), out.reshape(-1).tolist()[:16] if out is not None else None, exp.reshape(-1).tolist()[:16]), dict(rep, groups=groups))
                    break
                # T: the layout law evaluated by the kernel on the component's own single-block answers
                if exact is True and n_in and len(exprs) < (150 if quick else 1500) and all(set(singles[i].reshape(-1).tolist()) <= {0, 1, 0.0, 1.0} for i in range(len(items))) and all(set(items[i].tolist()) <= {0.0, 1.0} for i in range(len(items))):
                    bl = lambda t: clist([bool(v) for v in t.reshape(-1).tolist()], cbool)      # noqa: E731
                    tbl = "[" + "; ".join("(%s, %s)" % (bl(items[i]), bl(singles[i])) for i in sorted({i for g in groups for i in g})) + "]"
                    rows = "[" + "; ".join(bl(r) for r in x) + "]"
                    exprs.append("c20_rows %s %s %s" % (cnat(n_in), tbl, rows))
                    meta.append((name, cls, [[int(v) for v in r.reshape(-1).tolist()] for r in out]))

    # ------------------------------------------------------------------ encoders and decoders
    H63 = torch.tensor([[1, 1, 0, 1, 0, 0], [0, 1, 1, 0, 1, 0], [1, 0, 1, 0, 0, 1]]).float()
    encs = [("Hamming(3)", lambda: E.HammingCodeEncoder(mu=3)), ("Hamming(3,extended)", lambda: E.HammingCodeEncoder(mu=3, extended=True)), ("Repetition(5)", lambda: E.RepetitionCodeEncoder(5)),
            ("SingleParityCheck(4)", lambda: E.SingleParityCheckCodeEncoder(4)), ("BCH(15,7)", lambda: E.BCHCodeEncoder(mu=4, delta=5)), ("ReedMuller(1,3)", lambda: E.ReedMullerCodeEncoder(1, 3)),
            ("ReedMuller(2,4)", lambda: E.ReedMullerCodeEncoder(2, 4)), ("Cyclic(7,1011)", lambda: E.CyclicCodeEncoder(code_length=7, generator_polynomial=0b1011)),
            ("Systematic(6,3)", lambda: E.SystematicLinearBlockCodeEncoder(parity_submatrix=torch.tensor([[1, 1, 0], [0, 1, 1], [1, 0, 1]]).float())),
            ("Linear(7,4)", lambda: E.LinearBlockCodeEncoder(generator_matrix=torch.tensor([[1, 1, 0, 1, 0, 0, 0], [0, 1, 1, 0, 1, 0, 0], [1, 1, 1, 0, 0, 1, 0], [1, 0, 1, 0, 0, 0, 1]]).float())),
            ("LDPC(6,3)", lambda: E.LDPCCodeEncoder(check_matrix=H63)), ("Polar(4,8)", lambda: E.PolarCodeEncoder(4, 8)), ("Golay", lambda: E.GolayCodeEncoder())]
    if not quick:
        encs += [("ReedSolomon(7,3)", lambda: E.ReedSolomonCodeEncoder(mu=3, delta=5)), ("Hamming(4)", lambda: E.HammingCodeEncoder(mu=4)), ("Polar(8,16)", lambda: E.PolarCodeEncoder(8, 16))]
    decs = {"Hamming(3)": [("SyndromeLookupDecoder", lambda e: D.SyndromeLookupDecoder(e), "hard"), ("BruteForceMLDecoder", lambda e: D.BruteForceMLDecoder(e), "hard")],
            "Hamming(3,extended)": [("SyndromeLookupDecoder", lambda e: D.SyndromeLookupDecoder(e), "hard")],
            "Linear(7,4)": [("SyndromeLookupDecoder", lambda e: D.SyndromeLookupDecoder(e), "hard"), ("BruteForceMLDecoder", lambda e: D.BruteForceMLDecoder(e), "hard")],
            "Repetition(5)": [("BruteForceMLDecoder", lambda e: D.BruteForceMLDecoder(e), "hard")],
            "SingleParityCheck(4)": [("WagnerSoftDecisionDecoder", lambda e: D.WagnerSoftDecisionDecoder(e), "soft")],
            "BCH(15,7)": [("BerlekampMasseyDecoder", lambda e: D.BerlekampMasseyDecoder(e), "hard")],
            "ReedMuller(1,3)": [("ReedMullerDecoder", lambda e: D.ReedMullerDecoder(e), "hard"), ("ReedMullerDecoder[soft]", lambda e: D.ReedMullerDecoder(e, input_type="soft"), "soft")],
            "ReedMuller(2,4)": [("ReedMullerDecoder", lambda e: D.ReedMullerDecoder(e), "hard")],
            "Cyclic(7,1011)": [("SyndromeLookupDecoder", lambda e: D.SyndromeLookupDecoder(e), "hard")],
            "LDPC(6,3)": [("BeliefPropagationDecoder", lambda e: D.BeliefPropagationDecoder(e, bp_iters=8), "soft"), ("MinSumLDPCDecoder", lambda e: D.MinSumLDPCDecoder(e, bp_iters=8), "soft")],
            "Polar(4,8)": [("SuccessiveCancellationDecoder", lambda e: D.SuccessiveCancellationDecoder(e), "soft"), ("BeliefPropagationPolarDecoder", lambda e: D.BeliefPropagationPolarDecoder(e, bp_iters=10), "soft")]}
    for cname, mk in encs:
        try:
            enc = quiet(mk)
        except Exception as ex:
            ctx.note("%s: constructor raised %s" % (cname, str(ex)[:60]))
            continue
        n, k = int(enc.code_length), int(enc.code_dimension)
        msgs = [torch.zeros(k), torch.ones(k)] + [torch.tensor(fec.int_to_bits(rng.getrandbits(k), k), dtype=torch.float32) for _ in range(5)]
        check("%s encoder" % cname, "%s/encode" % type(enc).__name__, enc, msgs, n_in=k)
        if hasattr(enc, "inverse_encode"):
            cws = [quiet(enc, m.unsqueeze(0))[0] for m in msgs]
            check("%s inverse_encode" % cname, "%s/inverse_encode" % type(enc).__name__, lambda x: enc.inverse_encode(x)[0] if isinstance(enc.inverse_encode(x), tuple) else enc.inverse_encode(x), cws, n_in=n)
        if hasattr(enc, "calculate_syndrome"):
            words = [quiet(enc, m.unsqueeze(0))[0] for m in msgs[:3]] + [torch.tensor(fec.int_to_bits(rng.getrandbits(n), n), dtype=torch.float32) for _ in range(4)]
            check("%s calculate_syndrome" % cname, "%s/calculate_syndrome" % type(enc).__name__, enc.calculate_syndrome, words, multiblock=False, nested=False)
        for dname, mkd, kind in decs.get(cname, []):
            try:
                dec = quiet(mkd, enc)
            except Exception as ex:
                ctx.note("%s %s: constructor raised %s" % (cname, dname, str(ex)[:60]))
                continue
            cws = [quiet(enc, m.unsqueeze(0))[0] for m in msgs]
            recv = []
            for i, c in enumerate(cws):
                r = c.clone()
                if i >= 2:                       # members 0,1: zero syndrome; then 1, 2, ... flipped bits (beyond capability = ties / failures)
                    for p in rng.sample(range(n), min(i - 1, n)):
                        r[p] = 1 - r[p]
                recv.append(r)
            if kind == "soft":
                recv = [(1 - 2 * r) * torch.tensor([rng.choice([0.5, 1.0, 2.0, 4.0]) for _ in range(n)]) for r in recv]
                recv[-1][0] = 0.0                # an exact tie
            check("%s %s" % (cname, dname), "%s/decode" % dname.split("[")[0], dec, recv, exact=True, n_in=n, fresh=(lambda mkd=mkd, enc=enc: mkd(enc)))
            if kind == "hard":
                # the same words in other dtypes a caller may hold them in: same answer, input left alone
                ref = [quiet(dec, r.unsqueeze(0))[0].to(torch.float64) for r in recv]
                for dt in (torch.int32, torch.int64, torch.float64):
                    ctx.count("dtype-variants")
                    for r, rf in zip(recv, ref):
                        xin = r.to(dt).unsqueeze(0)
                        x0 = xin.clone()
                        try:
                            o1 = quiet(dec, xin)
                            o2 = quiet(dec, xin)
                        except Exception:
                            ctx.count("layouts-rejected")
                            break
                        if not torch.equal(xin, x0):
                            ctx.violation("C20/%s/input-modified" % dname.split("[")[0], "%s %s modifies its %s input tensor: %s becomes %s" % (cname, dname, str(dt).split(".")[1], x0[0].tolist(), xin[0].tolist()), {"component": "%s %s" % (cname, dname), "dtype": str(dt)})
                            break
                        if not torch.equal(o1.to(torch.float64), o2.to(torch.float64)) or not torch.equal(o1[0].to(torch.float64), rf):
                            ctx.violation("C20/%s/dtype-or-repeat" % dname.split("[")[0], "%s %s on a %s copy of the same word answers %s then %s; on float32 it answers %s" % (
                                cname, dname, str(dt).split(".")[1], o1[0].tolist(), o2[0].tolist(), rf.tolist()), {"component": "%s %s" % (cname, dname), "dtype": str(dt)})
                            break
                def with_errors(x, dec=dec):
                    out = dec(x, return_errors=True)
                    return torch.cat([out[0].to(torch.float32), out[1].to(torch.float32)], dim=-1) if isinstance(out, tuple) else out
                try:
                    quiet(with_errors, recv[0].unsqueeze(0))
                except Exception:
                    continue
                check("%s %s(return_errors=True)" % (cname, dname), "%s/decode-errors" % dname.split("[")[0], with_errors, recv, exact=True, multiblock=False, nested=False, one_d=False)
    # long words that differ only in their last positions, decoded in one batch and one after the other by the same object
    for cname, mk, dmk in (("BCH(31,21)", lambda: E.BCHCodeEncoder(mu=5, delta=5), lambda e: D.BerlekampMasseyDecoder(e)),
                           ("BCH(31,16)", lambda: E.BCHCodeEncoder(mu=5, delta=7), lambda e: D.BerlekampMasseyDecoder(e)),
                           ("BCH(31,21,right)", lambda: E.BCHCodeEncoder(mu=5, delta=5, information_set="right"), lambda e: D.BerlekampMasseyDecoder(e)),
                           ("Hamming(5)", lambda: E.HammingCodeEncoder(mu=5), lambda e: D.SyndromeLookupDecoder(e)),
                           ("ReedMuller(1,5)", lambda: E.ReedMullerCodeEncoder(1, 5), lambda e: D.ReedMullerDecoder(e))):
        try:
            enc = quiet(mk)
            dec = quiet(dmk, enc)
        except Exception as ex:
            ctx.note("%s: %s" % (cname, str(ex)[:60]))
            continue
        n, k = int(enc.code_length), int(enc.code_dimension)
        base = quiet(enc, torch.tensor([[1.0] + [float(rng.randint(0, 1)) for _ in range(k - 1)]]))[0]
        recv = []
        for j in range(6):
            r = base.clone()
            r[n - 1 - j] = 1 - r[n - 1 - j]          # one error, among the last positions
            if j % 2:
                r[n - 2 - j] = 1 - r[n - 2 - j]      # or two
            recv.append(r)
        check("%s near-duplicate words" % cname, "%s/decode-near-duplicates" % type(dec).__name__, dec, recv, exact=True, n_in=n, multiblock=False, nested=False, fresh=(lambda dmk=dmk, enc=enc: dmk(enc)))

        def both(x, dec=dec):
            out = dec(x, return_errors=True)
            return torch.cat([out[0].to(torch.float32), out[1].to(torch.float32)], dim=-1) if isinstance(out, tuple) else out

        def fresh_both(dmk=dmk, enc=enc):
            d_ = dmk(enc)
            return lambda x: (lambda o: torch.cat([o[0].to(torch.float32), o[1].to(torch.float32)], dim=-1) if isinstance(o, tuple) else o)(d_(x, return_errors=True))
        try:
            quiet(both, recv[0].unsqueeze(0))
            check("%s near-duplicate words (message and error pattern)" % cname, "%s/decode-near-duplicates" % type(dec).__name__, both, recv, exact=True, multiblock=False, nested=False, one_d=False, fresh=fresh_both)
        except Exception:
            pass
    # iterative soft decoders: members of unequal reliability (some settle in one iteration, some never do), hard and soft outputs
    H155 = torch.zeros(10, 15)
    for r_ in range(5):
        for c_ in (r_, (r_ + 1) % 5, 5 + r_, 5 + (r_ + 2) % 5, 10 + r_):
            H155[r_, c_] = 1
        for c_ in (r_, (r_ + 3) % 5, 5 + (r_ + 1) % 5, 10 + (r_ + 4) % 5, 10 + (r_ + 2) % 5):
            H155[5 + r_, c_] = 1
    for cname, mk, dmks in (("LDPC(6,3)", lambda: E.LDPCCodeEncoder(check_matrix=H63), [("BeliefPropagationDecoder", lambda e: D.BeliefPropagationDecoder(e, bp_iters=10)), ("MinSumLDPCDecoder", lambda e: D.MinSumLDPCDecoder(e, bp_iters=10))]),
                            ("LDPC(15,circulant)", lambda: E.LDPCCodeEncoder(check_matrix=H155), [("BeliefPropagationDecoder", lambda e: D.BeliefPropagationDecoder(e, bp_iters=6)), ("MinSumLDPCDecoder", lambda e: D.MinSumLDPCDecoder(e, bp_iters=6, normalized=True, scaling_factor=0.8))]),
                            ("Polar(4,8)", lambda: E.PolarCodeEncoder(4, 8), [("BeliefPropagationPolarDecoder", lambda e: D.BeliefPropagationPolarDecoder(e, bp_iters=10)), ("BeliefPropagationPolarDecoder[early_stop]", lambda e: D.BeliefPropagationPolarDecoder(e, bp_iters=10, early_stop=True)),
                                                                          ("SuccessiveCancellationDecoder", lambda e: D.SuccessiveCancellationDecoder(e))])):
        try:
            enc = quiet(mk)
        except Exception as ex:
            ctx.note("%s: constructor raised %s" % (cname, str(ex)[:60]))
            continue
        n, k = int(enc.code_length), int(enc.code_dimension)
        for dname, dmk in dmks:
            try:
                dec = quiet(dmk, enc)
            except Exception as ex:
                ctx.note("%s %s: constructor raised %s" % (cname, dname, str(ex)[:60]))
                continue
            for rnd in range(6 if quick else 60):
                msgs = [torch.tensor(fec.int_to_bits(rng.getrandbits(k), k), dtype=torch.float32) for _ in range(6)]
                cws = [quiet(enc, m.unsqueeze(0))[0] for m in msgs]
                # quarter-step LLRs: member j is received at noise level sigma_j (clean, mild, ..., hopeless)
                recv = [torch.tensor([round(4 * ((1 - 2 * float(b)) * 2.0 + sg * rng.gauss(0, 1))) / 4 for b in c]) for c, sg in zip(cws, (0.0, 0.5, 1.0, 1.5, 2.0, 3.0))]
                rng.shuffle(recv)
                nm = "%s %s noisy round %d" % (cname, dname, rnd)
                check(nm, "%s/decode-noisy" % dname.split("[")[0], dec, recv, exact=True, multiblock=(rnd == 0), nested=(rnd == 0), one_d=(rnd == 0))
                if "BeliefPropagationDecoder" == dname or dname == "MinSumLDPCDecoder":
                    def soft(x, dec=dec):
                        o = dec(x, return_soft=True)
                        return torch.cat([o[0].to(torch.float32), o[1].to(torch.float32)], dim=-1)
                    try:
                        quiet(soft, recv[0].unsqueeze(0))
                    except Exception:
                        continue
                    check(nm + " (return_soft)", "%s/decode-noisy-soft" % dname, soft, recv, exact=1e-3, multiblock=False, nested=False, one_d=False)
    ctx.log("codes done", len(exprs))

    # ------------------------------------------------------------------ modulators / demodulators
    for mname, cfg, mkm, mkd, b in memoryless(M, True):
        if quick and rng.random() < 0.5 and mname not in ("BPSK", "QPSK"):
            continue
        mod, dem = mkm(), mkd()
        if mod.constellation.numel() > 64:
            continue
        nsym = 6
        bits = [torch.tensor([rng.randint(0, 1) for _ in range(nsym * b)], dtype=torch.float32) for _ in range(6)]
        bits[0] = torch.zeros(nsym * b)
        check("%s(%s) modulator" % (mname, cfg), "%sModulator" % mname, mod, bits, exact=False, multiblock=False)
        syms = [quiet(mod, x.unsqueeze(0))[0] for x in bits]
        noisy = [s + 0.05 * (torch.randn(s.shape, dtype=s.dtype) if True else 0) for s in syms]
        check("%s(%s) demodulator" % (mname, cfg), "%sDemodulator/hard" % mname, dem, noisy, exact=True, multiblock=False)
        check("%s(%s) demodulator soft" % (mname, cfg), "%sDemodulator/soft" % mname, dem, noisy, exact=False, multiblock=False, kw={"noise_var": 0.3})
    ctx.log("modems done")

    # ------------------------------------------------------------------ per-item constraints
    for cname, c in (("TotalPowerConstraint(2)", K.TotalPowerConstraint(2.0)), ("AveragePowerConstraint(0.5)", K.AveragePowerConstraint(0.5)), ("PAPRConstraint(3)", K.PAPRConstraint(3.0)),
                     ("PeakAmplitudeConstraint(0.7)", K.PeakAmplitudeConstraint(0.7))):
        for cplx in (False, True):
            items = [torch.randn(16) * s for s in (1.0, 0.1, 30.0, 1.0, 5.0, 0.02)]
            if cplx:
                items = [torch.complex(v, torch.randn(16) * float(v.abs().max())) for v in items]
            if "Power" in cname:
                items[1] = items[1] * 0          # an all-zero member: the special replacement path
            check("%s %s" % (cname, "complex" if cplx else "real"), cname.split("(")[0], c, items, exact=False, multiblock=False, nested=False, one_d=True)
            # weak members down to and below the "zero signal" threshold, next to ordinary ones: the same function of the member alone and in a batch
            weak = [torch.randn(16) * s for s in (1e-3, 1.0, 1e-4, 1e-5, 1e-6, 3e-8)]
            if cplx:
                weak = [torch.complex(v, torch.randn(16) * float(v.abs().max())) for v in weak]
            check("%s %s weak members" % (cname, "complex" if cplx else "real"), cname.split("(")[0], c, weak, exact=False, multiblock=False, nested=False, one_d=True)
            # members with more than one dimension: batches of shape (B, 2, 8) and (B, 2, 2, 4)
            for shp in ((2, 8), (2, 2, 4)):
                check("%s %s members of shape %s" % (cname, "complex" if cplx else "real", shp), cname.split("(")[0], c, [v.reshape(shp) for v in items], exact=False, multiblock=False, nested=False, one_d=False)
    for cname, c in (("PerAntennaPowerConstraint(uniform)", K.PerAntennaPowerConstraint(uniform_power=0.5)), ("PerAntennaPowerConstraint(budget)", K.PerAntennaPowerConstraint(power_budget=torch.tensor([0.1, 1.0, 4.0])))):
        items = [torch.randn(3, 8) * s for s in (1.0, 0.1, 30.0, 1.0, 5.0, 0.02)]
        check(cname, "PerAntennaPowerConstraint", c, items, exact=False, multiblock=False, nested=False, one_d=False)
    ctx.log("constraints done")

    if ok and exprs:
        res = ctx.coq_eval("c20", HDR, exprs, per_file=15, timeout=900)
        ctx.count("kernel-evaluated-layouts", len(res))
        for (name, cls, impl), v in zip(meta, res):
            v = v.get("Some") if isinstance(v, dict) else v
            got = None if v is None else [[1 if u else 0 for u in row] for row in v]
            if got != impl and not any(vv["key"].startswith("C20/%s" % cls) for vv in ctx.violations):
                ctx.broken.append("correspondence: layout law on the single-block answers of %s gives %s, the component returns %s" % (name, got, impl))
    ctx.sample({"kernel_layout_cases": len(exprs)})
    ctx.assumptions += ["the reference answer of a member is the component's own answer on a batch of one; floating-point components are compared with relative tolerance 2e-5",
                        "layouts a component rejects with an exception are counted, not judged (the property allows rejection)"]
    ctx.cov["exhaustive"] = False


def replay(rep):
    import_kaira()
    print("replay of", rep.get("key"), rep.get("replay"))
    return 0
