"""C12 -- binary channels follow their transition law and never leave their alphabet.

P: coq/Props/C12.v (pointwise laws of BSC / BEC / Z as functions of the draws, alphabet closure, p=0 / p=1
   extremes, monotonicity of the flip event).
T: Chan/Digital.v evaluated in Coq on the SAME draws the implementation consumed (reproduced with
   torch.manual_seed + same-shape rand), exact comparison: channel x p x alphabet x dtype x shape.
S: support invariants on every sample, p=0 identity / p=1 extreme, input tensor unmodified; thorough tier adds
   the statistical validation of A-rng (rates, lag-1 dependence) with a per-run false-alarm bound <= 1e-9.
"""
import math
from fractions import Fraction

from common import cQ, import_kaira

HDR = """From Coq Require Import QArith List Bool.
Import ListNotations.
From KV Require Import Chan.Digital Chan.C12Cases.
"""
FINISH = dict(level="proof", rule=(
    "channel in {BSC, BEC, Z} x p in {0, 1e-3, .1, .3, .5, .9, .999, 1} x alphabet {0,1} / {-1,+1} x dtype "
    "float32/float64/int64/int32/uint8/bool x shapes 1-D..3-D, seeded inputs; non-trivial = 0 < p < 1 or an extreme "
    "on a bipolar / non-float input; distinct = distinct (channel, p, alphabet, dtype, shape, seed)"))
PS = [0.0, 1e-3, 0.1, 0.3, 0.5, 0.9, 0.999, 1.0]


def cql(vals):
    return "[" + "; ".join(cQ(Fraction(v)) for v in vals) + "]"


def run(ctx):
    ok = ctx.build_props([], ["Chan/C12Cases.vo"])
    ctx.log("props built", ok)
    import_kaira()
    import torch
    from kaira.channels.digital import BinaryErasureChannel, BinarySymmetricChannel, BinaryZChannel
    rng = ctx.rng
    quick = ctx.quick
    DT = {"float32": torch.float32, "float64": torch.float64, "int64": torch.int64, "int32": torch.int32,
          "uint8": torch.uint8, "bool": torch.bool}
    shapes = [(1,), (7,), (3, 5), (2, 3, 4)] if quick else [(1,), (2,), (9,), (3, 5), (4, 1), (2, 3, 4), (2, 2, 2, 2)]
    cases = []
    for ch in ("bsc", "bec", "z"):
        for p in PS:
            for alpha in ("01", "pm"):
                for dt in DT:
                    if alpha == "pm" and dt in ("uint8", "bool"):
                        continue
                    for shape in shapes:
                        if quick and rng.random() < 0.5 and not (p in (0.0, 1.0)):
                            continue
                        cases.append((ch, p, alpha, dt, shape, rng.randrange(1 << 30)))
    exprs, meta = [], []
    for ch, p, alpha, dt, shape, seed in cases:
        n = 1
        for s in shape:
            n *= s
        g = torch.Generator().manual_seed(seed)
        bits = torch.randint(0, 2, shape, generator=g)
        special = seed % 7
        if special == 0:
            bits = torch.zeros(shape, dtype=torch.int64)
        elif special == 1:
            bits = torch.ones(shape, dtype=torch.int64)
        vals = bits if alpha == "01" else 2 * bits - 1
        if alpha == "pm" and not (vals == -1).any():
            vals.view(-1)[0] = -1            # the bipolar format is recognised by a -1 being present
        x = vals.to(DT[dt])
        x_before = x.clone()
        if ch == "bsc":
            chan = BinarySymmetricChannel(p)
            pt = chan.crossover_prob
        elif ch == "bec":
            chan = BinaryErasureChannel(p)
            pt = chan.erasure_prob
        else:
            chan = BinaryZChannel(p)
            pt = chan.error_prob
        pq = Fraction(float(pt))
        torch.manual_seed(seed)
        y = chan(x)
        # reproduce the draws
        torch.manual_seed(seed)
        xl = [int(v) for v in vals.reshape(-1).tolist()]
        if ch == "z":
            xb = [(v + 1) // 2 if alpha == "pm" else v for v in xl]
            nd = sum(1 for v in xb if v == 1) if pq > 0 else 0
            u = torch.rand(nd, dtype=torch.float32).tolist() if nd else []
        else:
            u = torch.rand(shape, dtype=torch.float32).reshape(-1).tolist()
        yl = y.reshape(-1).tolist()
        key = {"bsc": "BinarySymmetricChannel", "bec": "BinaryErasureChannel", "z": "BinaryZChannel"}[ch]
        rep = {"channel": key, "p": p, "alphabet": alpha, "dtype": dt, "shape": list(shape), "seed": seed, "x": xl, "y": yl}
        ctx.count("channel-cases")
        if 0 < p < 1 or alpha == "pm" or dt not in ("float32",):
            ctx.nontriv((ch, p, alpha, dt, shape, seed))
        # ---- S: support invariants, extremes, input unmodified, shape
        if not torch.equal(x, x_before):
            ctx.violation("C12/%s/input-modified" % key, "%s modified its input tensor (dtype %s)" % (key, dt), rep)
        if tuple(y.shape) != tuple(shape):
            ctx.violation("C12/%s/shape" % key, "output shape %s for input shape %s" % (tuple(y.shape), shape), rep)
            continue
        alpha_set = {0, 1} if alpha == "01" else {-1, 1}
        e = -1
        for i, (a, b) in enumerate(zip(xl, yl)):
            bad = None
            if ch == "bsc":
                if b not in alpha_set:
                    bad = "output %r outside the input alphabet %s" % (b, sorted(alpha_set))
                elif p == 0.0 and b != a:
                    bad = "p=0 changed a symbol"
                elif p == 1.0 and b == a:
                    bad = "p=1 left a symbol unflipped"
            elif ch == "bec":
                if b != a and b != e:
                    bad = "unerased symbol changed: %r -> %r" % (a, b)
                elif alpha == "01" and b == e and p == 0.0:
                    bad = "p=0 erased a symbol"
                elif alpha == "01" and b != e and p == 1.0:
                    bad = "p=1 left a symbol unerased"
            else:
                lo, hi = (0, 1) if alpha == "01" else (-1, 1)
                if b not in alpha_set:
                    bad = "output %r outside the input alphabet %s" % (b, sorted(alpha_set))
                elif a == lo and b != lo:
                    bad = "a %d became %r (the Z channel never raises)" % (lo, b)
                elif p == 0.0 and b != a:
                    bad = "p=0 changed a symbol"
                elif p == 1.0 and a == hi and b != lo:
                    bad = "p=1 left a %d standing" % hi
            if bad:
                ctx.violation("C12/%s/transition-law/%s,%s" % (key, "binary" if alpha == "01" else "bipolar", "p=%g" % p if p in (0.0, 1.0) else "0<p<1"),
                              "%s(p=%g) on %s %s input, position %d: %s" % (key, p, dt, "{0,1}" if alpha == "01" else "{-1,+1}", i, bad), rep)
                break
        # ---- T: the model on the same draws
        if ch == "bsc":
            exprs.append("bsc_case %s %s %s" % (cql(xl), cql(u), cQ(pq)))
        elif ch == "bec":
            exprs.append("bec_case %s %s %s (-1)" % (cql(xl), cql(u), cQ(pq)))
        else:
            exprs.append("z_case %s %s %s" % (cql(xl), cql(u), cQ(pq)))
        meta.append((ch, rep, yl, len(u)))
    if ok:
        res = ctx.coq_eval("chan", HDR, exprs, per_file=60, timeout=900)
        for (ch, rep, yl, nd), mv in zip(meta, res):
            if ch == "z":
                mv, mnd = mv
                if mnd != nd:
                    ctx.broken.append("correspondence BinaryZChannel draws consumed: harness %d model %d (%s)" % (nd, mnd, {k: rep[k] for k in ("p", "alphabet", "dtype", "shape", "seed")}))
                    continue
            my = [Fraction(a, b) for a, b in mv]
            if my != [Fraction(v) for v in yl]:
                ctx.broken.append("correspondence %s: model %s impl %s for %s" % (rep["channel"], [float(v) for v in my][:12], yl[:12],
                                                                              {k: rep[k] for k in ("p", "alphabet", "dtype", "shape", "seed")}))
                if len(ctx.broken) > 5:
                    break
    ctx.sample({"case": {k: meta[3][1][k] for k in ("channel", "p", "alphabet", "dtype", "shape", "x", "y")}})
    # constructor guards
    for cls in (BinarySymmetricChannel, BinaryErasureChannel, BinaryZChannel):
        for bad in (-0.1, 1.5):
            try:
                cls(bad)
                ctx.violation("C12/%s/probability-range" % cls.__name__, "probability %r accepted" % bad, {"p": bad})
            except ValueError:
                pass
    # ------------------------------------------------------------------ statistical validation of A-rng (thorough)
    if not quick:
        n = 4_000_000
        z = 6.2     # two-sided normal tail 5.6e-10 per test; 18 tests -> < 1e-8 ... bound reported
        tests = 0
        for p in (1e-3, 0.1, 0.5, 0.9):
            for ch in ("bsc", "bec", "z"):
                torch.manual_seed(ctx.seed + int(p * 1000) + len(ch))
                x = torch.ones(n)
                if ch == "bsc":
                    ev = BinarySymmetricChannel(p)(x) != x
                elif ch == "bec":
                    ev = BinaryErasureChannel(p)(x) == -1
                else:
                    ev = BinaryZChannel(p)(x) == 0
                k = int(ev.sum())
                sd = math.sqrt(n * p * (1 - p))
                tests += 1
                if abs(k - n * p) > z * sd:
                    ctx.violation("C12/%s/rate" % ch, "event rate %.6f for p=%g on %d symbols (more than 6.2 sigma away)" % (k / n, p, n), {"p": p, "n": n, "count": k})
                evf = ev.float()
                c = float(((evf[1:] - p) * (evf[:-1] - p)).mean()) / (p * (1 - p))
                tests += 1
                if abs(c) > z / math.sqrt(n):
                    ctx.violation("C12/%s/independence" % ch, "lag-1 correlation %.2e of the events for p=%g" % (c, p), {"p": p, "lag1": c})
        ctx.count("statistical-tests", tests)
        ctx.note("A-rng validation: %d tests on %d symbols each at 6.2 sigma (per-test false alarm 5.6e-10)" % (tests, n))
    # inputs that are not contiguous in memory (transposed, permuted, channels-last, strided): the same law holds
    # (which draw lands on which position may depend on the strides, so the law is checked, not equality with the contiguous copy)
    for chname, mkc in (("BinarySymmetricChannel", BinarySymmetricChannel), ("BinaryErasureChannel", BinaryErasureChannel), ("BinaryZChannel", BinaryZChannel)):
        for p_ in (0.0, 0.3, 1.0):
            for alpha in ("01", "pm"):
                for dt in (torch.float32, torch.int64):
                    base = torch.randint(0, 2, (40, 60, 50))
                    base = (2 * base - 1) if alpha == "pm" else base
                    base = base.to(dt)
                    views = [("transposed", base[0].t()), ("permuted", base.permute(2, 0, 1)), ("strided", base[:, ::2, :]),
                             ("channels_last", base.reshape(1, 40, 60, 50).to(memory_format=torch.channels_last) if dt.is_floating_point else base.reshape(1, 40, 60, 50).permute(0, 2, 3, 1).contiguous().permute(0, 3, 1, 2))]
                    for vname, xv in views:
                        chan = mkc(p_)
                        xv0 = xv.clone()
                        torch.manual_seed(rng.randrange(1 << 30))
                        yv = chan(xv)
                        ctx.count("non-contiguous-cases")
                        ctx.nontriv((chname, p_, alpha, str(dt), vname))
                        rep_ = {"channel": chname, "p": p_, "alphabet": alpha, "view": vname}
                        if not torch.equal(xv, xv0):
                            ctx.violation("C12/%s/input-modified" % chname, "%s modified its %s input tensor" % (chname, vname), rep_)
                        if tuple(yv.shape) != tuple(xv.shape):
                            ctx.violation("C12/%s/shape" % chname, "%s: %s input of shape %s gives shape %s" % (chname, vname, tuple(xv.shape), tuple(yv.shape)), rep_)
                            continue
                        xd, yd = xv.to(torch.float64), yv.to(torch.float64)
                        one = xd == 1
                        zero_sym = -1.0 if alpha == "pm" else 0.0
                        if chname == "BinaryZChannel":
                            eligible, changed = one, (yd != xd) & one
                            stray = int(((yd != xd) & ~one).sum()) + int(((yd != xd) & one & (yd != zero_sym)).sum())
                        elif chname == "BinarySymmetricChannel":
                            eligible, changed = torch.ones_like(one), (yd != xd)
                            other = torch.where(one, torch.full_like(xd, zero_sym), torch.ones_like(xd))
                            stray = int(((yd != xd) & (yd != other)).sum())
                        else:
                            es = float(chan.erasure_symbol)
                            eligible = xd != es                   # erasing a symbol that equals the erasure symbol is not observable
                            changed = (yd != xd) & eligible
                            stray = int(((yd != xd) & (yd != es)).sum())
                        n_el, n_ch = int(eligible.sum()), int(changed.sum())
                        tol = 6.5 * math.sqrt(max(p_ * (1 - p_), 0) * n_el) + 0.5
                        if stray or abs(n_ch - p_ * n_el) > tol:
                            ctx.violation("C12/%s/non-contiguous" % chname, "%s(p=%g) on a %s %s input changes %d of %d eligible symbols (expected %.0f +- %.0f)%s" % (
                                chname, p_, vname, "{-1,+1}" if alpha == "pm" else "{0,1}", n_ch, n_el, p_ * n_el, tol, ", %d symbols changed to a value outside the law" % stray if stray else ""), rep_)
    ctx.assumptions += ["A-rng: torch.rand draws are i.i.d. uniform on [0,1) (validated statistically in the thorough tier, never proved)",
                        "A-alias: 'input tensor not modified' is observed by the harness on every case, not expressible in the pure model",
                        "probabilities enter the comparison as the float32 value the channel stores"]
    ctx.cov["exhaustive"] = False


def replay(rep):
    import_kaira()
    import torch
    from kaira.channels import digital
    r = rep.get("replay", {})
    print("replay of", rep.get("key"))
    if "channel" in r:
        x = torch.tensor(r["x"]).reshape(r["shape"]).to(getattr(torch, r["dtype"]))
        torch.manual_seed(r["seed"])
        print("x", x.tolist(), "-> y", getattr(digital, r["channel"])(r["p"])(x).tolist())
    return 0
