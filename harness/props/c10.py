"""C10 -- soft-input decoders are exact where the algorithm is; clean input decodes clean.

P: coq/Props/C10.v (Wagner is ML for every real input; flooding BP / min-sum returns the codeword from noise-free
   LLRs of any positive magnitudes on ANY parity-check matrix, any iteration count, for every sign-consistent check
   function; the min-sum update with positive scaling is sign consistent; homogeneity of |.| and sign).
T: Decoders/Wagner.v and Decoders/BP.v (min-sum) evaluated in Coq on exact dyadic inputs vs WagnerSoftDecisionDecoder
   (1-D, batched, multi-block) and MinSumLDPCDecoder posteriors (scaling / offset / iteration counts), exact comparison.
S: clean codewords at magnitudes 0.5..50 through BP (exact / Taylor arctanh), min-sum variants, Wagner, soft
   Reed-Muller -> message with the advertised shape; Wagner vs brute-force soft ML; sum-product on cycle-free H vs
   brute-force bitwise posteriors (float64 reference, inside the clipping range); min-sum invariance to rescaling.
"""
import contextlib
import io
import itertools
import math
from fractions import Fraction

import fec
from common import cQ, cbool, cnat, import_kaira

HDR = """From Coq Require Import List Bool Arith NArith QArith.
Import ListNotations.
From KV Require Import Decoders.Wagner Decoders.BP Decoders.C10Cases.
"""
FINISH = dict(level="proof", rule=(
    "LDPC / linear codes from bundled, random sparse and tree-structured parity-check matrices (n <= 24) x iteration "
    "counts {1,2,5,20} x exact/Taylor arctanh x min-sum scaling/offset; all codewords (k <= 8) at |LLR| in {0.5,1,5,50}; "
    "seeded dyadic LLR vectors for the exact min-sum correspondence; SPC k = 1..10 with seeded real vectors in 1-D / "
    "batched / multi-block layouts; RM(r,m), m <= 5 soft; non-trivial = a code with >= 2 checks or a Wagner input with "
    "odd hard parity; distinct = distinct (decoder, code, input)"))


def quiet(f, *a, **k):
    with contextlib.redirect_stdout(io.StringIO()):
        return f(*a, **k)


def cqlist(v):
    return "[" + "; ".join(cQ(Fraction(x)) for x in v) + "]"


def cH(H):
    return "[" + "; ".join("[" + "; ".join(cbool(b) for b in r) + "]" for r in H) + "]"


def tree_H(rng, n_checks):
    """parity-check matrix whose Tanner graph is a tree: start from one variable, attach checks with fresh variables"""
    rows, nv = [], 1
    for _ in range(n_checks):
        parent = rng.randrange(nv)
        fresh = rng.randint(1, 3)
        row = [parent] + list(range(nv, nv + fresh))
        nv += fresh
        rows.append(row)
    return [[1 if v in r else 0 for v in range(nv)] for r in rows]


def exact_posteriors(H, L):
    """brute-force bitwise posterior LLRs of the code {x : Hx = 0} under independent LLRs L (float64)"""
    n = len(L)
    num0, num1 = [0.0] * n, [0.0] * n
    for x in itertools.product([0, 1], repeat=n):
        if any(sum(h[i] * x[i] for i in range(n)) % 2 for h in H):
            continue
        w = math.exp(sum(-L[i] for i in range(n) if x[i]))      # P(x) ~ prod exp(-L_i x_i)
        for i in range(n):
            (num1 if x[i] else num0)[i] += w
    return [math.log(a / b) for a, b in zip(num0, num1)]


def run(ctx):
    ok = ctx.build_props([], ["Decoders/C10Cases.vo"])
    ctx.log("props built", ok)
    import_kaira()
    import torch
    from kaira.models.fec import decoders as D
    from kaira.models.fec import encoders as E
    rng = ctx.rng
    quick = ctx.quick
    exprs, meta = [], []

    # ------------------------------------------------------------------ Wagner
    for k in range(1, 11):
        enc = E.SingleParityCheckCodeEncoder(k)
        dec = D.WagnerSoftDecisionDecoder(enc)
        n = k + 1
        vecs = []
        for _ in range(30 if quick else 400):
            vecs.append([Fraction(rng.randint(-64, 64), 8) for _ in range(n)])          # ties and zeros included
        if k <= 6:
            mags = [Fraction(2 * i + 1, 4) for i in range(n)]
            for signs in itertools.product([1, -1], repeat=n):
                vecs.append([s * m for s, m in zip(signs, rng.sample(mags, n))])
        flat = torch.tensor([[float(v) for v in r] for r in vecs], dtype=torch.float32)
        layouts = [("(B,n)", flat), ("1-D", flat[0])]
        b = (len(vecs) // 3) * 3
        layouts.append(("(B,3n)", flat[:b].reshape(-1, 3 * n)))
        layouts.append(("(2,B,n)", flat[: (len(vecs) // 2) * 2].reshape(2, -1, n)))
        results = {}
        for lname, x in layouts:
            try:
                out = quiet(dec, x)
            except Exception as ex:
                ctx.violation("C10/WagnerSoftDecisionDecoder/raises/%s" % lname, "SPC(k=%d), layout %s: Wagner decoder raised %s" % (k, lname, str(ex)[:120]), {"k": k, "layout": lname})
                continue
            exp_shape = tuple(x.shape[:-1]) + (x.shape[-1] // n * k,)
            if tuple(out.shape) != exp_shape:
                ctx.violation("C10/WagnerSoftDecisionDecoder/shape/%s" % lname, "SPC(k=%d), layout %s: output shape %s, expected %s" % (k, lname, tuple(out.shape), exp_shape), {"k": k, "layout": lname})
                continue
            results[lname] = [fec.bits_to_int(r) for r in out.reshape(-1, k).tolist()]
        ctx.count("wagner-decodings", len(vecs) * len(results))
        base = results.get("(B,n)")
        if base is None:
            continue
        for lname, got in results.items():
            if got != base[: len(got)]:
                i = next(i for i, (a, c) in enumerate(zip(got, base)) if a != c)
                ctx.violation("C10/WagnerSoftDecisionDecoder/layout-consistency/%s" % lname, "SPC(k=%d): block %s decodes to %s in layout %s but %s as a batch row" % (
                    k, [float(v) for v in vecs[i]], fec.int_to_bits(got[i], k), lname, fec.int_to_bits(base[i], k)), {"k": k, "layout": lname, "block": [float(v) for v in vecs[i]]})
        # S: soft ML by brute force (k <= 8), inputs without exact ties decide uniquely; with ties compare correlations
        if k <= 8:
            for r, g in zip(vecs, base):
                word = fec.int_to_bits(g, k)
                best = max(sum((1 - 2 * c) * y for c, y in zip(cw, r)) for cw in itertools.product([0, 1], repeat=n) if sum(cw) % 2 == 0)
                mine = max(sum((1 - 2 * c) * y for c, y in zip(word + [p], r)) for p in (0, 1) if (sum(word) + p) % 2 == 0)
                if sum(1 for y in r if y < 0) % 2 == 1:
                    ctx.nontriv(("wagner", k, tuple(r)))
                if mine != best:
                    ctx.violation("C10/WagnerSoftDecisionDecoder/maximum-likelihood", "SPC(k=%d): input %s decodes to %s with correlation %s, the best even-parity word reaches %s" % (
                        k, [float(v) for v in r], word, float(mine), float(best)), {"k": k, "block": [float(v) for v in r]})
                    break
        exprs.append("wagner_case %s [%s]" % (cnat(k), "; ".join(cqlist(r) for r in vecs)))
        meta.append(("wagner", k, base))

    # ------------------------------------------------------------------ LDPC / linear codes for BP and min-sum
    Hs = [("bundled-6x3", [[1, 1, 0, 1, 0, 0], [0, 1, 1, 0, 1, 0], [1, 0, 1, 0, 0, 1]]),
          ("doc-6x3", [[1, 0, 1, 1, 0, 0], [0, 1, 1, 0, 1, 0], [0, 0, 0, 1, 1, 1]]),
          ("hamming-7", [[1, 1, 0, 1, 1, 0, 0], [1, 0, 1, 1, 0, 1, 0], [0, 1, 1, 1, 0, 0, 1]])]
    for i in range(3 if quick else 12):
        Hs.append(("tree-%d" % i, tree_H(rng, rng.randint(2, 4 if quick else 6))))
    for i in range(3 if quick else 15):
        n = rng.randint(6, 12 if quick else 24)
        m = rng.randint(2, max(2, n // 2))
        H = [[1 if rng.random() < 0.3 else 0 for _ in range(n)] for _ in range(m)]
        for r in H:
            while sum(r) < 2:
                r[rng.randrange(n)] = 1
        for v in range(n):
            if not any(r[v] for r in H):
                H[rng.randrange(m)][v] = 1
        Hs.append(("sparse-%d" % i, H))
    # twins: another parity-check matrix with the same degree layout (two equal-degree columns exchanged, or a row rotated over the
    # same support size) built later in the same process; the decoder of the twin must serve the twin's code
    twins = []
    for hname, H in list(Hs):
        n_ = len(H[0])
        deg = [sum(r[v] for r in H) for v in range(n_)]
        pairs = [(a, b_) for a in range(n_) for b_ in range(a + 1, n_) if deg[a] == deg[b_] and [r[a] for r in H] != [r[b_] for r in H]]
        if pairs:
            a, b_ = rng.choice(pairs)
            T_ = [list(r) for r in H]
            for r in T_:
                r[a], r[b_] = r[b_], r[a]
            twins.append((hname + "-twin", T_))
    Hs += twins
    for hname, H in Hs:
        n = len(H[0])
        try:
            enc = quiet(E.LDPCCodeEncoder, torch.tensor(H, dtype=torch.float32))
        except Exception as ex:
            ctx.note("LDPCCodeEncoder rejected %s: %s" % (hname, str(ex)[:80]))
            continue
        k = int(enc.code_dimension)
        gs = fec.rows_of(enc.generator_matrix)
        if k < 1:
            continue
        ctx.count("ldpc-codes")
        if len(H) >= 2:
            ctx.nontriv(("ldpc", hname))
        msgs = list(range(1 << k)) if k <= (6 if quick else 8) else [rng.getrandbits(k) for _ in range(24)]
        X = torch.tensor([fec.int_to_bits(m_, k) for m_ in msgs], dtype=torch.float32)
        C = quiet(enc, X)
        rep = {"H": H, "code": hname}
        decoders = []
        for iters in ((1, 5) if quick else (1, 2, 5, 20)):
            decoders.append(("BeliefPropagationDecoder(arctanh=True,iters=%d)" % iters, lambda it=iters: quiet(D.BeliefPropagationDecoder, enc, bp_iters=it, arctanh=True), "bp"))
            decoders.append(("MinSumLDPCDecoder(iters=%d)" % iters, lambda it=iters: quiet(D.MinSumLDPCDecoder, enc, bp_iters=it), "ms"))
        decoders.append(("BeliefPropagationDecoder(arctanh=False,iters=5)", lambda: quiet(D.BeliefPropagationDecoder, enc, bp_iters=5, arctanh=False), "bp"))
        decoders.append(("MinSumLDPCDecoder(scaling=0.75,iters=5)", lambda: quiet(D.MinSumLDPCDecoder, enc, bp_iters=5, scaling_factor=0.75), "ms"))
        for dname, mkdec, kind in decoders:
            try:
                dec = mkdec()
            except Exception as ex:
                ctx.violation("C10/%s/constructor" % dname.split("(")[0], "%s on %s raised %s" % (dname, hname, str(ex)[:120]), rep)
                continue
            for mag in (0.5, 1.0, 5.0, 50.0):
                llr = (1 - 2 * C) * mag * (0.5 + torch.rand(C.shape))
                try:
                    first = quiet(dec, llr[:1])          # call history: a single word first, then the whole batch on the same object
                    out = quiet(dec, llr)
                    if len(msgs) > 1 and not torch.equal(first.float(), out[:1].float()):
                        ctx.violation("C10/%s/call-history" % dname.split("(")[0], "%s on %s: the first word decodes to %s alone but to %s inside a later batch on the same decoder" % (
                            dname, hname, first.tolist(), out[:1].tolist()), dict(rep, llr=llr[0].tolist(), history="decode (1,n) then (B,n) on one decoder object"))
                        break
                except Exception as ex:
                    ctx.violation("C10/%s/raises" % dname.split("(")[0], "%s on %s raised on clean LLRs: %s" % (dname, hname, str(ex)[:120]), rep)
                    break
                ctx.count("clean-decodings", len(msgs))
                if tuple(out.shape) != tuple(X.shape):
                    ctx.violation("C10/%s/output-shape" % dname.split("(")[0], "%s on %s (n=%d,k=%d): output shape %s for %d messages of %d bits" % (
                        dname, hname, n, k, tuple(out.shape), len(msgs), k), dict(rep, generator=enc.generator_matrix.tolist()))
                    break
                if not torch.equal(out.float(), X):
                    bad = int((out.float() != X).any(dim=1).nonzero()[0])
                    ctx.violation("C10/%s/clean-decodes" % dname.split("(")[0], "%s on %s: noise-free LLRs (|LLR|~%g) of message %s decode to %s" % (
                        dname, hname, mag, X[bad].tolist(), out[bad].tolist()), dict(rep, message=X[bad].tolist(), llr=llr[bad].tolist()))
                    break
        # T: min-sum posteriors on arbitrary dyadic LLRs vs the model (exact)
        for scale, offset, iters in ((1.0, 0.0, 1), (1.0, 0.0, 3), (0.75, 0.0, 2), (0.5, 0.25, 2)):
            try:
                dec = quiet(D.MinSumLDPCDecoder, enc, bp_iters=iters, scaling_factor=scale, offset=offset)
                Ls = [[Fraction(rng.randint(-40, 40) * 2 + 1, 8) for _ in range(n)] for _ in range(4 if quick else 20)]
                _, soft = quiet(dec, torch.tensor([[float(v) for v in L] for L in Ls], dtype=torch.float32), return_soft=True)
                Hpub = [[int(v) for v in r] for r in enc.check_matrix.tolist()]
                exprs.append("minsum_case %s %s %s %s %s %s [%s]" % (cH(Hpub), cnat(len(Hpub)), cnat(n), cnat(iters), cQ(Fraction(scale)), cQ(Fraction(offset)),
                                                                   "; ".join(cqlist(L) for L in Ls)))
                meta.append(("minsum", (hname, scale, offset, iters), [[Fraction(float(v)) for v in row] for row in soft.reshape(len(Ls), n).tolist()]))
                ctx.count("minsum-posteriors", len(Ls))
                # S: invariance to positive rescaling (offset 0): decisions equal, posteriors scale
                if offset == 0.0:
                    x = torch.tensor([[float(v) for v in L] for L in Ls], dtype=torch.float32)
                    d1, s1 = quiet(dec, x, return_soft=True)
                    d2, s2 = quiet(dec, 4.0 * x, return_soft=True)
                    if not torch.equal(d1, d2) or not torch.equal(4.0 * s1, s2):
                        ctx.violation("C10/MinSumLDPCDecoder/scale-invariance", "min-sum on %s (scaling=%g, iters=%d): rescaling the input by 4 changes the decisions or does not scale the posteriors" % (hname, scale, iters), rep)
            except Exception as ex:
                ctx.violation("C10/MinSumLDPCDecoder/raises", "min-sum on %s raised: %s" % (hname, str(ex)[:120]), rep)
        # S: sum-product on cycle-free graphs returns the exact bitwise posteriors
        if hname.startswith("tree") and n <= 14:
            dec = quiet(D.BeliefPropagationDecoder, enc, bp_iters=2 * n, arctanh=True)
            for _ in range(3 if quick else 10):
                L = [rng.uniform(-3, 3) for _ in range(n)]
                _, soft = quiet(dec, torch.tensor([L], dtype=torch.float32), return_soft=True)
                ref = exact_posteriors([[int(v) for v in r] for r in enc.check_matrix.tolist()], L)
                got = soft.reshape(-1).tolist()
                ctx.count("tree-posteriors")
                err = max(abs(a - b) for a, b in zip(got, ref))
                if err > 2e-3 * max(1.0, max(abs(v) for v in ref)):
                    ctx.violation("C10/BeliefPropagationDecoder/tree-exact", "sum-product on the cycle-free matrix %s: posterior LLRs %s differ from the exact ones %s (max error %.3g)" % (
                        hname, [round(v, 4) for v in got], [round(v, 4) for v in ref], err), dict(rep, llr=L))
                    break

    # ------------------------------------------------------------------ soft Reed-Muller
    for m in range(1, 5 if quick else 6):
        for r in range(0, m):
            enc = E.ReedMullerCodeEncoder(r, m)
            k, n = int(enc.code_dimension), int(enc.code_length)
            if k > 16:
                continue
            dec = D.ReedMullerDecoder(enc, input_type="soft")
            msgs = list(range(1 << k)) if k <= 6 else [rng.getrandbits(k) for _ in range(16)]
            X = torch.tensor([fec.int_to_bits(m_, k) for m_ in msgs], dtype=torch.float32)
            C = quiet(enc, X)
            for mag in (0.5, 5.0, 50.0):
                out = quiet(dec, (1 - 2 * C) * mag * (0.5 + torch.rand(C.shape)))
                ctx.count("clean-decodings", len(msgs))
                if tuple(out.shape) != tuple(X.shape) or not torch.equal(out.float(), X):
                    ctx.violation("C10/ReedMullerDecoder/clean-decodes", "soft RM(%d,%d): noise-free LLRs (|LLR|~%g) do not decode to the message" % (r, m, mag), {"r": r, "m": m})
                    break
    if ok and exprs:
        res = ctx.coq_eval("c10", HDR, exprs, per_file=3, timeout=1500)
        for (kind, cfg, impl), mv in zip(meta, res):
            ctx.count("model-correspondence")
            if kind == "wagner":
                if mv != impl:
                    ctx.broken.append("correspondence Wagner k=%d: model %s impl %s" % (cfg, mv[:6], impl[:6]))
            else:
                mvq = [[Fraction(a, b) for a, b in row] for row in mv]
                if mvq != impl:
                    ctx.broken.append("correspondence min-sum posteriors %s" % (cfg,))
    ctx.sample({"parity-check matrices": [h[0] for h in Hs][:6], "wagner k": "1..10"})
    ctx.assumptions += ["A-float: the exact sum-product rule 2 atanh(prod tanh(l/2)) is proved sign consistent over the reals (C10_sum_product_update_sign_consistent); the implementation's float32 clamps (1e-10, 0.999, 500) and its Taylor arctanh are not modelled: sum-product decoders are checked on the implementation (clean decoding, exact posteriors on cycle-free graphs against a float64 reference)",
                        "flooding BP on an acyclic graph = exact marginals is not formalised (partial); min-sum scale invariance is proved at the level of |.| and sign only and checked end-to-end on the implementation",
                        "min-sum with offset > 0 subtracts sign(v)*offset without clamping at zero: covered by the exact correspondence only"]
    ctx.cov["exhaustive"] = False


def replay(rep):
    import_kaira()
    r = rep.get("replay", {})
    print("replay of", rep.get("key"), {k: v for k, v in r.items() if k not in ("llr",)})
    return 0
