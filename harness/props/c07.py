"""C07 -- additive-noise channels deliver exactly the configured noise power / SNR.

P: coq/Props/C07.v (for every draw list, power and SNR: added power = P * second moment of the draws, real and
   complex; same-seed scaling; configured SNR = measured SNR under one definition; dB/linear/noise-power inverses
   and anchors; calculate_snr / metric agreement with explicit offset bound; Laplacian; verbatim noise).
T: the squared, exact-rational model (Chan/NoiseQ.v) evaluated by the kernel on the implementation's own output:
   noise(seed, P)^2 = noise(seed, 1)^2 * P sample by sample with equal signs (scale_check, float64 inputs), the SNR
   path through  S * sum g^2 / sum n^2 = 10^(d/10)  in the form x^(10 den) = 10^num (ratio_check), dB conversions
   through lin^(10 den) = 10^num on a dense grid of num/den dB (scalars and tensors).
S: on the implementation alone, >= 4*10^6 samples per case, per-run false-alarm bound <= 1e-9 (6.5 sigma): zero mean,
   added power, SNR measured with calculate_snr / SignalToNoiseRatio / noise_power_to_snr; verbatim noise.
"""
import math
from fractions import Fraction

from common import cQ, import_kaira

HDR = """From Coq Require Import QArith List Bool ZArith.
Import ListNotations.
From KV Require Import Chan.NoiseQ Chan.C07Cases.
"""
FINISH = dict(level="proof", rule=(
    "family in {AWGN, Laplacian (scale/power/SNR), nonlinear+noise, flat-fading noise stage, add_noise_for_snr} x real/complex "
    "x noise powers 1e-3..1e3 x SNR -20..40 dB x signal powers 1e-3..1e3 x shapes 1-D/2-D/4-D; same-seed relations decided "
    "exactly by the kernel on float64 runs, statistical clauses on >= 2^22 samples with 6.5-sigma bounds; dB grid num/den, "
    "den in {1,2,4}; non-trivial = P != 1 or d != 0; distinct = distinct (family, parameterisation, value, dtype, shape, seed)"))
TOL = Fraction(1, 50000)        # 2e-5 relative on squares: float32 square roots / casts inside the implementation
ZS = 6.5                        # two-sided Gaussian tail 8e-11 per test


def cql(t):
    return "[" + "; ".join(cQ(Fraction(float(v))) for v in t) + "]"


def families(torch, C, U):
    """name -> (make(kind, value), base(x), complex_output_for_real_input)"""
    ident = lambda t: t                                                     # noqa: E731
    fam = {
        "AWGN": (lambda kind, v: C.AWGNChannel(**{kind: v}), ident, False, ("avg_noise_power", "snr_db")),
        "Laplacian": (lambda kind, v: C.LaplacianChannel(**{kind: v}), ident, False, ("avg_noise_power", "snr_db", "scale")),
        "Nonlinear(identity)": (lambda kind, v: C.NonlinearChannel(ident, add_noise=True, **{kind: v}), ident, False, ("avg_noise_power", "snr_db")),
        "Nonlinear(tanh,cartesian)": (lambda kind, v: C.NonlinearChannel(torch.tanh, add_noise=True, complex_mode="cartesian", **{kind: v}),
                                      lambda t: torch.complex(torch.tanh(t.real), torch.tanh(t.imag)) if torch.is_complex(t) else torch.tanh(t), False, ("avg_noise_power", "snr_db")),
    }
    return fam


def run(ctx):
    ok = ctx.build_props([], ["Chan/C07Cases.vo"])
    ctx.log("props built", ok)
    import_kaira()
    import torch
    import kaira.channels as C
    import kaira.utils.snr as U
    from kaira.metrics.signal.snr import SignalToNoiseRatio
    rng = ctx.rng
    quick = ctx.quick
    exprs, meta = [], []

    def add(expr, key, what, rep):
        exprs.append(expr)
        meta.append((key, what, rep))

    # ------------------------------------------------------------------ dB <-> linear <-> noise power
    grid = [(n, 1) for n in range(-20, 41)] + [(n, 2) for n in range(-40, 81, 1 if not quick else 3)] + [(n, 4) for n in range(-79, 160, 7 if quick else 2)]
    vals = [n / d for n, d in grid]
    lin_scalar = [float(U.snr_db_to_linear(float(v))) for v in vals]
    lin_tensor = U.snr_db_to_linear(torch.tensor(vals, dtype=torch.float32)).tolist()
    lin_t64 = U.snr_db_to_linear(torch.tensor(vals, dtype=torch.float64).reshape(-1, 1)).reshape(-1).tolist()
    for (n, d), a, b, c_ in zip(grid, lin_scalar, lin_tensor, lin_t64):
        ctx.count("db-grid", 3)
        if (n, d) != (0, 1):
            ctx.nontriv(("db", n, d))
        for how, r in (("float", a), ("tensor32", b), ("tensor64", c_)):
            add("c07_lin %s %s (%d)%%Z %d%%positive" % (cQ(TOL * 10 * d), cQ(Fraction(r)), n, d), "C07/snr_db_to_linear/value/%s" % how,
                "snr_db_to_linear(%g dB) = %r, but 10^(%g/10) = %r" % (n / d, r, n / d, 10 ** (n / d / 10)), {"snr_db": n / d, "how": how})
        back = float(U.snr_linear_to_db(float(a)))
        backt = float(U.snr_linear_to_db(torch.tensor([a, 1.0]))[0])
        for bk in (back, backt):
            if abs(bk - n / d) > 2e-4 * max(1.0, abs(n / d)):
                ctx.violation("C07/snr_linear_to_db/inverse", "snr_linear_to_db(snr_db_to_linear(%g)) = %r" % (n / d, bk), {"snr_db": n / d})
    for r in [1e-3, 0.01, 0.5, 1.0, 2.0, 10.0, 100.0, 12345.0]:
        dv = float(U.snr_linear_to_db(float(r)))
        ctx.count("db-grid")
        if abs(dv - 10 * math.log10(r)) > 2e-4 * max(1.0, abs(dv)):
            ctx.violation("C07/snr_linear_to_db/value", "snr_linear_to_db(%g) = %r, 10 log10 = %r" % (r, dv, 10 * math.log10(r)), {"linear": r})
    for S in [1e-3, 0.02, 0.5, 1.0, 3.0, 64.0, 1e3]:
        for (n, d) in [(-20, 1), (-7, 2), (0, 1), (3, 1), (10, 1), (25, 2), (33, 4), (40, 1)]:
            ctx.count("noise-power-grid")
            ctx.nontriv(("np", S, n, d))
            P = float(U.snr_to_noise_power(S, n / d))
            Pt = float(U.snr_to_noise_power(torch.tensor([S, S]), torch.tensor(n / d))[1])
            S32 = float(torch.tensor(S, dtype=torch.float32))
            add("c07_ratio %s %s %s (%d)%%Z %d%%positive" % (cQ(TOL * 10 * d), cQ(Fraction(S)), cQ(Fraction(P)), n, d), "C07/snr_to_noise_power/value/float",
                "snr_to_noise_power(%g, %g dB) = %r, expected %r" % (S, n / d, P, S / 10 ** (n / d / 10)), {"signal_power": S, "snr_db": n / d})
            add("c07_ratio %s %s %s (%d)%%Z %d%%positive" % (cQ(TOL * 10 * d), cQ(Fraction(S32)), cQ(Fraction(Pt)), n, d), "C07/snr_to_noise_power/value/tensor",
                "snr_to_noise_power(tensor %g, %g dB) = %r, expected %r" % (S, n / d, Pt, S / 10 ** (n / d / 10)), {"signal_power": S, "snr_db": n / d})
            for how, back in (("float", float(U.noise_power_to_snr(float(S), float(P)))), ("tensor", float(U.noise_power_to_snr(torch.tensor([S, S]), torch.tensor([P, P]))[0]))):
                if abs(back - n / d) > 3e-4 * max(1.0, abs(n / d)):
                    ctx.violation("C07/noise_power_to_snr/inverse/%s" % how, "noise_power_to_snr(%g, snr_to_noise_power(%g, %g dB)) = %r" % (S, S, n / d, back), {"signal_power": S, "snr_db": n / d})

    # ------------------------------------------------------------------ same-seed relations (float64 runs, decided by the kernel)
    fam = families(torch, C, U)
    shapes = [(48,), (4, 12), (2, 2, 3, 4)]
    powers = [1e-3, 0.05, 0.5, 4.0, 1e3] if quick else [1e-3, 1e-2, 0.05, 0.5, 2.0, 4.0, 37.0, 1e3]
    snrs = [(-20, 1), (-7, 2), (3, 1), (10, 1), (25, 2), (40, 1)] if quick else [(-20, 1), (-13, 1), (-7, 2), (0, 1), (3, 1), (10, 1), (25, 2), (33, 4), (40, 1)]

    def noise_of(ch, base, x, seed, **kw):
        torch.manual_seed(seed)
        y = ch(x, **kw)
        return y - base(x).to(y.dtype) if not torch.is_complex(y) or torch.is_complex(x) else y - torch.complex(base(x), torch.zeros_like(base(x)))

    def comps(n):
        return [n.real.reshape(-1), n.imag.reshape(-1)] if torch.is_complex(n) else [n.reshape(-1)]

    def mkx(shape, cplx, amp, seed):
        g = torch.Generator().manual_seed(seed)
        x = torch.randn(shape, generator=g, dtype=torch.float64) * amp
        if cplx:
            x = torch.complex(x, torch.randn(shape, generator=g, dtype=torch.float64) * amp)
        return x

    runs = []        # (family label, make(kind, v), base, extra kwargs builder, kinds)
    for name, (mk, base, _, kinds) in fam.items():
        runs.append((name, mk, base, lambda x: {}, kinds))
    runs.append(("FlatFading(noise stage)", lambda kind, v: C.FlatFadingChannel("rayleigh", coherence_time=3, **{kind: v}), lambda t: t,
                 lambda x: {"csi": torch.ones(x.reshape(x.shape[0], -1).shape if x.dim() > 1 else (1, x.numel()), dtype=torch.complex128)}, ("avg_noise_power", "snr_db")))
    for name, mk, base, kwf, kinds in runs:
        for cplx in (False, True):
            for shape in shapes:
                seed = rng.randrange(1 << 30)
                amp = rng.choice([0.03, 1.0, 30.0])
                x = mkx(shape, cplx, amp, seed)
                kw = kwf(x)
                cls = "%s/%s" % (name.split("(")[0], "complex" if cplx else "real")
                rep = {"family": name, "complex": cplx, "shape": list(shape), "seed": seed, "amplitude": amp}
                ctx.count("same-seed-configurations")
                try:
                    ref = noise_of(mk("avg_noise_power", 1.0), base, x, seed, **kw)
                except Exception as ex:
                    ctx.violation("C07/%s/raises" % cls, "%s raised on a %s input of shape %s: %s" % (name, "complex" if cplx else "real", shape, str(ex)[:100]), rep)
                    continue
                if ref.shape != x.shape:
                    ctx.violation("C07/%s/shape" % cls, "%s: output shape %s for input %s" % (name, tuple(ref.shape), tuple(x.shape)), rep)
                    continue
                refc = comps(ref)
                for P in powers:
                    n = noise_of(mk("avg_noise_power", P), base, x, seed, **kw)
                    ctx.nontriv((name, cplx, shape, "P", P))
                    for ci, (g_, n_) in enumerate(zip(refc, comps(n))):
                        add("c07_scale %s %s %s %s" % (cQ(Fraction(P)), cQ(TOL), cql(g_), cql(n_)), "C07/%s/same-seed-power" % cls,
                            "%s: with the same seed the noise at power %g is not sqrt(%g) times the noise at power 1 (component %d, shape %s)" % (name, P, P, ci, shape),
                            dict(rep, noise_power=P))
                if "scale" in kinds and not cplx:
                    r1 = comps(noise_of(mk("scale", 1.0), base, x, seed, **kw))
                    for s in (0.01, 0.5, 3.0):
                        n = noise_of(mk("scale", s), base, x, seed, **kw)
                        ctx.nontriv((name, cplx, shape, "scale", s))
                        add("c07_scale %s %s %s %s" % (cQ(Fraction(s) * Fraction(s)), cQ(TOL), cql(r1[0]), cql(comps(n)[0])), "C07/%s/same-seed-scale" % cls,
                            "%s: noise at scale %g is not %g times the noise at scale 1" % (name, s, s), dict(rep, scale=s))
                if "snr_db" in kinds:
                    S = float((x.abs() ** 2).mean())
                    for (nn, dd) in snrs:
                        n = noise_of(mk("snr_db", nn / dd), base, x, seed, **kw)
                        S_ = float((base(x).abs() ** 2).mean())          # the SNR refers to the signal the noise is added to
                        ctx.nontriv((name, cplx, shape, "snr", nn, dd))
                        gsum = sum(float((c_ ** 2).sum()) for c_ in refc)
                        nsum = sum(float((c_ ** 2).sum()) for c_ in comps(n))
                        # total over components: S * sum g^2 / sum n^2 = 10^(d/10); the flat-fading reference has total unit power too
                        gl = torch.cat(refc)
                        nl = torch.cat(comps(n))
                        add("c07_snr %s %s (%d)%%Z %d%%positive %s %s" % (cQ(TOL), cQ(Fraction(S_)), nn, dd, cql(gl), cql(nl)), "C07/%s/same-seed-snr" % cls,
                            "%s: at %g dB on a signal of power %g the noise (same seed as power 1) has power ratio %g to the unit noise, expected %g" % (
                                name, nn / dd, S_, nsum / max(gsum, 1e-300), S_ / 10 ** (nn / dd / 10)), dict(rep, snr_db=nn / dd))
    # one channel object used for a history of inputs (real, complex, other shapes and dtypes) behaves like a fresh one each time
    for name, mk, base, kwf, kinds in runs:
        for kind, v in (("avg_noise_power", 0.37), ("snr_db", 6.0)) + ((("scale", 0.8),) if "scale" in kinds else ()):
            for order in ((False, True, False, True), (True, False, True, False)):
                ch = mk(kind, v)
                hist = []
                for step, cplx in enumerate(order):
                    shape = shapes[step % len(shapes)]
                    seed = rng.randrange(1 << 30)
                    x = mkx(shape, cplx, 1.0, seed)
                    if step >= 2:
                        x = x.to(torch.complex64 if cplx else torch.float32)
                    hist.append("%s%s" % ("complex" if cplx else "real", list(shape)))
                    kw = kwf(x)
                    if kw:
                        kw = {"csi": kw["csi"].to(torch.complex64 if step >= 2 else torch.complex128)}
                    try:
                        a = noise_of(ch, base, x, seed, **kw)
                        b_ = noise_of(mk(kind, v), base, x, seed, **kw)
                    except Exception as ex:
                        ctx.violation("C07/%s/call-history-raises" % name.split("(")[0], "%s(%s=%g) raised after the call history %s: %s" % (name, kind, v, hist, str(ex)[:100]), {"family": name, "history": hist})
                        break
                    ctx.count("call-history-steps")
                    if a.shape != b_.shape or not torch.allclose(a, b_, rtol=1e-6, atol=0):
                        pa, pb = float((a.abs() ** 2).mean()), float((b_.abs() ** 2).mean())
                        ctx.violation("C07/%s/call-history" % name.split("(")[0], "%s(%s=%g): after the call history %s the same channel object adds noise of power %.4g where a fresh one (same seed) adds %.4g" % (
                            name, kind, v, hist, pa, pb), {"family": name, "kind": kind, "value": v, "history": hist, "seed": seed})
                        break
    # parameters re-assigned on a live channel object (the sweep idiom of the examples) take effect
    for name, mk, base, kwf, kinds in runs:
        for kind, first, second in (("snr_db", 0.0, 20.0), ("avg_noise_power", 0.01, 2.0)) + ((("scale", 0.1, 3.0),) if "scale" in kinds else ()):
            for cplx in (False, True):
                x = mkx((4, 12), cplx, 1.0, rng.randrange(1 << 30))
                kw = kwf(x)
                ch = mk(kind, first)
                seed = rng.randrange(1 << 30)
                try:
                    noise_of(ch, base, x, seed, **kw)
                    setattr(ch, kind, second)
                    a = noise_of(ch, base, x, seed + 1, **kw)
                    b_ = noise_of(mk(kind, second), base, x, seed + 1, **kw)
                except Exception as ex:
                    ctx.note("%s: re-assigning %s raised %s" % (name, kind, str(ex)[:60]))
                    continue
                ctx.count("reassigned-parameter-cases")
                if not torch.allclose(a, b_, rtol=1e-6, atol=0):
                    ctx.violation("C07/%s/parameter-reassigned" % name.split("(")[0], "%s: after one forward at %s=%g and `channel.%s = %g` the channel adds noise of power %.4g where a fresh channel at %g adds %.4g (same seed)" % (
                        name, kind, first, kind, second, float((a.abs() ** 2).mean()), second, float((b_.abs() ** 2).mean())), {"family": name, "kind": kind, "first": first, "second": second})
    # add_noise_for_snr: same seed, two SNRs 10 dB apart and the signal scaled by 4
    for cplx in (False, True):
        for shape in shapes:
            seed = rng.randrange(1 << 30)
            x = mkx(shape, cplx, 1.0, seed)
            S = float((x.abs() ** 2).mean())
            torch.manual_seed(seed)
            _, n0 = U.add_noise_for_snr(x, 0.0)
            cls = "add_noise_for_snr/%s" % ("complex" if cplx else "real")
            ctx.count("same-seed-configurations")
            for (nn, dd) in snrs:
                torch.manual_seed(seed)
                y, n = U.add_noise_for_snr(x, nn / dd)
                ctx.nontriv(("add_noise_for_snr", cplx, shape, nn, dd))
                if not torch.equal(y, x + n):
                    ctx.violation("C07/%s/returned-noise" % cls, "add_noise_for_snr: returned noisy signal is not signal + returned noise", {"snr_db": nn / dd})
                gl = torch.cat(comps(n0))
                nl = torch.cat(comps(n))
                # n0 has power S (0 dB): S * sum n0^2 / sum n^2 ... expressed against the unit reference n0 / sqrt(S): ratio_check(S * sum(n0^2)/S ...)
                add("c07_snr %s %s (%d)%%Z %d%%positive %s %s" % (cQ(TOL), cQ(Fraction(1)), nn, dd, cql(gl), cql(nl)), "C07/%s/same-seed-snr" % cls,
                    "add_noise_for_snr: noise at %g dB is not 10^(-%g/20) times the noise at 0 dB (same seed)" % (nn / dd, nn / dd), {"snr_db": nn / dd, "seed": seed, "shape": list(shape)})

    ctx.log("same-seed cases prepared", len(exprs))
    # ------------------------------------------------------------------ statistical clauses on the implementation
    N = 1 << 22 if quick else 1 << 24
    rel = ZS * math.sqrt(5.0 / N) + 1e-4

    def sig(kind, cplx, power, seed):
        g = torch.Generator().manual_seed(seed)
        if kind == "gauss":
            x = torch.randn(N, generator=g)
            if cplx:
                x = torch.complex(x, torch.randn(N, generator=g)) / math.sqrt(2)
        elif kind == "bpsk":
            x = (torch.randint(0, 2, (N,), generator=g).float() * 2 - 1)
            if cplx:
                x = torch.complex(x, (torch.randint(0, 2, (N,), generator=g).float() * 2 - 1)) / math.sqrt(2)
        else:
            x = torch.rand(N, generator=g) * 2 - 0.3
            if cplx:
                x = torch.complex(x, torch.rand(N, generator=g))
        x = x * math.sqrt(power / float((x.abs() ** 2).mean()))
        return x

    metric = SignalToNoiseRatio()
    stat_runs = [(nm, mk, base, kinds, None) for nm, (mk, base, _, kinds) in fam.items()]
    stat_runs.append(("FlatFading(noise stage)", lambda kind, v: C.FlatFadingChannel("rayleigh", coherence_time=1 << 20, **{kind: v}), lambda t: t, ("avg_noise_power", "snr_db"), "csi"))
    sp = [1e-3, 0.5, 1.0, 1e3] if quick else [1e-3, 1e-2, 0.5, 1.0, 40.0, 1e3]
    sd = [-20.0, -3.5, 0.0, 10.0, 40.0] if quick else [-20.0, -10.0, -3.5, 0.0, 3.0, 7.0, 10.0, 25.0, 40.0]
    for name, mk, base, kinds, need in stat_runs:
        for cplx in (False, True):
            cls = "%s/%s" % (name.split("(")[0], "complex" if cplx else "real")
            shape_cycle = [(N,), (4, N // 4), (2, 2, 1024, N // 4096)]
            k = 0
            for P in sp:
                x = sig("gauss", cplx, 1.0, 7 + k).reshape(shape_cycle[k % 3])
                k += 1
                kw = {"csi": torch.ones(x.reshape(x.shape[0], -1).shape if x.dim() > 1 else (1, x.numel()), dtype=torch.complex64)} if need else {}
                torch.manual_seed(rng.randrange(1 << 30))
                y = mk("avg_noise_power", P)(x, **kw)
                bx = base(x)
                n = y - (bx if torch.is_complex(bx) or not torch.is_complex(y) else torch.complex(bx, torch.zeros_like(bx)))
                ctx.count("statistical-cases")
                ctx.count("statistical-samples", N)
                pw = float((n.abs() ** 2).double().mean())
                mean = complex(n.double().mean()) if torch.is_complex(n) else float(n.double().mean())
                if abs(pw - P) > rel * P:
                    ctx.violation("C07/%s/noise-power" % cls, "%s(avg_noise_power=%g) on a %s input of shape %s adds noise of power %.6g (%d samples, tolerance %.3g%%)" % (
                        name, P, "complex" if cplx else "real", tuple(x.shape), pw, N, 100 * rel), {"family": name, "noise_power": P, "complex": cplx, "measured": pw})
                if abs(mean) > ZS * math.sqrt(P / N) * 1.5:
                    ctx.violation("C07/%s/zero-mean" % cls, "%s(avg_noise_power=%g): added noise has mean %s over %d samples" % (name, P, mean, N), {"family": name, "noise_power": P, "complex": cplx})
            if "scale" in kinds and not cplx:
                for s in (0.1, 2.0):
                    x = sig("gauss", False, 1.0, 3)
                    torch.manual_seed(rng.randrange(1 << 30))
                    n = mk("scale", s)(x) - x
                    pw = float((n ** 2).double().mean())
                    ctx.count("statistical-cases")
                    if abs(pw - 2 * s * s) > rel * 2 * s * s:
                        ctx.violation("C07/%s/scale-variance" % cls, "%s(scale=%g): noise variance %.6g, a Laplacian of that scale has 2*scale^2 = %g" % (name, s, pw, 2 * s * s), {"family": name, "scale": s})
            if "snr_db" not in kinds:
                continue
            for d in sd:
                for sk, spow in (("gauss", 1.0), ("bpsk", 1e-3 if d < 20 else 1.0), ("offset", 1e3)):
                    if quick and sk == "offset" and d not in (0.0, 10.0):
                        continue
                    x = sig(sk, cplx, spow, 11 + k).reshape(shape_cycle[k % 3])
                    k += 1
                    kw = {"csi": torch.ones(x.reshape(x.shape[0], -1).shape if x.dim() > 1 else (1, x.numel()), dtype=torch.complex64)} if need else {}
                    torch.manual_seed(rng.randrange(1 << 30))
                    ch = mk("snr_db", d)
                    y = ch(x, **kw)
                    bx = base(x)
                    if torch.is_complex(y) and not torch.is_complex(bx):
                        bx = torch.complex(bx, torch.zeros_like(bx))
                    ctx.count("statistical-cases")
                    ctx.count("statistical-samples", N)
                    ctx.nontriv((name, cplx, "snr", d, sk))
                    Sx = float((bx.abs() ** 2).double().mean())
                    Nn = float(((y - bx).abs() ** 2).double().mean())
                    tol_db = 10 * math.log10(1 + rel) + 0.01
                    rows = x.shape[0] if x.dim() > 1 else 1
                    tol_rows = 10 * math.log10(1 + ZS * math.sqrt(5.0 * rows / N) * 2 + 1e-4) + 0.01
                    tools = [("exact ratio", 10 * math.log10(Sx / Nn), tol_db),
                             ("calculate_snr", float(U.calculate_snr(bx, y)), tol_db),
                             ("noise_power_to_snr(estimate_signal_power)", float(U.noise_power_to_snr(U.estimate_signal_power(bx), U.estimate_signal_power(y - bx))), tol_db)]
                    if Nn > 1e3 * 1.2e-7:
                        mv = metric(bx, y)
                        tools.append(("SignalToNoiseRatio", float(mv.double().mean()), tol_rows if mv.numel() > 1 else tol_db))
                    for tool, val, tl in tools:
                        if not abs(val - d) <= tl:
                            ctx.violation("C07/%s/snr/%s" % (cls, tool.split("(")[0]), "%s(snr_db=%g) on a %s %s signal of power %g: %s measures %.4f dB (%d samples, tolerance %.3f dB)" % (
                                name, d, "complex" if cplx else "real", sk, spow, tool, val, N, tl), {"family": name, "snr_db": d, "complex": cplx, "signal": sk, "signal_power": spow, "tool": tool, "measured": val})
    # add_noise_for_snr, statistical; snr_db given as a tensor
    for cplx in (False, True):
        for d in sd:
            x = sig("gauss", cplx, 2.0, 5)
            torch.manual_seed(rng.randrange(1 << 30))
            y, n = U.add_noise_for_snr(x, d)
            val = float(U.calculate_snr(x, y))
            ctx.count("statistical-cases")
            if not abs(val - d) <= 10 * math.log10(1 + rel) + 0.01:
                ctx.violation("C07/add_noise_for_snr/%s/snr" % ("complex" if cplx else "real"), "add_noise_for_snr(%g dB): calculate_snr measures %.4f dB" % (d, val), {"snr_db": d, "complex": cplx})
            torch.manual_seed(rng.randrange(1 << 30))
            y = C.AWGNChannel(snr_db=torch.tensor(d))(x)
            val = float(U.calculate_snr(x, y))
            if not abs(val - d) <= 10 * math.log10(1 + rel) + 0.01:
                ctx.violation("C07/AWGN/%s/snr/tensor-parameter" % ("complex" if cplx else "real"), "AWGNChannel(snr_db=tensor(%g)): calculate_snr measures %.4f dB" % (d, val), {"snr_db": d, "complex": cplx})
    # ------------------------------------------------------------------ caller-supplied noise is added verbatim
    for cplx in (False, True):
        for shape in shapes + [(1,), (5, 1)]:
            x = mkx(shape, cplx, 1.0, rng.randrange(1 << 30)).to(torch.complex64 if cplx else torch.float32)
            nz = mkx(shape, cplx, 3.0, rng.randrange(1 << 30)).to(x.dtype)
            ctx.count("verbatim-noise")
            for ch in (C.AWGNChannel(avg_noise_power=0.3), C.AWGNChannel(snr_db=5.0)):
                y = ch(x, noise=nz)
                if not torch.equal(y, x + nz):
                    ctx.violation("C07/AWGN/verbatim-noise", "AWGNChannel.forward(x, noise=n) differs from x + n (shape %s, %s)" % (shape, "complex" if cplx else "real"), {"shape": list(shape), "complex": cplx})

    ctx.log("statistical clauses done")
    # ------------------------------------------------------------------ kernel evaluation
    if ok and exprs:
        res = ctx.coq_eval("c07", HDR, exprs, per_file=40, timeout=1500)
        ctx.count("kernel-evaluated-checks", len(res))
        ctx.log("kernel evaluation done")
        for (key, what, rep), v in zip(meta, res):
            if v is not True:
                ctx.violation(key, what, rep)
    ctx.sample({"statistical_samples_per_case": N, "relative_tolerance": rel, "kernel_checks": len(exprs)})
    ctx.assumptions += ["A-rng: torch.randn / torch.rand draw i.i.d. standard normal / uniform samples (validated here only through the second moment and mean of 2^22..2^24 samples)",
                        "E l(U)^2 = 2 for the inverse-CDF Laplacian transform is cited, not proved; the 0.999999 clamp lowers it by < 3e-4 relative",
                        "float arithmetic: the kernel compares exact rationals of float64 runs with relative tolerance 2e-5 on squares"]
    ctx.cov["exhaustive"] = False


def replay(rep):
    import_kaira()
    print("replay of", rep.get("key"), rep.get("replay"))
    return 0
