"""Writes MANIFEST.json from the table below (kept in one place so it stays valid)."""
import json
import os

VERIF = os.path.dirname(os.path.dirname(os.path.abspath(__file__)))

CHECKS = {
    "C18": dict(
        text="Coq theorems for all polynomials (N bit masks, unbounded) and all elements of every field in the modulus table "
             "regenerated from the source: commutative-ring laws, Euclidean division with uniqueness, gcd/Bezout, lcm*gcd=a*b, "
             "field ring laws, Frobenius, pow = iterated product, order of the designated primitive element exactly 2^m-1 "
             "(kernel computation on the current table), every non-zero element a power of it, Fermat inverse, no zero divisors. "
             "Model tied to the code by exhaustive small grids and seeded random big operands evaluated inside Coq.",
        design="6/C18",
        note="Trusted: Coq kernel + vm_compute; translator harness/translate/primpolys.py; hand-written models Algebra/BinPoly.v, GF2m.v tied by "
             "correspondence; minimal-polynomial irreducibility is checked on the implementation by the oracle only (not a theorem yet). "
             "All theorems closed under the global context (no axioms).",
        technique="Coq proof (induction over binary numbers / lists, kernel computation on the regenerated table) + model/implementation correspondence by vm_compute"),
    "C13": dict(
        text="Coq theorems: for every length L, coherence time ct > 0 (divisor or not) and coefficient list the expanded gain at position i is "
             "the coefficient of block i/ct, hence constant within blocks; ceil(L/ct) blocks cover every position and the last is non-empty; "
             "the output is h.x + n position by position over exact complex rationals with the length and batch size preserved and each batch item "
             "using its own coefficients (also with supplied csi/noise). Over the reals, for every draw list: mean |h|^2 of Rayleigh is (m1+m2)/2 and of "
             "Rician K/(K+1) + 2 los s mean(g1) + (m1+m2)/(2(K+1)), i.e. 1 for zero-mean unit draws; los^2/(2 s^2) = K; K=0 is Rayleigh; the noise "
             "stage is C07's complex Gaussian stage on the faded signal. The model is evaluated by the kernel on _expand_coefficients output, on "
             "forward(x, csi, noise) for integer data, on coefficients observed through x=1 (block heads, distinct neighbours), on Rician "
             "coefficients under the same seed as K=0 and on the same-seed noise relations.",
        design="6/C13",
        note="Trusted: Coq kernel + vm_compute; hand-written models Chan/Fading.v (rationals), Chan/FadingR.v (Reals) tied by kernel-evaluated "
             "checks on implementation output. Axioms (Coq standard library Reals) for the gain theorems: ClassicalDedekindReals.sig_not_dec, "
             "sig_forall_dec, FunctionalExtensionality.functional_extensionality_dep; the structural theorems are closed. The law of torch.randn "
             "is an assumption validated statistically (>= 2^20 blocks per case, 6.5-sigma bounds) on the implementation only; log-normal shadowing is "
             "checked for structure only (the property asks unit mean-square gain of Rayleigh and Rician).",
        technique="Coq proof (lists / Euclidean division; Reals algebra of sqrt) + kernel-evaluated correspondence on implementation output + statistical oracle for the sampler"),
    "C14": dict(
        text="Coq theorems for every n : N: the reflected Gray code n xor (n>>1) and the shift/xor loop inverting it are mutually inverse "
             "bijections, consecutive integers (and the 2^b wrap-around) map to words at Hamming distance one, the loop terminates; the "
             "functions as written equal them outside the hard-coded special cases regenerated from the source, and everywhere when the "
             "kernel-evaluated consistency test of those cases holds. Verified checkers (labels are all 2^b distinct b-bit patterns, points "
             "pairwise distinct, nearest neighbours differ in one bit, unit average energy) with soundness theorems are applied by the kernel "
             "to the table every modulator publishes; label-table model tied to PSK/QAM/PAM by exact comparison. For M-PSK of every order the squared "
             "chord 2 - 2cos(2 pi d/M) is proved strictly smallest for the two circular neighbours, which with the one-bit theorems gives the Gray "
             "nearest-neighbour clause beyond the tables.",
        design="6/C14",
        note="Trusted: Coq kernel + vm_compute; translator harness/translate/grayconst.py; float32 coordinates taken as exact rationals with "
             "relative tolerance 1e-4 (neighbour relation) / 1e-5 (energy). For PSK of arbitrary order M the geometry is proved over the reals "
             "(Mod/PSKGeomR.v: circular neighbours strictly nearest, equally near, points distinct; Coq Reals axioms "
             "ClassicalDedekindReals.sig_not_dec, sig_forall_dec, FunctionalExtensionality.functional_extensionality_dep for those two theorems only); "
             "for square QAM grids of every order the nearest points are proved to be the four axis neighbours and their Gray labels to differ in one "
             "bit (Mod/GridGeom.v, closed); the unit-energy clause and the PAM tables are decided per published table (all orders of the catalogue). "
             "All other theorems closed under the global context.",
        technique="Coq proof (bitwise induction on N) + kernel-evaluated verified checkers on published tables + model/implementation correspondence by vm_compute"),
    "C15": dict(
        text="Coq theorems over the reals (Coq Reals) for every LLR: P(bit=1) = sigmoid(-LLR) is strictly decreasing and is above 1/2 exactly "
             "for negative LLRs; a probability-threshold consumer is monotone and at threshold 1/2 decides 1 iff LLR < 0; scaled LLR thresholding "
             "with any positive scale likewise; hysteresis with lo <= 1/2 <= hi produces a 1 only from a negative LLR or an earlier 1 and stays at 0 "
             "on every history of positive LLRs; over exact rationals, for every labelled table with distinct points and every positive constant and "
             "noise variance, the sign consumer applied to the noise-free max-log output returns the transmitted bit. The conversion and comparison "
             "each thresholder class applies in LLR mode are regenerated from the source (Gen/Thresholds.v) and the kernel decides polarity_ok on them; "
             "every demodulator's noise-free soft output is fed to every LLR consumer on the implementation (both labellings of the same order in one "
             "process, enum and plain-string mode spellings).",
        design="6/C15",
        note="Trusted: Coq kernel + vm_compute; translator harness/translate/thresholders.py; exp is the Coq Reals exponential, float32 sigmoid assumed "
             "monotone with sigmoid(0)=1/2. Axioms (all from the Coq standard library, via Reals): ClassicalDedekindReals.sig_not_dec, "
             "ClassicalDedekindReals.sig_forall_dec, FunctionalExtensionality.functional_extensionality_dep, Classical_Prop.classic (only the "
             "real-number theorems; the rational composition theorem is closed). Data-dependent thresholders (adaptive, dynamic) are exercised on "
             "balanced sequences only; the soft-input decoders (SC, BP, min-sum, Wagner) are covered through C10/C11 plus a +mag/-mag probe here.",
        technique="Coq proof (Reals: monotonicity of exp; rationals: composition with the C06 demodulation model) + translator-regenerated decision rules decided by the kernel + producer x consumer oracle on the implementation"),
    "C16": dict(
        text="Coq theorems, generic in the per-batch count function (so BER, BLER, SER, FER alike): for every history of update/compute/"
             "reset operations (rejected updates included) compute() returns errors/max(total,1) of the batches accepted since the last "
             "reset and the counters are their exact sums (refinement to a pair of counts, induction over the history); reset restores the "
             "initial state; order independence under any permutation; BER count additive over any partition (= one shot on the "
             "concatenation), symmetric, zero iff the thresholded inputs agree, at most 1; BLER additive, symmetric, non-divisor rows "
             "rejected; BER <= BLER <= min(1, B*BER) as exact cross-multiplied inequalities for every block size. Model tied to the code by "
             "every history up to length 5 (quick) / 6 (thorough) over a pool of batches, random long histories, one-shot cases. Multi-dimensional items: "
             "cutting whole blocks row by row (Tensor.unfold) equals cutting the flattened item when the block size divides every row, and is refuted with a witness "
             "when it divides only the item (Metrics/BlockCut.v); the implementation is compared with the kernel-evaluated flattened cut on such shapes.",
        design="6/C16",
        note="Trusted: Coq kernel + vm_compute; hand-written model Metrics/ErrorRate.v tied by correspondence; float32 result of compute() "
             "compared with the correctly rounded exact ratio; int64 counters assumed not to overflow. Closed under the global context.",
        technique="Coq proof (induction over operation histories, refinement to a pair of counts) + exhaustive/random history correspondence by vm_compute"),
    "C17": dict(
        text="Coq theorems generic in the value type and in what each stage computes: a sequential pipeline calls every stage exactly once in "
             "declared order on its predecessor's output (any stage list; DeepJSCC and channel-code constructor orders); remove_step deletes "
             "exactly one position and keeps the order of the rest; for EVERY completion order (any permutation of the futures) and distinct "
             "names the parallel model stores each result under its own name and returns / aggregates in declared order (right-hand side "
             "independent of the permutation); branching runs exactly the first branch in insertion order whose condition holds, evaluates no "
             "later condition, else the default, else an error, and branch names stay distinct under every edit; the feedback model performs "
             "exactly max_iterations rounds of six calls in order; MAC user i is encoded by encoder i. Model tied to the real classes by "
             "exhaustive add/remove histories, all n! forced completion orders (n<=4 quick, 5 thorough), random branching histories.",
        design="6/C17",
        note="Trusted: Coq kernel + vm_compute; hand-written model Pipe/Pipeline.v tied by correspondence; A-threads: a ThreadPoolExecutor run is "
             "characterised by the completion order of its futures, which the harness forces from outside with Events (the executor itself is "
             "not modelled). Closed under the global context.",
        technique="Coq proof (induction over stage lists / histories, permutation-independence lemma over association lists) + forced-schedule correspondence by vm_compute"),
    "C12": dict(
        text="Coq theorems over exact rationals, for every length, probability and draw vector: the BSC output on {0,1} (resp. on {-1,+1} "
             "containing a -1) is, position by position, the input flipped iff that position's own draw is below p, so outputs stay in the "
             "alphabet; the erasure channel returns the erasure symbol iff the position's draw is below p and the unchanged symbol otherwise; "
             "the Z channel never turns a 0 into a 1 and a 1 only stays or falls; the event {u<p} is empty for p=0, certain for p=1 on [0,1) "
             "and monotone in p; Z extremes. Model evaluated in Coq on the very draws the implementation consumed (reproduced by seeding), "
             "exact comparison over channel x p x alphabet x dtype x shape.",
        design="6/C12",
        note="Trusted: Coq kernel + vm_compute; hand-written model Chan/Digital.v tied by exact correspondence on reproduced draws; A-rng (draws "
             "are i.i.d. uniform) is assumed and validated statistically in the thorough tier only; 'input not modified' observed by the harness. "
             "Closed under the global context.",
        technique="Coq proof (pointwise laws over Q by case analysis and list induction) + exact model/implementation correspondence on reproduced RNG draws by vm_compute",
        category="proof"),
    "C01": dict(
        text="Coq theorems for ALL GF(2) matrices (bit-mask vectors): m.G and x.H^T are linear; two additive maps agreeing on the unit vectors "
             "agree everywhere (linear extension); soundness of the checkers code_pair_ok (k rows, injective on k-bit messages, and a word has "
             "an all-zero syndrome IFF it is a codeword) and rowspace_dim_ok (row space of H has dimension exactly n-k) for all matrices and "
             "certificates. The kernel evaluates these checkers on the generator/check matrices published by every code object of the "
             "catalogue (all families x parameters x information sets x random generators x LDPC incl. rank-deficient), so each instance "
             "is decided by a theorem, and the model m.G / x.H^T is compared with encoder(m) for all 2^k messages and calculate_syndrome on "
             "perturbed codewords.",
        design="6/C01",
        note="Trusted: Coq kernel + vm_compute; certificates (right inverse, kernel decomposition, row-space basis) are computed by the untrusted "
             "harness and only checked; the per-family constructions are not transcribed (the published matrices are what is verified); bounded by "
             "the catalogue (n <= 31 quick, 64 thorough). Closed under the global context.",
        technique="Coq proof (linear-extension lemma over bit masks, checker soundness for all matrices) + kernel-evaluated verified checkers on published matrices + model/implementation correspondence by vm_compute"),
    "C03": dict(
        text="Coq theorems: soundness of minimum-distance enumeration (every non-zero message of a k-dimensional code gives weight >= d; distinct "
             "codewords differ in >= d positions), closure under cyclic shifts from a check on the generator rows (shift additive), the code is "
             "exactly the set of multiples of g (rows divisible by g; every X^i g a codeword; lifted by linearity) and g | X^n+1 (Euclidean "
             "division of C18), Hamming sphere-packing equality for every mu, Golay by computation. Kernel evaluates these on every catalogue "
             "object (distance for k <= 12 quick / 16 thorough, exactness by refuting d+1), reference distances by enumeration / MacWilliams.",
        design="6/C03",
        note="Trusted: Coq kernel + vm_compute; distances for k above the enumeration bound are decided by the Python reference only; the general BCH "
             "bound and RM distance formula are not formalised (every catalogue instance is enumerated). Closed under the global context.",
        technique="Coq proof (checker soundness, polynomial divisibility, linear extension) + kernel enumeration on published matrices (bound 2^k stated) + reference enumeration"),
    "C04": dict(
        text="Coq theorems: a right inverse checked on the k unit messages is a right inverse on all 2^k messages (and the encoder injective); "
             "every codeword has zero syndrome; projection onto ANY duplicate-free information set (left, right, arbitrary, permuted) undoes "
             "systematic scatter for every message and parity content; the blockwise wrapper is a round trip for every per-block round trip and "
             "every number of blocks, scales the length by exactly n/k, and rejects non-multiples. Kernel evaluates the inverse/syndrome checkers "
             "on the published G, R, H of every catalogue object; implementation round trips over all messages x 1-D/(B,k)/(B1,B2,k)/(B,b*k).",
        design="6/C04",
        note="Trusted: Coq kernel + vm_compute; Base/Layout.v models apply_blockwise on nested lists; Hamming / Reed-Muller own inverses are checked "
             "on the implementation here (their decoder theorems are C02). Closed under the global context.",
        technique="Coq proof (linear extension, list induction for layout and scatter/gather) + kernel-evaluated checkers on published matrices + exhaustive round-trip correspondence"),
    "C02": dict(
        text="Coq theorems for EVERY parity-check / generator matrix, length and received word: the syndrome table (patterns enumerated by "
             "weight then lexicographically, first hit wins -- the implementation's order) holds a minimum-weight element of each coset; "
             "syndrome decoding returns a zero-syndrome word at minimum Hamming distance (ML); with minimum weight >= 2t+1 it removes every "
             "pattern of <= t errors; instantiated for a published (G,H) by the kernel-evaluated checkers code_pair_ok and min_distance_ge "
             "(all 2^k codewords x all <= t patterns); exhaustive ML / Reed-Muller inverse return a message at minimum distance over ALL "
             "2^k messages (codebook completeness proved via bit reversal); the Hamming inverse corrects every single error for every H "
             "with distinct non-zero columns; weight triangle inequality. Models tied to the decoders by exact comparison of the error "
             "pattern / message / corrected word; Berlekamp-Massey and the majority decoder are decided on the implementation "
             "(exhaustively over <= t patterns within the tier bound).",
        design="6/C02",
        note="Trusted: Coq kernel + vm_compute; hand-written models Decoders/Hard.v tied by correspondence; Massey's theorem and Reed's majority-logic "
             "correctness are NOT formalised (partial: those two decoders are checked on the implementation only). Closed under the global context.",
        technique="Coq proof (coset-leader minimality by induction over the enumeration order, weight lemmas on bit masks, argmin lemma) + kernel-evaluated checkers + exact decoder correspondence by vm_compute"),
    "C11": dict(
        text="Coq theorems: for EVERY m and every input of length 2^m the m butterfly stages equal multiplication by the m-fold Kronecker "
             "power of [[1,0],[1,1]]; the transform is GF(2)-linear and an involution (encoder injective); the ranking regenerated from "
             "rank_polar.csv equals the pinned 5G sequence and is a permutation below every power of two up to 1024 (kernel computation), "
             "hence exactly k information positions for every admissible (k,N), nested in k; successive cancellation returns the message and "
             "the codeword from noise-free LLRs of ANY positive magnitudes, for every m, every information mask, frozen value and every "
             "sign-consistent check function (induction over the recursion), instantiated for the clipped min-sum rule. Model evaluated in "
             "Coq against the encoder (all messages k<=10, both frozen values, interleaving, user masks, Kronecker rows) and against the "
             "SC decoder on arbitrary exact dyadic LLRs (both interleavings, 5G and user masks).",
        design="6/C11",
        note="Trusted: Coq kernel + vm_compute; translator harness/translate/polarrank.py; pinned copy Spec/Polar5G.v; partial: the sum-product check "
             "function (tanh) is not shown sign-consistent over the reals here, polar BP and the interleaved variants have oracles / executable "
             "models but no theorem; float32 underflow region excluded (A-float). Closed under the global context.",
        technique="Coq proof (induction on the recursion depth over lists; Kronecker recursion; counting lemma for the information set; kernel computation on the regenerated table) + model/implementation correspondence by vm_compute"),
    "C07": dict(
        text="Coq theorems over the reals for every draw list, power and SNR: the noise added by the Gaussian channels has second moment "
             "P * (second moment of the draws) for real input and P/2 * (sum over both parts) for complex input, mean sqrt(P) * (mean of the draws); "
             "same draws at two powers differ by sqrt(P2/P1); on the SNR path the library's own noise_power_to_snr of the added noise is the configured "
             "dB value; dB/linear/noise-power conversions are mutually inverse with 0 dB = 1, 10 dB = 10, additivity and monotonicity; calculate_snr "
             "equals noise_power_to_snr above its clamp and the metric differs by 10 log10(1 + eps/N) <= (10/ln 10) eps/N; Laplacian power for real "
             "and complex input; supplied noise is added verbatim. The squared exact-rational model (noise^2 = draws^2 * P, x^(10 den) = 10^num for "
             "num/den dB) is evaluated by the kernel on the implementation's float64 same-seed runs and on the dB grid; soundness of the checkers proved.",
        design="6/C07",
        note="Trusted: Coq kernel + vm_compute; hand-written models Chan/NoiseR.v (Reals) and Chan/NoiseQ.v (rationals) tied by kernel-evaluated "
             "checkers on implementation output. Axioms (Coq standard library Reals): ClassicalDedekindReals.sig_not_dec, sig_forall_dec, "
             "FunctionalExtensionality.functional_extensionality_dep; the rational theorems are closed. The law of torch.randn / torch.rand "
             "(unit second moment, zero mean; E l(U)^2 = 2 for the Laplacian transform) is an assumption validated statistically on >= 2^22 "
             "samples per case with 6.5-sigma bounds (per-test false-alarm 8e-11), on the implementation only.",
        technique="Coq proof (Reals: algebra of sqrt/exp/ln; rationals: verified checkers) + kernel-evaluated correspondence on same-seed runs + statistical oracle for the sampler's second moment"),
    "C08": dict(
        text="Coq theorems on exact rationals in squared form (an item is scaled by s with s^2 = T/(c+eps)): the factor is positive, the output power is "
             "T c/(c+eps) < T for every input and >= 0.999 T once c >= 999 eps, a second application and a rescaled input stay within the same 0.1 % band; "
             "clamp bounds every sample, is idempotent, keeps signs and leaves in-range samples alone; clipping squared magnitudes at any level and "
             "positive scaling never increase the peak-to-average ratio, hence by induction over its 15 iterations the PAPR algorithm never increases it; "
             "every output sample is below sqrt(0.98 m avg); the limit m is met whenever the final clip keeps 98 % of the power (partial: otherwise decided "
             "per input); composite = sequential application; the OFDM chain PAPR -> total power -> peak meets all three limits; a trailing up-scaling after "
             "the clamp is refuted by a witness. The 15-iteration PAPR model, the power law, the clamp and the complex magnitude clip are evaluated by the "
             "kernel against the implementation's float64 output.",
        design="6/C08",
        note="Trusted: Coq kernel + vm_compute; hand-written model Constr/Power.v tied by kernel-evaluated checks on implementation output; all theorems "
             "closed under the global context (no axioms). Float arithmetic compared with tolerance 1e-5 (power) / 1e-4 (PAPR model); the +1e-8 inside "
             "x/(|x|+1e-8) is not modelled. The PAPR limit is demanded of signals on which it is attainable by clipping within 20 dB of the peak.",
        technique="Coq proof (ordered-field reasoning on rationals, induction over lists and over the clipping loop) + kernel-evaluated correspondence on implementation output + layout/family sweep on the implementation"),
    "C09": dict(
        text="Coq theorems composing the component results: for every code whose published matrices pass the kernel-evaluated checkers "
             "code_pair_ok and min_distance_ge (2t+1), every message and every error word of weight <= t placed between encoder and decoder, the bit-level "
             "chain encode -> transport -> syndrome-correct -> extract returns the message (ideal transport is the case e = 0); for every labelled "
             "constellation with distinct points and labels and pairwise squared distance >= D, a received point with 4|y-p|^2 < D is decided as p "
             "(Cauchy-Schwarz over the rationals), whole displaced sequences demodulate to the transmitted bits; stage order of ChannelCodeModel. "
             "The hypotheses are evaluated by the kernel on every code and table used; the bit-level chain model and the model's hard decisions of "
             "displaced symbols are compared with ChannelCodeModel assembled from real components.",
        design="6/C09",
        note="Trusted: Coq kernel + vm_compute; hand-written model Pipe/Chain.v on top of the C01/C02/C05/C06 models; certificates from the untrusted "
             "harness, only checked. All theorems closed under the global context (no axioms). The composition theorem is instantiated for syndrome "
             "decoding and for brute-force ML decoding; the other decoders (Berlekamp-Massey, Reed majority, Wagner, BP, min-sum, SC, polar BP) enter through their "
             "own properties (C02, C10, C11) and are exercised here on the implementation only. Decoders that reject several blocks per row are "
             "paired only with modems whose bits per symbol divide n.",
        technique="Coq proof (assume/guarantee composition of proved component theorems; ordered-field geometry on rationals) + kernel-evaluated hypotheses on published matrices/tables + model/implementation correspondence on ChannelCodeModel runs"),
    "C19": dict(
        text="Coq theorems (Coquelicot) for every point x, direction v and fixed noise realisation: the i-th output of a total / average power constraint "
             "applied to x + t v has derivative s (v_i - x_i (x.v)/(n (c+eps))) at t = 0 (s the scale, c the item power), additive noise of configured power "
             "has derivative v_i, SNR-configured noise v_i + g_i (x.v)/(n L sigma), flat fading h v; a constraint whose scale is cut out of the graph returns "
             "a different gradient whenever x_i and x.v are non-zero. Size arithmetic of Conv2d / ConvTranspose2d chains over Z: a chain of Same/Half layers "
             "maps 2^d h to h, Same/Double layers map h to 2^u h, an autoencoder returns every admissible size; the Bourtsoulatze, Kurka-2020 feedback and Tung-2022 Q / Q2 encoder / decoder pairs are "
             "regenerated from the source and the kernel proves H -> H/4 -> H (H/16 for Tung Q) for every admissible H; bandwidth-ratio formula. The closed-form Jacobian-vector products "
             "are evaluated by the kernel against autograd in float64; the size arithmetic against every traced convolution call.",
        design="6/C19",
        note="Trusted: Coq kernel + vm_compute; Coquelicot 3.2 (Debian package) and the Coq Reals axioms ClassicalDedekindReals.sig_not_dec, sig_forall_dec, "
             "FunctionalExtensionality.functional_extensionality_dep (derivative theorems only; the size theorems are closed); translator "
             "harness/translate/archs.py. torch.autograd is trusted to implement the chain rule of the primitives: what is decided is that the stages' own code "
             "keeps the signal path in the graph and computes the differentiated function. The end-to-end size theorem is instantiated for the Bourtsoulatze nn.Sequential pair, the Kurka nn.ModuleList pair "
             "(GDN / PReLU / Sigmoid assumed size-preserving) and the Tung-2022 pairs (compressai residual / attention / upsampling blocks and AFModule classified "
             "as Same / Half / Double); every such assumption is checked on each traced call; residual / attention architectures (compressai blocks) are covered per traced layer and on the implementation (sizes "
             "{16,32,48,64} x batches {1,2,5}, call histories on one object). Output range is checked where documented (sigmoid output of Bourtsoulatze).",
        technique="Coq proof (Coquelicot derivatives; integer arithmetic of convolution sizes on the regenerated architecture) + kernel-evaluated closed-form JVP vs autograd + finite-difference / shape / gradient-reach oracle on the implementation"),
    "C20": dict(
        text="Coq theorems about the functional model of a per-sample component (the function it applies to one item / block; batched entry points map and "
             "blockwise): the batch result is the stack of the single results position by position, the answer for a member does not depend on the other "
             "members nor on its position, any permutation of the batch permutes the results, batch of one = the single call, batches split anywhere; along "
             "the last dimension the answer for l1 ++ l2 is the answer for l1 followed by the answer for l2 (grouping of blocks does not matter), a single "
             "block is answered by the block function, rows are independent, a length that is not a whole number of blocks is rejected. The layout law is "
             "evaluated by the kernel on each component's own single-block answers and compared with its (B, b*n) output. Iterative decoders (Batch/IterStop.v): "
             "a message-passing loop that always runs its passes, or that retires rows one by one through an index set and leaves when the set is empty, is "
             "batch-pure for every per-row state, step, answer, criterion, batch and budget; stopping on a whole-batch test is refuted with a witness; "
             "harness/translate/iterloops.py reads from the source on every run which discipline the LDPC BP / min-sum loop and the polar BP loop (with stop_criterion) "
             "follow (Gen/IterLoops.v) and fails closed on any other loop shape. Partial: statelessness across "
             "calls and in-place modification of the argument cannot be expressed by a pure model and are decided by the call-history oracle on the real objects.",
        design="6/C20",
        note="Trusted: Coq kernel + vm_compute; models Batch/Pure.v, Base/Layout.v and Batch/IterStop.v (the loop body of an iterative decoder is an uninterpreted row-wise step: that the tensor operations inside it are row-wise is decided by the oracle on members of unequal reliability); translator iterloops; all theorems closed under the global context (no axioms). The reference "
             "answer of a member is the component's own answer on a batch of one; floating-point components compared with relative tolerance 2e-5; layouts a "
             "component rejects with an exception are counted, not judged.",
        technique="Coq proof (list induction; permutations; loop-discipline theorems on the regenerated description of the iterative decoders' loops) + kernel-evaluated layout law on the component's own single-block answers + batch / permutation / layout / call-history oracle on the implementation"),
    "C10": dict(
        text="Coq theorems over exact rationals: the Wagner decoder returns, for EVERY non-empty real input (ties included), an even-parity "
             "word of maximum correlation (ML for the single-parity-check code); flooding BP / min-sum on ANY parity-check matrix returns the "
             "transmitted codeword from noise-free LLRs of any positive magnitudes after ANY number of iterations, for every sign-consistent "
             "check-node function (invariant: every check-to-variable message is zero or carries its variable's bit; induction over "
             "iterations); the min-sum update with positive scaling is sign consistent; |.| and sign are homogeneous. Models evaluated in Coq "
             "on exact dyadic inputs against the Wagner decoder (1-D, batched, multi-block) and against MinSumLDPCDecoder posteriors "
             "(scaling/offset/iterations), exact comparison.",
        design="6/C10",
        note="Trusted: Coq kernel + vm_compute; the exact sum-product update 2 atanh(prod tanh(l/2)) is proved sign consistent over the reals "
             "(Decoders/BPTanhR.v; Coq Reals axioms ClassicalDedekindReals.sig_not_dec, sig_forall_dec, FunctionalExtensionality.functional_extensionality_dep "
             "for that theorem only; that float32 arithmetic preserves the sign is A-float); partial: exactness of sum-product on cycle-free graphs and "
             "end-to-end min-sum scale invariance are not formalised (checked on the implementation against a float64 brute-force reference / by rescaled "
             "runs); soft Reed-Muller is checked on the implementation only. All other theorems closed under the global context.",
        technique="Coq proof (loss decomposition for Wagner; message-sign invariant by induction over iterations for BP) + exact model/implementation correspondence by vm_compute"),
    "C05": dict(
        text="Coq theorems: for EVERY labelled constellation whose points and labels are pairwise distinct (checker table_ok, evaluated by "
             "the kernel on the table each modulator publishes) the modulator emits the point labelled by the bit group and the hard "
             "demodulator returns that label, hence every sequence of bit groups of any length comes back unchanged with one symbol per "
             "group; differential PSK on phase indices returns every index but the reference symbol's for every order and length; offset QPSK "
             "returns in-phase bits in place and quadrature bits delayed by one symbol (first value 0). Model tied to the modulators by the "
             "symbol chosen for every label and the hard label of every point; to DPSK/OQPSK by their decisions on seeded and exhaustive "
             "pair sequences (after a training-mode history and a reset).",
        design="6/C05",
        note="Trusted: Coq kernel + vm_compute; float32 constellation values taken as exact rationals; that float32 phasor products realise index "
             "addition is observed, not proved (A-float); pi/4-QPSK has an oracle only. Closed under the global context.",
        technique="Coq proof (argmin and uniqueness lemmas over lists of rational points; telescoping in Z_M) + kernel-evaluated checker on published tables + model/implementation correspondence by vm_compute"),
    "C06": dict(
        text="Coq theorems for ANY labelled constellation and any rational received point: the hard decision's point is at minimum Euclidean "
             "distance (first minimum); the sign of (min d^2 to a point labelled 1) - (min d^2 to a point labelled 0) agrees with the hard "
             "decision of that bit; c*D/(a*s^2) = (c*D/s^2)/a. The model is evaluated in Coq on each published table and on grids / "
             "near-boundary / random received points and compared with the implementation's hard labels (exactly, outside an ambiguity "
             "band) and soft outputs (as c*core/sigma^2 with one positive constant c per scheme).",
        design="6/C06",
        note="Trusted: Coq kernel + vm_compute; float32 inputs taken as exact rationals, soft outputs compared with relative tolerance 2e-3, decisions "
             "with margin below 1e-4 classed ambiguous; differential / offset / alternating schemes checked on the implementation only. Closed under "
             "the global context.",
        technique="Coq proof (first-argmin and class-minimum lemmas over Q) + model/implementation correspondence by vm_compute on exact rationals"),
}
NOT_YET = {}


def main():
    props = [json.loads(l) for l in open(os.path.join(VERIF, "properties.jsonl"))]
    checks = []
    na = []
    for p in props:
        pid = p["id"]
        if pid in CHECKS:
            c = CHECKS[pid]
            checks.append({
                "property_id": pid,
                "quick_cmd": "./check %s --tier quick" % pid,
                "thorough_cmd": "./check %s --tier thorough" % pid,
                "evidence_file": "/verif/evidence/%s.json" % pid,
                "replay_cmd_template": "./check %s --replay {path}" % pid,
                "engine": "coq-kaira",
                "level_claimed": {"category": c.get("category", "proof"), "text": c["text"], "design_ref": c["design"]},
                "level_note": c["note"],
                "technique": c["technique"],
            })
        else:
            na.append({"property_id": pid, "reason": NOT_YET.get(pid, "check not built yet in this session (planned in DESIGN.md section 6; machine-checked proof is applicable)")})
    man = {
        "version": 1,
        "setup_cmd": "./setup.sh",
        "hooks": {"guard": "KAIRA_VERIF", "enable": "no source hooks are needed: the harness imports kaira from /repo's working tree (PYTHONPATH=/repo) and forces schedules / RNG from outside; KAIRA_VERIF=1 is exported by ./check for completeness",
                  "baseline_off_cmd": "cd /repo && /venv/bin/python -m pytest -ra -q -p no:cacheprovider --timeout=900 --continue-on-collection-errors",
                  "source_commits": [], "add_only": True},
        "engines": [{"name": "coq-kaira", "path": "/verif/coq", "serves_properties": sorted(CHECKS),
                     "kind_free_text": "Coq 8.16.1 development (models + theorems) with a Python harness that regenerates Gen/*.v from /repo, rebuilds the theorems, evaluates the models by vm_compute against the implementation and searches the implementation for failing inputs"}],
        "checks": checks,
        "notes": "Entry point ./check <id> --tier quick|thorough. Known findings: /verif/known_findings.json (read-only at run time).",
        "not_applicable": na,
    }
    with open(os.path.join(VERIF, "MANIFEST.json"), "w") as f:
        json.dump(man, f, indent=1)
    print("wrote MANIFEST.json with %d checks, %d not claimed" % (len(checks), len(na)))


if __name__ == "__main__":
    main()
