"""Shared plumbing of the kaira verification harness.

Layers (see DESIGN.md section 1):
  P  theorems      -> Ctx.build_props()  (make + coqc Props/Cxx.v, Print Assumptions parsed)
  T  tie           -> Ctx.coq_eval()     (model evaluated in Coq by vm_compute on generated case files)
  S  search        -> property modules call the implementation and Ctx.violation(...)
Verdict: every violation is matched against known_findings.json (read-only).
"""
import fcntl
import hashlib
import json
import os
import random
import re
import shutil
import subprocess
import sys
import time
from concurrent.futures import ThreadPoolExecutor

VERIF = os.path.dirname(os.path.dirname(os.path.abspath(__file__)))
COQ = os.path.join(VERIF, "coq")
REPO = os.environ.get("KAIRA_REPO", "/repo")
GEN = os.path.join(COQ, "Gen")
NCPU = min(16, os.cpu_count() or 4)
COQFLAGS = ["-R", COQ, "KV"]


def sh(cmd, timeout, cwd=None, env=None):
    """Run a command under a hard timeout; returns (rc, combined output)."""
    try:
        p = subprocess.run(cmd, cwd=cwd, env=env, stdout=subprocess.PIPE, stderr=subprocess.STDOUT,
                           timeout=timeout, text=True, errors="replace")
        return p.returncode, p.stdout
    except subprocess.TimeoutExpired as e:
        out = e.stdout if isinstance(e.stdout, str) else (e.stdout or b"").decode("utf8", "replace")
        return 124, out + "\n[timeout after %ss]" % timeout


def write_if_changed(path, text):
    try:
        with open(path) as f:
            if f.read() == text:
                return False
    except FileNotFoundError:
        pass
    tmp = path + ".tmp%d" % os.getpid()
    with open(tmp, "w") as f:
        f.write(text)
    os.replace(tmp, path)
    return True


# ----------------------------------------------------------------------------
# Parsing of values printed by Coq (Eval vm_compute): lists, tuples, numbers,
# booleans, options, constructor applications, strings.
# ----------------------------------------------------------------------------
_TOK = re.compile(r'\s*(?:(\[|\]|\(|\)|;|,)|("(?:[^"]|"")*")|(-?\d+)|([A-Za-z_][A-Za-z_0-9\.\']*)|(%[A-Za-z_]+)|(-))')


def _tokens(s):
    pos = 0
    out = []
    n = len(s)
    while pos < n:
        m = _TOK.match(s, pos)
        if not m:
            if s[pos:].strip() == "":
                break
            raise ValueError("cannot tokenise Coq output at: %r" % s[pos:pos + 40])
        pos = m.end()
        if m.group(5):
            continue  # scope annotation
        if m.group(1):
            out.append(("p", m.group(1)))
        elif m.group(2):
            out.append(("s", m.group(2)[1:-1].replace('""', '"')))
        elif m.group(3):
            out.append(("n", int(m.group(3))))
        elif m.group(4):
            out.append(("i", m.group(4)))
        elif m.group(6):
            out.append(("p", "-"))
    return out


def parse_coq_value(s):
    toks = _tokens(s)
    pos = [0]

    def peek():
        return toks[pos[0]] if pos[0] < len(toks) else None

    def eat():
        t = toks[pos[0]]
        pos[0] += 1
        return t

    def atom():
        t = eat()
        if t == ("p", "["):
            items = []
            if peek() == ("p", "]"):
                eat()
                return items
            while True:
                items.append(expr())
                t2 = eat()
                if t2 == ("p", "]"):
                    return items
                assert t2 == ("p", ";"), t2
        if t == ("p", "("):
            items = [expr()]
            while peek() == ("p", ","):
                eat()
                items.append(expr())
            assert eat() == ("p", ")")
            return items[0] if len(items) == 1 else tuple(items)
        if t == ("p", "-"):
            v = atom()
            return -v
        if t[0] == "n" or t[0] == "s":
            return t[1]
        if t[0] == "i":
            if t[1] == "true":
                return True
            if t[1] == "false":
                return False
            if t[1] == "None":
                return None
            if t[1] == "nil":
                return []
            if t[1] == "tt":
                return ()
            return ("@", t[1])
        raise ValueError("unexpected token %r" % (t,))

    def expr():
        head = atom()
        if isinstance(head, tuple) and len(head) == 2 and head[0] == "@":
            args = []
            while peek() is not None and peek() not in (("p", "]"), ("p", ")"), ("p", ";"), ("p", ",")):
                args.append(atom())
            name = head[1]
            if name == "Some" and len(args) == 1:
                return {"Some": args[0]}
            if not args:
                return name
            return {name: args}
        return head

    v = expr()
    if pos[0] != len(toks):
        raise ValueError("trailing tokens in Coq output")
    return v


_EVAL_RE = re.compile(r"^\s*= (.*?)^\s*: ", re.S | re.M)


def split_eval_outputs(out):
    """Values printed by successive `Eval vm_compute in` commands."""
    return [m.group(1) for m in _EVAL_RE.finditer(out)]


# ----------------------------------------------------------------------------
# Coq literal printers
# ----------------------------------------------------------------------------
def cN(n):
    assert n >= 0
    return "%d%%N" % n


def cZ(n):
    return "(%d)%%Z" % n


def cnat(n):
    assert 0 <= n < 5000, "nat literal too large: %r" % n
    return "%d%%nat" % n


def cbool(b):
    return "true" if b else "false"


def clist(xs, f=str):
    return "[" + "; ".join(f(x) for x in xs) + "]"


def cbits(xs):
    return clist(xs, lambda b: cbool(int(b) % 2 == 1))


def cmat(rows):
    return clist(rows, cbits)


def cpair(*xs):
    return "(" + ", ".join(xs) + ")"


def cQ(fr):
    """A Fraction / float / int as an exact Coq Q literal."""
    from fractions import Fraction
    fr = Fraction(fr)
    return "(%d # %d)%%Q" % (fr.numerator, fr.denominator)


# ----------------------------------------------------------------------------
NONTRIV_CAP = 3000000


class Ctx:
    def __init__(self, prop, tier, seed):
        self.prop = prop
        self.tier = tier
        self.seed = seed
        self.rng = random.Random(seed)
        self.t0 = time.time()
        self.violations = []        # dicts: key, what, replay, found_input
        self.obligations = []       # (theorem name, assumptions text)
        self.props_ok = None
        self.props_log = ""
        self.broken = []            # broken proof obligations / correspondences (names)
        self.cov = {"evaluations": 0, "samples": [], "streams": {}}
        self.nontrivial = set()
        self.assumptions = []
        self.notes = []
        self.trusted = []
        self.workdir = os.path.join(VERIF, "build", "%s.%d" % (prop, os.getpid()))
        os.makedirs(self.workdir, exist_ok=True)
        os.makedirs(os.path.join(VERIF, "replay"), exist_ok=True)
        os.makedirs(os.path.join(VERIF, "evidence"), exist_ok=True)
        self.quick = tier == "quick"

    # -- bookkeeping -------------------------------------------------------
    def count(self, stream, n=1):
        self.cov["evaluations"] += n
        self.cov["streams"][stream] = self.cov["streams"].get(stream, 0) + n

    def nontriv(self, key):
        """Register a distinct non-trivial case (hashed)."""
        # distinct cases are counted exactly up to NONTRIV_CAP and as a lower bound beyond (memory of the thorough tiers)
        if len(self.nontrivial) < NONTRIV_CAP:
            self.nontrivial.add(hash(repr(key)))

    def sample(self, obj, cap=8):
        if len(self.cov["samples"]) < cap:
            self.cov["samples"].append(obj)

    def note(self, s):
        self.notes.append(s)

    def log(self, *a):
        print("[%s %6.1fs]" % (self.prop, time.time() - self.t0), *a, file=sys.stderr, flush=True)

    # -- layer P: build and check theorems ---------------------------------
    def regenerate(self, generators):
        """Run translators (callables returning {filename: text}) and write Gen/*.v if changed."""
        os.makedirs(GEN, exist_ok=True)
        for g in generators:
            for name, text in g(REPO).items():
                write_if_changed(os.path.join(GEN, name), text)

    def build_props(self, generators=(), model_targets=(), timeout=1500):
        """Regenerate Gen/, make Props/<prop>.vo and everything it needs, then re-run coqc on
        Props/<prop>.v to capture this run's Print Assumptions.  Returns True when every
        obligation checks.  On failure self.broken names the file/theorem that failed."""
        lockf = open(os.path.join(VERIF, ".lock"), "w")
        fcntl.flock(lockf, fcntl.LOCK_EX)
        try:
            try:
                self.regenerate(generators)
            except TranslateError as e:
                self.props_ok = False
                self.props_log = "translator failed (fail-closed): %s" % e
                self.broken.append("translator: %s" % e)
                return False
            if not os.path.exists(os.path.join(COQ, "Makefile")):
                rc, out = sh(["coq_makefile", "-f", "_CoqProject", "-o", "Makefile"], 120, cwd=COQ)
                if rc != 0:
                    raise RuntimeError("coq_makefile failed: " + out)
            if model_targets:
                # the executable models must build even when a proof is broken (they carry the tie)
                rc, out = sh(["make", "-j%d" % NCPU] + list(model_targets), timeout, cwd=COQ)
                if rc != 0:
                    raise RuntimeError("model files do not build: " + out[-3000:])
            target = "Props/%s.vo" % self.prop
            rc, out = sh(["make", "-j%d" % NCPU, target], timeout, cwd=COQ)
            self.props_log = out[-6000:]
            if rc == 124:
                raise RuntimeError("coq build timed out")
            if rc != 0:
                self.props_ok = False
                m = re.findall(r'File "\./([^"]+)", line (\d+)', out)
                where = ", ".join("%s:%s" % x for x in m[:3]) or "unknown file"
                self.broken.append("coq build failed at %s" % where)
                return False
            # capture Print Assumptions of this run
            rc, out = sh(["coqc"] + COQFLAGS + ["Props/%s.v" % self.prop, "-o",
                                                 os.path.join(self.workdir, "%s.vo" % self.prop)], 900, cwd=COQ)
            if rc != 0:
                self.props_ok = False
                self.props_log = out[-6000:]
                self.broken.append("Props/%s.v" % self.prop)
                return False
            self._parse_assumptions(out)
            self.props_ok = True
            return True
        finally:
            fcntl.flock(lockf, fcntl.LOCK_UN)
            lockf.close()

    def _parse_assumptions(self, out):
        src = open(os.path.join(COQ, "Props", "%s.v" % self.prop)).read()
        names = re.findall(r"^\s*(?:Theorem|Lemma|Corollary)\s+([A-Za-z0-9_']+)", src, re.M)
        # Print Assumptions blocks appear in order
        blocks = re.split(r"(?m)^(?=Closed under the global context|Axioms:)", out)
        blocks = [b.strip() for b in blocks if b.startswith("Closed under") or b.startswith("Axioms:")]
        printed = re.findall(r"Print Assumptions\s+([A-Za-z0-9_']+)", src)
        amap = dict(zip(printed, blocks))
        axioms = set()
        for n in names:
            a = amap.get(n, "(no Print Assumptions)")
            self.obligations.append((n, a))
            if a.startswith("Axioms:"):
                for m in re.finditer(r"^([A-Za-z_][A-Za-z0-9_\.']*)\s*:", a, re.M):
                    if m.group(1) != "Axioms":
                        axioms.add(m.group(1))
        self.axioms = sorted(axioms)

    # -- layer T: evaluate the model inside Coq ----------------------------
    def coq_eval(self, name, header, exprs, per_file=1, timeout=600):
        """Evaluate Coq expressions (strings) by vm_compute, sharded over cores.
        `exprs` is a list of expression strings; returns the list of parsed values in order.
        Each file holds `per_file` expressions.  Raises CoqEvalError on failure."""
        files = []
        for i in range(0, len(exprs), per_file):
            chunk = exprs[i:i + per_file]
            fn = os.path.join(self.workdir, "%s_%d.v" % (name, i // per_file))
            with open(fn, "w") as f:
                f.write(header + "\n")
                for e in chunk:
                    f.write("Eval vm_compute in (%s).\n" % e)
            files.append((fn, len(chunk)))

        def run(item):
            fn, n = item
            base = os.path.splitext(os.path.basename(fn))[0]
            rc, out = sh(["bash", "-c", "ulimit -s unlimited 2>/dev/null; exec coqc %s -Q %s Cases %s" % (
                " ".join(COQFLAGS), self.workdir, fn)], timeout, cwd=self.workdir)
            if rc != 0:
                raise CoqEvalError("coqc failed on %s (rc=%d): %s" % (fn, rc, out[-3000:]))
            vals = split_eval_outputs(out)
            if len(vals) != n:
                raise CoqEvalError("expected %d values from %s, got %d: %s" % (n, fn, len(vals), out[-2000:]))
            return [parse_coq_value(v) for v in vals]

        with ThreadPoolExecutor(max_workers=NCPU) as ex:
            res = list(ex.map(run, files))
        return [v for r in res for v in r]

    # -- violations ---------------------------------------------------------
    def violation(self, key, what, replay=None, found_input=True):
        """Register a property violation.  `key` identifies call site / configuration class /
        clause (matched against known_findings.json); `replay` is a JSON-able dict."""
        for v in self.violations:
            if v["key"] == key:
                v["count"] += 1
                return
        self.violations.append({"key": key, "what": what, "replay": replay or {}, "found_input": found_input,
                                "count": 1})

    # -- verdict -------------------------------------------------------------
    def finish(self, level="proof", extra_cov=None, rule=""):
        known = load_known(self.prop)
        unlisted = []
        lines = []
        for v in self.violations:
            k = match_known(known, v["key"])
            if k is not None:
                lines.append("KNOWN-FINDING: property=%s %s [%s]" % (self.prop, k["what"], v["key"]))
            else:
                unlisted.append(v)
        # A broken obligation without any unlisted concrete violation is still a violation.
        if self.broken and not unlisted:
            unlisted.append({"key": "%s/obligation-broken" % self.prop,
                             "what": "; ".join(self.broken), "found_input": False,
                             "replay": {"broken": self.broken, "log": self.props_log[-3000:]}, "count": 1})
        for ln in lines:
            print(ln)
        rc = 0
        for i, v in enumerate(unlisted):
            path = os.path.join(VERIF, "replay", "%s_%s_%d.json" % (self.prop, self.tier, i))
            rep = {"property": self.prop, "key": v["key"], "what": v["what"], "tier": self.tier, "seed": self.seed,
                   "broken_obligations": self.broken, "replay": v["replay"],
                   "how_to_run": "./check %s --replay %s" % (self.prop, path)}
            with open(path, "w") as f:
                json.dump(rep, f, indent=1, default=str)
            tail = "" if v["found_input"] else " no-failing-input-found"
            print("VIOLATION property=%s replay=%s%s" % (self.prop, path, tail))
            print("  what: %s" % v["what"][:400])
            rc = 1
        self._write_evidence(level, extra_cov or {}, rule, len(unlisted), lines)
        shutil.rmtree(self.workdir, ignore_errors=True)
        return rc

    def _write_evidence(self, level, extra_cov, rule, nviol, known_lines):
        cov = dict(self.cov)
        nob = len(self.obligations)
        cov["obligations"] = max(nob, 1) if self.props_ok else max(nob, 1)
        cov["discharged"] = nob if self.props_ok else 0
        cov["checker_cmd"] = ("make -C coq Props/%s.vo (full .vo build, coqc 8.16.1) + coqc Props/%s.v with "
                              "Print Assumptions under every theorem" % (self.prop, self.prop))
        cov["theorems"] = [{"name": n, "assumptions": a if len(a) < 600 else a[:600] + " ..."}
                           for n, a in self.obligations]
        cov["axioms_used"] = getattr(self, "axioms", [])
        cov["trusted_base"] = [
            "Coq 8.16.1 kernel incl. vm_compute (no native_compute)",
            "harness/translate (source -> coq/Gen/*.v) and the correspondence harness harness/props/%s.py" % self.prop.lower(),
            "hand-written Gallina models tied to /repo by correspondence only",
        ] + self.trusted
        cov["distinct_nontrivial"] = len(self.nontrivial)
        cov["rule"] = rule
        cov["broken_obligations"] = self.broken
        cov["known_findings_reported"] = known_lines
        cov["notes"] = self.notes
        cov.update(extra_cov)
        if not cov["samples"]:
            cov["samples"] = ["(no cases recorded)"]
        ev = {"property_id": self.prop, "tier": self.tier, "seed": self.seed, "level": level,
              "coverage": cov, "assumptions": self.assumptions, "wall_s": round(time.time() - self.t0, 2),
              "violations": nviol}
        path = os.path.join(VERIF, "evidence", "%s.json" % self.prop)
        with open(path, "w") as f:
            json.dump(ev, f, indent=1, default=str)


class CoqEvalError(Exception):
    pass


class TranslateError(Exception):
    pass


def load_known(prop):
    path = os.path.join(VERIF, "known_findings.json")
    try:
        data = json.load(open(path))
    except FileNotFoundError:
        return []
    return [e for e in data.get("findings", []) if e["property"] == prop and e.get("status") == "known"]


def match_known(known, key):
    """A finding entry matches a violation key when entry['key'] equals it, or entry['key'] ends with
    '*' and is a prefix.  Fixed entries never match (they are filtered out in load_known)."""
    for e in known:
        k = e["key"]
        if k == key or (k.endswith("*") and key.startswith(k[:-1])):
            return e
    return None


def import_kaira():
    """Import the implementation from /repo's working tree (never from site-packages)."""
    import contextlib
    import io
    import warnings
    warnings.filterwarnings("ignore")
    if REPO not in sys.path:
        sys.path.insert(0, REPO)
    with contextlib.redirect_stdout(io.StringIO()):
        import kaira  # noqa
    assert os.path.abspath(kaira.__file__).startswith(os.path.abspath(REPO)), kaira.__file__
    return kaira
