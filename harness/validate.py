import json, sys, glob
import jsonschema
ev = json.load(open('/root/.vp/EVIDENCE.schema.json'))
man = json.load(open('/root/.vp/MANIFEST.schema.json'))
jsonschema.validate(json.load(open('/verif/MANIFEST.json')), man)
print('MANIFEST ok')
for f in sorted(glob.glob('/verif/evidence/*.json')):
    try:
        jsonschema.validate(json.load(open(f)), ev); print(f, 'ok')
    except Exception as e:
        print(f, 'INVALID', str(e)[:300])
