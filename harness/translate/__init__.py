from . import grayconst, polarrank, primpolys

ALL = [primpolys.generate, grayconst.generate, polarrank.generate]
