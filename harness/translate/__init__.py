from . import primpolys

ALL = [primpolys.generate]
