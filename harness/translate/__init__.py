from . import archs, grayconst, iterloops, polarrank, primpolys, thresholders

ALL = [primpolys.generate, grayconst.generate, polarrank.generate, thresholders.generate, archs.generate, iterloops.generate]
