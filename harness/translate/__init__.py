from . import grayconst, primpolys

ALL = [primpolys.generate, grayconst.generate]
