from . import archs, grayconst, polarrank, primpolys, thresholders

ALL = [primpolys.generate, grayconst.generate, polarrank.generate, thresholders.generate, archs.generate]
