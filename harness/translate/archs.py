"""Translator: kaira/models/image/bourtsoulatze2019_deepjscc.py -> Gen/Arch.v

Reads the two nn.Sequential definitions (encoder, decoder) and emits, per layer, the hyper-parameters that decide the
spatial size: Conv k s p | TConv k s p op.  Defaults come from the wrapper classes' __init__ signatures.  Fail-closed:
anything that is not a literal keyword/positional integer in a _ConvWithPReLU / _TransConvWithPReLU call raises."""
import ast
import os

from common import TranslateError

SRC = "kaira/models/image/bourtsoulatze2019_deepjscc.py"
WRAP = {"_ConvWithPReLU": ("Conv", ["in_channels", "out_channels", "kernel_size", "stride", "padding"]),
        "_TransConvWithPReLU": ("TConv", ["in_channels", "out_channels", "kernel_size", "stride", "padding", "output_padding"])}


def _defaults(tree):
    """wrapper class -> {param: default int}; also checks that the wrapper passes them on to nn.Conv2d / nn.ConvTranspose2d in order"""
    out = {}
    for cls in tree.body:
        if isinstance(cls, ast.ClassDef) and cls.name in WRAP:
            init = next((f for f in cls.body if isinstance(f, ast.FunctionDef) and f.name == "__init__"), None)
            if init is None:
                raise TranslateError("%s.__init__ not found" % cls.name)
            names = [a.arg for a in init.args.args[1:]]
            dflt = {}
            for a, d in zip(names[len(names) - len(init.args.defaults):], init.args.defaults):
                if isinstance(d, ast.Constant) and isinstance(d.value, int):
                    dflt[a] = d.value
            kind, params = WRAP[cls.name]
            torchname = "Conv2d" if kind == "Conv" else "ConvTranspose2d"
            call = [n for n in ast.walk(init) if isinstance(n, ast.Call) and isinstance(n.func, ast.Attribute) and n.func.attr == torchname]
            if len(call) != 1 or [getattr(a, "id", None) for a in call[0].args] != params or call[0].keywords:
                raise TranslateError("%s does not forward %s to nn.%s positionally" % (cls.name, params, torchname))
            fwd = next((f for f in cls.body if isinstance(f, ast.FunctionDef) and f.name == "forward"), None)
            if fwd is None:
                raise TranslateError("%s.forward not found" % cls.name)
            out[cls.name] = (names, dflt)
    if set(out) != set(WRAP):
        raise TranslateError("wrapper classes not found: %s" % sorted(set(WRAP) - set(out)))
    return out


def _layers(cls, wr):
    seqs = [n for n in ast.walk(cls) if isinstance(n, ast.Call) and isinstance(n.func, ast.Attribute) and n.func.attr == "Sequential"]
    if len(seqs) != 1:
        raise TranslateError("%s: expected exactly one nn.Sequential" % cls.name)
    fwd = next((f for f in cls.body if isinstance(f, ast.FunctionDef) and f.name == "forward"), None)
    rets = [n for n in ast.walk(fwd) if isinstance(n, ast.Return)] if fwd else []
    if len(rets) != 1 or not (isinstance(rets[0].value, ast.Call) and isinstance(rets[0].value.func, ast.Attribute) and rets[0].value.func.attr == "model"
                              and len(rets[0].value.args) == 1 and isinstance(rets[0].value.args[0], ast.Name) and rets[0].value.args[0].id == "x"):
        raise TranslateError("%s.forward is not `return self.model(x)`" % cls.name)
    out = []
    for c in seqs[0].args:
        if not (isinstance(c, ast.Call) and isinstance(c.func, ast.Name) and c.func.id in WRAP):
            raise TranslateError("%s: unrecognised layer %s" % (cls.name, ast.dump(c)[:80]))
        names, dflt = wr[c.func.id]
        vals = dict(dflt)
        for nm, a in zip(names, c.args):
            vals[nm] = a
        for kw in c.keywords:
            vals[kw.arg] = kw.value
        kind, _ = WRAP[c.func.id]
        need = ["kernel_size", "stride", "padding"] + (["output_padding"] if kind == "TConv" else [])
        nums = []
        for nm in need:
            v = vals.get(nm)
            if isinstance(v, ast.Constant):
                v = v.value
            if not isinstance(v, int):
                raise TranslateError("%s: %s of a %s layer is not an integer literal" % (cls.name, nm, kind))
            nums.append(v)
        out.append((kind, nums))
    return out


def extract(repo):
    try:
        tree = ast.parse(open(os.path.join(repo, SRC)).read())
    except (OSError, SyntaxError) as e:
        raise TranslateError("cannot parse %s: %s" % (SRC, e))
    wr = _defaults(tree)
    res = {}
    for cls in tree.body:
        if isinstance(cls, ast.ClassDef) and cls.name in ("Bourtsoulatze2019DeepJSCCEncoder", "Bourtsoulatze2019DeepJSCCDecoder"):
            res[cls.name] = _layers(cls, wr)
    if len(res) != 2:
        raise TranslateError("encoder / decoder classes not found")
    return res


SRC2 = "kaira/models/image/kurka2020_deepjscc_feedback.py"
ELEMENTWISE = {"GDN", "PReLU", "Sigmoid", "ReLU", "LeakyReLU"}      # size-preserving layers (their traced shapes are checked by the harness)


def _modulelist_layers(cls):
    """nn.ModuleList([...]) of nn.Conv2d / nn.ConvTranspose2d / elementwise layers applied in order by `for layer in self.layers: x = layer(x)`"""
    init = next((f for f in cls.body if isinstance(f, ast.FunctionDef) and f.name == "__init__"), None)
    fwd = next((f for f in cls.body if isinstance(f, ast.FunctionDef) and f.name == "forward"), None)
    if init is None or fwd is None:
        raise TranslateError("%s: __init__ / forward not found" % cls.name)
    lists = [n for n in ast.walk(init) if isinstance(n, ast.Call) and isinstance(n.func, ast.Attribute) and n.func.attr == "ModuleList"]
    if len(lists) != 1 or len(lists[0].args) != 1 or not isinstance(lists[0].args[0], ast.List):
        raise TranslateError("%s: expected exactly one nn.ModuleList([...])" % cls.name)
    body = [st for st in fwd.body if not (isinstance(st, ast.Expr) and isinstance(st.value, ast.Constant))]
    okfwd = (len(body) == 2 and isinstance(body[0], ast.For) and isinstance(body[0].iter, ast.Attribute) and body[0].iter.attr == "layers"
             and len(body[0].body) == 1 and isinstance(body[0].body[0], ast.Assign) and isinstance(body[0].body[0].value, ast.Call)
             and isinstance(body[0].body[0].value.func, ast.Name) and body[0].body[0].value.func.id == body[0].target.id
             and [getattr(a, "id", None) for a in body[0].body[0].value.args] == ["x"] and isinstance(body[1], ast.Return)
             and isinstance(body[1].value, ast.Name) and body[1].value.id == "x")
    if not okfwd:
        raise TranslateError("%s.forward is not `for layer in self.layers: x = layer(x); return x`" % cls.name)
    out = []
    for c in lists[0].args[0].elts:
        if not isinstance(c, ast.Call):
            raise TranslateError("%s: unrecognised layer" % cls.name)
        fname = c.func.attr if isinstance(c.func, ast.Attribute) else getattr(c.func, "id", None)
        if fname in ELEMENTWISE:
            continue
        if fname not in ("Conv2d", "ConvTranspose2d"):
            raise TranslateError("%s: unrecognised layer %s" % (cls.name, fname))
        vals = {"stride": 1, "padding": 0, "output_padding": 0}
        pos = ["in_channels", "out_channels", "kernel_size", "stride", "padding"] + (["output_padding"] if fname == "ConvTranspose2d" else [])
        for nm, a in zip(pos, c.args):
            vals[nm] = a
        for kw in c.keywords:
            vals[kw.arg] = kw.value
        if any(k in vals and not (isinstance(vals[k], ast.Constant) and vals[k].value == 1) for k in ("dilation", "groups")):
            raise TranslateError("%s: dilation / groups not supported" % cls.name)
        nums = []
        for nm in ["kernel_size", "stride", "padding"] + (["output_padding"] if fname == "ConvTranspose2d" else []):
            v = vals.get(nm)
            if isinstance(v, ast.Constant):
                v = v.value
            if not isinstance(v, int) or isinstance(v, bool):
                raise TranslateError("%s: %s of a %s layer is not an integer literal" % (cls.name, nm, fname))
            nums.append(v)
        out.append(("Conv" if fname == "Conv2d" else "TConv", nums))
    return out


def extract2(repo):
    try:
        tree = ast.parse(open(os.path.join(repo, SRC2)).read())
    except (OSError, SyntaxError) as e:
        raise TranslateError("cannot parse %s: %s" % (SRC2, e))
    res = {}
    for cls in tree.body:
        if isinstance(cls, ast.ClassDef) and cls.name in ("DeepJSCCFeedbackEncoder", "DeepJSCCFeedbackDecoder"):
            res[cls.name] = _modulelist_layers(cls)
    if len(res) != 2:
        raise TranslateError("feedback encoder / decoder classes not found")
    return res


SRC3 = "kaira/models/image/tung2022_deepjscc_q.py"
# residual / attention / attention-feature units of the Tung-2022 models (compressai blocks and kaira's AFModule), by what they do to the size
BLOCKS = {"ResidualBlock": "Same", "AttentionBlock": "Same", "AFModule": "Same", "ResidualBlockWithStride": "Half", "ResidualBlockUpsample": "Double"}


def _block_layers(cls):
    init = next((f for f in cls.body if isinstance(f, ast.FunctionDef) and f.name == "__init__"), None)
    fwd = next((f for f in cls.body if isinstance(f, ast.FunctionDef) and f.name == "forward"), None)
    if init is None or fwd is None:
        raise TranslateError("%s: __init__ / forward not found" % cls.name)
    lists = [n for n in ast.walk(init) if isinstance(n, ast.Call) and isinstance(n.func, ast.Attribute) and n.func.attr == "ModuleList"]
    if len(lists) != 1 or len(lists[0].args) != 1 or not isinstance(lists[0].args[0], ast.List):
        raise TranslateError("%s: expected exactly one nn.ModuleList([...])" % cls.name)
    # forward: one loop over the module list; every statement in it that assigns x applies the layer to x; the result is x
    loops = [n for n in ast.walk(fwd) if isinstance(n, ast.For)]
    if len(loops) != 1 or not (isinstance(loops[0].iter, ast.Attribute) and isinstance(loops[0].target, ast.Name)):
        raise TranslateError("%s.forward: expected one loop over the module list" % cls.name)
    lv = loops[0].target.id
    assigns = [n for n in ast.walk(loops[0]) if isinstance(n, ast.Assign)]
    if not assigns or not all(len(a.targets) == 1 and isinstance(a.targets[0], ast.Name) and a.targets[0].id == "x" and isinstance(a.value, ast.Call)
                              and isinstance(a.value.func, ast.Name) and a.value.func.id == lv and a.value.args and isinstance(a.value.args[0], ast.Name) and a.value.args[0].id == "x" for a in assigns):
        raise TranslateError("%s.forward: the loop body is not `x = layer(x, ...)`" % cls.name)
    rets = [n for n in ast.walk(fwd) if isinstance(n, ast.Return)]
    if len(rets) != 1 or not (isinstance(rets[0].value, ast.Name) and rets[0].value.id == "x"):
        raise TranslateError("%s.forward does not return x" % cls.name)
    out = []
    for c in lists[0].args[0].elts:
        fname = c.func.id if isinstance(c, ast.Call) and isinstance(c.func, ast.Name) else None
        if fname not in BLOCKS:
            raise TranslateError("%s: unrecognised block %s" % (cls.name, fname))
        kws = {kw.arg: kw.value for kw in c.keywords}
        if fname == "ResidualBlockWithStride" and not (isinstance(kws.get("stride"), ast.Constant) and kws["stride"].value == 2):
            raise TranslateError("%s: ResidualBlockWithStride with a stride other than the literal 2" % cls.name)
        if fname == "ResidualBlockUpsample" and not (isinstance(kws.get("upsample"), ast.Constant) and kws["upsample"].value == 2):
            raise TranslateError("%s: ResidualBlockUpsample with an upsampling factor other than the literal 2" % cls.name)
        out.append(("Block", BLOCKS[fname]))
    return out


def extract3(repo):
    try:
        tree = ast.parse(open(os.path.join(repo, SRC3)).read())
    except (OSError, SyntaxError) as e:
        raise TranslateError("cannot parse %s: %s" % (SRC3, e))
    want = {"Tung2022DeepJSCCQEncoder": "tung_q_encoder", "Tung2022DeepJSCCQDecoder": "tung_q_decoder", "Tung2022DeepJSCCQ2Encoder": "tung_q2_encoder", "Tung2022DeepJSCCQ2Decoder": "tung_q2_decoder"}
    res = {}
    for cls in tree.body:
        if isinstance(cls, ast.ClassDef) and cls.name in want:
            res[want[cls.name]] = _block_layers(cls)
    if len(res) != 4:
        raise TranslateError("Tung-2022 encoder / decoder classes not found: %s" % sorted(set(want.values()) - set(res)))
    return res


def generate(repo):
    d = extract(repo)
    d2 = extract2(repo)
    d3 = extract3(repo)

    def lst(ls):
        return "[" + "; ".join(("Block %s" % nums) if k == "Block" else "%s %s" % (k, " ".join("%d" % v for v in nums)) for k, nums in ls) + "]"
    text = ("(* GENERATED from %s by harness/translate/archs.py -- do not edit *)\n"
            "From Coq Require Import ZArith List.\nImport ListNotations.\nFrom KV Require Import Diff.ConvShape.\nLocal Open Scope Z_scope.\n"
            "Definition bourtsoulatze_encoder : list layer := %s.\nDefinition bourtsoulatze_decoder : list layer := %s.\n"
            "(* from %s *)\nDefinition kurka_encoder : list layer := %s.\nDefinition kurka_decoder : list layer := %s.\n"
            % (SRC, lst(d["Bourtsoulatze2019DeepJSCCEncoder"]), lst(d["Bourtsoulatze2019DeepJSCCDecoder"]), SRC2, lst(d2["DeepJSCCFeedbackEncoder"]), lst(d2["DeepJSCCFeedbackDecoder"])))
    text += "(* from %s *)\n" % SRC3 + "".join("Definition %s : list layer := %s.\n" % (nm, lst(d3[nm])) for nm in ("tung_q_encoder", "tung_q_decoder", "tung_q2_encoder", "tung_q2_decoder"))
    return {"Arch.v": text}
