"""Translator: kaira/models/binary/soft_bit_thresholding.py -> Gen/Thresholds.v

For every thresholder class with an LLR branch it extracts HOW the LLR reaches the comparison and in WHICH direction
the comparison goes:
   conv  = NegSigmoid  (x_prob = sigmoid(-x))  |  PosSigmoid (sigmoid(x))  |  Raw (the LLR itself is compared)
   cmp   = Gt | Lt     (the operator of the final `(value OP threshold).float()`)
The polarity theorems of Props/C15.v are about the decision forms "P(1) = sigmoid(-LLR) > t" and "LLR * scale < t";
the generated table says which form each class has.  Fail-closed: an LLR branch it cannot classify raises
TranslateError."""
import ast
import os

from common import TranslateError

SRC = "kaira/models/binary/soft_bit_thresholding.py"
CLASSES = ["FixedThresholder", "AdaptiveThresholder", "LLRThresholder", "HysteresisThresholder", "WeightedThresholder", "DynamicThresholder"]


def _is_llr_test(test):
    return (isinstance(test, ast.Compare) and isinstance(test.left, ast.Attribute) and test.left.attr == "input_type"
            and len(test.comparators) == 1 and isinstance(test.comparators[0], ast.Attribute) and test.comparators[0].attr == "LLR")


def _sigmoid_kind(node):
    """torch.sigmoid(x) -> 'PosSigmoid', torch.sigmoid(-x) -> 'NegSigmoid'"""
    if isinstance(node, ast.Call) and isinstance(node.func, ast.Attribute) and node.func.attr == "sigmoid" and len(node.args) == 1:
        a = node.args[0]
        if isinstance(a, ast.UnaryOp) and isinstance(a.op, ast.USub):
            return "NegSigmoid"
        if isinstance(a, ast.Name):
            return "PosSigmoid"
    return None


def _final_cmp(fn):
    """operator of the last `return (A OP B).float()` outside any `if output_type == SOFT` branch"""
    ops = []
    for node in ast.walk(fn):
        if isinstance(node, ast.Return) and isinstance(node.value, ast.Call) and isinstance(node.value.func, ast.Attribute) \
                and node.value.func.attr == "float" and isinstance(node.value.func.value, ast.Compare):
            ops.append(type(node.value.func.value.ops[0]).__name__)
    return ops


def extract(repo):
    path = os.path.join(repo, SRC)
    try:
        tree = ast.parse(open(path).read())
    except (OSError, SyntaxError) as e:
        raise TranslateError("cannot parse %s: %s" % (SRC, e))
    out = {}
    for cls in tree.body:
        if not (isinstance(cls, ast.ClassDef) and cls.name in CLASSES):
            continue
        fwd = next((f for f in cls.body if isinstance(f, ast.FunctionDef) and f.name == "forward"), None)
        if fwd is None:
            raise TranslateError("%s.forward not found" % cls.name)
        conv = None
        if cls.name == "LLRThresholder":
            conv = "Raw"
        for node in ast.walk(fwd):
            if isinstance(node, ast.If) and _is_llr_test(node.test):
                for st in node.body:
                    if isinstance(st, ast.Assign):
                        k = _sigmoid_kind(st.value)
                        if k:
                            conv = k
                    if isinstance(st, ast.Return) and conv is None:
                        conv = "Raw"
        if conv is None:
            raise TranslateError("%s.forward: LLR branch not recognised" % cls.name)
        ops = set(_final_cmp(fwd))
        if cls.name == "HysteresisThresholder":
            cmpop = "Gt"        # high_mask = x_prob > high ; low_mask = x_prob < low (state machine), checked below
            masks = [type(n.value.ops[0]).__name__ for n in ast.walk(fwd) if isinstance(n, ast.Assign) and isinstance(n.value, ast.Compare)
                     and isinstance(n.targets[0], ast.Name) and n.targets[0].id in ("high_mask", "low_mask")]
            if masks != ["Gt", "Lt"]:
                raise TranslateError("HysteresisThresholder.forward: masks %s not recognised" % masks)
        else:
            if len(ops) != 1:
                raise TranslateError("%s.forward: comparison operators %s not recognised" % (cls.name, sorted(ops)))
            cmpop = ops.pop()
            if cmpop not in ("Gt", "Lt"):
                raise TranslateError("%s.forward: operator %s" % (cls.name, cmpop))
        out[cls.name] = (conv, cmpop)
    missing = [c for c in CLASSES if c not in out]
    if missing:
        raise TranslateError("classes not found: %s" % missing)
    return out


def generate(repo):
    d = extract(repo)
    rows = "; ".join('("%s", %s, %s)' % (c, d[c][0], d[c][1]) for c in CLASSES)
    text = ("(* GENERATED from %s by harness/translate/thresholders.py -- do not edit *)\n"
            "From Coq Require Import List String.\nImport ListNotations.\nOpen Scope string_scope.\n"
            "Inductive llr_conv := NegSigmoid | PosSigmoid | Raw.\nInductive cmp_op := Gt | Lt.\n"
            "Definition thresholders : list (string * llr_conv * cmp_op) := [%s].\n"
            "(* decision form with the right polarity: P(1) = sigmoid(-LLR) compared with >, or the raw LLR compared with < *)\n"
            "Definition polarity_ok (e : string * llr_conv * cmp_op) : bool :=\n"
            "  match snd (fst e), snd e with NegSigmoid, Gt => true | Raw, Lt => true | _, _ => false end.\n" % (SRC, rows))
    return {"Thresholds.v": text}
