"""Translator: the message-passing loops of the iterative decoders -> Gen/IterLoops.v

For each loop it extracts the STOPPING DISCIPLINE, which is what decides whether a batch is the stack of its members
(Batch/IterStop.v):
   FixedCount      the loop body contains no break / return / if / while: every row gets exactly bp_iters passes
                   (BeliefPropagationDecoder.forward.decode_block, inherited by MinSumLDPCDecoder)
   PerRowIndexSet  every message update inside the loop is indexed by one index tensor, that tensor is only ever replaced
                   by stop_criterion(..., itself), stop_criterion returns index[mask] with the mask reduced per row
                   (dim=1), and the only break is guarded by "index is empty"
                   (BeliefPropagationPolarDecoder.decode_iterative)
Fail-closed: any other shape of loop (e.g. a break guarded by a whole-batch reduction) raises TranslateError."""
import ast
import os

from common import TranslateError

BP = "kaira/models/fec/decoders/belief_propagation.py"
MS = "kaira/models/fec/decoders/min_sum_ldpc.py"
PBP = "kaira/models/fec/decoders/belief_propagation_polar.py"
UT = "kaira/models/fec/utils.py"


def _parse(repo, rel):
    try:
        return ast.parse(open(os.path.join(repo, rel)).read())
    except (OSError, SyntaxError) as e:
        raise TranslateError("cannot parse %s: %s" % (rel, e))


def _func(tree, cls, name):
    for c in tree.body:
        if isinstance(c, ast.ClassDef) and c.name == cls:
            for f in c.body:
                if isinstance(f, ast.FunctionDef) and f.name == name:
                    return f
            return None
    raise TranslateError("class %s not found" % cls)


def _range_loops(fn, attr):
    """for-loops `for _ in range(self.<attr>)` anywhere inside fn"""
    out = []
    for n in ast.walk(fn):
        if isinstance(n, ast.For) and isinstance(n.iter, ast.Call) and isinstance(n.iter.func, ast.Name) and n.iter.func.id == "range" \
                and len(n.iter.args) == 1 and isinstance(n.iter.args[0], ast.Attribute) and n.iter.args[0].attr == attr:
            out.append(n)
    return out


def _fixed_count(repo):
    tree = _parse(repo, BP)
    fwd = _func(tree, "BeliefPropagationDecoder", "forward")
    if fwd is None:
        raise TranslateError("BeliefPropagationDecoder.forward not found")
    loops = _range_loops(fwd, "bp_iters")
    if len(loops) != 1:
        raise TranslateError("BeliefPropagationDecoder.forward: expected one loop over range(self.bp_iters), found %d" % len(loops))
    loop = loops[0]
    if loop.orelse:
        raise TranslateError("BeliefPropagationDecoder.forward: the message-passing loop has an else clause")
    for st in loop.body:
        for n in ast.walk(st):
            if isinstance(n, (ast.Break, ast.Continue, ast.Return, ast.If, ast.IfExp, ast.While, ast.Try, ast.Raise, ast.For)):
                raise TranslateError("BeliefPropagationDecoder.forward: the message-passing loop contains a %s (line %d): not a fixed-count loop" % (type(n).__name__, n.lineno))
        if not isinstance(st, (ast.Assign, ast.AugAssign, ast.Expr, ast.AnnAssign)):
            raise TranslateError("BeliefPropagationDecoder.forward: unexpected statement %s in the message-passing loop" % type(st).__name__)
    # the min-sum decoder must inherit this forward
    ms = _parse(repo, MS)
    for c in ms.body:
        if isinstance(c, ast.ClassDef) and c.name == "MinSumLDPCDecoder":
            if not any(isinstance(b, ast.Name) and b.id == "BeliefPropagationDecoder" for b in c.bases):
                raise TranslateError("MinSumLDPCDecoder no longer derives from BeliefPropagationDecoder")
            if any(isinstance(f, ast.FunctionDef) and f.name == "forward" for f in c.body):
                raise TranslateError("MinSumLDPCDecoder defines its own forward: loop not analysed")
    return "FixedCount"


def _is_name(n, name):
    return isinstance(n, ast.Name) and n.id == name


def _index_of(sub):
    """first index expression of a subscript: a[i] -> i, a[i, 0] -> i"""
    sl = sub.slice
    if isinstance(sl, ast.Tuple):
        return sl.elts[0]
    return sl


def _per_row_index_set(repo):
    tree = _parse(repo, PBP)
    fn = _func(tree, "BeliefPropagationPolarDecoder", "decode_iterative")
    if fn is None:
        raise TranslateError("BeliefPropagationPolarDecoder.decode_iterative not found")
    loops = _range_loops(fn, "iteration_num")
    if len(loops) != 1:
        raise TranslateError("decode_iterative: expected one loop over range(self.iteration_num), found %d" % len(loops))
    loop = loops[0]
    idx = "not_satisfied"
    # the index starts as all rows
    init_ok = False
    for n in ast.walk(fn):
        if isinstance(n, ast.Assign) and len(n.targets) == 1 and _is_name(n.targets[0], idx) and n not in list(ast.walk(loop)):
            v = n.value
            if isinstance(v, ast.Call) and isinstance(v.func, ast.Attribute) and v.func.attr == "arange" and v.args and _is_name(v.args[0], "bs"):
                init_ok = True
            else:
                raise TranslateError("decode_iterative: %s initialised by something other than torch.arange(bs)" % idx)
    if not init_ok:
        raise TranslateError("decode_iterative: initialisation of %s not found" % idx)
    breaks, reassigned = 0, 0
    for st in loop.body:
        if isinstance(st, ast.Assign):
            for t in st.targets:
                if isinstance(t, ast.Subscript):
                    base = t.value
                    if isinstance(base, ast.Name) and base.id in ("left", "right", "u_ans", "x_ans"):
                        if not _is_name(_index_of(t), idx):
                            raise TranslateError("decode_iterative: %s is updated at rows other than %s (line %d)" % (base.id, idx, st.lineno))
                        # the right-hand side may read only the rows of the index set
                        for n in ast.walk(st.value):
                            if isinstance(n, ast.Subscript) and isinstance(n.value, ast.Name) and n.value.id in ("left", "right") and not _is_name(_index_of(n), idx):
                                raise TranslateError("decode_iterative: update of %s reads rows outside %s (line %d)" % (base.id, idx, st.lineno))
                    elif isinstance(base, ast.Name) and base.id == "not_satisfied_list":
                        pass
                    else:
                        raise TranslateError("decode_iterative: unexpected subscript assignment (line %d)" % st.lineno)
                elif isinstance(t, ast.Name):
                    if t.id == idx:
                        raise TranslateError("decode_iterative: %s reassigned outside the early-stop branch (line %d)" % (idx, st.lineno))
                    if t.id in ("u", "x"):
                        for n in ast.walk(st.value):
                            if isinstance(n, ast.Subscript) and isinstance(n.value, ast.Name) and n.value.id in ("left", "right") and not _is_name(_index_of(n), idx):
                                raise TranslateError("decode_iterative: %s reads rows outside %s (line %d)" % (t.id, idx, st.lineno))
                else:
                    raise TranslateError("decode_iterative: unexpected assignment target (line %d)" % st.lineno)
        elif isinstance(st, ast.Expr):
            continue                      # self.ans.append(...): bookkeeping
        elif isinstance(st, ast.If):
            t = st.test
            if isinstance(t, ast.Attribute) and t.attr == "early_stop" and not st.orelse and len(st.body) == 1 and isinstance(st.body[0], ast.Assign):
                a = st.body[0]
                v = a.value
                if not (len(a.targets) == 1 and _is_name(a.targets[0], idx) and isinstance(v, ast.Call) and isinstance(v.func, ast.Name) and v.func.id == "stop_criterion"
                        and len(v.args) == 4 and _is_name(v.args[3], idx)):
                    raise TranslateError("decode_iterative: the early-stop branch does not replace %s by stop_criterion(..., %s) (line %d)" % (idx, idx, a.lineno))
                # x and u handed to the criterion are the rows of the index set computed above
                reassigned += 1
            elif isinstance(t, ast.Compare) and len(t.ops) == 1 and isinstance(t.ops[0], ast.Eq) and isinstance(t.comparators[0], ast.Constant) and t.comparators[0].value == 0 \
                    and isinstance(t.left, ast.Call) and isinstance(t.left.func, ast.Attribute) and t.left.func.attr in ("size", "numel") and _is_name(t.left.func.value, idx) \
                    and not st.orelse and len(st.body) == 1 and isinstance(st.body[0], ast.Break):
                breaks += 1
            else:
                raise TranslateError("decode_iterative: unrecognised condition in the loop (line %d)" % st.lineno)
        else:
            raise TranslateError("decode_iterative: unexpected statement %s in the loop (line %d)" % (type(st).__name__, st.lineno))
    if breaks != 1 or reassigned != 1:
        raise TranslateError("decode_iterative: expected one early-stop update and one break on an empty index set, found %d / %d" % (reassigned, breaks))
    # stop_criterion: index[mask], mask reduced per row
    ut = _parse(repo, UT)
    sc = next((f for f in ut.body if isinstance(f, ast.FunctionDef) and f.name == "stop_criterion"), None)
    if sc is None:
        raise TranslateError("stop_criterion not found in %s" % UT)
    params = [a.arg for a in sc.args.args]
    if len(params) != 4:
        raise TranslateError("stop_criterion: expected 4 parameters")
    ix = params[3]
    ret = [n for n in ast.walk(sc) if isinstance(n, ast.Return)]
    if len(ret) != 1 or not isinstance(ret[0].value, ast.Name):
        raise TranslateError("stop_criterion: expected a single `return <name>`")
    defs = {}
    for n in sc.body:
        if isinstance(n, ast.Assign) and len(n.targets) == 1 and isinstance(n.targets[0], ast.Name):
            defs[n.targets[0].id] = n.value
    rv = defs.get(ret[0].value.id)
    if not (isinstance(rv, ast.Subscript) and _is_name(rv.value, ix) and isinstance(rv.slice, ast.Name)):
        raise TranslateError("stop_criterion: the result is not <index>[<mask>]")
    mask = defs.get(rv.slice.id)
    ok = (isinstance(mask, ast.UnaryOp) and isinstance(mask.op, ast.Invert) and isinstance(mask.operand, ast.Call) and isinstance(mask.operand.func, ast.Attribute)
          and mask.operand.func.attr == "all" and any(k.arg == "dim" and isinstance(k.value, ast.Constant) and k.value.value in (1, -1) for k in mask.operand.keywords))
    if not ok:
        raise TranslateError("stop_criterion: the mask is not ~torch.all(<rowwise comparison>, dim=1)")
    return "PerRowIndexSet"


def extract(repo):
    return {"ldpc_bp_loop": _fixed_count(repo), "polar_bp_loop": _per_row_index_set(repo)}


def generate(repo):
    d = extract(repo)
    text = ("(* GENERATED by harness/translate/iterloops.py from %s, %s, %s -- do not edit *)\n"
            "From KV Require Import Batch.IterStop.\n"
            "Definition ldpc_bp_loop : discipline := %s.   (* BeliefPropagationDecoder / MinSumLDPCDecoder *)\n"
            "Definition polar_bp_loop : discipline := %s.   (* BeliefPropagationPolarDecoder.decode_iterative + stop_criterion *)\n"
            % (BP, PBP, UT, d["ldpc_bp_loop"], d["polar_bp_loop"]))
    return {"IterLoops.v": text}
