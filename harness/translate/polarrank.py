"""Translator: kaira/models/fec/rank_polar.csv -> Gen/PolarRank.v  (the reliability ranking the encoder loads with
pandas: header 'W, Q', one 'index value' pair per line, separator ' ').  Fail-closed."""
import os

from common import TranslateError

SRC = "kaira/models/fec/rank_polar.csv"


def extract(repo):
    path = os.path.join(repo, SRC)
    try:
        lines = open(path).read().split("\n")
    except OSError as e:
        raise TranslateError("cannot read %s: %s" % (SRC, e))
    if not lines or lines[0].replace(" ", "") != "W,Q":
        raise TranslateError("%s: unexpected header %r" % (SRC, lines[:1]))
    q = []
    for i, ln in enumerate(l for l in lines[1:] if l.strip() != ""):
        parts = ln.split(" ")
        if len(parts) != 2 or not parts[0].isdigit() or not parts[1].isdigit() or int(parts[0]) != i:
            raise TranslateError("%s: unexpected row %d: %r" % (SRC, i, ln))
        q.append(int(parts[1]))
    if not (0 < len(q) < 5000) or any(v >= 5000 for v in q):
        raise TranslateError("%s: %d rows / values out of the supported range" % (SRC, len(q)))
    return q


def generate(repo):
    q = extract(repo)
    body = "; ".join(str(v) for v in q)
    text = ("(* GENERATED from %s by harness/translate/polarrank.py -- do not edit *)\n"
            "From Coq Require Import List.\nImport ListNotations.\n"
            "Definition polar_rank : list nat := [%s].\n" % (SRC, body))
    return {"PolarRank.v": text}
