"""Translator: kaira/models/fec/algebra.py  ->  Gen/PrimPolys.v

Extracts (fail-closed) the data the C18 field theorems are about:
  * the modulus table: the dict literal(s) `primitive_polys = {...}` in FiniteBifield.__init__
    together with the range guards that select them,
  * the constant(s) returned by FiniteBifield.primitive_element.
Anything it does not recognise raises TranslateError (the check then reports that the theorems are no
longer tied to the source).
"""
import ast
import os

from common import TranslateError

SRC = "kaira/models/fec/algebra.py"


def _const_int(node):
    if isinstance(node, ast.Constant) and isinstance(node.value, int) and not isinstance(node.value, bool):
        return node.value
    raise TranslateError("expected integer literal at line %d" % getattr(node, "lineno", -1))


def _find_class(tree, name):
    for n in tree.body:
        if isinstance(n, ast.ClassDef) and n.name == name:
            return n
    raise TranslateError("class %s not found" % name)


def _find_method(cls, name):
    for n in cls.body:
        if isinstance(n, ast.FunctionDef) and n.name == name:
            return n
    raise TranslateError("method %s.%s not found" % (cls.name, name))


def _is_m(node):
    # `m` (argument) or `self.m`
    return (isinstance(node, ast.Name) and node.id == "m") or (
        isinstance(node, ast.Attribute) and node.attr == "m" and isinstance(node.value, ast.Name) and node.value.id == "self")


def _table_from_branch(body):
    """body of an `if m <= K:` branch: primitive_polys = {..}; self.modulus = BinaryPolynomial(primitive_polys[m])"""
    table = None
    uses = False
    for st in body:
        if isinstance(st, ast.Assign) and len(st.targets) == 1 and isinstance(st.targets[0], ast.Name) \
                and st.targets[0].id == "primitive_polys":
            if not isinstance(st.value, ast.Dict):
                raise TranslateError("primitive_polys is not a dict literal (line %d)" % st.lineno)
            table = {}
            for k, v in zip(st.value.keys, st.value.values):
                kk, vv = _const_int(k), _const_int(v)
                if kk in table:
                    raise TranslateError("duplicate key %d in primitive_polys" % kk)
                table[kk] = vv
        elif isinstance(st, ast.Assign) and len(st.targets) == 1 and isinstance(st.targets[0], ast.Attribute) \
                and st.targets[0].attr == "modulus":
            v = st.value
            ok = (isinstance(v, ast.Call) and isinstance(v.func, ast.Name) and v.func.id == "BinaryPolynomial"
                  and len(v.args) == 1 and isinstance(v.args[0], ast.Subscript)
                  and isinstance(v.args[0].value, ast.Name) and v.args[0].value.id == "primitive_polys"
                  and _is_m(v.args[0].slice))
            if not ok:
                raise TranslateError("self.modulus is not BinaryPolynomial(primitive_polys[m]) (line %d)" % st.lineno)
            uses = True
        elif isinstance(st, ast.Expr) and isinstance(st.value, ast.Constant):
            continue
        else:
            raise TranslateError("unexpected statement in modulus branch (line %d)" % st.lineno)
    if table is None or not uses:
        raise TranslateError("modulus branch without table/use")
    return table


def _le_bound(test):
    if isinstance(test, ast.Compare) and len(test.ops) == 1 and isinstance(test.ops[0], ast.LtE) and _is_m(test.left):
        return _const_int(test.comparators[0])
    raise TranslateError("unexpected guard in FiniteBifield.__init__ (line %d)" % test.lineno)


def extract(repo):
    path = os.path.join(repo, SRC)
    tree = ast.parse(open(path).read())
    cls = _find_class(tree, "FiniteBifield")
    init = _find_method(cls, "__init__")
    # locate the if / elif / else chain that assigns self.modulus
    chain = None
    for st in init.body:
        if isinstance(st, ast.If):
            txt = ast.dump(st)
            if "primitive_polys" in txt:
                if chain is not None:
                    raise TranslateError("two modulus selection chains")
                chain = st
    if chain is None:
        raise TranslateError("modulus selection chain not found")
    table = {}
    lo = 1
    node = chain
    while True:
        hi = _le_bound(node.test)
        t = _table_from_branch(node.body)
        for m in range(lo, hi + 1):
            if m not in t:
                raise TranslateError("m=%d selected by guard `m <= %d` but absent from its table" % (m, hi))
            table[m] = t[m]
        lo = hi + 1
        if len(node.orelse) == 1 and isinstance(node.orelse[0], ast.If):
            node = node.orelse[0]
            continue
        # final else must raise
        if not (len(node.orelse) >= 1 and all(isinstance(s, (ast.Raise, ast.Expr)) for s in node.orelse)
                and any(isinstance(s, ast.Raise) for s in node.orelse)):
            raise TranslateError("final else of the modulus chain does not raise")
        break
    max_m = lo - 1
    # the `if m <= 0: raise` guard
    # primitive_element
    pe = _find_method(cls, "primitive_element")
    body = [s for s in pe.body if not (isinstance(s, ast.Expr) and isinstance(s.value, ast.Constant))]

    def self_call_const(node):
        if isinstance(node, ast.Call) and isinstance(node.func, ast.Name) and node.func.id == "self" and len(node.args) == 1:
            return _const_int(node.args[0])
        raise TranslateError("primitive_element: unexpected return expression (line %d)" % node.lineno)

    special = {}
    default = None
    for st in body:
        if isinstance(st, ast.If):
            t = st.test
            if not (isinstance(t, ast.Compare) and len(t.ops) == 1 and isinstance(t.ops[0], ast.Eq) and _is_m(t.left)
                    and len(st.body) == 1 and isinstance(st.body[0], ast.Return) and not st.orelse):
                raise TranslateError("primitive_element: unexpected if (line %d)" % st.lineno)
            special[_const_int(t.comparators[0])] = self_call_const(st.body[0].value)
        elif isinstance(st, ast.Return):
            default = self_call_const(st.value)
        else:
            raise TranslateError("primitive_element: unexpected statement (line %d)" % st.lineno)
    if default is None:
        raise TranslateError("primitive_element: no default return")
    return {"table": table, "max_m": max_m, "prim_default": default, "prim_special": special}


def generate(repo):
    d = extract(repo)
    rows = "; ".join("(%d, %d)" % (m, d["table"][m]) for m in sorted(d["table"]))
    prim = "%d" % d["prim_default"]
    for m, c in sorted(d["prim_special"].items()):
        prim = "if m =? %d then %d else (%s)" % (m, c, prim)
    v = """(* GENERATED by harness/translate/primpolys.py from %s -- do not edit *)
From Coq Require Import NArith List.
Import ListNotations.
Local Open Scope N_scope.
(* (m, modulus bit mask) for every m FiniteBifield.__init__ accepts *)
Definition modulus_table : list (N * N) := [%s].
Definition max_m : N := %d.
(* integer handed to the field constructor by FiniteBifield.primitive_element *)
Definition prim_const (m : N) : N := %s.
""" % (SRC, rows, d["max_m"], prim)
    return {"PrimPolys.v": v}
