"""Translator: kaira/modulations/utils.py -> Gen/GrayConst.v

binary_to_gray / gray_to_binary are  <guard against negatives> ; <zero or more `if num == K: return V`> ;
<general rule>.  The special cases are extracted as tables; the guard and the general rule must be
exactly the statements the hand-written model (Mod/Gray.v) transcribes, otherwise TranslateError
(fail-closed: the Gray theorems would no longer be about this source).
"""
import ast
import os

from common import TranslateError

SRC = "kaira/modulations/utils.py"

GUARD = "If(test=Compare(left=Name(id='num'), ops=[Lt()], comparators=[Constant(value=0)]), body=[Raise(exc=Call(func=Name(id='ValueError'), args=[Constant(value='Input must be a non-negative integer')], keywords=[]))], orelse=[])"
B2G_RULE = ["Return(value=BinOp(left=Name(id='num'), op=BitXor(), right=BinOp(left=Name(id='num'), op=RShift(), right=Constant(value=1))))"]
G2B_RULE = [
    "Assign(targets=[Name(id='mask')], value=Name(id='num'))",
    "Assign(targets=[Name(id='result')], value=Name(id='num'))",
    "While(test=Compare(left=Name(id='mask'), ops=[Gt()], comparators=[Constant(value=0)]), body=[AugAssign(target=Name(id='mask'), op=RShift(), value=Constant(value=1)), AugAssign(target=Name(id='result'), op=BitXor(), value=Name(id='mask'))], orelse=[])",
    "Return(value=Name(id='result'))",
]


def _dump(n):
    import re
    return re.sub(r", ctx=(Load|Store)\(\)", "", ast.dump(n)).replace(", lineno=None", "")


def _func(tree, name):
    for n in tree.body:
        if isinstance(n, ast.FunctionDef) and n.name == name:
            return n
    raise TranslateError("function %s not found in %s" % (name, SRC))


def _split(fn, rule):
    body = list(fn.body)
    if body and isinstance(body[0], ast.Expr) and isinstance(body[0].value, ast.Constant) and isinstance(body[0].value.value, str):
        body = body[1:]
    if [a.arg for a in fn.args.args] != ["num"]:
        raise TranslateError("%s: unexpected signature" % fn.name)
    if not body or _dump(body[0]) != GUARD:
        raise TranslateError("%s: negative-input guard not recognised (line %d)" % (fn.name, fn.lineno))
    body = body[1:]
    exc = []
    while body and isinstance(body[0], ast.If):
        st = body[0]
        t = st.test
        ok = (isinstance(t, ast.Compare) and isinstance(t.left, ast.Name) and t.left.id == "num" and len(t.ops) == 1
              and isinstance(t.ops[0], ast.Eq) and isinstance(t.comparators[0], ast.Constant)
              and isinstance(t.comparators[0].value, int) and not st.orelse and len(st.body) == 1
              and isinstance(st.body[0], ast.Return) and isinstance(st.body[0].value, ast.Constant)
              and isinstance(st.body[0].value.value, int))
        if not ok:
            raise TranslateError("%s: unrecognised special case at line %d" % (fn.name, st.lineno))
        k, v = t.comparators[0].value, st.body[0].value.value
        if k < 0 or v < 0:
            raise TranslateError("%s: negative constant in special case" % fn.name)
        exc.append((k, v))
        body = body[1:]
    if [_dump(s) for s in body] != rule:
        raise TranslateError("%s: general rule differs from the modelled one (line %d)" % (fn.name, body[0].lineno if body else fn.lineno))
    return exc


def extract(repo):
    path = os.path.join(repo, SRC)
    try:
        tree = ast.parse(open(path).read())
    except (OSError, SyntaxError) as e:
        raise TranslateError("cannot parse %s: %s" % (SRC, e))
    return {"b2g": _split(_func(tree, "binary_to_gray"), B2G_RULE), "g2b": _split(_func(tree, "gray_to_binary"), G2B_RULE)}


def generate(repo):
    d = extract(repo)

    def tab(l):
        return "[" + "; ".join("(%d, %d)" % kv for kv in l) + "]"
    text = ("(* GENERATED from %s by harness/translate/grayconst.py -- do not edit *)\n"
            "From Coq Require Import NArith List.\nImport ListNotations.\nLocal Open Scope N_scope.\n"
            "Definition b2g_exceptions : list (N * N) := %s.\n"
            "Definition g2b_exceptions : list (N * N) := %s.\n" % (SRC, tab(d["b2g"]), tab(d["g2b"])))
    return {"GrayConst.v": text}
