"""Shared machinery of the FEC properties (C01-C04, C09, C20): the code catalogue, GF(2) bit-mask linear algebra
(reference side + certificate computation for the Coq checkers of Base/GF2.v) and drivers around the encoders.

Vectors are Python ints: bit i = coordinate i (same convention as coq/Base/GF2.v)."""
import contextlib
import io
import itertools

from common import cN, clist, cnat, import_kaira


# ---------------------------------------------------------------------------------- GF(2) on bit masks
def rows_of(M):
    """tensor / nested list (rows) -> list of ints"""
    if hasattr(M, "tolist"):
        M = M.tolist()
    out = []
    for r in M:
        v = 0
        for i, b in enumerate(r):
            ib = int(round(float(b)))
            if ib not in (0, 1) or abs(float(b) - ib) > 1e-9:
                raise ValueError("non-binary matrix entry %r" % (b,))
            if ib:
                v |= 1 << i
        out.append(v)
    return out


def comb(m, gs):
    x = 0
    i = 0
    while m:
        if m & 1 and i < len(gs):
            x ^= gs[i]
        m >>= 1
        i += 1
    return x


def synd(x, hs):
    s = 0
    for j, h in enumerate(hs):
        if bin(x & h).count("1") & 1:
            s |= 1 << j
    return s


def wt(x):
    return bin(x).count("1")


def echelon(rows):
    """Gauss-Jordan on the rows (highest set bit as pivot).  Returns (basis, coeffs): basis vectors in reduced
    form with distinct pivots, coeffs[i] = bit mask over the input rows whose xor gives basis[i]."""
    basis, coeffs, pivots = [], [], []
    for idx, r in enumerate(rows):
        c = 1 << idx
        for b, cb, p in zip(basis, coeffs, pivots):
            if r >> p & 1:
                r ^= b
                c ^= cb
        if r:
            p = r.bit_length() - 1
            for i in range(len(basis)):
                if basis[i] >> p & 1:
                    basis[i] ^= r
                    coeffs[i] ^= c
            basis.append(r)
            coeffs.append(c)
            pivots.append(p)
    return basis, coeffs, pivots


def rank(rows):
    return len(echelon(rows)[0])


def express(x, basis, pivots):
    """coefficient mask c with comb(c, basis) == x, or None"""
    c = 0
    for i, (b, p) in enumerate(zip(basis, pivots)):
        if x >> p & 1:
            x ^= b
            c |= 1 << i
    return c if x == 0 else None


def right_inverse(gs, n):
    """rs (n rows of k-bit ints) with comb(comb(m, gs), rs) == m for all m < 2^k, or None if rank < k"""
    k = len(gs)
    basis, coeffs, pivots = echelon(gs)
    if len(basis) < k:
        return None
    # basis[i] = comb(coeffs[i], gs) has a 1 at pivots[i] and 0 at the other pivots.
    # x = comb(m, gs) = comb(c, basis) with c_i = bit pivots[i] of x; m = xor_i c_i coeffs[i]
    rs = [0] * n
    for i, p in enumerate(pivots):
        rs[p] = coeffs[i]
    return rs


def kernel_certificate(n, gs, hs, rs):
    """ts (len(hs) rows of n-bit ints) with e = comb(comb(e, rs), gs) ^ comb(synd(e, hs), ts) for every unit vector e.
    Returns (ts, None), or (None, x) where x is a word with zero syndrome that is not a codeword."""
    r = len(hs)
    basis = []      # [s, w, ident] with reduced s parts and distinct pivots
    pivots = []
    for i in range(n):
        e = 1 << i
        row = [synd(e, hs), e ^ comb(comb(e, rs), gs), e]
        for b, p in zip(basis, pivots):
            if row[0] >> p & 1:
                row = [row[0] ^ b[0], row[1] ^ b[1], row[2] ^ b[2]]
        if row[0]:
            p = row[0].bit_length() - 1
            for b in basis:
                if b[0] >> p & 1:
                    b[0] ^= row[0]
                    b[1] ^= row[1]
                    b[2] ^= row[2]
            basis.append(row)
            pivots.append(p)
        elif row[1]:
            return None, row[2]
    ts = [0] * r
    for b, p in zip(basis, pivots):
        ts[p] = b[1]
    return ts, None


def rowspace_certificate(hs, n):
    """(d, bs, ls, cs, ds) for Base/GF2.v rowspace_dim_ok"""
    basis, coeffs, pivots = echelon(hs)
    d = len(basis)
    ls = [0] * n
    for i, p in enumerate(pivots):
        ls[p] = 1 << i
    cs = [express(h, basis, pivots) for h in hs]
    return d, basis, ls, cs, coeffs


def null_space(gs, n):
    """basis of {x : <x, g> = 0 for all g in gs} (reference parity-check matrix of the row space of gs)"""
    basis, _, pivots = echelon(gs)
    free = [c for c in range(n) if c not in pivots]
    out = []
    for f in free:
        x = 1 << f
        for b, p in zip(basis, pivots):
            if b >> f & 1:
                x |= 1 << p
        out.append(x)
    return out


def revn(x, n):
    return int(format(x, "0%db" % n)[::-1], 2) if n else 0


def rot1(x, n):
    return ((x << 1) | (x >> (n - 1))) & ((1 << n) - 1)


def pmod(a, g):
    while a.bit_length() >= g.bit_length():
        a ^= g << (a.bit_length() - g.bit_length())
    return a


def min_distance(gs, k, limit=1 << 22):
    """exact minimum weight of the non-zero codewords (Gray-code walk), None if 2^k > limit"""
    if k == 0 or (1 << k) > limit:
        return None
    best, x = None, 0
    for i in range(1, 1 << k):
        x ^= gs[(i & -i).bit_length() - 1]
        w = wt(x)
        if best is None or w < best:
            best = w
            if best == 0:
                return 0
    return best


def dual_min_distance(gs, hs, n, k, limit=1 << 22):
    """minimum distance via the MacWilliams identity from the dual's weight distribution (n-k small).
    Only valid when rowspace(hs) is the dual code; caller checks."""
    hb = echelon(hs)[0]
    r = len(hb)
    if (1 << r) > limit:
        return None
    B = [0] * (n + 1)
    x = 0
    B[0] = 1
    for i in range(1, 1 << r):
        x ^= hb[(i & -i).bit_length() - 1]
        B[wt(x)] += 1
    # A_j = 2^-r sum_i B_i K_j(i), Krawtchouk
    from math import comb as C
    for j in range(1, n + 1):
        s = 0
        for i in range(n + 1):
            if B[i]:
                kj = sum((-1) ** t * C(i, t) * C(n - i, j - t) for t in range(0, j + 1) if t <= i and j - t <= n - i)
                s += B[i] * kj
        if s != 0:
            return j
    return None


def int_to_bits(x, n):
    return [(x >> i) & 1 for i in range(n)]


def bits_to_int(bits):
    v = 0
    for i, b in enumerate(bits):
        if int(round(float(b))) & 1:
            v |= 1 << i
    return v


# ---------------------------------------------------------------------------------- catalogue
class Code:
    def __init__(self, family, cfg, mk, info=None, tags=()):
        self.family, self.cfg, self.mk, self.info, self.tags = family, cfg, mk, info or {}, set(tags)
        self.enc = None
        self.err = None

    @property
    def name(self):
        return "%s(%s)" % (self.family, self.cfg)

    def build(self):
        if self.enc is None and self.err is None:
            try:
                with contextlib.redirect_stdout(io.StringIO()):
                    self.enc = self.mk()
            except Exception as e:       # constructor rejects this configuration
                self.err = "%s: %s" % (type(e).__name__, str(e)[:200])
        return self.enc


def divisors_of_xn1(n):
    """all monic divisors g of X^n + 1 with 0 < deg g < n"""
    mod = (1 << n) | 1
    out = []
    for g in range(3, 1 << n, 2):
        d = g.bit_length() - 1
        if d >= n:
            break
        a = mod
        while a.bit_length() >= g.bit_length():
            a ^= g << (a.bit_length() - g.bit_length())
        if a == 0:
            out.append(g)
    return out


def catalogue(tier, rng, max_n=None):
    import torch
    import_kaira()
    from kaira.models.fec import encoders as E
    quick = tier == "quick"
    max_n = max_n or (31 if quick else 64)
    cat = []

    def info_sets(n, k, full=True):
        sets = [("left", "left"), ("right", "right")]
        if full and k < n:
            s1 = sorted(rng.sample(range(n), k))
            sets.append(("sorted%s" % s1, s1))
            s2 = rng.sample(range(n), k)
            sets.append(("perm%s" % s2, s2))
            s3 = list(range(k))
            rng.shuffle(s3)
            sets.append(("permleft%s" % s3, s3))
        return sets

    # Hamming
    for mu in range(2, 6 if quick else 7):
        for ext in (False, True):
            n = 2 ** mu - 1 + (1 if ext else 0)
            if n > max_n:
                continue
            k = 2 ** mu - 1 - mu
            for tag, iset in info_sets(n, k, full=(mu <= 4)):
                cat.append(Code("HammingCodeEncoder", "mu=%d,extended=%s,information_set=%s" % (mu, ext, tag),
                                (lambda mu=mu, ext=ext, iset=iset: E.HammingCodeEncoder(mu, extended=ext, information_set=iset)),
                                {"mu": mu, "extended": ext, "iset": tag}, tags=["systematic", "perfect" if not ext else "ext"]))
    # Golay
    for ext in (False, True):
        for tag, iset in info_sets(24 if ext else 23, 12, full=not quick):
            cat.append(Code("GolayCodeEncoder", "extended=%s,information_set=%s" % (ext, tag),
                            (lambda ext=ext, iset=iset: E.GolayCodeEncoder(extended=ext, information_set=iset)),
                            {"extended": ext, "iset": tag}, tags=["systematic", "perfect" if not ext else "ext"]))
    # repetition / SPC
    for n in range(1, 9 if quick else 17):
        cat.append(Code("RepetitionCodeEncoder", "n=%d" % n, (lambda n=n: E.RepetitionCodeEncoder(n)), {"n": n}))
    for k in range(1, 9 if quick else 17):
        cat.append(Code("SingleParityCheckCodeEncoder", "k=%d" % k, (lambda k=k: E.SingleParityCheckCodeEncoder(k)), {"k": k}))
    # Reed-Muller
    for m in range(1, 6 if quick else 7):
        for r in range(0, m):
            if 2 ** m > max_n:
                continue
            cat.append(Code("ReedMullerCodeEncoder", "r=%d,m=%d" % (r, m), (lambda r=r, m=m: E.ReedMullerCodeEncoder(r, m)), {"r": r, "m": m}))
    # cyclic: every divisor of X^n+1
    for n in ([3, 5, 7, 9, 15] if quick else [3, 5, 6, 7, 9, 10, 12, 14, 15, 17, 18, 21]):
        divs = divisors_of_xn1(n)
        if quick and len(divs) > 6:
            divs = rng.sample(divs, 6)
        for g in divs:
            for tag in ("left", "right"):
                cat.append(Code("CyclicCodeEncoder", "n=%d,g=%d,information_set=%s" % (n, g, tag),
                                (lambda n=n, g=g, tag=tag: E.CyclicCodeEncoder(n, generator_polynomial=g, information_set=tag)),
                                {"n": n, "g": g, "iset": tag}, tags=["cyclic"]))
    # the enumeration boundary of CyclicCodeEncoder.minimum_distance (dimension 12): dimensions 11..13 at larger n
    for n in (18, 20, 21):
        for g in divisors_of_xn1(n):
            if n - (g.bit_length() - 1) in (11, 12, 13) and (not quick or g % 3 != 1 or n == 18):
                cat.append(Code("CyclicCodeEncoder", "n=%d,g=%d,information_set=right" % (n, g),
                                (lambda n=n, g=g: E.CyclicCodeEncoder(n, generator_polynomial=g, information_set="right")),
                                {"n": n, "g": g, "iset": "right"}, tags=["cyclic"]))
    for nm in ("Hamming(7,4)", "Golay(23,12)", "BCH(15,7)", "BCH(15,5)", "Hamming(15,11)"):
        cat.append(Code("CyclicCodeEncoder", "standard=%s" % nm, (lambda nm=nm: E.CyclicCodeEncoder.create_standard_code(nm)), {"std": nm, "iset": "left"}, tags=["cyclic"]))
    # BCH
    for mu in range(2, 7):
        n = 2 ** mu - 1
        try:
            from kaira.models.fec.encoders.bch_code import get_valid_bose_distances
            deltas = get_valid_bose_distances(mu)
        except Exception:
            deltas = list(range(2, n + 1))
        for delta in deltas:
            if n > max_n and 5 < delta < 27:      # quick tier: of the length-63 codes only the high-rate ones and the two lowest-rate ones (redundancy >= 54)
                continue
            for tag in ("left", "right"):
                cat.append(Code("BCHCodeEncoder", "mu=%d,delta=%d,information_set=%s" % (mu, delta, tag),
                                (lambda mu=mu, delta=delta, tag=tag: E.BCHCodeEncoder(mu, delta, information_set=tag)),
                                {"mu": mu, "delta": delta, "iset": tag}, tags=["cyclic", "bch"]))
    # Reed-Solomon style
    for mu in range(2, 5):
        n = 2 ** mu - 1
        for delta in range(2, n):
            for tag in ("left", "right"):
                cat.append(Code("ReedSolomonCodeEncoder", "mu=%d,delta=%d,information_set=%s" % (mu, delta, tag),
                                (lambda mu=mu, delta=delta, tag=tag: E.ReedSolomonCodeEncoder(mu, delta, information_set=tag)),
                                {"mu": mu, "delta": delta, "iset": tag}, tags=["rs"]))
    # systematic from random parity sub-matrices x information sets
    for i in range(6 if quick else 30):
        k = rng.randint(1, 6)
        m = rng.randint(1, 6)
        P = [[rng.randint(0, 1) for _ in range(m)] for _ in range(k)]
        for tag, iset in info_sets(k + m, k):
            cat.append(Code("SystematicLinearBlockCodeEncoder", "P=%s,information_set=%s" % (P, tag),
                            (lambda P=P, iset=iset: E.SystematicLinearBlockCodeEncoder(torch.tensor(P, dtype=torch.float32), information_set=iset)),
                            {"P": P, "iset": tag}, tags=["systematic"]))
    # low-dimension systematic codes whose information positions straddle coordinates 8 and 32 (hash-table boundaries of small-int sets)
    for (n_, k_) in ((9, 3), (10, 3), (10, 4), (11, 4), (12, 3)) + (() if quick else ((36, 8), (34, 5), (13, 5), (9, 4))):
        m_ = n_ - k_
        P = [[rng.randint(0, 1) for _ in range(m_)] for _ in range(k_)]
        for r_ in P:
            if sum(r_) < 2:
                r_[rng.randrange(m_)] = 1
                r_[rng.randrange(m_)] = 1
        cross = sorted(rng.sample(range(0, 8), k_ - 1) + [rng.randrange(8, n_)]) if n_ < 32 else sorted(rng.sample(range(0, 32), k_ - 1) + [rng.randrange(32, n_)])
        for tag, iset in (("left", "left"), ("right", "right"), ("sorted%s" % cross, cross)):
            cat.append(Code("SystematicLinearBlockCodeEncoder", "P=%s,information_set=%s" % (P, tag),
                            (lambda P=P, iset=iset: E.SystematicLinearBlockCodeEncoder(torch.tensor(P, dtype=torch.float32), information_set=iset)),
                            {"P": P, "iset": tag}, tags=["systematic"]))
        G = [P[i] + [1 if j == i else 0 for j in range(k_)] for i in range(k_)]
        cat.append(Code("LinearBlockCodeEncoder", "G=%s" % G, (lambda G=G: E.LinearBlockCodeEncoder(torch.tensor(G, dtype=torch.float32))), {"G": G}, tags=["generic"]))
    # generic: random full-rank non-systematic generators
    cnt = 0
    while cnt < (12 if quick else 100):
        k = rng.randint(1, 6 if quick else 8)
        n = rng.randint(k, min(k + 8, 16))
        gs = [rng.getrandbits(n) for _ in range(k)]
        if rank(gs) < k:
            continue
        G = [int_to_bits(g, n) for g in gs]
        cat.append(Code("LinearBlockCodeEncoder", "G=%s" % G, (lambda G=G: E.LinearBlockCodeEncoder(torch.tensor(G, dtype=torch.float32))), {"G": G}, tags=["generic"]))
        cnt += 1
    cat.append(Code("LinearBlockCodeEncoder", "G=3x7 literal", lambda: E.LinearBlockCodeEncoder(torch.tensor(
        [[1, 0, 0, 1, 1, 0, 1], [0, 1, 0, 1, 0, 1, 1], [0, 0, 1, 0, 1, 1, 1]], dtype=torch.float32)), {}, tags=["generic"]))
    # LDPC from user matrices (incl. rank deficient)
    fixed = [[[1, 1, 0, 1, 0, 0], [0, 1, 1, 0, 1, 0], [1, 0, 1, 0, 0, 1]],
             [[1, 1, 0, 1, 0, 0], [0, 1, 1, 0, 1, 0], [1, 0, 1, 1, 1, 0]],
             [[1, 1, 1, 1, 0, 0, 0], [0, 0, 1, 1, 1, 1, 0], [1, 1, 0, 0, 1, 1, 0], [0, 0, 0, 0, 0, 0, 0]]]
    # tall matrices (more checks than variables): the 7x7 circulant of the (7,4) Hamming code plus an overall parity row; redundant rows first
    circ = [[(0b1011000 >> ((j - i) % 7)) & 1 for j in range(7)] for i in range(7)]
    fixed.append(circ + [[1] * 7])
    fixed.append([[1, 1, 0, 0], [1, 1, 0, 0], [0, 0, 0, 0], [1, 1, 0, 0], [0, 1, 1, 0], [0, 0, 1, 1]])
    for H in fixed:
        cat.append(Code("LDPCCodeEncoder", "H=%s" % H, (lambda H=H: E.LDPCCodeEncoder(torch.tensor(H, dtype=torch.float32))), {"H": H}, tags=["ldpc"]))
    cnt = 0
    while cnt < (8 if quick else 60):
        n = rng.randint(4, 12 if quick else 20)
        m = rng.randint(1, n - 1)
        H = [[1 if rng.random() < 0.3 else 0 for _ in range(n)] for _ in range(m)]
        if cnt % 3 == 0 and m >= 2:
            H[-1] = [a ^ b for a, b in zip(H[0], H[1])]          # rank deficient
        if cnt % 4 == 1 and m >= 2:
            # tall: n + 2 rows, the first n of them combinations of the first m - 1 checks, an independent check only at the very end
            base = H[: m - 1]
            tall = [[sum(r[j] for r in rng.sample(base, rng.randint(1, len(base)))) % 2 for j in range(n)] for _ in range(n + 1)]
            H = tall + [H[m - 1]]
        if rank(rows_of(H)) == n:
            continue
        cat.append(Code("LDPCCodeEncoder", "H=%s" % H, (lambda H=H: E.LDPCCodeEncoder(torch.tensor(H, dtype=torch.float32))), {"H": H}, tags=["ldpc"]))
        cnt += 1
    return cat


def encode_all(enc, k, msgs):
    """encoder outputs (ints) for the messages (ints), one batched call"""
    import torch
    x = torch.tensor([int_to_bits(m, k) for m in msgs], dtype=torch.float32)
    with contextlib.redirect_stdout(io.StringIO()):
        y = enc(x)
    return [bits_to_int(r) for r in y.tolist()], y


def cNl(xs):
    return clist(xs, cN)


MOD = 2305843009213693951


def digest(vals):
    acc = 7
    for v in vals:
        acc = (acc * 1000003 + v + 1) % MOD
    return acc
