import argparse
import importlib
import json
import os
import sys
import traceback

sys.path.insert(0, os.path.dirname(os.path.abspath(__file__)))
import common  # noqa: E402


def main():
    ap = argparse.ArgumentParser()
    ap.add_argument("prop")
    ap.add_argument("--tier", default=os.environ.get("VERIF_TIER", "quick"), choices=["quick", "thorough"])
    ap.add_argument("--replay")
    ap.add_argument("--seed", type=int, default=int(os.environ.get("VERIF_SEED", "20260926")))
    a = ap.parse_args()
    prop = a.prop.upper()
    mod = importlib.import_module("props.%s" % prop.lower())
    if a.replay:
        rep = json.load(open(a.replay))
        return mod.replay(rep)
    ctx = common.Ctx(prop, a.tier, a.seed)
    try:
        mod.run(ctx)
    except Exception as ex:
        traceback.print_exc()
        frames = traceback.extract_tb(sys.exc_info()[2])
        in_impl = any(os.path.abspath(f.filename).startswith(os.path.abspath(common.REPO) + os.sep) for f in frames)
        if ctx.violations or ctx.broken or in_impl:
            # the implementation raised where the correspondence expects an answer, or the run stopped after concrete
            # violations had been recorded: the tie no longer checks; report what was found (never on the unchanged tree)
            where = next((f for f in reversed(frames) if os.path.abspath(f.filename).startswith(os.path.abspath(common.REPO) + os.sep)), frames[-1])
            ctx.broken.append("correspondence run stopped: %s: %s (at %s:%s)" % (type(ex).__name__, str(ex)[:200], where.filename, where.lineno))
            return ctx.finish(**getattr(mod, "FINISH", {}))
        # a crash of the machinery itself is a broken check (exit 2), never a pass and never a VIOLATION
        print("CHECK-ERROR property=%s (machinery failure, not a verdict)" % prop)
        import shutil
        shutil.rmtree(ctx.workdir, ignore_errors=True)
        return 2
    return ctx.finish(**getattr(mod, "FINISH", {}))


if __name__ == "__main__":
    sys.exit(main())
