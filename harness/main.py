import argparse
import importlib
import json
import os
import sys
import traceback

sys.path.insert(0, os.path.dirname(os.path.abspath(__file__)))
import common  # noqa: E402


def main():
    ap = argparse.ArgumentParser()
    ap.add_argument("prop")
    ap.add_argument("--tier", default=os.environ.get("VERIF_TIER", "quick"), choices=["quick", "thorough"])
    ap.add_argument("--replay")
    ap.add_argument("--seed", type=int, default=int(os.environ.get("VERIF_SEED", "20260926")))
    a = ap.parse_args()
    prop = a.prop.upper()
    mod = importlib.import_module("props.%s" % prop.lower())
    if a.replay:
        rep = json.load(open(a.replay))
        return mod.replay(rep)
    ctx = common.Ctx(prop, a.tier, a.seed)
    try:
        mod.run(ctx)
    except Exception:
        # a crash of the machinery is a broken check (exit 2), never a pass and never a VIOLATION
        traceback.print_exc()
        print("CHECK-ERROR property=%s (machinery failure, not a verdict)" % prop)
        import shutil
        shutil.rmtree(ctx.workdir, ignore_errors=True)
        return 2
    return ctx.finish(**getattr(mod, "FINISH", {}))


if __name__ == "__main__":
    sys.exit(main())
