(* LLR -> probability conversions and the decision rules of the LLR consumers in
   kaira/models/binary/soft_bit_thresholding.py, over the real numbers (Coq Reals).
   Convention of the property: LLR = log P(bit=0)/P(bit=1); P(bit=1) = sigmoid(-LLR). *)
From Coq Require Import Reals Lra.
Local Open Scope R_scope.

Definition sigmoid (x : R) : R := / (1 + exp (- x)).
Definition p1 (L : R) : R := sigmoid (- L).              (* probability that the bit is 1 *)

Lemma one_plus_exp_pos x : 0 < 1 + exp x.
Proof. pose proof (exp_pos x). lra. Qed.

Lemma sigmoid_pos x : 0 < sigmoid x.
Proof. unfold sigmoid. apply Rinv_0_lt_compat, one_plus_exp_pos. Qed.

Lemma sigmoid_lt_1 x : sigmoid x < 1.
Proof.
  unfold sigmoid. pose proof (exp_pos (- x)) as Hp. assert (H1 : 1 < 1 + exp (- x)) by lra.
  pose proof (Rinv_lt_contravar 1 (1 + exp (- x)) ltac:(lra) H1) as H2. rewrite Rinv_1 in H2. exact H2.
Qed.

Lemma sigmoid_0 : sigmoid 0 = / 2.
Proof. unfold sigmoid. rewrite Ropp_0, exp_0. replace (1 + 1) with 2 by lra. reflexivity. Qed.

Lemma sigmoid_increasing x y : x < y -> sigmoid x < sigmoid y.
Proof.
  intro H. unfold sigmoid. apply Rinv_lt_contravar.
  - apply Rmult_lt_0_compat; apply one_plus_exp_pos.
  - apply Rplus_lt_compat_l. apply exp_increasing. lra.
Qed.

Lemma sigmoid_neg x : sigmoid (- x) = 1 - sigmoid x.
Proof.
  unfold sigmoid. rewrite Ropp_involutive. pose proof (exp_pos x) as Hp.
  rewrite exp_Ropp. field. split; [lra|]. pose proof (Rinv_0_lt_compat _ Hp).
  intro E. assert (exp x * (1 + / exp x) = exp x + 1) by (field; lra). nra.
Qed.

(* P(bit=1) is strictly decreasing in the LLR, equals 1/2 at 0 *)
Theorem p1_decreasing L1 L2 : L1 < L2 -> p1 L2 < p1 L1.
Proof. intro H. unfold p1. apply sigmoid_increasing. lra. Qed.
Theorem p1_at_0 : p1 0 = / 2.
Proof. unfold p1. rewrite Ropp_0. apply sigmoid_0. Qed.
Theorem p1_gt_half_iff L : / 2 < p1 L <-> L < 0.
Proof.
  rewrite <- p1_at_0. split; intro H.
  - destruct (Rlt_le_dec L 0) as [Hl|Hg]; [exact Hl|]. exfalso.
    destruct (Rle_lt_or_eq_dec 0 L Hg) as [Hp|He]; [pose proof (p1_decreasing 0 L Hp); lra|subst; lra].
  - now apply p1_decreasing.
Qed.
Theorem p1_lt_half_iff L : p1 L < / 2 <-> 0 < L.
Proof.
  rewrite <- p1_at_0. split; intro H.
  - destruct (Rlt_le_dec 0 L) as [Hl|Hg]; [exact Hl|]. exfalso.
    destruct (Rle_lt_or_eq_dec L 0 Hg) as [Hp|He]; [pose proof (p1_decreasing L 0 Hp); lra|subst; lra].
  - now apply p1_decreasing.
Qed.

(* ---- consumers ---- *)
(* thresholding P(bit=1) against t (Weighted with weight 1, Dynamic / Adaptive with their current threshold):
   the decision is monotone: if an LLR is decided 1, every smaller LLR is too *)
Definition decide_thr (t L : R) : bool := if Rlt_dec t (p1 L) then true else false.
Theorem decide_thr_monotone t L1 L2 : L1 <= L2 -> decide_thr t L2 = true -> decide_thr t L1 = true.
Proof.
  unfold decide_thr. intros Hle H. destruct (Rlt_dec t (p1 L2)) as [H2|]; [|discriminate].
  destruct (Rlt_dec t (p1 L1)) as [|Hn]; [reflexivity|]. exfalso. apply Hn.
  destruct (Rle_lt_or_eq_dec _ _ Hle) as [Hlt|He]; [pose proof (p1_decreasing _ _ Hlt); lra|rewrite He; exact H2].
Qed.
(* with the neutral threshold 1/2: bit 1 iff the LLR is negative *)
Theorem decide_half_polarity L : decide_thr (/ 2) L = true <-> L < 0.
Proof.
  unfold decide_thr. destruct (Rlt_dec (/ 2) (p1 L)) as [H|H].
  - split; [intros _; now apply p1_gt_half_iff|reflexivity].
  - split; [discriminate|]. intro Hl. exfalso. apply H. now apply p1_gt_half_iff.
Qed.

(* LLRThresholder (hard): scaled LLR < threshold, threshold 0, positive confidence scaling *)
Definition decide_llr (scale thr L : R) : bool := if Rlt_dec (L * scale) thr then true else false.
Theorem decide_llr_polarity scale L : 0 < scale -> (decide_llr scale 0 L = true <-> L < 0).
Proof.
  intro Hs. unfold decide_llr. destruct (Rlt_dec (L * scale) 0) as [H|H].
  - split; [intros _|reflexivity]. destruct (Rlt_le_dec L 0) as [|Hg]; [assumption|]. exfalso.
    assert (0 <= L * scale) by (apply Rmult_le_pos; lra). lra.
  - split; [discriminate|]. intro Hl. exfalso. apply H. assert (0 < - L * scale) by (apply Rmult_lt_0_compat; lra). lra.
Qed.

(* Hysteresis: state machine per element; from the reset state 0 a positive LLR never produces a 1, and a 1 is only
   produced by a negative LLR, whenever low <= 1/2 <= high *)
Definition hyst_step (hi lo : R) (st : bool) (L : R) : bool :=
  if Rlt_dec hi (p1 L) then true else if Rlt_dec (p1 L) lo then false else st.
Theorem hyst_polarity hi lo st L : lo <= / 2 <= hi ->
  (hyst_step hi lo st L = true -> L < 0 \/ st = true) /\ (0 < L -> hyst_step hi lo false L = false).
Proof.
  intros [Hlo Hhi]. unfold hyst_step. split.
  - destruct (Rlt_dec hi (p1 L)) as [H|_].
    + intros _. left. apply p1_gt_half_iff. lra.
    + destruct (Rlt_dec (p1 L) lo); [discriminate|]. intro E. now right.
  - intro Hp. apply p1_lt_half_iff in Hp. destruct (Rlt_dec hi (p1 L)); [lra|]. destruct (Rlt_dec (p1 L) lo); reflexivity.
Qed.
Fixpoint hyst_run (hi lo : R) (st : bool) (Ls : list R) : bool :=
  match Ls with nil => st | cons L t => hyst_run hi lo (hyst_step hi lo st L) t end.
(* over any history of positive LLRs the state never leaves 0 *)
Theorem hyst_positive_history hi lo Ls : lo <= / 2 <= hi -> (forall L, List.In L Ls -> 0 < L) -> hyst_run hi lo false Ls = false.
Proof.
  intros Hb. induction Ls as [|L t IH]; intro Hall; [reflexivity|]. simpl.
  rewrite (proj2 (hyst_polarity hi lo false L Hb) (Hall L (or_introl eq_refl))). apply IH. intros; apply Hall; now right.
Qed.
