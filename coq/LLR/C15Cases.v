From Coq Require Import List String.
From KV Require Import Gen.Thresholds.
Definition polarity_table : list (string * bool) := map (fun e => (fst (fst e), polarity_ok e)) thresholders.
