(* Producers and consumers compose: the noise-free soft output of any demodulator whose constant c is positive,
   fed to a consumer that decides "bit 1 iff LLR < 0", reproduces the transmitted bit. *)
From Coq Require Import QArith List Bool Arith Lqa.
From KV Require Import Mod.Constellation Mod.Demod Mod.DemodFacts.
Import ListNotations.

Definition llr_consumer (L : Q) : bool := if Qlt_le_dec L 0 then true else false.   (* sign_to_bin / llr_to_bits / LLRThresholder *)

Lemma scaled_sign c D s : 0 < c -> 0 < s -> (c * D / s < 0 <-> D < 0) /\ (0 < c * D / s <-> 0 < D).
Proof.
  intros Hc Hs. assert (Hi : 0 < / s) by now apply Qinv_lt_0_compat.
  assert (Hk : 0 < c * / s) by (apply Qmult_lt_0_compat; assumption).
  assert (E : c * D / s == (c * / s) * D) by (unfold Qdiv; ring). rewrite E. split; split; intro H.
  - destruct (Qlt_le_dec D 0) as [|Hg]; [assumption|]. exfalso. assert (0 <= c * / s * D) by (apply Qmult_le_0_compat; lra). lra.
  - setoid_replace (c * / s * D) with (- ((c * / s) * (- D))) by ring. assert (0 < (c * / s) * - D) by (apply Qmult_lt_0_compat; lra). lra.
  - destruct (Qlt_le_dec 0 D) as [|Hg]; [assumption|]. exfalso.
    setoid_replace (c * / s * D) with (- ((c * / s) * (- D))) in H by ring. assert (0 <= (c * / s) * - D) by (apply Qmult_le_0_compat; lra). lra.
  - apply Qmult_lt_0_compat; assumption.
Qed.

Theorem producer_consumer_compose tbl : table_ok tbl = true -> forall e i c s, In e tbl -> 0 < c -> 0 < s ->
  ~ llr_core tbl i (fst e) == 0 ->
  llr_consumer (c * llr_core tbl i (fst e) / s) = nth i (snd e) false.
Proof.
  intros Hok e i c s Hin Hc Hs Hnz.
  assert (Hne : tbl <> []) by (destruct tbl; [destruct Hin|discriminate]).
  destruct (llr_sign_agrees_with_hard tbl i (fst e) Hne) as [Hp Hn].
  destruct (table_roundtrip tbl Hok e Hin) as [_ Hh]. rewrite Hh in Hp, Hn.
  destruct (scaled_sign c (llr_core tbl i (fst e)) s Hc Hs) as [[S1 S2] [S3 S4]].
  unfold llr_consumer. destruct (Qlt_le_dec (c * llr_core tbl i (fst e) / s) 0) as [Hl|Hg].
  - symmetry. apply Hn. now apply S1.
  - symmetry. apply Hp. destruct (Qlt_le_dec 0 (llr_core tbl i (fst e))) as [|Hle]; [assumption|]. exfalso.
    destruct (Qlt_le_dec (llr_core tbl i (fst e)) 0) as [Hneg|Hge]; [apply S2 in Hneg; lra|]. apply Hnz. lra.
Qed.
