(* Tensor layout model used by the FEC entry points (kaira/models/fec/utils.py apply_blockwise):
   the last dimension of length b*bs is viewed as b blocks of bs entries, a per-block function is applied,
   and the results are flattened again; leading batch dimensions are nested lists.
   Also the scatter/gather of SystematicLinearBlockCodeEncoder.forward / project_word.  No proofs here. *)
From Coq Require Import List Bool Arith.
Import ListNotations.

Fixpoint chunks_fuel {A} (fuel bs : nat) (l : list A) : list (list A) :=
  match fuel with
  | O => []
  | S f => match l with [] => [] | _ => firstn bs l :: chunks_fuel f bs (skipn bs l) end
  end.
Definition chunks {A} (bs : nat) (l : list A) : list (list A) := chunks_fuel (length l) bs l.

(* apply_blockwise on a 1-D tensor: None = AssertionError (length not divisible by the block size) *)
Definition blockwise {A B} (bs : nat) (f : list A -> list B) (x : list A) : option (list B) :=
  if (bs =? 0) then None else
  if (Nat.modulo (length x) bs =? 0) then Some (concat (map f (chunks bs x))) else None.
(* one leading batch dimension: every row separately; all rows have the same length *)
Fixpoint all_some {A} (l : list (option A)) : option (list A) :=
  match l with
  | [] => Some []
  | None :: _ => None
  | Some x :: t => match all_some t with Some r => Some (x :: r) | None => None end
  end.
Definition blockwise2 {A B} (bs : nat) (f : list A -> list B) (x : list (list A)) : option (list (list B)) :=
  all_some (map (blockwise bs f) x).

(* systematic encoding: codewords[info] = message; codewords[parity] = parity bits (parity written last) *)
Fixpoint index_of (j : nat) (l : list nat) (i : nat) : option nat :=
  match l with [] => None | p :: t => if (p =? j) then Some i else index_of j t (S i) end.
Definition scatter (n : nat) (info par : list nat) (m p : list bool) : list bool :=
  map (fun j => match index_of j par 0 with
                | Some i => nth i p false
                | None => match index_of j info 0 with Some i => nth i m false | None => false end
                end) (seq 0 n).
(* project_word: x[..., information_set] *)
Definition gather (info : list nat) (x : list bool) : list bool := map (fun j => nth j x false) info.
