From Coq Require Import NArith List Bool Arith Lia.
From KV Require Import Base.GF2.
Import ListNotations.
Local Open Scope N_scope.

(* a small decision procedure for identities between xor/and expressions: compare bit by bit *)
Ltac bits_solve :=
  apply N.bits_inj; intro; repeat (rewrite N.lxor_spec || rewrite N.land_spec || rewrite N.lor_spec || rewrite N.bits_0);
  repeat match goal with |- context [N.testbit ?a ?i] => destruct (N.testbit a i) end; reflexivity.

Lemma odd_lxor x y : N.odd (N.lxor x y) = xorb (N.odd x) (N.odd y).
Proof. rewrite <- !N.bit0_odd. apply N.lxor_spec. Qed.
Lemma div2_lxor x y : N.div2 (N.lxor x y) = N.lxor (N.div2 x) (N.div2 y).
Proof. rewrite !N.div2_spec. apply N.shiftr_lxor. Qed.

Lemma comb_0 rows : comb 0 rows = 0.
Proof. induction rows as [|r t IH]; simpl; [reflexivity|]. exact IH. Qed.

Theorem comb_lxor rows : forall x y, comb (N.lxor x y) rows = N.lxor (comb x rows) (comb y rows).
Proof.
  induction rows as [|r t IH]; intros x y; cbn [comb]; [reflexivity|].
  rewrite odd_lxor, div2_lxor, IH. destruct (N.odd x), (N.odd y); cbn [xorb]; bits_solve.
Qed.

Lemma parity_double x : parity (N.double x) = parity x. Proof. destruct x; reflexivity. Qed.
Lemma parity_succ_double x : parity (N.succ_double x) = negb (parity x). Proof. destruct x; reflexivity. Qed.

Lemma parity_pos_lxor p : forall q, parity (Pos.lxor p q) = xorb (parity_pos p) (parity_pos q).
Proof.
  induction p as [p IH|p IH|]; intros [q|q|]; cbn [Pos.lxor parity_pos];
    rewrite ?parity_double, ?parity_succ_double, ?IH; cbn [parity parity_pos];
    try (destruct (parity_pos p), (parity_pos q); reflexivity);
    try (destruct (parity_pos p); reflexivity); try (destruct (parity_pos q); reflexivity); reflexivity.
Qed.
Theorem parity_lxor x y : parity (N.lxor x y) = xorb (parity x) (parity y).
Proof.
  destruct x as [|p].
  - rewrite N.lxor_0_l. change (parity 0) with false. now destruct (parity y).
  - destruct y as [|q].
    + rewrite N.lxor_0_r. change (parity 0) with false. now destruct (parity (N.pos p)).
    + apply parity_pos_lxor.
Qed.

Lemma land_lxor_l x y h : N.land (N.lxor x y) h = N.lxor (N.land x h) (N.land y h).
Proof. bits_solve. Qed.
Theorem dot_lxor x y h : dot (N.lxor x y) h = xorb (dot x h) (dot y h).
Proof. unfold dot. rewrite land_lxor_l. apply parity_lxor. Qed.

Lemma b2n_xorb a b : N.b2n (xorb a b) = N.lxor (N.b2n a) (N.b2n b).
Proof. destruct a, b; reflexivity. Qed.
Lemma double_lxor' a b : N.double (N.lxor a b) = N.lxor (N.double a) (N.double b).
Proof. destruct a as [|p], b as [|q]; cbn; try reflexivity. Qed.

Theorem syndN_lxor hs : forall x y, syndN (N.lxor x y) hs = N.lxor (syndN x hs) (syndN y hs).
Proof.
  induction hs as [|h t IH]; intros x y; cbn [syndN]; [reflexivity|].
  rewrite dot_lxor, b2n_xorb, IH, double_lxor'. bits_solve.
Qed.
Lemma syndN_0 hs : syndN 0 hs = 0.
Proof. induction hs as [|h t IH]; cbn [syndN]; [reflexivity|]. rewrite IH. reflexivity. Qed.

(* ---- two additive maps that agree on the unit vectors e_0 .. e_(n-1) agree on every x < 2^n ---- *)
Definition additive (f : N -> N) := forall a b, f (N.lxor a b) = N.lxor (f a) (f b).
Lemma additive_0 f : additive f -> f 0 = 0.
Proof.
  intro H. specialize (H 0 0). rewrite N.lxor_0_r in H.
  rewrite N.lxor_nilpotent in H. exact H.
Qed.

Lemma split_top x n : 2 ^ n <= x -> x < 2 ^ N.succ n -> x = N.lxor (x - 2 ^ n) (2 ^ n).
Proof.
  intros H1 H2. rewrite N.pow_succ_r' in H2.
  assert (Hy : x - 2 ^ n < 2 ^ n) by lia.
  rewrite <- N.add_nocarry_lxor; [lia|].
  apply N.bits_inj. intro i. rewrite N.land_spec, N.bits_0, N.pow2_bits_eqb.
  destruct (N.eqb_spec n i) as [->|Hne]; [|apply andb_false_r].
  rewrite andb_true_r. destruct (N.eq_dec (x - 2 ^ i) 0) as [->|Hnz]; [apply N.bits_0|].
  apply N.bits_above_log2. apply N.log2_lt_pow2; lia.
Qed.

Theorem linear_ext f g (n : nat) : additive f -> additive g ->
  (forall i, (i < n)%nat -> f (2 ^ N.of_nat i) = g (2 ^ N.of_nat i)) ->
  forall x, x < 2 ^ N.of_nat n -> f x = g x.
Proof.
  intros Hf Hg. induction n as [|n IH]; intros Hb x Hx.
  - simpl in Hx. assert (x = 0) by lia. subst. now rewrite (additive_0 f Hf), (additive_0 g Hg).
  - rewrite Nat2N.inj_succ in Hx. destruct (N.lt_ge_cases x (2 ^ N.of_nat n)) as [Hlt|Hge].
    + apply IH; [intros i Hi; apply Hb; lia|assumption].
    + rewrite (split_top x (N.of_nat n) Hge Hx). rewrite Hf, Hg. f_equal.
      * apply IH; [intros i Hi; apply Hb; lia|]. rewrite N.pow_succ_r' in Hx. lia.
      * apply Hb. lia.
Qed.

Lemma forallb_basis (P : N -> bool) n : forallb P (basis n) = true -> forall i, (i < n)%nat -> P (2 ^ N.of_nat i) = true.
Proof.
  unfold basis. rewrite forallb_forall. intros H i Hi. apply H. apply in_map_iff. exists i. split; [reflexivity|].
  apply in_seq. lia.
Qed.

(* ---- soundness of the checkers ---- *)
(* every codeword m.G has zero syndrome *)
Theorem rows_in_kernel_sound gs hs : rows_in_kernel gs hs = true -> forall m, syndN (comb m gs) hs = 0.
Proof.
  unfold rows_in_kernel. induction gs as [|g t IH]; intros H m; cbn [comb]; [apply syndN_0|].
  simpl in H. apply andb_true_iff in H. destruct H as [Hg Ht]. apply N.eqb_eq in Hg.
  rewrite syndN_lxor, (IH Ht). destruct (N.odd m); [rewrite Hg|rewrite syndN_0]; reflexivity.
Qed.

(* the encoder is injective on k-bit messages, with R as an explicit inverse on the code *)
Theorem right_inverse_sound k gs rs : right_inverse_ok k gs rs = true ->
  (forall m, m < 2 ^ N.of_nat k -> comb (comb m gs) rs = m) /\
  (forall m m', m < 2 ^ N.of_nat k -> m' < 2 ^ N.of_nat k -> comb m gs = comb m' gs -> m = m').
Proof.
  intro H. assert (Hall : forall m, m < 2 ^ N.of_nat k -> comb (comb m gs) rs = m).
  { apply (linear_ext (fun m => comb (comb m gs) rs) (fun m => m) k).
    - intros a b. now rewrite !comb_lxor.
    - intros a b. reflexivity.
    - intros i Hi. apply N.eqb_eq. apply (forallb_basis (fun e => comb (comb e gs) rs =? e) k H i Hi). }
  split; [exact Hall|]. intros m m' Hm Hm' E. rewrite <- (Hall m Hm), <- (Hall m' Hm'), E. reflexivity.
Qed.

(* every word of length n with zero syndrome is the codeword of the message x.R *)
Theorem kernel_cert_sound n gs hs rs ts : kernel_cert_ok n gs hs rs ts = true ->
  forall x, x < 2 ^ N.of_nat n -> syndN x hs = 0 -> x = comb (comb x rs) gs.
Proof.
  intros H x Hx Hs.
  assert (E : N.lxor (comb (comb x rs) gs) (comb (syndN x hs) ts) = x).
  { apply (linear_ext (fun x => N.lxor (comb (comb x rs) gs) (comb (syndN x hs) ts)) (fun x => x) n); [| |
      intros i Hi; apply N.eqb_eq; apply (forallb_basis (fun e => N.lxor (comb (comb e rs) gs) (comb (syndN e hs) ts) =? e) n H i Hi)|assumption].
    - intros a b. rewrite syndN_lxor, !comb_lxor. bits_solve.
    - intros a b. reflexivity. }
  rewrite Hs, comb_0, N.lxor_0_r in E. now symmetry.
Qed.

(* G and H describe one and the same code *)
Lemma comb_land_ones gs : forall c k, length gs = k -> comb c gs = comb (N.land c (N.ones (N.of_nat k))) gs.
Proof.
  induction gs as [|g t IH]; intros c k Hl; [reflexivity|].
  destruct k as [|k]; [discriminate|]. simpl in Hl. injection Hl as Hl. cbn [comb]. f_equal.
  - rewrite <- !N.bit0_odd, N.land_spec. rewrite N.ones_spec_low by lia. now rewrite andb_true_r.
  - rewrite (IH (N.div2 c) k Hl). f_equal. rewrite !N.div2_spec. rewrite N.shiftr_land. f_equal.
    rewrite N.shiftr_div_pow2, N.ones_div_pow2 by lia. f_equal. lia.
Qed.

Theorem code_pair_sound n k gs hs rs ts : code_pair_ok n k gs hs rs ts = true ->
  length gs = k /\
  (forall m m', m < 2 ^ N.of_nat k -> m' < 2 ^ N.of_nat k -> comb m gs = comb m' gs -> m = m') /\
  (forall x, x < 2 ^ N.of_nat n -> (syndN x hs = 0 <-> exists m, m < 2 ^ N.of_nat k /\ x = comb m gs)).
Proof.
  unfold code_pair_ok. intro H.
  apply andb_true_iff in H. destruct H as [H Hker].
  apply andb_true_iff in H. destruct H as [H Hri].
  apply andb_true_iff in H. destruct H as [H Hrows].
  apply andb_true_iff in H. destruct H as [H _].
  apply andb_true_iff in H. destruct H as [Hlen _].
  apply Nat.eqb_eq in Hlen. destruct (right_inverse_sound k gs rs Hri) as [Hinv Hinj].
  split; [assumption|]. split; [assumption|]. intros x Hx. split.
  - intro Hs. pose proof (kernel_cert_sound n gs hs rs ts Hker x Hx Hs) as E.
    exists (N.land (comb x rs) (N.ones (N.of_nat k))). split.
    + rewrite N.land_ones. apply N.mod_lt. apply N.pow_nonzero. discriminate.
    + rewrite <- (comb_land_ones gs (comb x rs) k Hlen). exact E.
  - intros [m [_ ->]]. now apply rows_in_kernel_sound.
Qed.

(* independence + span: the row space of hs has dimension exactly d *)
Lemma combine_nth_error {A B} : forall (l : list A) (l' : list B) i a b,
  nth_error l i = Some a -> nth_error l' i = Some b -> In (a, b) (combine l l').
Proof.
  induction l as [|a0 l IH]; intros [|b0 l'] [|i] a b Ha Hb; simpl in *; try discriminate.
  - injection Ha as ->. injection Hb as ->. now left.
  - right. eapply IH; eassumption.
Qed.

Theorem rowspace_dim_sound d hs bs ls cs ds : rowspace_dim_ok d hs bs ls cs ds = true ->
  length bs = d /\
  (forall c, c < 2 ^ N.of_nat d -> comb c bs = 0 -> c = 0) /\
  (forall h, In h hs -> exists c, h = comb c bs) /\
  (forall b, In b bs -> exists c, b = comb c hs).
Proof.
  unfold rowspace_dim_ok. intro H.
  apply andb_true_iff in H. destruct H as [H Hds].
  apply andb_true_iff in H. destruct H as [H Hld].
  apply andb_true_iff in H. destruct H as [H Hcs].
  apply andb_true_iff in H. destruct H as [H Hlc].
  apply andb_true_iff in H. destruct H as [Hlb Hinvb].
  apply Nat.eqb_eq in Hlb, Hld, Hlc. rewrite forallb_forall in Hcs, Hds.
  split; [assumption|].
  destruct (right_inverse_sound d bs ls Hinvb) as [Hinv _].
  split; [intros c Hc E; rewrite <- (Hinv c Hc), E; apply comb_0|].
  split.
  - intros h Hin. apply In_nth_error in Hin. destruct Hin as [i Hi].
    assert (Hlt : (i < length cs)%nat) by (rewrite Hlc; apply nth_error_Some; congruence).
    destruct (nth_error cs i) as [c|] eqn:Ec; [|apply nth_error_None in Ec; lia].
    exists c. symmetry. apply N.eqb_eq. apply (Hcs (h, c)). eapply combine_nth_error; eassumption.
  - intros b Hin. apply In_nth_error in Hin. destruct Hin as [i Hi].
    assert (Hlt : (i < length ds)%nat) by (rewrite Hld, <- Hlb; apply nth_error_Some; congruence).
    destruct (nth_error ds i) as [c|] eqn:Ec; [|apply nth_error_None in Ec; lia].
    exists c. symmetry. apply N.eqb_eq. apply (Hds (b, c)). eapply combine_nth_error; eassumption.
Qed.

(* minimum distance by enumeration: every non-zero message gives a codeword of weight >= d *)
Lemma minw_from_sound fuel : forall m gs d, minw_from fuel m gs d = true ->
  forall j, m <= j -> j < m + N.of_nat fuel -> (d <= wt (comb j gs))%nat.
Proof.
  induction fuel as [|f IH]; intros m gs d H j Hj1 Hj2; [lia|].
  cbn [minw_from] in H. apply andb_true_iff in H. destruct H as [H1 H2].
  destruct (N.eq_dec j m) as [->|Hne]; [now apply Nat.leb_le|].
  apply (IH (N.succ m) gs d H2); lia.
Qed.
Theorem min_distance_ge_sound k gs d : min_distance_ge k gs d = true ->
  forall m, 0 < m -> m < 2 ^ N.of_nat k -> (d <= wt (comb m gs))%nat.
Proof.
  unfold min_distance_ge. intros H m H0 Hm. apply (minw_from_sound _ 1 gs d H m); [lia|].
  rewrite N2Nat.id. assert (0 < 2 ^ N.of_nat k) by (apply N.neq_0_lt_0, N.pow_nonzero; discriminate). lia.
Qed.

Lemma lt_pow2_bits_false a k i : a < 2 ^ k -> k <= i -> N.testbit a i = false.
Proof.
  intros Ha Hi. destruct (N.eq_dec a 0) as [->|Hn]; [apply N.bits_0|].
  apply N.bits_above_log2. apply N.lt_le_trans with k; [|assumption]. apply N.log2_lt_pow2; lia.
Qed.
Lemma lxor_lt_pow2 a b k : a < 2 ^ k -> b < 2 ^ k -> N.lxor a b < 2 ^ k.
Proof.
  intros Ha Hb. destruct (N.eq_dec (N.lxor a b) 0) as [->|Hn]; [apply N.neq_0_lt_0, N.pow_nonzero; discriminate|].
  apply N.log2_lt_pow2; [lia|]. apply N.nle_gt. intro Hle.
  pose proof (N.bit_log2 _ Hn) as Hbit. rewrite N.lxor_spec in Hbit.
  rewrite (lt_pow2_bits_false a k _ Ha Hle), (lt_pow2_bits_false b k _ Hb Hle) in Hbit. discriminate.
Qed.

(* distinct codewords of a linear code differ in at least d positions *)
Theorem min_distance_pairs k gs d : min_distance_ge k gs d = true ->
  forall m m', m < 2 ^ N.of_nat k -> m' < 2 ^ N.of_nat k -> m <> m' -> (d <= wt (N.lxor (comb m gs) (comb m' gs)))%nat.
Proof.
  intros H m m' Hm Hm' Hne. rewrite <- comb_lxor. apply (min_distance_ge_sound k gs d H).
  - apply N.neq_0_lt_0. intro E. apply N.lxor_eq in E. contradiction.
  - now apply lxor_lt_pow2.
Qed.

(* cyclic shift is additive, so closure needs checking on the generator rows only *)
Lemma rot_lxor n x y : rot n (N.lxor x y) = N.lxor (rot n x) (rot n y).
Proof. unfold rot. rewrite N.shiftl_lxor, N.shiftr_lxor. bits_solve. Qed.

Theorem shift_closed_sound n gs hs : shift_closed_ok n gs hs = true -> forall m, syndN (rot n (comb m gs)) hs = 0.
Proof.
  unfold shift_closed_ok. induction gs as [|g t IH]; intros H m; cbn [comb].
  - unfold rot. rewrite N.shiftl_0_l, N.shiftr_0_l. cbn. apply syndN_0.
  - simpl in H. apply andb_true_iff in H. destruct H as [Hg Ht]. apply N.eqb_eq in Hg.
    rewrite rot_lxor, syndN_lxor, (IH Ht). destruct (N.odd m); [rewrite Hg; reflexivity|].
    unfold rot. rewrite N.shiftl_0_l, N.shiftr_0_l. cbn. rewrite syndN_0. reflexivity.
Qed.
