From Coq Require Import List Bool Arith Lia.
From KV Require Import Base.Layout.
Import ListNotations.

Lemma chunks_fuel_concat {A} f : forall bs (l : list A), 0 < bs -> length l <= f -> concat (chunks_fuel f bs l) = l.
Proof.
  induction f as [|f IH]; intros bs l Hbs Hl.
  - destruct l; [reflexivity|simpl in Hl; lia].
  - destruct l as [|x l]; [reflexivity|]. cbn [chunks_fuel concat].
    rewrite IH; [apply firstn_skipn|assumption|]. rewrite skipn_length. cbn [length] in *. lia.
Qed.
Lemma concat_chunks {A} bs (l : list A) : 0 < bs -> concat (chunks bs l) = l.
Proof. intro H. apply chunks_fuel_concat; [assumption|lia]. Qed.

Lemma chunks_fuel_of_blocks {A} (blocks : list (list A)) : forall bs f, 0 < bs ->
  Forall (fun b => length b = bs) blocks -> length (concat blocks) <= f ->
  chunks_fuel f bs (concat blocks) = blocks.
Proof.
  induction blocks as [|b t IH]; intros bs f Hbs Hall Hf; simpl.
  - destruct f; reflexivity.
  - inversion Hall as [|? ? Hb Ht]; subst.
    destruct f as [|f]; [simpl in Hf; rewrite app_length in Hf; lia|].
    cbn [chunks_fuel]. destruct (b ++ concat t) eqn:E.
    + apply (f_equal (@length A)) in E. rewrite app_length in E. simpl in E. lia.
    + rewrite <- E. rewrite firstn_app, Nat.sub_diag, firstn_O, app_nil_r, firstn_all.
      rewrite skipn_app, Nat.sub_diag, skipn_all. simpl. f_equal.
      apply IH; [assumption|assumption|]. simpl in Hf. rewrite app_length in Hf. lia.
Qed.
Lemma chunks_of_blocks {A} (blocks : list (list A)) bs : 0 < bs ->
  Forall (fun b => length b = bs) blocks -> chunks bs (concat blocks) = blocks.
Proof. intros. apply chunks_fuel_of_blocks; auto. Qed.

Lemma chunks_fuel_lengths {A} f : forall bs (l : list A), 0 < bs -> length l <= f -> Nat.modulo (length l) bs = 0 ->
  Forall (fun b => length b = bs) (chunks_fuel f bs l).
Proof.
  induction f as [|f IH]; intros bs l Hbs Hl Hm; [constructor|].
  destruct l as [|x l]; [constructor|]. cbn [chunks_fuel].
  assert (Hge : bs <= length (x :: l)).
  { apply Nat.mod_divides in Hm; [|lia]. destruct Hm as [c Hc]. destruct c; [simpl in Hc; lia|]. nia. }
  constructor.
  - rewrite firstn_length. lia.
  - apply IH; [assumption|rewrite skipn_length; cbn [length] in *; lia|].
    rewrite skipn_length. apply Nat.mod_divides in Hm; [|lia]. destruct Hm as [c Hc].
    apply Nat.mod_divides; [lia|]. exists (c - 1). rewrite Hc. nia.
Qed.

Lemma concat_length_blocks {A} (blocks : list (list A)) bs :
  Forall (fun b => length b = bs) blocks -> length (concat blocks) = length blocks * bs.
Proof. induction 1 as [|b t Hb _ IH]; simpl; [reflexivity|]. rewrite app_length, IH, Hb. reflexivity. Qed.

(* Encoding followed by the inverse is the identity blockwise: for every per-block pair (enc, dec) with
   dec (enc m) = m on k-bit blocks and |enc m| = n, every number of blocks b and every input of length b*k:
   the encoded length is exactly b*n and decoding returns the input; a length that is not a multiple is rejected. *)
Theorem blockwise_roundtrip {A B} (k n : nat) (enc : list A -> list B) (dec : list B -> list A) (x : list A) :
  0 < k -> 0 < n ->
  (forall m, length m = k -> length (enc m) = n /\ dec (enc m) = m) ->
  Nat.modulo (length x) k = 0 ->
  exists y, blockwise k enc x = Some y /\ length y = (length x / k) * n /\ blockwise n dec y = Some x.
Proof.
  intros Hk Hn Hrt Hm. unfold blockwise at 1.
  destruct (Nat.eqb_spec k 0); [lia|]. rewrite Hm. cbn [Nat.eqb].
  eexists. split; [reflexivity|].
  pose proof (chunks_fuel_lengths (length x) k x Hk (le_n _) Hm) as Hch. fold (chunks k x) in Hch.
  assert (Hblocks : Forall (fun b => length b = n) (map enc (chunks k x))).
  { apply Forall_forall. intros b Hb. apply in_map_iff in Hb. destruct Hb as [m [<- Hin]].
    rewrite Forall_forall in Hch. apply (Hrt m (Hch m Hin)). }
  assert (Hnb : length (chunks k x) = length x / k).
  { pose proof (concat_length_blocks _ _ Hch) as E. rewrite concat_chunks in E by assumption.
    rewrite E. now rewrite Nat.div_mul by lia. }
  split.
  - rewrite (concat_length_blocks _ _ Hblocks), map_length, Hnb. reflexivity.
  - unfold blockwise. destruct (Nat.eqb_spec n 0); [lia|].
    rewrite (concat_length_blocks _ _ Hblocks), Nat.mod_mul by lia. cbn [Nat.eqb].
    rewrite (chunks_of_blocks _ n Hn Hblocks). rewrite map_map. f_equal.
    rewrite <- (concat_chunks k x Hk) at 2. f_equal.
    rewrite <- (map_id (chunks k x)) at 2. apply map_ext_in. intros m Hin.
    rewrite Forall_forall in Hch. apply (Hrt m (Hch m Hin)).
Qed.

Theorem blockwise_rejects {A B} bs (f : list A -> list B) x : Nat.modulo (length x) bs <> 0 -> blockwise bs f x = None.
Proof.
  intro H. unfold blockwise. destruct (Nat.eqb_spec bs 0); [reflexivity|].
  destruct (Nat.eqb_spec (Nat.modulo (length x) bs) 0); [contradiction|reflexivity].
Qed.

(* leading batch dimension: the round trip holds row by row *)
Lemma all_some_map_some {A B} (f : A -> option B) (g : A -> B) l :
  (forall a, In a l -> f a = Some (g a)) -> all_some (map f l) = Some (map g l).
Proof.
  induction l as [|a l IH]; intro H; simpl; [reflexivity|].
  rewrite (H a (or_introl eq_refl)), IH; [reflexivity|]. intros; apply H; now right.
Qed.

(* ---- systematic scatter / gather ---- *)
Lemma index_of_nth info : forall i base, NoDup info -> i < length info ->
  index_of (nth i info 0) info base = Some (base + i).
Proof.
  induction info as [|p t IH]; intros i base Hnd Hi; [simpl in Hi; lia|].
  inversion Hnd as [|? ? Hnotin Hnd']; subst. destruct i as [|i]; simpl.
  - rewrite Nat.eqb_refl. f_equal. lia.
  - destruct (Nat.eqb_spec p (nth i t 0)) as [E|_].
    + exfalso. apply Hnotin. rewrite E. apply nth_In. simpl in Hi. lia.
    + rewrite IH; [f_equal; lia|assumption|simpl in Hi; lia].
Qed.
Lemma index_of_none j l : forall base, ~ In j l -> index_of j l base = None.
Proof.
  induction l as [|p t IH]; intros base H; simpl; [reflexivity|].
  destruct (Nat.eqb_spec p j) as [->|_]; [exfalso; apply H; now left|]. apply IH. intro; apply H; now right.
Qed.

(* project_word (forward m) = m for every parity content, every message, every duplicate-free information set
   (any order: left, right, arbitrary, permuted) disjoint from the parity set *)
Lemma map_nth_in {A B} (f : A -> B) : forall l d d' i, i < length l -> nth i (map f l) d = f (nth i l d').
Proof. induction l as [|a l IH]; intros d d' i H; simpl in *; [lia|]. destruct i; [reflexivity|]. apply IH. lia. Qed.

Theorem gather_scatter n info par m p : NoDup info -> (forall j, In j info -> j < n) ->
  (forall j, In j info -> ~ In j par) -> length m = length info ->
  gather info (scatter n info par m p) = m.
Proof.
  intros Hnd Hlt Hdisj Hlen. unfold gather.
  apply nth_ext with (d := false) (d' := false); [now rewrite map_length|].
  intros i Hi. rewrite map_length in Hi.
  rewrite (map_nth_in _ info false 0 i Hi).
  set (j := nth i info 0). assert (Hj : In j info) by (apply nth_In; lia).
  unfold scatter. rewrite (map_nth_in _ (seq 0 n) false 0 j) by (rewrite seq_length; auto).
  rewrite seq_nth by auto. cbn [plus].
  rewrite (index_of_none j par 0 (Hdisj j Hj)). unfold j. rewrite (index_of_nth info i 0 Hnd Hi). reflexivity.
Qed.
