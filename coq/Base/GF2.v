(* GF(2) linear algebra on bit masks: a vector of length n is an N whose bit i is coordinate i; a matrix is the
   list of its rows.  These are the executable definitions behind the verified checkers that the kernel applies
   to the matrices the implementation publishes (generator_matrix, check_matrix, generator_right_inverse).
   No proofs here. *)
From Coq Require Import NArith List Bool.
Import ListNotations.
Local Open Scope N_scope.

(* x . A : the GF(2) linear combination of the rows of A selected by the bits of x (vector-matrix product) *)
Fixpoint comb (x : N) (rows : list N) : N :=
  match rows with
  | [] => 0
  | r :: t => N.lxor (if N.odd x then r else 0) (comb (N.div2 x) t)
  end.

Fixpoint parity_pos (p : positive) : bool :=
  match p with xH => true | xO q => parity_pos q | xI q => negb (parity_pos q) end.
Definition parity (x : N) : bool := match x with 0 => false | Npos p => parity_pos p end.
Definition dot (x y : N) : bool := parity (N.land x y).

(* x . H^T as a bit mask: bit j = <x, h_j> *)
Fixpoint syndN (x : N) (hs : list N) : N :=
  match hs with
  | [] => 0
  | h :: t => N.lxor (N.b2n (dot x h)) (N.double (syndN x t))
  end.

Fixpoint wt_pos (p : positive) : nat := match p with xH => 1%nat | xO q => wt_pos q | xI q => S (wt_pos q) end.
Definition wt (x : N) : nat := match x with 0 => O | Npos p => wt_pos p end.

Definition basis (n : nat) : list N := map (fun i => 2 ^ N.of_nat i) (seq 0 n).

(* ---- certificate checkers (certificates are computed by the untrusted harness) ---- *)
(* every row of G has zero syndrome *)
Definition rows_in_kernel (gs hs : list N) : bool := forallb (fun g => syndN g hs =? 0) gs.
(* R is a right inverse of G on messages: (e_i . G) . R = e_i for i < k *)
Definition right_inverse_ok (k : nat) (gs rs : list N) : bool :=
  forallb (fun e => comb (comb e gs) rs =? e) (basis k).
(* e_i = ((e_i . R) . G) xor (syndrome(e_i) . T) for i < n : every word is (a codeword) + (something determined by its syndrome) *)
Definition kernel_cert_ok (n : nat) (gs hs rs ts : list N) : bool :=
  forallb (fun e => N.lxor (comb (comb e rs) gs) (comb (syndN e hs) ts) =? e) (basis n).
(* all of the above plus shapes: what "G and H describe one code of length n and dimension k" needs *)
Definition code_pair_ok (n k : nat) (gs hs rs ts : list N) : bool :=
  Nat.eqb (length gs) k && forallb (fun g => g <? 2 ^ N.of_nat n) gs && forallb (fun h => h <? 2 ^ N.of_nat n) hs &&
  rows_in_kernel gs hs && right_inverse_ok k gs rs && kernel_cert_ok n gs hs rs ts.

(* the row space of hs has dimension d: a basis bs of d vectors, independent (left inverse ls), spanning every row
   of hs (coefficients cs), and lying in the row space (coefficients ds) *)
Definition rowspace_dim_ok (d : nat) (hs bs ls cs ds : list N) : bool :=
  Nat.eqb (length bs) d && forallb (fun e => comb (comb e bs) ls =? e) (basis d) &&
  Nat.eqb (length cs) (length hs) && forallb (fun hc => comb (snd hc) bs =? fst hc) (combine hs cs) &&
  Nat.eqb (length ds) d && forallb (fun bd => comb (snd bd) hs =? fst bd) (combine bs ds).

(* minimum weight over all non-zero messages m < 2^k, by enumeration *)
Fixpoint minw_from (fuel : nat) (m : N) (gs : list N) (d : nat) : bool :=
  match fuel with
  | O => true
  | S f => Nat.leb d (wt (comb m gs)) && minw_from f (N.succ m) gs d
  end.
Definition min_distance_ge (k : nat) (gs : list N) (d : nat) : bool :=
  minw_from (N.to_nat (2 ^ N.of_nat k - 1)) 1 gs d.

(* cyclic shift by one position within n coordinates *)
Definition rot (n : nat) (x : N) : N :=
  N.land (N.lxor (N.shiftl x 1) (N.shiftr x (N.of_nat n - 1))) (N.ones (N.of_nat n)).
(* the code (image of G = kernel of H, by code_pair_ok) is closed under cyclic shifts iff the shift of every
   generator row has zero syndrome *)
Definition shift_closed_ok (n : nat) (gs hs : list N) : bool := forallb (fun g => syndN (rot n g) hs =? 0) gs.
