(* Helpers for the generated case files of C01-C04 (no proofs). *)
From Coq Require Import NArith List Bool.
From KV Require Import Base.GF2.
Import ListNotations.
Local Open Scope N_scope.
Definition dig (acc v : N) : N := (acc * 1000003 + v + 1) mod 2305843009213693951.
Definition digest (l : list N) : N := fold_left dig l 7.
(* encoder outputs for the messages lo .. lo+cnt-1 *)
Definition enc_range (gs : list N) (lo : N) (cnt : nat) : N :=
  digest (map (fun i => comb (lo + N.of_nat i) gs) (seq 0 cnt)).
Definition enc_list (gs : list N) (ms : list N) : N := digest (map (fun m => comb m gs) ms).
Definition synd_list (hs : list N) (xs : list N) : N := digest (map (fun x => syndN x hs) xs).
(* everything C01 asks of one (G, H) pair *)
Definition c01_case (n k : nat) (gs hs rs ts : list N) (d : nat) (bs ls cs ds : list N) : list bool :=
  [code_pair_ok n k gs hs rs ts; rowspace_dim_ok d hs bs ls cs ds].

(* C03: distance / cyclic structure of one code; hs is a parity-check matrix validated by code_pair_ok in the same evaluation *)
Definition c03_distance (n k : nat) (gs hs rs ts : list N) (d : nat) : list bool :=
  [code_pair_ok n k gs hs rs ts; min_distance_ge k gs d; negb (min_distance_ge k gs (S d))].
