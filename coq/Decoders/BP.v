(* Flooding message passing on the Tanner graph of a parity-check matrix H (list of rows), as
   BeliefPropagationDecoder / MinSumLDPCDecoder perform it:  vc = posterior - cv ;  cv = Phi(vc over the OTHER edges
   of the check) ; posterior = channel LLR + sum of cv.  The check-node function Phi is a parameter (tanh rule for
   sum-product, sign-product times minimum for min-sum).  Exact rationals.  No proofs here. *)
From Coq Require Import List Bool Arith QArith.
Import ListNotations.

Definition getq (M : list (list Q)) (c v : nat) : Q := nth v (nth c M []) 0.
Definition edge (H : list (list bool)) (c v : nat) : bool := nth v (nth c H []) false.
Definition qsum (l : list Q) : Q := fold_right Qplus 0 l.

Section BP.
Variable Phi : list Q -> Q.
Variable H : list (list bool).
Variables nc nv : nat.

Definition post (L : list Q) (cv : list (list Q)) (v : nat) : Q :=
  nth v L 0 + qsum (map (fun c => if edge H c v then getq cv c v else 0) (seq 0 nc)).
Definition vcm (L : list Q) (cv : list (list Q)) (c v : nat) : Q := post L cv v - getq cv c v.
Definition other_vars (c v : nat) : list nat := filter (fun v' => edge H c v' && negb (v' =? v)%nat) (seq 0 nv).
Definition cv_next (L : list Q) (cv : list (list Q)) : list (list Q) :=
  map (fun c => map (fun v => if edge H c v
                              then match other_vars c v with [] => 0 | vs => Phi (map (vcm L cv c) vs) end
                              else 0) (seq 0 nv)) (seq 0 nc).
Fixpoint bp_iter (n : nat) (L : list Q) (cv : list (list Q)) : list (list Q) :=
  match n with O => cv | S n' => bp_iter n' L (cv_next L cv) end.
Definition zero_cv : list (list Q) := map (fun _ => map (fun _ => 0) (seq 0 nv)) (seq 0 nc).
Definition bp_posterior (n : nat) (L : list Q) : list Q := map (post L (bp_iter n L zero_cv)) (seq 0 nv).
Definition bp_decide (n : nat) (L : list Q) : list bool := map (fun y => if Qlt_le_dec y 0 then true else false) (bp_posterior n L).
End BP.

(* min-sum check update: product of signs times minimum magnitude, scaled, then offset towards... v - sign(v)*offset *)
Definition qabs (a : Q) : Q := if Qlt_le_dec a 0 then - a else a.
Definition qsgn (a : Q) : Q := if Qlt_le_dec a 0 then - (1) else if Qlt_le_dec 0 a then 1 else 0.
Definition qmin (a b : Q) : Q := if Qlt_le_dec b a then b else a.
Fixpoint sign_prod (l : list Q) : Q := match l with [] => 1 | a :: t => qsgn a * sign_prod t end.
Fixpoint min_abs (l : list Q) : Q := match l with [] => 0 | [a] => qabs a | a :: t => qmin (qabs a) (min_abs t) end.
Definition minsum_phi (scale offset : Q) (l : list Q) : Q :=
  let v := sign_prod l * min_abs l * scale in v - qsgn v * offset.
