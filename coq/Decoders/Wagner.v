(* Executable model of WagnerSoftDecisionDecoder (one block of n = k+1 soft values over Q): hard decisions r < 0,
   and when their parity is odd the first position of minimum |r| is flipped; the message is the first k bits.
   No proofs here. *)
From Coq Require Import List Bool Arith QArith.
Import ListNotations.

Definition qabs (a : Q) : Q := if Qlt_le_dec a 0 then - a else a.
Definition hard (r : list Q) : list bool := map (fun y => if Qlt_le_dec y 0 then true else false) r.
Definition parity (l : list bool) : bool := fold_right xorb false l.
(* torch.argmin over |r|: (index of the first minimum, its value) *)
Fixpoint minpos (r : list Q) : nat * Q :=
  match r with
  | [] => (O, 0)
  | y :: t => match t with
              | [] => (O, qabs y)
              | _ => let '(j, v) := minpos t in if Qlt_le_dec v (qabs y) then (S j, v) else (O, qabs y)
              end
  end.
Definition least_reliable (r : list Q) : nat := fst (minpos r).
Fixpoint flip_at (j : nat) (l : list bool) : list bool :=
  match l, j with
  | [], _ => []
  | b :: t, O => negb b :: t
  | b :: t, S j' => b :: flip_at j' t
  end.
Definition wagner_word (r : list Q) : list bool :=
  let h := hard r in if parity h then flip_at (least_reliable r) h else h.
Definition wagner (k : nat) (r : list Q) : list bool := firstn k (wagner_word r).
(* correlation of a candidate word with the soft values: sum (1 - 2 c_i) r_i *)
Fixpoint corr (c : list bool) (r : list Q) : Q :=
  match c, r with b :: c', y :: r' => (if b then - y else y) + corr c' r' | _, _ => 0 end.
