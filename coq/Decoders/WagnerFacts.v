From Coq Require Import List Bool Arith Lia QArith Lqa.
From KV Require Import Decoders.Wagner.
Import ListNotations.

Lemma qabs_nonneg a : 0 <= qabs a. Proof. unfold qabs. destruct (Qlt_le_dec a 0); lra. Qed.

(* total reliability lost by deviating from the hard decisions on the positions where c and h differ *)
Fixpoint loss (c h : list bool) (r : list Q) : Q :=
  match c, h, r with
  | b :: c', g :: h', y :: r' => (if xorb b g then qabs y else 0) + loss c' h' r'
  | _, _, _ => 0
  end.
Lemma loss_nonneg c : forall h r, 0 <= loss c h r.
Proof. induction c as [|b c IH]; intros [|g h] [|y r]; simpl; try lra. pose proof (IH h r). pose proof (qabs_nonneg y). destruct (xorb b g); lra. Qed.

Lemma corr_loss c : forall r, length c = length r -> corr c r == corr (hard r) r - 2 * loss c (hard r) r.
Proof.
  induction c as [|b c IH]; intros [|y r] Hl; simpl in *; try discriminate; [lra|].
  injection Hl as Hl. rewrite (IH r Hl). unfold qabs. destruct (Qlt_le_dec y 0); destruct b; simpl; lra.
Qed.

Lemma parity_differs c : forall h, length c = length h -> parity c <> parity h -> exists j, (j < length c)%nat /\ nth j c false <> nth j h false.
Proof.
  induction c as [|b c IH]; intros [|g h] Hl Hp; simpl in *; try discriminate; [congruence|].
  injection Hl as Hl. destruct (bool_dec b g) as [->|Hne].
  - destruct (IH h Hl) as [j [Hj Hd]]; [intro E; apply Hp; now rewrite E|]. exists (S j). split; [lia|assumption].
  - exists 0%nat. split; [lia|assumption].
Qed.

Lemma loss_ge_position c : forall h r j, length c = length h -> length h = length r -> (j < length c)%nat ->
  nth j c false <> nth j h false -> qabs (nth j r 0) <= loss c h r.
Proof.
  induction c as [|b c IH]; intros [|g h] [|y r] j H1 H2 Hj Hd; simpl in *; try discriminate; try lia.
  destruct j as [|j].
  - pose proof (loss_nonneg c h r). destruct b, g; simpl in *; try congruence; lra.
  - injection H1 as H1. injection H2 as H2. pose proof (IH h r j H1 H2 ltac:(lia) Hd).
    pose proof (qabs_nonneg y). destruct (xorb b g); lra.
Qed.

(* the first-argmin index points at a minimum of |r| *)
Lemma minpos_spec r : r <> [] ->
  (fst (minpos r) < length r)%nat /\ snd (minpos r) == qabs (nth (fst (minpos r)) r 0) /\
  forall t, (t < length r)%nat -> snd (minpos r) <= qabs (nth t r 0).
Proof.
  induction r as [|y r IH]; intro Hne; [contradiction|].
  destruct r as [|z r'].
  - cbn [minpos fst snd length]. split; [lia|]. split; [reflexivity|]. intros t Ht. assert (t = 0%nat) by (cbn [length] in Ht; lia). subst. cbn [nth]. lra.
  - specialize (IH ltac:(discriminate)). destruct IH as [H1 [H2 H3]].
    change (minpos (y :: z :: r')) with (let '(j, v) := minpos (z :: r') in if Qlt_le_dec v (qabs y) then (S j, v) else (O, qabs y)).
    destruct (minpos (z :: r')) as [j v] eqn:E. cbn [fst snd] in H1, H2, H3.
    destruct (Qlt_le_dec v (qabs y)) as [Hlt|Hge].
    + cbn [fst snd]. split; [cbn [length] in *; lia|]. split; [exact H2|]. intros t Ht. destruct t as [|t]; [cbn [nth]; lra|].
      apply H3. cbn [length] in Ht |- *. lia.
    + cbn [fst snd]. split; [cbn [length] in *; lia|]. split; [reflexivity|]. intros t Ht. destruct t as [|t]; [cbn [nth]; lra|].
      specialize (H3 t ltac:(cbn [length] in Ht |- *; lia)). change (nth (S t) (y :: z :: r') 0) with (nth t (z :: r') 0). lra.
Qed.

Lemma parity_flip_at j : forall l, (j < length l)%nat -> parity (flip_at j l) = negb (parity l).
Proof.
  induction j as [|j IH]; intros [|b l] Hj; simpl in *; try lia.
  - destruct b, (parity l); reflexivity.
  - rewrite IH by lia. destruct b, (parity l); reflexivity.
Qed.
Lemma flip_at_length j : forall l, length (flip_at j l) = length l.
Proof. induction j as [|j IH]; intros [|b l]; simpl; auto. Qed.
Lemma hard_length r : length (hard r) = length r. Proof. apply map_length. Qed.

Lemma loss_flip_at j : forall h r, length h = length r -> (j < length h)%nat -> loss (flip_at j h) h r == qabs (nth j r 0).
Proof.
  assert (Hz : forall h r, loss h h r == 0).
  { induction h as [|g h IH]; intros [|y r]; simpl; try lra. rewrite xorb_nilpotent, IH. lra. }
  induction j as [|j IH]; intros [|g h] [|y r] Hl Hj; simpl in *; try discriminate; try lia.
  - rewrite Hz. destruct g; simpl; lra.
  - rewrite xorb_nilpotent. rewrite IH by lia. lra.
Qed.

(* the Wagner word has even parity, and no even-parity word correlates better with the soft input: it is a
   maximum-likelihood codeword of the single-parity-check code, for EVERY real input (ties included) *)
Theorem wagner_is_ml r : r <> [] ->
  parity (wagner_word r) = false /\ length (wagner_word r) = length r /\
  forall c, length c = length r -> parity c = false -> corr c r <= corr (wagner_word r) r.
Proof.
  intro Hne. destruct (minpos_spec r Hne) as [Hj [Hv Hmin]]. fold (least_reliable r) in Hj, Hv.
  unfold wagner_word. destruct (parity (hard r)) eqn:Hp.
  - split; [rewrite parity_flip_at by (rewrite hard_length; exact Hj); now rewrite Hp|].
    split; [now rewrite flip_at_length, hard_length|].
    intros c Hc Hpc.
    rewrite (corr_loss c r Hc).
    rewrite (corr_loss (flip_at (least_reliable r) (hard r)) r) by (now rewrite flip_at_length, hard_length).
    rewrite loss_flip_at by (rewrite hard_length; auto).
    destruct (parity_differs c (hard r)) as [t [Ht Hd]]; [now rewrite hard_length|congruence|].
    pose proof (loss_ge_position c (hard r) r t ltac:(now rewrite hard_length) (hard_length r) Ht Hd) as Hl.
    specialize (Hmin t ltac:(lia)). lra.
  - split; [exact Hp|]. split; [apply hard_length|]. intros c Hc _.
    rewrite (corr_loss c r Hc). pose proof (loss_nonneg c (hard r) r). lra.
Qed.
