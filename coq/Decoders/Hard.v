(* Executable models of the hard-decision decoders (kaira/models/fec/decoders):
     SyndromeLookupDecoder   -- table built by enumerating error patterns by increasing weight, within a weight in
                                the lexicographic order of generate_recursive; first pattern per syndrome wins
     BruteForceMLDecoder     -- codebook in message order (message i = binary digits of i, most significant first),
                                first argmin of the Hamming distance
     ReedMullerCodeEncoder.inverse_encode -- the same search over itertools.product([0,1], repeat=k)
     HammingCodeEncoder.inverse_encode    -- first column of H equal to the syndrome is flipped
   Vectors are bit masks (Base/GF2.v).  No proofs here. *)
From Coq Require Import NArith List Bool Arith.
From KV Require Import Base.GF2.
Import ListNotations.
Local Open Scope N_scope.

(* error patterns as increasing position lists, in the order _generate_error_patterns produces them *)
Fixpoint genl (n : nat) (ones : nat) (start : nat) : list (list nat) :=
  match ones with
  | O => [[]]
  | S o => flat_map (fun pos => map (cons pos) (genl n o (S pos))) (seq start (n - o - start))
  end.
Definition vec_of (ps : list nat) : N := fold_right (fun p acc => N.lxor (2 ^ N.of_nat p) acc) 0 ps.
(* all patterns of length n: weight 0, 1, ..., n *)
Definition patterns (n : nat) : list (list nat) := concat (map (fun w => genl n w 0) (seq 0 (S n))).
(* the coset leader the table holds for syndrome s: first pattern in enumeration order with that syndrome *)
Definition leader (n : nat) (hs : list N) (s : N) : option (list nat) :=
  find (fun ps => syndN (vec_of ps) hs =? s) (patterns n).
(* forward: error = table[syndrome(r)] (all-zero when absent); corrected = r + error *)
Definition syn_error (n : nat) (hs : list N) (r : N) : N :=
  match leader n hs (syndN r hs) with Some ps => vec_of ps | None => 0 end.
Definition syn_correct (n : nat) (hs : list N) (r : N) : N := N.lxor r (syn_error n hs r).

(* first minimiser of f over a list (torch.argmin returns the first minimum) *)
Fixpoint argmin_first {A} (f : A -> nat) (l : list A) (best : A) : A :=
  match l with
  | [] => best
  | x :: t => argmin_first f t (if Nat.ltb (f x) (f best) then x else best)
  end.
(* message number i of the codebook: bit (k-1-j) of i is coordinate j *)
Definition msg_of_index (k : nat) (i : N) : N :=
  fold_left (fun acc j => if N.testbit i (N.of_nat (k - 1 - j)) then N.lor acc (2 ^ N.of_nat j) else acc) (seq 0 k) 0.
Fixpoint n_range (fuel : nat) (i : N) : list N := match fuel with O => [] | S f => i :: n_range f (N.succ i) end.
Definition all_messages (k : nat) : list N := map (msg_of_index k) (n_range (N.to_nat (2 ^ N.of_nat k)) 0).
(* brute-force ML / RM nearest codeword: the message whose codeword is first-closest to r *)
Definition ml_decode (k : nat) (gs : list N) (r : N) : N :=
  match all_messages k with
  | [] => 0
  | m0 :: t => argmin_first (fun m => wt (N.lxor r (comb m gs))) t m0
  end.

(* Hamming inverse: column j of H as a bit mask is the syndrome of e_j; flip the first position whose column equals
   the syndrome, none when no column matches *)
Definition ham_error_pos (n : nat) (hs : list N) (s : N) : option nat :=
  find (fun j => syndN (2 ^ N.of_nat j) hs =? s) (seq 0 n).
Definition ham_correct (n : nat) (hs : list N) (r : N) : N :=
  match ham_error_pos n hs (syndN r hs) with Some j => N.lxor r (2 ^ N.of_nat j) | None => r end.
(* columns non-zero and pairwise distinct *)
Definition columns_ok (n : nat) (hs : list N) : bool :=
  forallb (fun j => negb (syndN (2 ^ N.of_nat j) hs =? 0) &&
                    forallb (fun i => (i =? j)%nat || negb (syndN (2 ^ N.of_nat i) hs =? syndN (2 ^ N.of_nat j) hs)) (seq 0 n)) (seq 0 n).
