From Coq Require Import NArith List Bool Arith Lia.
From KV Require Import Base.GF2 Base.GF2Facts Decoders.Hard.
Import ListNotations.
Local Open Scope N_scope.

(* ---------------- Hamming weight on bit masks ---------------- *)
Lemma wt_div2 x : wt x = ((if N.odd x then 1 else 0) + wt (N.div2 x))%nat.
Proof. destruct x as [|[p|p|]]; reflexivity. Qed.

Lemma odd_pow2_succ m : N.odd (2 ^ N.succ m) = false.
Proof. rewrite N.pow_succ_r'. rewrite N.odd_mul. reflexivity. Qed.
Lemma div2_pow2_succ m : N.div2 (2 ^ N.succ m) = 2 ^ m.
Proof. rewrite N.pow_succ_r'. rewrite N.div2_div, N.mul_comm, N.div_mul; [reflexivity|discriminate]. Qed.

Lemma wt_lxor_pow2 n : forall y, y < 2 ^ n -> wt (N.lxor y (2 ^ n)) = S (wt y).
Proof.
  induction n as [|m IH] using N.peano_ind; intros y Hy.
  - simpl in Hy. assert (y = 0) by lia. subst. reflexivity.
  - rewrite (wt_div2 (N.lxor y (2 ^ N.succ m))), (wt_div2 y).
    rewrite odd_lxor, odd_pow2_succ, xorb_false_r, div2_lxor, div2_pow2_succ.
    rewrite IH; [lia|]. rewrite N.div2_div. apply N.div_lt_upper_bound; [discriminate|].
    rewrite N.pow_succ_r' in Hy. exact Hy.
Qed.

Lemma wt_pow2 n : wt (2 ^ n) = 1%nat.
Proof. rewrite <- (N.lxor_0_l (2 ^ n)). rewrite wt_lxor_pow2; [reflexivity|]. apply N.neq_0_lt_0, N.pow_nonzero. discriminate. Qed.

Lemma odd_double a : N.odd (N.double a) = false. Proof. destruct a; reflexivity. Qed.
Lemma odd_succ_double a : N.odd (N.succ_double a) = true. Proof. destruct a; reflexivity. Qed.

Theorem wt_lxor_le a : forall b, (wt (N.lxor a b) <= wt a + wt b)%nat.
Proof.
  induction a as [|a IH|a IH] using N.binary_ind; intro b.
  - rewrite N.lxor_0_l. lia.
  - rewrite (wt_div2 (N.lxor (N.double a) b)), (wt_div2 (N.double a)), (wt_div2 b).
    rewrite odd_lxor, div2_lxor, odd_double, N.div2_double. specialize (IH (N.div2 b)).
    destruct (N.odd b); cbn [xorb]; lia.
  - rewrite (wt_div2 (N.lxor (N.succ_double a) b)), (wt_div2 (N.succ_double a)), (wt_div2 b).
    rewrite odd_lxor, div2_lxor, odd_succ_double, N.div2_succ_double. specialize (IH (N.div2 b)).
    destruct (N.odd b); cbn [xorb]; lia.
Qed.

Lemma wt_pos_ne0 p : wt_pos p <> 0%nat.
Proof. induction p; simpl; auto. Qed.
Lemma wt_0_iff x : wt x = 0%nat <-> x = 0.
Proof.
  split; [|intros ->; reflexivity]. destruct x as [|p]; [reflexivity|]. simpl. intro H. now apply wt_pos_ne0 in H.
Qed.

(* ---------------- position lists ---------------- *)
Lemma vec_of_app a b : vec_of (a ++ b) = N.lxor (vec_of a) (vec_of b).
Proof. induction a as [|p a IH]; simpl; [rewrite ?N.lxor_0_l; reflexivity|]. rewrite IH. now rewrite N.lxor_assoc. Qed.

Lemma wt_vec_of_le ps : (wt (vec_of ps) <= length ps)%nat.
Proof. induction ps as [|p ps IH]; simpl; [lia|]. pose proof (wt_lxor_le (2 ^ N.of_nat p) (vec_of ps)). rewrite wt_pow2 in H. lia. Qed.

Section Patterns.
Variable n : nat.

(* strictly increasing, all entries in [start, n) *)
Fixpoint inc_from (start : nat) (S : list nat) : Prop :=
  match S with [] => True | p :: t => (start <= p)%nat /\ (p < n)%nat /\ inc_from (Datatypes.S p) t end.

Lemma inc_from_weaken S : forall a b, (a <= b)%nat -> inc_from b S -> inc_from a S.
Proof. destruct S as [|p t]; simpl; [auto|]. intros a b Hab [H1 [H2 H3]]. repeat split; auto; lia. Qed.

Lemma inc_from_bound S : forall s, inc_from s S -> (s + length S <= n)%nat \/ S = [].
Proof.
  induction S as [|p t IH]; intros s H; [now right|]. left. simpl in *. destruct H as [H1 [H2 H3]].
  destruct (IH _ H3) as [Hb| ->]; simpl; lia.
Qed.

Lemma vec_of_lt S : forall s, inc_from s S -> vec_of S < 2 ^ N.of_nat n.
Proof.
  induction S as [|p t IH]; intros s H; simpl.
  - apply N.neq_0_lt_0, N.pow_nonzero. discriminate.
  - destruct H as [_ [Hp Ht]]. apply lxor_lt_pow2; [|eapply IH; eassumption].
    apply N.pow_lt_mono_r; lia.
Qed.

Definition pos_list (x : N) : list nat := filter (fun i => N.testbit x (N.of_nat i)) (seq 0 n).

Lemma inc_from_filter f : forall len a, (a + len <= n)%nat -> inc_from a (filter f (seq a len)).
Proof.
  induction len as [|len IH]; intros a Ha; simpl; [exact I|].
  destruct (f a); simpl.
  - repeat split; [lia|lia|]. apply IH. lia.
  - apply inc_from_weaken with (S a); [lia|]. apply IH. lia.
Qed.
Lemma pos_list_inc x : inc_from 0 (pos_list x).
Proof. apply inc_from_filter. lia. Qed.

Lemma filter_seq_S (f : nat -> bool) m : filter f (seq 0 (S m)) = filter f (seq 0 m) ++ (if f m then [m] else []).
Proof. rewrite seq_S, filter_app. simpl. destruct (f m); reflexivity. Qed.
End Patterns.

Lemma pos_list_spec n : forall x, x < 2 ^ N.of_nat n -> vec_of (pos_list n x) = x /\ length (pos_list n x) = wt x.
Proof.
  induction n as [|n IH]; intros x Hx.
  - simpl in Hx. assert (x = 0) by lia. subst. split; reflexivity.
  - unfold pos_list. rewrite filter_seq_S. fold (pos_list n x).
    rewrite Nat2N.inj_succ in Hx. destruct (N.lt_ge_cases x (2 ^ N.of_nat n)) as [Hlt|Hge].
    + rewrite (lt_pow2_bits_false x (N.of_nat n) (N.of_nat n) Hlt (N.le_refl _)). rewrite app_nil_r. now apply IH.
    + pose proof (split_top x (N.of_nat n) Hge Hx) as Hs. set (y := x - 2 ^ N.of_nat n) in *.
      assert (Hy : y < 2 ^ N.of_nat n) by (rewrite N.pow_succ_r' in Hx; unfold y; lia).
      assert (Hbit : N.testbit x (N.of_nat n) = true).
      { rewrite Hs, N.lxor_spec, N.pow2_bits_true, (lt_pow2_bits_false y _ _ Hy (N.le_refl _)). reflexivity. }
      rewrite Hbit. assert (Hpl : pos_list n x = pos_list n y).
      { unfold pos_list. apply filter_ext_in. intros i Hi. apply in_seq in Hi. rewrite Hs, N.lxor_spec.
        rewrite N.pow2_bits_false by lia. now rewrite xorb_false_r. }
      rewrite Hpl, vec_of_app, app_length. destruct (IH y Hy) as [E1 E2]. rewrite E1, E2. split.
      * simpl. rewrite N.lxor_0_r. now symmetry.
      * pose proof (wt_lxor_pow2 (N.of_nat n) y Hy) as Hw. rewrite <- Hs in Hw. simpl. lia.
Qed.

(* ---------------- enumeration order of the syndrome table ---------------- *)
Lemma genl_length n o : forall start x, In x (genl n o start) -> length x = o.
Proof.
  induction o as [|o IH]; intros start x H; simpl in H.
  - destruct H as [<-|[]]. reflexivity.
  - apply in_flat_map in H. destruct H as [p [_ H]]. apply in_map_iff in H. destruct H as [t [<- Ht]].
    simpl. f_equal. eapply IH; eassumption.
Qed.
Lemma genl_sound n o : forall start x, In x (genl n o start) -> inc_from n start x.
Proof.
  induction o as [|o IH]; intros start x H; simpl in H.
  - destruct H as [<-|[]]. exact I.
  - apply in_flat_map in H. destruct H as [p [Hp H]]. apply in_map_iff in H. destruct H as [t [<- Ht]].
    apply in_seq in Hp. simpl. repeat split; [lia|lia|]. eapply IH; eassumption.
Qed.
Lemma genl_complete n o : forall start S, length S = o -> inc_from n start S -> In S (genl n o start).
Proof.
  induction o as [|o IH]; intros start S Hl Hi.
  - destruct S; [now left|discriminate].
  - destruct S as [|p t]; [discriminate|]. simpl in Hl. injection Hl as Hl. simpl in Hi. destruct Hi as [H1 [H2 H3]].
    simpl. apply in_flat_map. exists p. split.
    + apply in_seq. destruct (inc_from_bound n t _ H3) as [Hb| ->]; [|simpl in Hl]; lia.
    + apply in_map. now apply IH.
Qed.

Lemma find_blocks_min (P : list nat -> bool) : forall blocks w0,
  (forall i b x, nth_error blocks i = Some b -> In x b -> length x = (w0 + i)%nat) ->
  forall e, find P (concat blocks) = Some e ->
  forall e', In e' (concat blocks) -> P e' = true -> (length e <= length e')%nat.
Proof.
  induction blocks as [|b bs IH]; intros w0 Hw e Hf e' Hin HP; [discriminate|].
  simpl in Hf, Hin. 
  assert (Hrest : forall x, In x (concat bs) -> (w0 + 1 <= length x)%nat).
  { intros x Hx. apply in_concat in Hx. destruct Hx as [b' [Hb' Hxb]]. apply In_nth_error in Hb'. destruct Hb' as [i Hi].
    rewrite (Hw (S i) b' x Hi Hxb). lia. }
  destruct (find P b) as [e0|] eqn:Eb.
  - assert (Hfe : find P (b ++ concat bs) = Some e0).
    { clear -Eb. induction b as [|x b IHb]; [discriminate|]. simpl in *. destruct (P x); [assumption|now apply IHb]. }
    rewrite Hfe in Hf. injection Hf as <-. apply find_some in Eb. destruct Eb as [Heb _].
    rewrite (Hw 0%nat b e0 eq_refl Heb). apply in_app_or in Hin. destruct Hin as [Hin|Hin].
    + rewrite (Hw 0%nat b e' eq_refl Hin). lia.
    + specialize (Hrest e' Hin). lia.
  - assert (Hfe : find P (b ++ concat bs) = find P (concat bs)).
    { clear -Eb. induction b as [|x b IHb]; [reflexivity|]. simpl in *. destruct (P x); [discriminate|now apply IHb]. }
    rewrite Hfe in Hf. apply in_app_or in Hin. destruct Hin as [Hin|Hin].
    + pose proof (find_none P b Eb e' Hin). congruence.
    + apply (IH (S w0)); try assumption. intros i b' x Hi Hx. rewrite (Hw (S i) b' x Hi Hx). lia.
Qed.

Section Syn.
Variables (n : nat) (hs : list N).

Lemma patterns_complete S : inc_from n 0 S -> In S (patterns n).
Proof.
  intro H. unfold patterns. apply in_concat. exists (genl n (length S) 0). split.
  - apply in_map_iff. exists (length S). split; [reflexivity|]. apply in_seq.
    destruct (inc_from_bound n S 0 H) as [Hb| ->]; simpl; lia.
  - now apply genl_complete.
Qed.
Lemma patterns_sound S : In S (patterns n) -> inc_from n 0 S.
Proof.
  unfold patterns. intro H. apply in_concat in H. destruct H as [b [Hb HS]]. apply in_map_iff in Hb.
  destruct Hb as [w [<- _]]. eapply genl_sound; eassumption.
Qed.

(* the table entry for a syndrome s that some word of length n has: it has syndrome s and minimum weight among ALL
   words of length n with that syndrome (a coset leader) *)
Theorem leader_is_coset_leader s e' : e' < 2 ^ N.of_nat n -> syndN e' hs = s ->
  exists L, leader n hs s = Some L /\ syndN (vec_of L) hs = s /\ vec_of L < 2 ^ N.of_nat n /\
            (wt (vec_of L) <= wt e')%nat.
Proof.
  intros He Hs. destruct (pos_list_spec n e' He) as [Ev El].
  assert (Hin : In (pos_list n e') (patterns n)) by (apply patterns_complete, pos_list_inc).
  assert (HP : (fun ps => syndN (vec_of ps) hs =? s) (pos_list n e') = true) by (cbv beta; rewrite Ev; now apply N.eqb_eq).
  unfold leader. destruct (find _ (patterns n)) as [L|] eqn:Ef.
  - exists L. split; [reflexivity|]. pose proof (find_some _ _ Ef) as [HLin HLP]. apply N.eqb_eq in HLP.
    split; [assumption|]. split; [eapply vec_of_lt; apply patterns_sound; eassumption|].
    assert (Hlen : (length L <= length (pos_list n e'))%nat).
    { unfold patterns in Ef, Hin. eapply (find_blocks_min _ _ 0%nat); [|exact Ef|exact Hin|exact HP].
      intros i b x Hi Hx. rewrite nth_error_map in Hi. destruct (nth_error (seq 0 (S n)) i) as [w|] eqn:Ew; [|discriminate].
      simpl in Hi. injection Hi as <-. rewrite (genl_length n w 0 x Hx).
      assert (w = nth i (seq 0 (S n)) 0%nat) by (symmetry; now apply nth_error_nth).
      subst w. assert (Hi' : (i < length (seq 0 (S n)))%nat) by (apply nth_error_Some; congruence).
      rewrite seq_length in Hi'. rewrite seq_nth; lia. }
    pose proof (wt_vec_of_le L). lia.
  - exfalso. pose proof (find_none _ _ Ef _ Hin). cbv beta in H. congruence.
Qed.

(* complete decoding: the corrected word has zero syndrome, and no zero-syndrome word is closer to r *)
Theorem syn_correct_is_ml r : r < 2 ^ N.of_nat n ->
  syndN (syn_correct n hs r) hs = 0 /\ syn_correct n hs r < 2 ^ N.of_nat n /\
  forall c, c < 2 ^ N.of_nat n -> syndN c hs = 0 ->
    (wt (N.lxor r (syn_correct n hs r)) <= wt (N.lxor r c))%nat.
Proof.
  intro Hr. unfold syn_correct, syn_error.
  destruct (leader_is_coset_leader (syndN r hs) r Hr eq_refl) as [L [HL [Hs [Hlt _]]]]. rewrite HL.
  split; [rewrite syndN_lxor, Hs; apply N.lxor_nilpotent|]. split; [now apply lxor_lt_pow2|].
  intros c Hc Hc0.
  destruct (leader_is_coset_leader (syndN r hs) (N.lxor r c) (lxor_lt_pow2 _ _ _ Hr Hc)) as [L' [HL' [_ [_ Hmin]]]].
  - rewrite syndN_lxor, Hc0. apply N.lxor_0_r.
  - rewrite HL in HL'. injection HL' as <-.
    replace (N.lxor r (N.lxor r (vec_of L))) with (vec_of L); [exact Hmin|].
    rewrite <- N.lxor_assoc, N.lxor_nilpotent. now rewrite N.lxor_0_l.
Qed.

(* bounded-distance decoding: if every non-zero zero-syndrome word has weight >= 2t+1, any pattern of at most t
   errors added to a codeword is removed exactly *)
Theorem syn_correct_bounded t c e : c < 2 ^ N.of_nat n -> e < 2 ^ N.of_nat n -> syndN c hs = 0 -> (wt e <= t)%nat ->
  (forall x, x < 2 ^ N.of_nat n -> x <> 0 -> syndN x hs = 0 -> (2 * t + 1 <= wt x)%nat) ->
  syn_correct n hs (N.lxor c e) = c.
Proof.
  intros Hc He Hc0 Hwe Hd. set (r := N.lxor c e). assert (Hr : r < 2 ^ N.of_nat n) by now apply lxor_lt_pow2.
  assert (Hsr : syndN r hs = syndN e hs) by (unfold r; rewrite syndN_lxor, Hc0; apply N.lxor_0_l).
  unfold syn_correct, syn_error.
  destruct (leader_is_coset_leader (syndN r hs) e He (eq_sym Hsr)) as [L [HL [Hs [Hlt Hmin]]]]. rewrite HL.
  set (x := N.lxor (vec_of L) e).
  assert (Hx0 : x = 0).
  { destruct (N.eq_dec x 0) as [E|Hne]; [exact E|]. exfalso.
    assert (Hxs : syndN x hs = 0) by (unfold x; rewrite syndN_lxor, Hs, Hsr; apply N.lxor_nilpotent).
    pose proof (Hd x (lxor_lt_pow2 _ _ _ Hlt He) Hne Hxs). pose proof (wt_lxor_le (vec_of L) e). fold x in H0. lia. }
  apply N.lxor_eq in Hx0. rewrite Hx0. unfold r. rewrite N.lxor_assoc, N.lxor_nilpotent. apply N.lxor_0_r.
Qed.
End Syn.

(* ---------------- first argmin ---------------- *)
Lemma argmin_first_spec {A} (f : A -> nat) l : forall best,
  let r := argmin_first f l best in
  (r = best \/ In r l) /\ (f r <= f best)%nat /\ forall x, In x l -> (f r <= f x)%nat.
Proof.
  induction l as [|x t IH]; intro best; simpl.
  - split; [now left|]. split; [lia|]. intros ? [].
  - destruct (Nat.ltb_spec (f x) (f best)) as [Hlt|Hge].
    + destruct (IH x) as [H1 [H2 H3]]. split; [destruct H1 as [->|H1]; [right; now left|right; now right]|].
      split; [lia|]. intros y [<-|Hy]; [assumption|now apply H3].
    + destruct (IH best) as [H1 [H2 H3]]. split; [destruct H1 as [->|H1]; [now left|right; now right]|].
      split; [assumption|]. intros y [<-|Hy]; [lia|now apply H3].
Qed.

(* exhaustive ML / Reed-Muller nearest codeword: the returned message is in the codebook and no message of the
   codebook has a codeword closer to r *)
Theorem ml_decode_is_ml k gs r : In (ml_decode k gs r) (all_messages k) /\
  forall m, In m (all_messages k) -> (wt (N.lxor r (comb (ml_decode k gs r) gs)) <= wt (N.lxor r (comb m gs)))%nat.
Proof.
  unfold ml_decode. assert (Hne : all_messages k <> []).
  { unfold all_messages. destruct (N.to_nat (2 ^ N.of_nat k)) eqn:E; [|discriminate].
    assert (0 < 2 ^ N.of_nat k) by (apply N.neq_0_lt_0, N.pow_nonzero; discriminate). lia. }
  destruct (all_messages k) as [|m0 t]; [contradiction|].
  pose proof (argmin_first_spec (fun m => wt (N.lxor r (comb m gs))) t m0) as [H1 [H2 H3]]. cbv zeta in *.
  split; [destruct H1 as [->|H1]; [now left|now right]|]. intros m [<-|Hm]; [assumption|now apply H3].
Qed.

(* ---------------- Hamming single-error correction ---------------- *)
Theorem ham_correct_single n hs : columns_ok n hs = true -> forall c, syndN c hs = 0 ->
  ham_correct n hs c = c /\ forall j, (j < n)%nat -> ham_correct n hs (N.lxor c (2 ^ N.of_nat j)) = c.
Proof.
  unfold columns_ok. intros Hok c Hc. rewrite forallb_forall in Hok. split.
  - unfold ham_correct, ham_error_pos. rewrite Hc. destruct (find _ (seq 0 n)) as [i|] eqn:Ef; [|reflexivity].
    exfalso. apply find_some in Ef. destruct Ef as [Hi Hz]. specialize (Hok i Hi). apply andb_true_iff in Hok.
    destruct Hok as [Hnz _]. rewrite Hz in Hnz. discriminate.
  - intros j Hj. unfold ham_correct, ham_error_pos. rewrite syndN_lxor, Hc, N.lxor_0_l.
    destruct (find _ (seq 0 n)) as [i|] eqn:Ef.
    + apply find_some in Ef. destruct Ef as [Hi Heq]. apply N.eqb_eq in Heq.
      specialize (Hok j ltac:(apply in_seq; lia)). apply andb_true_iff in Hok. destruct Hok as [_ Hd].
      rewrite forallb_forall in Hd. specialize (Hd i Hi). apply orb_true_iff in Hd. destruct Hd as [Hd|Hd].
      * apply Nat.eqb_eq in Hd. subst i. rewrite N.lxor_assoc, N.lxor_nilpotent. apply N.lxor_0_r.
      * rewrite Heq, N.eqb_refl in Hd. discriminate.
    + exfalso. pose proof (find_none _ _ Ef j ltac:(apply in_seq; lia)) as Hn. cbv beta in Hn. rewrite N.eqb_refl in Hn. discriminate.
Qed.

(* ---------------- the codebook contains every k-bit message ---------------- *)
Lemma fold_setbits_spec (f : nat -> bool) : forall l acc t,
  N.testbit (fold_left (fun acc j => if f j then N.lor acc (2 ^ N.of_nat j) else acc) l acc) t =
  N.testbit acc t || existsb (fun j => (N.of_nat j =? t) && f j) l.
Proof.
  induction l as [|j l IH]; intros acc t; simpl; [now rewrite orb_false_r|].
  rewrite IH. destruct (f j) eqn:Ef.
  - rewrite N.lor_spec, N.pow2_bits_eqb. rewrite andb_true_r. now rewrite orb_assoc.
  - rewrite andb_false_r. reflexivity.
Qed.

Lemma msg_of_index_bits k i t :
  N.testbit (msg_of_index k i) t = (t <? N.of_nat k) && N.testbit i (N.of_nat k - 1 - t).
Proof.
  unfold msg_of_index. rewrite fold_setbits_spec, N.bits_0. cbn [orb].
  destruct (N.ltb_spec t (N.of_nat k)) as [Hlt|Hge]; cbn [andb].
  - (* exactly the index j = t contributes *)
    assert (Ht : t = N.of_nat (N.to_nat t)) by now rewrite N2Nat.id.
    assert (Hin : In (N.to_nat t) (seq 0 k)) by (apply in_seq; lia).
    destruct (N.testbit i (N.of_nat k - 1 - t)) eqn:Eb.
    + apply existsb_exists. exists (N.to_nat t). split; [assumption|]. rewrite <- Ht, N.eqb_refl. cbn [andb].
      rewrite <- Eb. f_equal. lia.
    + apply not_true_iff_false. intro H. apply existsb_exists in H. destruct H as [j [Hj Hb]].
      apply andb_true_iff in Hb. destruct Hb as [Hjt Hbit]. apply N.eqb_eq in Hjt. subst t.
      replace (N.of_nat (k - 1 - j)) with (N.of_nat k - 1 - N.of_nat j) in Hbit by (apply in_seq in Hj; lia). congruence.
  - apply not_true_iff_false. intro H. apply existsb_exists in H. destruct H as [j [Hj Hb]].
    apply andb_true_iff in Hb. destruct Hb as [Hjt _]. apply N.eqb_eq in Hjt. apply in_seq in Hj. lia.
Qed.

Lemma bits_high_false_lt z k : (forall t, N.of_nat k <= t -> N.testbit z t = false) -> z < 2 ^ N.of_nat k.
Proof.
  intro H. destruct (N.eq_dec z 0) as [->|Hz]; [apply N.neq_0_lt_0, N.pow_nonzero; discriminate|].
  apply N.log2_lt_pow2; [lia|]. apply N.nle_gt. intro Hle. pose proof (H _ Hle) as Hf.
  pose proof (N.bit_log2 z Hz). congruence.
Qed.

Lemma msg_of_index_lt k i : msg_of_index k i < 2 ^ N.of_nat k.
Proof.
  apply bits_high_false_lt. intros t Ht. rewrite msg_of_index_bits.
  destruct (N.ltb_spec t (N.of_nat k)); [lia|reflexivity].
Qed.

Lemma msg_of_index_involutive k m : m < 2 ^ N.of_nat k -> msg_of_index k (msg_of_index k m) = m.
Proof.
  intro Hm. apply N.bits_inj. intro t. rewrite !msg_of_index_bits.
  destruct (N.ltb_spec t (N.of_nat k)) as [Hlt|Hge]; cbn [andb].
  - destruct (N.ltb_spec (N.of_nat k - 1 - t) (N.of_nat k)) as [_|Hc]; [|lia]. cbn [andb]. f_equal. lia.
  - symmetry. now apply (lt_pow2_bits_false m (N.of_nat k) t).
Qed.

Lemma n_range_in fuel : forall i x, i <= x -> x < i + N.of_nat fuel -> In x (n_range fuel i).
Proof.
  induction fuel as [|f IH]; intros i x H1 H2; [lia|]. simpl.
  destruct (N.eq_dec x i) as [->|Hne]; [now left|]. right. apply IH; lia.
Qed.

(* every k-bit message is in the codebook: together with ml_decode_is_ml, the decoder output is at minimum Hamming
   distance over the WHOLE code *)
Theorem all_messages_complete k m : m < 2 ^ N.of_nat k -> In m (all_messages k).
Proof.
  intro Hm. unfold all_messages. apply in_map_iff. exists (msg_of_index k m). split; [now apply msg_of_index_involutive|].
  apply n_range_in; [lia|]. rewrite N2Nat.id. apply msg_of_index_lt.
Qed.

Corollary ml_decode_minimum_distance k gs r m : m < 2 ^ N.of_nat k ->
  (wt (N.lxor r (comb (ml_decode k gs r) gs)) <= wt (N.lxor r (comb m gs)))%nat.
Proof. intro Hm. apply ml_decode_is_ml. now apply all_messages_complete. Qed.

(* ---------------- putting it together: a syndrome decoder on a verified (G, H) pair corrects t errors ---------------- *)
Lemma comb_lt n gs : forallb (fun g => g <? 2 ^ N.of_nat n) gs = true -> forall m, comb m gs < 2 ^ N.of_nat n.
Proof.
  induction gs as [|g t IH]; intros H m; cbn [comb]; [apply N.neq_0_lt_0, N.pow_nonzero; discriminate|].
  simpl in H. apply andb_true_iff in H. destruct H as [Hg Ht]. apply N.ltb_lt in Hg.
  apply lxor_lt_pow2; [|now apply IH]. destruct (N.odd m); [assumption|apply N.neq_0_lt_0, N.pow_nonzero; discriminate].
Qed.

Theorem syndrome_decoder_corrects n k gs hs rs ts t :
  code_pair_ok n k gs hs rs ts = true -> min_distance_ge k gs (2 * t + 1) = true ->
  forall m e, m < 2 ^ N.of_nat k -> e < 2 ^ N.of_nat n -> (wt e <= t)%nat ->
  syn_correct n hs (N.lxor (comb m gs) e) = comb m gs.
Proof.
  intros Hcp Hd m e Hm He Hw.
  destruct (code_pair_sound n k gs hs rs ts Hcp) as [Hlen [Hinj Hker]].
  assert (Hrows : forallb (fun g => g <? 2 ^ N.of_nat n) gs = true).
  { unfold code_pair_ok in Hcp.
    apply andb_true_iff in Hcp. destruct Hcp as [Hcp _]. apply andb_true_iff in Hcp. destruct Hcp as [Hcp _].
    apply andb_true_iff in Hcp. destruct Hcp as [Hcp _]. apply andb_true_iff in Hcp. destruct Hcp as [Hcp _].
    apply andb_true_iff in Hcp. destruct Hcp as [_ Hr]. exact Hr. }
  apply (syn_correct_bounded n hs t); try assumption.
  - now apply comb_lt.
  - apply (Hker (comb m gs) (comb_lt n gs Hrows m)). exists m. split; [assumption|reflexivity].
  - intros x Hx Hx0 Hxs. apply (Hker x Hx) in Hxs. destruct Hxs as [m' [Hm' ->]].
    apply (min_distance_ge_sound k gs (2 * t + 1) Hd m'); [|assumption].
    apply N.neq_0_lt_0. intros ->. apply Hx0. apply comb_0.
Qed.
