From Coq Require Import List Bool Arith NArith QArith.
From KV Require Import Decoders.Wagner Decoders.BP.
Import ListNotations.
Fixpoint bitsN (l : list bool) : N := match l with [] => 0%N | b :: t => ((if b then 1 else 0) + 2 * bitsN t)%N end.
Definition wagner_case (k : nat) (rs : list (list Q)) : list N := map (fun r => bitsN (wagner k r)) rs.
(* min-sum posterior after n iterations, as reduced fractions (numerator, denominator) *)
Definition canon (l : list Q) : list (Z * Z) := map (fun q => let r := Qred q in (Qnum r, Zpos (Qden r))) l.
Definition minsum_case (H : list (list bool)) (nc nv n : nat) (scale offset : Q) (Ls : list (list Q)) : list (list (Z * Z)) :=
  map (fun L => canon (bp_posterior (minsum_phi scale offset) H nc nv n L)) Ls.
