From Coq Require Import List Bool Arith Lia QArith Lqa.
From KV Require Import Codes.PolarSC Decoders.BP Decoders.BPFacts.
Import ListNotations.

Lemma qsgn_agrees a b : agrees a b -> qsgn a == (if b then - (1) else 1) /\ 0 < qabs a.
Proof.
  unfold agrees, qsgn, qabs. destruct b; intro H; destruct (Qlt_le_dec a 0); try lra; destruct (Qlt_le_dec 0 a); split; lra.
Qed.

Lemma signprod_minabs l : forall bits, l <> [] -> Forall2 agrees l bits ->
  sign_prod l == (if parityb bits then - (1) else 1) /\ 0 < min_abs l.
Proof.
  induction l as [|a l IH]; intros bits Hne HF; [contradiction|].
  inversion HF as [|? b ? bs Ha Hl]; subst. destruct (qsgn_agrees a b Ha) as [Es Ep].
  destruct l as [|a2 l'].
  - inversion Hl; subst. simpl. split; [destruct b; simpl; lra|exact Ep].
  - destruct (IH bs ltac:(discriminate) Hl) as [E1 E2].
    change (sign_prod (a :: a2 :: l')) with (qsgn a * sign_prod (a2 :: l')).
    change (min_abs (a :: a2 :: l')) with (qmin (qabs a) (min_abs (a2 :: l'))).
    change (parityb (b :: bs)) with (xorb b (parityb bs)). split.
    + rewrite Es, E1. destruct b, (parityb bs); simpl; lra.
    + unfold qmin. destruct (Qlt_le_dec (min_abs (a2 :: l')) (qabs a)); assumption.
Qed.

(* the min-sum check update with a positive scaling factor and no offset is sign consistent *)
Theorem minsum_phi_consistent scale : 0 < scale -> forall l bits, l <> [] -> Forall2 agrees l bits ->
  agrees (minsum_phi scale 0 l) (parityb bits).
Proof.
  intros Hs l bits Hne HF. destruct (signprod_minabs l bits Hne HF) as [E1 E2]. unfold minsum_phi.
  set (m := min_abs l) in *. set (s := sign_prod l) in *.
  assert (Hv : s * m * scale - qsgn (s * m * scale) * 0 == s * m * scale) by lra.
  apply (agrees_compat (s * m * scale)); [lra|].
  assert (Hm : 0 < m * scale) by (apply Qmult_lt_0_compat; assumption).
  unfold agrees. destruct (parityb bits); rewrite E1; lra.
Qed.

(* min-sum is homogeneous: positive rescaling of the inputs rescales the check update (no offset) *)
Lemma qabs_scale a x : 0 < a -> qabs (a * x) == a * qabs x.
Proof.
  intro Ha. unfold qabs. destruct (Qlt_le_dec (a * x) 0), (Qlt_le_dec x 0); try lra.
  - assert (0 <= a * x) by (apply Qmult_le_0_compat; lra). lra.
  - assert (a * x < 0) by (setoid_replace (a * x) with (- (a * - x)) by lra; assert (0 < a * - x) by (apply Qmult_lt_0_compat; lra); lra). lra.
Qed.
Lemma qsgn_scale a x : 0 < a -> qsgn (a * x) == qsgn x.
Proof.
  intro Ha. unfold qsgn.
  destruct (Qlt_le_dec x 0) as [Hx|Hx].
  - assert (a * x < 0) by (setoid_replace (a * x) with (- (a * - x)) by lra; assert (0 < a * - x) by (apply Qmult_lt_0_compat; lra); lra).
    destruct (Qlt_le_dec (a * x) 0); lra.
  - destruct (Qlt_le_dec 0 x) as [Hp|Hz].
    + assert (0 < a * x) by (apply Qmult_lt_0_compat; lra).
      destruct (Qlt_le_dec (a * x) 0); [lra|]. destruct (Qlt_le_dec 0 (a * x)); lra.
    + assert (x == 0) by lra. assert (a * x == 0) by (rewrite H; lra).
      destruct (Qlt_le_dec (a * x) 0); [lra|]. destruct (Qlt_le_dec 0 (a * x)); lra.
Qed.
