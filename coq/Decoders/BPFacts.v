From Coq Require Import List Bool Arith Lia QArith Lqa.
From KV Require Import Codes.PolarSC Decoders.BP.
Import ListNotations.

(* weak agreement: zero is allowed *)
Definition wagrees (y : Q) (c : bool) : Prop := if c then y <= 0 else 0 <= y.
Lemma agrees_wagrees y c : agrees y c -> wagrees y c.
Proof. unfold agrees, wagrees. destruct c; lra. Qed.
Lemma wagrees_0 c : wagrees 0 c. Proof. unfold wagrees. destruct c; lra. Qed.
Lemma wagrees_plus a b c : wagrees a c -> wagrees b c -> wagrees (a + b) c.
Proof. unfold wagrees. destruct c; lra. Qed.
Lemma agrees_plus_w a b c : agrees a c -> wagrees b c -> agrees (a + b) c.
Proof. unfold agrees, wagrees. destruct c; lra. Qed.
Lemma agrees_compat a b c : a == b -> agrees a c -> agrees b c.
Proof. unfold agrees. destruct c; intros E H; lra. Qed.

Lemma qsum_wagrees l c : (forall t, In t l -> wagrees t c) -> wagrees (qsum l) c.
Proof.
  induction l as [|t l IH]; intro H; simpl; [apply wagrees_0|].
  apply wagrees_plus; [apply H; now left|apply IH; intros; apply H; now right].
Qed.

Lemma nth_map_seq {A} (f : nat -> A) n i d : (i < n)%nat -> nth i (map f (seq 0 n)) d = f i.
Proof.
  intro H. rewrite (nth_indep _ d (f 0%nat)) by (rewrite map_length, seq_length; exact H).
  rewrite map_nth, seq_nth by exact H. reflexivity.
Qed.

(* removing one term of a sum *)
Lemma qsum_remove (t : nat -> Q) n c : (c < n)%nat ->
  qsum (map t (seq 0 n)) - t c == qsum (map (fun c' => if (c' =? c)%nat then 0 else t c') (seq 0 n)).
Proof.
  intro Hc. assert (G : forall a len, (a <= c < a + len)%nat ->
     qsum (map t (seq a len)) - t c == qsum (map (fun c' => if (c' =? c)%nat then 0 else t c') (seq a len))).
  { intros a len. revert a. induction len as [|len IH]; intros a Hr; [lia|]. simpl.
    destruct (Nat.eqb_spec a c) as [->|Hne].
    - assert (E : forall b l, (c < b)%nat -> qsum (map t (seq b l)) == qsum (map (fun c' => if (c' =? c)%nat then 0 else t c') (seq b l))).
      { intros b l. revert b. induction l as [|l IHl]; intros b Hb; simpl; [reflexivity|].
        destruct (Nat.eqb_spec b c); [lia|]. rewrite (IHl (S b)) by lia. reflexivity. }
      rewrite (E (S c) len) by lia. lra.
    - rewrite <- (IH (S a)) by lia. lra. }
  apply G. lia.
Qed.

Definition parityb (l : list bool) : bool := fold_right xorb false l.

Section Inv.
Variable Phi : list Q -> Q.
Variable H : list (list bool).
Variables nc nv : nat.
Variable x : list bool.          (* the transmitted codeword *)
Variable L : list Q.             (* channel LLRs *)

(* sign consistency of the check-node function on non-empty lists of non-zero messages *)
Hypothesis Phi_consistent : forall l bits, l <> [] -> Forall2 agrees l bits -> agrees (Phi l) (parityb bits).
(* x satisfies every parity check; the channel LLRs carry x with arbitrary positive magnitudes *)
Hypothesis x_codeword : forall c, (c < nc)%nat -> parityb (map (fun v => nth v x false) (filter (edge H c) (seq 0 nv))) = false.
Hypothesis L_clean : forall v, (v < nv)%nat -> agrees (nth v L 0) (nth v x false).

Definition Inv (cv : list (list Q)) : Prop :=
  forall c v, (c < nc)%nat -> (v < nv)%nat -> edge H c v = true -> wagrees (getq cv c v) (nth v x false).

Lemma post_agrees cv v : Inv cv -> (v < nv)%nat -> agrees (post H nc L cv v) (nth v x false).
Proof.
  intros HI Hv. unfold post. apply agrees_plus_w; [now apply L_clean|].
  apply qsum_wagrees. intros t Ht. apply in_map_iff in Ht. destruct Ht as [c [<- Hc]]. apply in_seq in Hc.
  destruct (edge H c v) eqn:E; [apply HI; auto; lia|apply wagrees_0].
Qed.

Lemma vcm_agrees cv c v : Inv cv -> (c < nc)%nat -> (v < nv)%nat -> edge H c v = true ->
  agrees (vcm H nc L cv c v) (nth v x false).
Proof.
  intros HI Hc Hv He. unfold vcm, post.
  set (t := fun c' => if edge H c' v then getq cv c' v else 0).
  assert (Et : getq cv c v == t c) by (unfold t; now rewrite He).
  apply (agrees_compat (nth v L 0 + qsum (map (fun c' => if (c' =? c)%nat then 0 else t c') (seq 0 nc)))).
  - rewrite <- (qsum_remove t nc c Hc). rewrite Et. lra.
  - apply agrees_plus_w; [now apply L_clean|]. apply qsum_wagrees. intros s Hs. apply in_map_iff in Hs.
    destruct Hs as [c' [<- Hc']]. apply in_seq in Hc'. destruct (c' =? c)%nat; [apply wagrees_0|].
    unfold t. destruct (edge H c' v) eqn:E; [apply HI; auto; lia|apply wagrees_0].
Qed.

(* parity of the other variables of a satisfied check equals the bit of the removed variable *)
Lemma parity_split c v : edge H c v = true -> forall len a, (a <= v < a + len)%nat ->
    parityb (map (fun v' => nth v' x false) (filter (edge H c) (seq a len))) =
    xorb (nth v x false) (parityb (map (fun v' => nth v' x false) (filter (fun v' => edge H c v' && negb (v' =? v)%nat) (seq a len)))).
Proof.
  intros He. induction len as [|len IH]; intros a Hr; [lia|]. cbn [seq filter].
  destruct (Nat.eqb_spec a v) as [->|Hne].
  - rewrite He. cbn [andb negb map parityb fold_right].
    assert (E : forall l b, (v < b)%nat -> filter (edge H c) (seq b l) = filter (fun v' => edge H c v' && negb (v' =? v)%nat) (seq b l)).
    { induction l as [|l IHl]; intros b Hb; cbn [seq filter]; [reflexivity|].
      destruct (Nat.eqb_spec b v); [lia|]. cbn [negb]. rewrite andb_true_r. rewrite (IHl (S b)) by lia. reflexivity. }
    rewrite (E len (S v)) by lia. reflexivity.
  - cbn [negb]. rewrite andb_true_r. destruct (edge H c a); cbn [map parityb fold_right].
    + fold (parityb (map (fun v' => nth v' x false) (filter (edge H c) (seq (S a) len)))).
      fold (parityb (map (fun v' => nth v' x false) (filter (fun v' => edge H c v' && negb (v' =? v)%nat) (seq (S a) len)))).
      rewrite (IH (S a)) by lia. rewrite <- !xorb_assoc. f_equal. apply xorb_comm.
    + apply IH. lia.
Qed.

Lemma parity_others c v : (c < nc)%nat -> (v < nv)%nat -> edge H c v = true ->
  parityb (map (fun v' => nth v' x false) (other_vars H nv c v)) = nth v x false.
Proof.
  intros Hc Hv He. pose proof (x_codeword c Hc) as Hx. unfold other_vars.
  rewrite (parity_split c v He nv 0%nat ltac:(lia)) in Hx.
  destruct (nth v x false), (parityb (map _ (filter _ (seq 0 nv)))); simpl in *; congruence.
Qed.

Lemma getq_next cv c v : (c < nc)%nat -> (v < nv)%nat ->
  getq (cv_next Phi H nc nv L cv) c v =
  if edge H c v then match other_vars H nv c v with [] => 0 | vs => Phi (map (vcm H nc L cv c) vs) end else 0.
Proof.
  intros Hc Hv. unfold getq, cv_next. rewrite (nth_map_seq _ nc c [] Hc). rewrite (nth_map_seq _ nv v 0 Hv). reflexivity.
Qed.

Lemma Inv_next cv : Inv cv -> Inv (cv_next Phi H nc nv L cv).
Proof.
  intros HI c v Hc Hv He. rewrite getq_next by assumption. rewrite He.
  destruct (other_vars H nv c v) as [|v0 vs] eqn:Eo; [apply wagrees_0|].
  apply agrees_wagrees. rewrite <- (parity_others c v Hc Hv He). rewrite Eo.
  apply Phi_consistent; [discriminate|].
  assert (Hall : forall v', In v' (v0 :: vs) -> (v' < nv)%nat /\ edge H c v' = true).
  { intros v' Hin. rewrite <- Eo in Hin. unfold other_vars in Hin. apply filter_In in Hin. destruct Hin as [Hs Hb].
    apply in_seq in Hs. apply andb_true_iff in Hb. split; [lia|tauto]. }
  clear Eo. induction (v0 :: vs) as [|w ws IHw]; simpl; constructor.
  - destruct (Hall w (or_introl eq_refl)) as [Hw Hew]. now apply vcm_agrees.
  - apply IHw. intros; apply Hall; now right.
Qed.

Lemma Inv_zero : Inv (zero_cv nc nv).
Proof.
  intros c v Hc Hv _. unfold getq, zero_cv. rewrite (nth_map_seq _ nc c [] Hc), (nth_map_seq _ nv v 0 Hv). apply wagrees_0.
Qed.

Lemma Inv_iter n : forall cv, Inv cv -> Inv (bp_iter Phi H nc nv n L cv).
Proof. induction n as [|n IH]; intros cv HI; simpl; [assumption|]. apply IH. now apply Inv_next. Qed.

(* after ANY number of iterations every posterior LLR carries the transmitted bit, hence the hard decisions are
   the codeword: clean input decodes clean *)
Theorem bp_clean_posterior n v : (v < nv)%nat -> agrees (nth v (bp_posterior Phi H nc nv n L) 0) (nth v x false).
Proof.
  intro Hv. unfold bp_posterior. rewrite (nth_map_seq _ nv v 0 Hv). apply post_agrees; [|assumption].
  apply Inv_iter. apply Inv_zero.
Qed.

Theorem bp_clean_decodes n v : (v < nv)%nat -> nth v (bp_decide Phi H nc nv n L) false = nth v x false.
Proof.
  intro Hv. pose proof (bp_clean_posterior n v Hv) as Ha. unfold bp_decide, bp_posterior in *.
  rewrite map_map. rewrite (nth_map_seq _ nv v false Hv). rewrite (nth_map_seq _ nv v 0 Hv) in Ha.
  unfold agrees in Ha. destruct (nth v x false); destruct (Qlt_le_dec _ 0); try reflexivity; lra.
Qed.
End Inv.
