From Coq Require Import NArith List Bool Arith.
From KV Require Import Base.GF2 Decoders.Hard.
Import ListNotations.
Local Open Scope N_scope.
Definition dig (acc v : N) : N := (acc * 1000003 + v + 1) mod 2305843009213693951.
Definition digest (l : list N) : N := fold_left dig l 7.
(* error patterns the syndrome table yields for the received words rs *)
Definition syn_errors (n : nat) (hs : list N) (rs : list N) : list N := map (syn_error n hs) rs.
Definition ml_messages (k : nat) (gs : list N) (rs : list N) : list N := map (ml_decode k gs) rs.
Definition ham_words (n : nat) (hs : list N) (rs : list N) : list N := map (ham_correct n hs) rs.
Definition c02_flags (n k : nat) (gs hs rs ts : list N) (t : nat) : list bool :=
  [code_pair_ok n k gs hs rs ts; min_distance_ge k gs (2 * t + 1)].
