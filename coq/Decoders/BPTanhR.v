(* The sum-product check-node update  Phi(l) = 2 atanh (prod_i tanh (l_i / 2))  over the real numbers is sign consistent:
   if every incoming message is non-zero and carries the sign of its bit (positive = 0), the outgoing message is
   non-zero and carries the sign of the parity of those bits.  This is the hypothesis Phi_consistent of
   Decoders/BPFacts.v for the exact (real-number) tanh rule; the float implementation realises it up to rounding. *)
From Coq Require Import Reals Lra List Bool.
Import ListNotations.
Local Open Scope R_scope.

Definition atanh (y : R) : R := / 2 * ln ((1 + y) / (1 - y)).
Fixpoint prod_tanh (l : list R) : R := match l with [] => 1 | x :: t => tanh (x / 2) * prod_tanh t end.
Definition phi_tanh (l : list R) : R := 2 * atanh (prod_tanh l).
Definition agreesR (y : R) (b : bool) : Prop := if b then y < 0 else 0 < y.
Definition parityb (l : list bool) : bool := fold_right xorb false l.

Lemma cosh_pos x : 0 < cosh x.
Proof. unfold cosh. pose proof (exp_pos x). pose proof (exp_pos (- x)). lra. Qed.
Lemma sinh_pos x : 0 < x -> 0 < sinh x.
Proof. intro H. unfold sinh. assert (exp (- x) < exp x) by (apply exp_increasing; lra). lra. Qed.
Lemma tanh_pos x : 0 < x -> 0 < tanh x < 1.
Proof.
  intro H. unfold tanh. pose proof (cosh_pos x) as Hc. pose proof (sinh_pos x H) as Hs. split.
  - apply Rdiv_lt_0_compat; assumption.
  - apply Rmult_lt_reg_r with (cosh x); [exact Hc|]. unfold Rdiv. rewrite Rmult_assoc, Rinv_l, Rmult_1_r, Rmult_1_l by lra.
    unfold sinh, cosh. pose proof (exp_pos (- x)). lra.
Qed.
Lemma tanh_opp x : tanh (- x) = - tanh x.
Proof.
  unfold tanh, sinh, cosh. rewrite Ropp_involutive. pose proof (exp_pos x). pose proof (exp_pos (- x)). field. lra.
Qed.
Lemma tanh_neg x : x < 0 -> -1 < tanh x < 0.
Proof. intro H. pose proof (tanh_pos (- x) ltac:(lra)) as Hp. rewrite tanh_opp in Hp. lra. Qed.

(* the product of the tanh factors is strictly inside (-1, 1), non-zero, with the sign of the parity *)
Lemma prod_tanh_sign l : forall bits, Forall2 agreesR l bits ->
  (if parityb bits then -1 < prod_tanh l < 0 else 0 < prod_tanh l <= 1).
Proof.
  induction l as [|a l IH]; intros bits HF; inversion HF as [|? b ? bs Ha Hl]; subst; cbn [prod_tanh parityb fold_right].
  - lra.
  - specialize (IH bs Hl). fold (parityb bs). unfold agreesR in Ha.
    destruct b.
    + pose proof (tanh_neg (a / 2) ltac:(lra)) as Ht. destruct (parityb bs); cbn [xorb negb]; nra.
    + pose proof (tanh_pos (a / 2) ltac:(lra)) as Ht. destruct (parityb bs); cbn [xorb negb]; nra.
Qed.

Lemma atanh_pos y : 0 < y < 1 -> 0 < atanh y.
Proof.
  intros [H0 H1]. unfold atanh. apply Rmult_lt_0_compat; [lra|]. rewrite <- ln_1. apply ln_increasing; [lra|].
  apply Rmult_lt_reg_r with (1 - y); [lra|]. unfold Rdiv. rewrite Rmult_assoc, Rinv_l, Rmult_1_r by lra. lra.
Qed.
Lemma atanh_opp y : -1 < y < 1 -> atanh (- y) = - atanh y.
Proof.
  intros [H0 H1]. unfold atanh. replace ((1 + - y) / (1 - - y)) with (/ ((1 + y) / (1 - y))) by (field; lra).
  rewrite ln_Rinv; [lra|]. apply Rdiv_lt_0_compat; lra.
Qed.

(* one check-node update: at least two incoming messages (the product stays strictly below 1 in magnitude) *)
Theorem phi_tanh_consistent l bits : l <> [] -> Forall2 agreesR l bits -> agreesR (phi_tanh l) (parityb bits).
Proof.
  intros Hne HF. pose proof (prod_tanh_sign l bits HF) as Hs. unfold phi_tanh, agreesR.
  assert (Hlt : prod_tanh l < 1 /\ -1 < prod_tanh l).
  { destruct l as [|a l']; [contradiction|]. inversion HF as [|? b ? bs Ha Hl]; subst. cbn [prod_tanh].
    pose proof (prod_tanh_sign l' bs Hl) as Hr. unfold agreesR in Ha.
    destruct b; [pose proof (tanh_neg (a / 2) ltac:(lra))|pose proof (tanh_pos (a / 2) ltac:(lra))]; destruct (parityb bs); nra. }
  destruct (parityb bits).
  - assert (E : prod_tanh l = - (- prod_tanh l)) by lra. rewrite E, atanh_opp by lra.
    pose proof (atanh_pos (- prod_tanh l) ltac:(lra)). lra.
  - pose proof (atanh_pos (prod_tanh l) ltac:(lra)). lra.
Qed.

(* magnitudes never matter for the sign: scaling every message by its own positive factor leaves the sign unchanged *)
Corollary phi_tanh_sign_only l l' bits : l <> [] -> l' <> [] -> Forall2 agreesR l bits -> Forall2 agreesR l' bits ->
  (0 < phi_tanh l <-> 0 < phi_tanh l').
Proof.
  intros H1 H2 F1 F2. pose proof (phi_tanh_consistent l bits H1 F1) as A. pose proof (phi_tanh_consistent l' bits H2 F2) as B.
  unfold agreesR in *. destruct (parityb bits); split; intro; lra.
Qed.
