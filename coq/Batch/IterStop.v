(* Iterative decoders over a batch: the stopping discipline decides whether a batch is the stack of its members.
   Model of the loop of BeliefPropagationPolarDecoder.decode_iterative (an index set `not_satisfied` of rows that are
   still being updated; satisfied rows are frozen; the loop leaves when the set is empty) and of the fixed-count loop of
   BeliefPropagationDecoder.forward.  S: per-row decoder state (messages), O: per-row answer. *)
From Coq Require Import List Bool Arith.
Import ListNotations.

(* n-fold application, the body first (as a loop runs it) *)
Fixpoint iter {A} (n : nat) (f : A -> A) (x : A) : A := match n with 0 => x | S k => iter k f (f x) end.

Section Loop.
  Variables (S O : Type) (step : S -> S) (out : S -> O) (stop : S -> bool).

  Record row := mk { st : S; act : bool; ans : O }.

  (* the loop body on one row: rows outside the index set are left alone *)
  Definition iter_row (r : row) : row :=
    if act r then let s' := step (st r) in mk s' (negb (stop s')) (out s') else r.

  Definition pass (b : list row) : list row := map iter_row b.
  Definition none_active (b : list row) : bool := forallb (fun r => negb (act r)) b.

  (* at most n passes over the batch; leave as soon as the index set is empty *)
  Fixpoint batch_loop (n : nat) (b : list row) : list row :=
    match n with
    | 0 => b
    | Datatypes.S k => let b' := pass b in if none_active b' then b' else batch_loop k b'
    end.

  (* a member alone: leave as soon as it is satisfied *)
  Fixpoint single_loop (n : nat) (r : row) : row :=
    match n with
    | 0 => r
    | Datatypes.S k => let r' := iter_row r in if negb (act r') then r' else single_loop k r'
    end.

  Definition init (d : O) (s : S) : row := mk s true d.
  Definition batch_decode (n : nat) (d : O) (ss : list S) : list O := map ans (batch_loop n (map (init d) ss)).
  Definition single_decode (n : nat) (d : O) (s : S) : O := ans (single_loop n (init d s)).

  (* the discipline of the seeded defect C20_f: every row keeps being updated until ALL rows are satisfied at once *)
  Definition all_stopped (b : list row) : bool := forallb (fun r => stop (st r)) b.
  Definition touch (r : row) : row := let s' := step (st r) in mk s' true (out s').
  Fixpoint global_loop (n : nat) (b : list row) : list row :=
    match n with
    | 0 => b
    | Datatypes.S k => let b' := map touch b in if all_stopped b' then b' else global_loop k b'
    end.
  Definition global_decode (n : nat) (d : O) (ss : list S) : list O := map ans (global_loop n (map (init d) ss)).
End Loop.

Arguments mk {S O}. Arguments st {S O}. Arguments act {S O}. Arguments ans {S O}.

(* the disciplines the translator recognises in the source *)
Inductive discipline := FixedCount | PerRowIndexSet.
