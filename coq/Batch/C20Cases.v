(* Entry points evaluated by the harness for C20: the layout law applied to the component's own single-block answers. *)
From Coq Require Import List Bool Arith.
Import ListNotations.
From KV Require Import Base.Layout.

Fixpoint beq_bits (a b : list bool) : bool :=
  match a, b with [], [] => true | x :: a', y :: b' => Bool.eqb x y && beq_bits a' b' | _, _ => false end.
(* the per-block function as a finite table block -> answer (blocks not in the table: empty answer) *)
Definition c20_lookup (tbl : list (list bool * list bool)) (blk : list bool) : list bool :=
  match find (fun e => beq_bits (fst e) blk) tbl with Some e => snd e | None => [] end.
(* (B, b*n) input -> (B, b*k) output, or None when a row is not a whole number of blocks *)
Definition c20_rows (bs : nat) (tbl : list (list bool * list bool)) (rows : list (list bool)) : option (list (list bool)) :=
  blockwise2 bs (c20_lookup tbl) rows.
