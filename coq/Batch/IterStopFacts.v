From Coq Require Import List Bool Arith Lia.
Import ListNotations.
From KV Require Import Batch.IterStop.

Lemma iter_succ_l {A} (f : A -> A) n : forall x, iter (S n) f x = f (iter n f x).
Proof. induction n as [|n IH]; intros x; [reflexivity|]. change (iter (S (S n)) f x) with (iter (S n) f (f x)). rewrite IH. reflexivity. Qed.

Section Facts.
  Variables (S O : Type) (step : S -> S) (out : S -> O) (stop : S -> bool).
  Notation row := (row S O).
  Notation iter_row := (iter_row S O step out stop).
  Notation pass := (pass S O step out stop).

  Lemma iter_row_inactive (r : row) : act r = false -> iter_row r = r.
  Proof. unfold IterStop.iter_row. intros ->. reflexivity. Qed.

  Lemma iter_inactive n (r : row) : act r = false -> iter n iter_row r = r.
  Proof. intros H. induction n as [|n IH]; cbn [iter]; [reflexivity|]. rewrite iter_row_inactive by exact H. exact IH. Qed.

  Lemma single_loop_iter n : forall r : row, single_loop S O step out stop n r = iter n iter_row r.
  Proof.
    induction n as [|n IH]; intros r; [reflexivity|].
    cbn [single_loop iter].
    destruct (act (iter_row r)) eqn:Ha; cbn [negb].
    - apply IH.
    - symmetry. apply iter_inactive, Ha.
  Qed.

  Lemma pass_none_active (b : list row) : none_active S O b = true -> pass b = b.
  Proof.
    unfold IterStop.pass, none_active. induction b as [|r b IH]; cbn [forallb map]; [reflexivity|].
    intros H. apply andb_prop in H. destruct H as [Hr Hb].
    rewrite IH by exact Hb. rewrite iter_row_inactive; [reflexivity|]. destruct (act r); [discriminate|reflexivity].
  Qed.

  Lemma iter_pass_none_active n (b : list row) : none_active S O b = true -> iter n pass b = b.
  Proof. intros H. induction n as [|n IH]; cbn [iter]; [reflexivity|]. rewrite pass_none_active by exact H. exact IH. Qed.

  Lemma batch_loop_iter n : forall b : list row, batch_loop S O step out stop n b = iter n pass b.
  Proof.
    induction n as [|n IH]; intros b; [reflexivity|].
    cbn [batch_loop iter].
    destruct (none_active S O (pass b)) eqn:Hn.
    - symmetry. apply iter_pass_none_active, Hn.
    - apply IH.
  Qed.

  Lemma iter_map {A} (f : A -> A) n : forall l, iter n (map f) l = map (iter n f) l.
  Proof.
    induction n as [|n IH]; intros l; cbn [iter].
    - symmetry. apply map_id.
    - rewrite IH, map_map. reflexivity.
  Qed.

  (* index-set stopping: a batch is the stack of its members decoded alone, for every batch, every budget *)
  Theorem index_set_stop_pure n d (ss : list S) :
    batch_decode S O step out stop n d ss = map (single_decode S O step out stop n d) ss.
  Proof.
    unfold batch_decode, single_decode. rewrite batch_loop_iter. unfold IterStop.pass. rewrite iter_map, !map_map.
    apply map_ext. intros s. rewrite single_loop_iter. reflexivity.
  Qed.

  (* a member's answer does not depend on the others, nor on its position *)
  Corollary index_set_stop_member n d (ss : list S) i s0 :
    i < length ss -> nth i (batch_decode S O step out stop n d ss) d = single_decode S O step out stop n d (nth i ss s0).
  Proof.
    intros Hi. rewrite index_set_stop_pure.
    rewrite (nth_indep _ d (single_decode S O step out stop n d s0)) by (rewrite map_length; exact Hi).
    apply map_nth.
  Qed.

  Corollary index_set_stop_app n d (a b : list S) :
    batch_decode S O step out stop n d (a ++ b) = batch_decode S O step out stop n d a ++ batch_decode S O step out stop n d b.
  Proof. rewrite !index_set_stop_pure. apply map_app. Qed.
End Facts.

Section Fixed.
  Variables (S O : Type) (step : S -> S) (out : S -> O).
  Let never : S -> bool := fun _ => false.

  Lemma fixed_iter_row n : forall r : row S O, act r = true ->
    iter (Datatypes.S n) (iter_row S O step out never) r = mk (iter (Datatypes.S n) step (st r)) true (out (iter (Datatypes.S n) step (st r))).
  Proof.
    induction n as [|n IH]; intros r Ha.
    - cbn [iter]. unfold iter_row. rewrite Ha. reflexivity.
    - change (iter (Datatypes.S (Datatypes.S n)) (iter_row S O step out never) r) with (iter (Datatypes.S n) (iter_row S O step out never) (iter_row S O step out never r)).
      assert (H1 : iter_row S O step out never r = mk (step (st r)) true (out (step (st r)))) by (unfold iter_row; rewrite Ha; reflexivity).
      rewrite H1, IH by reflexivity. reflexivity.
  Qed.

  (* a loop that always runs its n > 0 passes: every member gets exactly n steps, whatever the batch *)
  Theorem fixed_count_pure n d (ss : list S) :
    batch_decode S O step out never (Datatypes.S n) d ss = map (fun s => out (iter (Datatypes.S n) step s)) ss.
  Proof.
    rewrite index_set_stop_pure. apply map_ext. intros s. unfold single_decode. rewrite single_loop_iter.
    rewrite fixed_iter_row by reflexivity. reflexivity.
  Qed.
End Fixed.

(* whole-batch stopping is NOT pure: a member that is satisfied after one pass keeps being updated because of its neighbour *)
Theorem whole_batch_stop_refuted :
  exists (step : nat -> nat) (out : nat -> nat) (stop : nat -> bool) (n : nat) (d : nat) (ss : list nat),
    global_decode nat nat step out stop n d ss <> map (single_decode nat nat step out stop n d) ss
    /\ forall s, In s ss -> global_decode nat nat step out stop n d [s] = [single_decode nat nat step out stop n d s].
Proof.
  exists Datatypes.S, (fun s => s), (fun s => Nat.eqb s 1), 3, 0, [0; 5].
  split; [vm_compute; discriminate|].
  intros s [<-|[<-|[]]]; vm_compute; reflexivity.
Qed.

(* what a recognised discipline gives (Gen/IterLoops.v names the discipline of each published loop) *)
Definition pure_discipline (k : discipline) : Prop :=
  match k with
  | FixedCount => forall (S O : Type) (step : S -> S) (out : S -> O) n d ss,
      batch_decode S O step out (fun _ => false) (Datatypes.S n) d ss = map (fun s => out (iter (Datatypes.S n) step s)) ss
  | PerRowIndexSet => forall (S O : Type) (step : S -> S) (out : S -> O) (stop : S -> bool) n d ss,
      batch_decode S O step out stop n d ss = map (single_decode S O step out stop n d) ss
  end.

Lemma every_discipline_pure k : pure_discipline k.
Proof. destruct k; cbn [pure_discipline]; intros. - apply fixed_count_pure. - apply index_set_stop_pure. Qed.
