(* C20 -- per-sample components as pure functions: the batch result is the stack of the single results.
   A component is modelled by the function f it applies to one item (one row, one block); the batched entry point is
   `map f` over the leading dimension and `blockwise` (Base/Layout.v) along the last one.  What a model of pure functions
   cannot exhibit - hidden state between calls, in-place modification of the argument - is left to the correspondence
   check, which runs call histories on the real objects. *)
From Coq Require Import List Bool Arith Lia Permutation.
Import ListNotations.
From KV Require Import Base.Layout Base.LayoutFacts.

Section Pure.
Context {A B : Type} (f : A -> B).

(* batch = stack of singles, position by position *)
Theorem batch_is_stack (xs : list A) i d d' : i < length xs -> nth i (map f xs) d' = f (nth i xs d).
Proof. intro H. now apply map_nth_in. Qed.

Theorem batch_length (xs : list A) : length (map f xs) = length xs.
Proof. apply map_length. Qed.

(* the answer for a member does not depend on the other members nor on its position *)
Theorem member_independent (before after before' after' : list A) x d :
  nth (length before) (map f (before ++ x :: after)) d = nth (length before') (map f (before' ++ x :: after')) d.
Proof.
  rewrite !map_app. cbn [map]. rewrite !app_nth2 by (rewrite map_length; lia). rewrite !map_length, !Nat.sub_diag. reflexivity.
Qed.

(* any reordering of the batch reorders the results in the same way *)
Theorem batch_permutation (xs ys : list A) : Permutation xs ys -> Permutation (map f xs) (map f ys).
Proof. apply Permutation_map. Qed.

Theorem batch_reindex (xs : list A) (pi : list nat) d d' : (forall i, In i pi -> i < length xs) ->
  map (fun i => nth i (map f xs) d') pi = map f (map (fun i => nth i xs d) pi).
Proof.
  intro H. rewrite map_map. apply map_ext_in. intros i Hi. apply batch_is_stack. now apply H.
Qed.

(* batch of one = the single call; splitting a batch anywhere *)
Theorem batch_of_one x : map f [x] = [f x].
Proof. reflexivity. Qed.
Theorem batch_split (xs ys : list A) : map f (xs ++ ys) = map f xs ++ map f ys.
Proof. apply map_app. Qed.
End Pure.

(* ---- grouping of blocks along the last dimension ---- *)
Section Blocks.
Context {A B : Type} (g : list A -> list B).

Lemma chunks_app bs (l1 l2 : list A) : 0 < bs -> Nat.modulo (length l1) bs = 0 -> Nat.modulo (length l2) bs = 0 ->
  chunks bs (l1 ++ l2) = chunks bs l1 ++ chunks bs l2.
Proof.
  intros Hbs H1 H2.
  pose proof (chunks_fuel_lengths (length l1) bs l1 Hbs (le_n _) H1) as F1.
  pose proof (chunks_fuel_lengths (length l2) bs l2 Hbs (le_n _) H2) as F2.
  fold (chunks bs l1) in F1. fold (chunks bs l2) in F2.
  rewrite <- (concat_chunks bs l1 Hbs) at 1. rewrite <- (concat_chunks bs l2 Hbs) at 1. rewrite <- concat_app.
  apply chunks_of_blocks; [exact Hbs|]. apply Forall_app. split; assumption.
Qed.

(* a row of b1 + b2 blocks gives the results of its two parts one after the other: how blocks are grouped along the
   last dimension does not matter *)
Theorem blockwise_grouping bs (l1 l2 : list A) r1 r2 : 0 < bs -> blockwise bs g l1 = Some r1 -> blockwise bs g l2 = Some r2 ->
  blockwise bs g (l1 ++ l2) = Some (r1 ++ r2).
Proof.
  intros Hbs E1 E2. unfold blockwise in *. destruct (bs =? 0) eqn:Eb; [discriminate|].
  destruct (Nat.modulo (length l1) bs =? 0) eqn:M1; [|discriminate]. destruct (Nat.modulo (length l2) bs =? 0) eqn:M2; [|discriminate].
  apply Nat.eqb_eq in M1, M2. injection E1 as <-. injection E2 as <-.
  assert (Hm : Nat.modulo (length (l1 ++ l2)) bs = 0).
  { rewrite app_length. apply Nat.mod_divides in M1; [|lia]. apply Nat.mod_divides in M2; [|lia]. destruct M1 as [a Ha], M2 as [b Hb].
    apply Nat.mod_divides; [lia|]. exists (a + b). lia. }
  rewrite Hm. cbn [Nat.eqb]. rewrite chunks_app by assumption. rewrite map_app, concat_app. reflexivity.
Qed.

(* a single block is answered by g itself *)
Theorem blockwise_single bs (l : list A) : 0 < bs -> length l = bs -> blockwise bs g l = Some (g l).
Proof.
  intros Hbs Hl. unfold blockwise. replace (bs =? 0) with false by (symmetry; apply Nat.eqb_neq; lia).
  rewrite Hl, Nat.mod_same by lia. cbn [Nat.eqb].
  assert (Hc : chunks bs (concat [l]) = [l]) by (apply chunks_of_blocks; [exact Hbs|constructor; [exact Hl|constructor]]).
  cbn [concat] in Hc. rewrite app_nil_r in Hc. rewrite Hc. cbn [map concat]. now rewrite app_nil_r.
Qed.

(* a layout the component cannot process is rejected, never answered *)
Theorem blockwise_rejects_bad_length bs (l : list A) : Nat.modulo (length l) bs <> 0 -> blockwise bs g l = None.
Proof. apply blockwise_rejects. Qed.

(* rows are processed independently: (B, b*n) = per row *)
Theorem rows_independent bs (rows : list (list A)) out i : blockwise2 bs g rows = Some out -> i < length rows ->
  blockwise bs g (nth i rows []) = Some (nth i out []).
Proof.
  unfold blockwise2. revert out i. induction rows as [|r rows IH]; intros out i E Hi; [cbn in Hi; lia|].
  cbn [map all_some] in E. destruct (blockwise bs g r) as [o|] eqn:Er; [|discriminate].
  destruct (all_some (map (blockwise bs g) rows)) as [os|] eqn:Eo; [|discriminate]. injection E as <-.
  destruct i as [|i]; [exact Er|]. cbn [nth]. apply IH; [reflexivity|cbn in Hi; lia].
Qed.
End Blocks.
