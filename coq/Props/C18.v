(* C18 -- Binary polynomial and GF(2^m) arithmetic satisfy the ring and field laws.
   Only statements closed by [exact]; proofs live in Algebra/*Facts.v.
   Polynomials are bit masks in N (unbounded); fields are the rows of the modulus table REGENERATED
   from kaira/models/fec/algebra.py (Gen/PrimPolys.v). *)
From Coq Require Import NArith ZArith List Bool.
From KV Require Import Gen.PrimPolys Algebra.BinPoly Algebra.BinPolyFacts Algebra.GF2m Algebra.Field
  Algebra.GF2mFacts Algebra.FieldFacts.
Import ListNotations.
Local Open Scope N_scope.

(* ---- binary polynomials: commutative ring under (xor, pmul), all a b c : N ---- *)
Theorem C18_mul_comm : forall a b, pmul a b = pmul b a.
Proof. exact pmul_comm. Qed.
Print Assumptions C18_mul_comm.

Theorem C18_mul_assoc : forall a b c, pmul (pmul a b) c = pmul a (pmul b c).
Proof. exact pmul_assoc. Qed.
Print Assumptions C18_mul_assoc.

Theorem C18_mul_distr : forall a b c,
  pmul a (N.lxor b c) = N.lxor (pmul a b) (pmul a c) /\ pmul (N.lxor a b) c = N.lxor (pmul a c) (pmul b c).
Proof. intros a b c. split; [apply pmul_lxor_r|apply pmul_lxor_l]. Qed.
Print Assumptions C18_mul_distr.

Theorem C18_mul_unit : forall a, pmul 1 a = a /\ pmul a 1 = a.
Proof. intro a. split; [apply pmul_1_l|apply pmul_1_r]. Qed.
Print Assumptions C18_mul_unit.

Theorem C18_degree_mul : forall a b, a <> 0 -> b <> 0 -> degree (pmul a b) = (degree a + degree b)%Z.
Proof. exact degree_pmul. Qed.
Print Assumptions C18_degree_mul.

(* ---- Euclidean division: a = q b + r with deg r < deg b; q, r unique; zero divisor rejected ---- *)
Theorem C18_divmod_spec : forall a d, d <> 0 ->
  exists q r, divmod a d = Some (q, r) /\ a = N.lxor (pmul q d) r /\ (degree r < degree d)%Z.
Proof. exact divmod_spec. Qed.
Print Assumptions C18_divmod_spec.

Theorem C18_divmod_unique : forall d q1 r1 q2 r2, d <> 0 ->
  N.lxor (clmul q1 d) r1 = N.lxor (clmul q2 d) r2 ->
  N.size r1 < N.size d -> N.size r2 < N.size d -> q1 = q2 /\ r1 = r2.
Proof. exact divmod_unique. Qed.
Print Assumptions C18_divmod_unique.

Theorem C18_mod_div_agree : forall a d, d <> 0 ->
  exists q r, pmod a d = Some r /\ pdiv a d = Some q /\ a = N.lxor (clmul q d) r /\ N.size r < N.size d.
Proof. exact pmod_pdiv_agree. Qed.
Print Assumptions C18_mod_div_agree.

Theorem C18_zero_divisor_rejected : forall a, pmod a 0 = None /\ pdiv a 0 = None.
Proof. intro a. split; reflexivity. Qed.
Print Assumptions C18_zero_divisor_rejected.

(* ---- gcd: divides both, is a combination of them (Bezout), is greatest; lcm * gcd = a * b ---- *)
Theorem C18_gcd_spec : forall a b,
  exists g, pgcd a b = Some g /\ divides g a /\ divides g b /\ bezout a b g
            /\ (forall c, divides c a -> divides c b -> divides c g).
Proof. exact pgcd_spec. Qed.
Print Assumptions C18_gcd_spec.

Theorem C18_lcm_spec : forall a b, a <> 0 -> b <> 0 ->
  exists l g, plcm a b = Some l /\ pgcd a b = Some g /\ pmul l g = pmul a b /\ divides a l /\ divides b l.
Proof. exact plcm_spec. Qed.
Print Assumptions C18_lcm_spec.

(* ---- the fields of the regenerated table ---- *)
(* every m in 1..max_m has a row; every row has a modulus of degree m and a designated primitive
   element of multiplicative order exactly 2^m - 1 (kernel computation on the current table) *)
Theorem C18_table_covers : table_covers = true.
Proof. vm_compute. reflexivity. Qed.
Print Assumptions C18_table_covers.

Theorem C18_all_rows_ok : forallb row_test modulus_table = true.
Proof. vm_compute. reflexivity. Qed.
Print Assumptions C18_all_rows_ok.

(* from these, for every row (m, p) and all elements a b c < 2^m: *)
Theorem C18_field_ring_laws : forall m p, In (m, p) modulus_table -> forall a b c, a < 2 ^ m -> b < 2 ^ m -> c < 2 ^ m ->
  fmul m p a b < 2 ^ m /\
  fmul m p a b = fmul m p b a /\
  fmul m p (fmul m p a b) c = fmul m p a (fmul m p b c) /\
  fmul m p a (N.lxor b c) = N.lxor (fmul m p a b) (fmul m p a c) /\
  fmul m p a 1 = a /\ fadd m a b = N.lxor a b.
Proof. exact (table_ring_laws C18_all_rows_ok). Qed.
Print Assumptions C18_field_ring_laws.

Theorem C18_frobenius : forall m p, In (m, p) modulus_table -> forall a b, a < 2 ^ m -> b < 2 ^ m ->
  fmul m p (N.lxor a b) (N.lxor a b) = N.lxor (fmul m p a a) (fmul m p b b).
Proof. exact (table_frobenius C18_all_rows_ok). Qed.
Print Assumptions C18_frobenius.

(* __pow__ (square and multiply with its shortcuts) is the iterated product *)
Theorem C18_pow_spec : forall m p, In (m, p) modulus_table -> forall a e, a < 2 ^ m ->
  fpow m p a e = pow_nat m p a (N.to_nat e).
Proof. exact (table_pow_spec C18_all_rows_ok). Qed.
Print Assumptions C18_pow_spec.

(* the designated primitive element has order exactly 2^m - 1 *)
Theorem C18_primitive_order : forall m p, In (m, p) modulus_table ->
  pow_nat m p (prim m) (N.to_nat (2 ^ m - 1)) = 1 /\
  forall j, (0 < j < N.to_nat (2 ^ m - 1))%nat -> pow_nat m p (prim m) j <> 1.
Proof. exact (table_primitive_order C18_all_rows_ok). Qed.
Print Assumptions C18_primitive_order.

(* every non-zero element is a power of the primitive element; hence inverses (Fermat), no zero divisors *)
Theorem C18_powers_exhaust : forall m p, In (m, p) modulus_table -> forall a, a < 2 ^ m -> a <> 0 ->
  exists j, (j < N.to_nat (2 ^ m - 1))%nat /\ a = pow_nat m p (prim m) j.
Proof. exact (table_powers_exhaust C18_all_rows_ok). Qed.
Print Assumptions C18_powers_exhaust.

Theorem C18_inverse : forall m p, In (m, p) modulus_table -> forall a, a < 2 ^ m -> a <> 0 ->
  exists b, finv m p a = Some b /\ b < 2 ^ m /\ fmul m p a b = 1.
Proof. exact (table_inverse C18_all_rows_ok). Qed.
Print Assumptions C18_inverse.

Theorem C18_no_zero_divisors : forall m p, In (m, p) modulus_table -> forall a b, a < 2 ^ m -> b < 2 ^ m ->
  fmul m p a b = 0 -> a = 0 \/ b = 0.
Proof. exact (table_integral C18_all_rows_ok). Qed.
Print Assumptions C18_no_zero_divisors.
