(* C12 -- binary channels follow their transition law and never leave their alphabet.
   Model: Chan/Digital.v (pure functions of input, probability and the uniform draws consumed); proofs in
   Chan/DigitalFacts.v.  The law of the draws themselves (i.i.d. uniform on [0,1)) is assumption A-rng. *)
From Coq Require Import QArith List Bool.
From KV Require Import Chan.Digital Chan.DigitalFacts.
Import ListNotations.

(* BSC on {0,1}: every output depends on its own symbol and its own draw only; it is flipped iff the draw is below
   p; outputs stay in {0,1} -- any length, any p, any draws *)
Theorem C12_bsc_binary : forall x u p, Forall (fun v => v = 0 \/ v = 1) x ->
  Forall2 Qeq (bsc x u p) (map (fun vu => if ltb (snd vu) p then flip01 (fst vu) else fst vu) (combine x u)).
Proof. exact bsc_binary_pointwise. Qed.
Print Assumptions C12_bsc_binary.

(* BSC on {-1,+1} (recognised by a -1 being present): sign flipped iff the draw is below p; outputs stay in {-1,+1} *)
Theorem C12_bsc_bipolar : forall x u p, Forall (fun v => v = -1 \/ v = 1) x -> In (-1) x ->
  Forall2 Qeq (bsc x u p) (map (fun vu => if ltb (snd vu) p then - fst vu else fst vu) (combine x u)).
Proof. exact bsc_bipolar_pointwise. Qed.
Print Assumptions C12_bsc_bipolar.

(* the flip event {u < p}: never for p = 0, always for p = 1 (draws lie in [0,1)), monotone in p *)
Theorem C12_flip_event : forall d, (0 <= d -> ltb d 0 = false) /\ (d < 1 -> ltb d 1 = true) /\
  (forall p1 p2, p1 <= p2 -> ltb d p1 = true -> ltb d p2 = true).
Proof. intro d. split; [apply ltb_false_of_p0|]. split; [apply ltb_true_of_p1|]. intros; eapply ltb_mono; eassumption. Qed.
Print Assumptions C12_flip_event.

(* BEC: an unerased symbol is unchanged, an erased one is the erasure symbol; erased iff its own draw is below p *)
Theorem C12_bec_pointwise : forall x u p e, length u = length x ->
  length (bec x u p e) = length x /\
  forall i, (i < length x)%nat -> nth i (bec x u p e) 0 = if ltb (nth i u 0) p then e else nth i x 0.
Proof. exact bec_pointwise. Qed.
Print Assumptions C12_bec_pointwise.

(* Z channel on {0,1}: a 0 never becomes a 1; a 1 either stays or falls to 0 -- any draws, any p *)
Theorem C12_z_never_raises : forall x u p, Forall (fun v => v = 0 \/ v = 1) x ->
  zch x u p = (if ltb 0 p then z_apply x u p else x) /\
  Forall2 (fun v y => y = v \/ (v = 1 /\ y = 0)) x (z_apply x u p).
Proof. intros. split; [now apply zch_binary|now apply z_apply_never_raises]. Qed.
Print Assumptions C12_z_never_raises.

Theorem C12_z_extremes : forall x' u p,
  (Forall (fun d => ltb d p = false) u -> z_apply x' u p = x') /\
  (Forall (fun d => ltb d p = true) u -> (length (filter (fun v => Qeq_bool v 1) x') <= length u)%nat ->
   z_apply x' u p = map (fun v => if Qeq_bool v 1 then 0 else v) x').
Proof. intros. split; [apply z_apply_p0|apply z_apply_all_fall]. Qed.
Print Assumptions C12_z_extremes.
