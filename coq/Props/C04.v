(* C04 -- encoding followed by the encoder's own message extraction is the identity.
   Proofs in Base/GF2Facts.v (right inverse on published matrices) and Base/LayoutFacts.v (blockwise layout,
   systematic scatter/gather). *)
From Coq Require Import NArith List Bool Arith.
From KV Require Import Base.GF2 Base.GF2Facts Base.Layout Base.LayoutFacts.
Import ListNotations.

(* inverse_encode = multiplication by the published right inverse R: if the kernel-evaluated check on the k unit
   messages holds, then (m.G).R = m for ALL 2^k messages, and the encoder is injective *)
Theorem C04_right_inverse : forall k G R, right_inverse_ok k G R = true ->
  (forall m, (m < 2 ^ N.of_nat k)%N -> comb (comb m G) R = m) /\
  (forall m m', (m < 2 ^ N.of_nat k)%N -> (m' < 2 ^ N.of_nat k)%N -> comb m G = comb m' G -> m = m').
Proof. exact right_inverse_sound. Qed.
Print Assumptions C04_right_inverse.

(* ... with an all-zero syndrome *)
Theorem C04_zero_syndrome : forall G H, rows_in_kernel G H = true -> forall m, syndN (comb m G) H = 0%N.
Proof. exact rows_in_kernel_sound. Qed.
Print Assumptions C04_zero_syndrome.

(* projection onto the information set undoes systematic encoding: every n, every duplicate-free information set in
   any order (left, right, arbitrary, permuted) disjoint from the parity set, every message, every parity content *)
Theorem C04_project_encode_id : forall n info par m p, NoDup info -> (forall j, In j info -> j < n) ->
  (forall j, In j info -> ~ In j par) -> length m = length info -> gather info (scatter n info par m p) = m.
Proof. exact gather_scatter. Qed.
Print Assumptions C04_project_encode_id.

(* blockwise: for every per-block round trip, every number of concatenated blocks: the encoded length is exactly
   (len/k)*n and decoding returns the input; lengths that are not a multiple of the block size are rejected *)
Theorem C04_blockwise_roundtrip : forall (A B : Type) (k n : nat) (enc : list A -> list B) (dec : list B -> list A) (x : list A),
  0 < k -> 0 < n -> (forall m, length m = k -> length (enc m) = n /\ dec (enc m) = m) ->
  Nat.modulo (length x) k = 0 ->
  exists y, blockwise k enc x = Some y /\ length y = (length x / k) * n /\ blockwise n dec y = Some x.
Proof. exact @blockwise_roundtrip. Qed.
Print Assumptions C04_blockwise_roundtrip.

Theorem C04_blockwise_rejects : forall (A B : Type) bs (f : list A -> list B) x,
  Nat.modulo (length x) bs <> 0 -> blockwise bs f x = None.
Proof. exact @blockwise_rejects. Qed.
Print Assumptions C04_blockwise_rejects.
