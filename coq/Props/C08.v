(* C08 -- power, amplitude and PAPR constraints enforce their limit on every batch item.
   Statements on exact rationals in squared form (Constr/Power.v): an item is scaled by s with s^2 = T/(c+eps). *)
From Coq Require Import QArith Qabs List.
Import ListNotations.
From KV Require Import Constr.Power Constr.PowerFacts.
Local Open Scope Q_scope.

(* positive factor; never more than the target; within 0.1 % above c >= 999 eps; same after a second application and
   after rescaling the input *)
Theorem C08_positive_scale : forall T c, 0 < T -> 0 <= c -> 0 < scale_sq T c.
Proof. exact scale_sq_pos. Qed.
Print Assumptions C08_positive_scale.

Theorem C08_item_power : forall T p, 0 < T -> nonneg p ->
  qsum (scale_powers (scale_sq T (qsum p)) p) == out_power T (qsum p) /\ out_power T (qsum p) < T /\
  (999 * eps8 <= qsum p -> (999 # 1000) * T <= out_power T (qsum p)).
Proof.
  intros T p HT Hp. pose proof (qsum_nonneg p Hp) as Hs. split; [now apply scaled_item_power|split; [now apply out_power_lt|]].
  intro H. apply out_power_close; [apply Qlt_le_weak, HT|exact H].
Qed.
Print Assumptions C08_item_power.

Theorem C08_idempotent : forall T c, 0 < T -> 0 <= c -> 999 * eps8 <= out_power T c ->
  (999 # 1000) * T <= out_power T (out_power T c) /\ out_power T (out_power T c) < T.
Proof. exact second_application. Qed.
Print Assumptions C08_idempotent.

Theorem C08_rescale_invariant : forall T c a2, 0 < T -> 999 * eps8 <= c -> 999 * eps8 <= a2 * c ->
  Qabs (out_power T (a2 * c) - out_power T c) <= (1 # 1000) * T.
Proof. exact rescale_invariant. Qed.
Print Assumptions C08_rescale_invariant.

(* peak amplitude *)
Theorem C08_clamp : forall A x, 0 <= A ->
  (- A <= clamp A x /\ clamp A x <= A) /\ clamp A (clamp A x) == clamp A x /\ 0 <= x * clamp A x /\ (- A <= x <= A -> clamp A x == x).
Proof. intros A x HA. split; [now apply clamp_bound|split; [now apply clamp_idempotent|split; [now apply clamp_sign|apply clamp_in_range]]]. Qed.
Print Assumptions C08_clamp.

Theorem C08_clip_bounds_every_sample : forall a2 p x, In x (clip_sq a2 p) -> x <= a2.
Proof. exact clip_bound. Qed.
Print Assumptions C08_clip_bounds_every_sample.

(* PAPR *)
Theorem C08_clipping_never_increases_papr : forall m a2 p, 0 <= m -> 0 <= a2 -> nonneg p -> papr_le m p -> papr_le m (clip_sq a2 p).
Proof. exact clip_keeps_papr. Qed.
Print Assumptions C08_clipping_never_increases_papr.

Theorem C08_scaling_keeps_papr : forall m s2 p, 0 <= s2 -> papr_le m p -> papr_le m (scale_powers s2 p).
Proof. exact scale_keeps_papr. Qed.
Print Assumptions C08_scaling_keeps_papr.

Theorem C08_papr_constraint_never_increases : forall m m0 p, 0 <= m -> 0 <= m0 -> nonneg p -> papr_le m0 p ->
  nonneg (papr_constraint m p) /\ papr_le m0 (papr_constraint m p).
Proof. exact papr_constraint_never_increases. Qed.
Print Assumptions C08_papr_constraint_never_increases.

Theorem C08_papr_constraint_peak : forall m p x, In x (papr_constraint m p) -> x <= qmean (papr_loop m 15 0 p) * m * (98 # 100).
Proof. exact papr_constraint_peak. Qed.
Print Assumptions C08_papr_constraint_peak.

(* partial: the configured limit is proved only when the final clip keeps 98 % of the power; otherwise it is decided per input *)
Theorem C08_papr_constraint_limit_partial : forall m p, 0 <= m -> nonneg p -> 0 < qlen (papr_loop m 15 0 p) ->
  (98 # 100) * qsum (papr_loop m 15 0 p) <= qsum (papr_constraint m p) -> papr_le m (papr_constraint m p).
Proof. exact papr_constraint_limit_partial. Qed.
Print Assumptions C08_papr_constraint_limit_partial.

(* composites *)
Theorem C08_composite_is_sequential : forall (A : Type) (cs1 cs2 : list (A -> A)) (c : A -> A) x,
  composite (cs1 ++ cs2) x = composite cs2 (composite cs1 x) /\ composite (c :: cs1) x = composite cs1 (c x) /\ composite [] x = x.
Proof. intros. split; [apply composite_app|split; reflexivity]. Qed.
Print Assumptions C08_composite_is_sequential.

Theorem C08_ofdm_chain : forall m T A2 p, 0 <= m -> 0 < T -> 0 <= A2 -> nonneg p -> papr_le m p ->
  let out := clip_sq A2 (scale_powers (scale_sq T (qsum p)) p) in
  papr_le m out /\ (forall x, In x out -> x <= A2) /\ qsum out < T.
Proof. exact ofdm_chain. Qed.
Print Assumptions C08_ofdm_chain.

Theorem C08_power_after_peak_refuted : exists (A2 T : Q) (p : list Q), 0 < T /\ (forall x, In x p -> x <= A2) /\
  exists x, In x (scale_powers (scale_sq T (qsum p)) p) /\ A2 < x.
Proof. exact power_after_peak_refuted. Qed.
Print Assumptions C08_power_after_peak_refuted.
