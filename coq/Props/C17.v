(* C17 -- pipeline models run their stages in declared order, independent of thread timing.
   Statements only; proofs in Pipe/PipelineFacts.v; models in Pipe/Pipeline.v.  All theorems are generic in the
   value type V and in what each stage computes (app). *)
From Coq Require Import List Bool Arith ZArith Permutation.
From KV Require Import Pipe.Pipeline Pipe.PipelineFacts.
Import ListNotations.

(* sequential pipelines (generic, DeepJSCC, channel-code): each stage exactly once, in declared order, each on its
   predecessor's output -- for every list of stages *)
Theorem C17_sequential_order : forall V app steps x,
  sforward V app steps x = (fold_left (fun v s => app s v) steps x, trace_spec V app steps x)
  /\ map fst (snd (sforward V app steps x)) = steps.
Proof. intros. split; [apply sforward_spec|apply sforward_calls]. Qed.
Print Assumptions C17_sequential_order.

(* add_step appends; remove_step(i) deletes exactly position i (rejected outside [0, len)) and keeps the order of the rest *)
Theorem C17_remove_keeps_order : forall (A : Type) i (l : list A) d j, i < length l ->
  length (remove_at i l) = length l - 1 /\
  nth j (remove_at i l) d = if j <? i then nth j l d else nth (S j) l d.
Proof. intros. split; [now apply remove_at_length|now apply remove_at_nth]. Qed.
Print Assumptions C17_remove_keeps_order.

Theorem C17_deepjscc_and_channelcode_order : forall V app e c ch d m dm x,
  map fst (snd (sforward V app (deepjscc_steps e c ch d) x)) = [e; c; ch; d] /\
  map fst (snd (sforward V app (channelcode_steps e c m ch dm d) x)) = [e; m; c; ch; dm; d].
Proof. intros. split; apply sforward_calls. Qed.
Print Assumptions C17_deepjscc_and_channelcode_order.

(* parallel model: for EVERY completion order pi (any permutation of the submitted futures) and pairwise distinct
   names, every branch's result is stored under its own name and the dictionary / aggregator input is in declared
   order -- the right-hand sides do not depend on pi *)
Theorem C17_parallel_any_completion_order : forall V app cfgs x pi,
  NoDup (map fst cfgs) -> Permutation pi (seq 0 (length cfgs)) ->
  parallel_results V app cfgs x pi = map (fun c => (fst c, app (snd c) x)) cfgs /\
  parallel_agg_input V app cfgs x pi = map (fun c => app (snd c) x) cfgs.
Proof. intros. split; [now apply parallel_declared_order|now apply parallel_aggregator_order]. Qed.
Print Assumptions C17_parallel_any_completion_order.

(* branching: exactly one model runs -- that of the first branch in insertion order whose condition holds (conditions
   of later branches are not evaluated), else the default, else an error *)
Theorem C17_branching_first_match : forall V app l d x seen seen' r, bforward_aux V app l d x seen = (seen', r) ->
  match r with
  | Some (Some n, v) => exists pre b post, l = pre ++ b :: post /\ bname V b = n /\ bcond V b x = true /\
                        (forall b', In b' pre -> bcond V b' x = false) /\
                        seen' = seen ++ map (bname V) pre ++ [n] /\ v = app (bmodel V b) x
  | Some (None, v) => (forall b', In b' l -> bcond V b' x = false) /\ seen' = seen ++ map (bname V) l /\
                      exists m, d = Some m /\ v = app m x
  | None => (forall b', In b' l -> bcond V b' x = false) /\ seen' = seen ++ map (bname V) l /\ d = None
  end.
Proof. exact bforward_aux_spec. Qed.
Print Assumptions C17_branching_first_match.

Theorem C17_branch_names_stay_distinct : forall V s o, NoDup (map (bname V) (branches V s)) ->
  NoDup (map (bname V) (branches V (fst (bstep V s o)))).
Proof. intros V. exact (bstep_names_nodup V (fun _ v => v)). Qed.
Print Assumptions C17_branch_names_stay_distinct.

(* feedback model: exactly max_iterations rounds, the six component calls of each in order *)
Theorem C17_feedback_rounds : forall n, feedback_run n = (concat (map round_calls (seq 0 n)), n).
Proof. exact feedback_rounds. Qed.
Print Assumptions C17_feedback_rounds.

(* multiple access: user i is encoded by encoder i (whatever aliasing the list has); one shared object serves all *)
Theorem C17_mac_encoders : forall encs users e, 
  (length encs = users -> mac_encoder_calls encs users = map (fun i => (nth i encs 0, i)) (seq 0 users)) /\
  mac_encoder_calls [e] users = map (fun i => (e, i)) (seq 0 users).
Proof. intros. split; [apply mac_each_user_own_encoder|apply mac_single_shared_encoder]. Qed.
Print Assumptions C17_mac_encoders.
