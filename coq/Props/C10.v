(* C10 -- soft-input decoders: clean input decodes clean; Wagner is maximum likelihood.
   Models: Decoders/Wagner.v, Decoders/BP.v; proofs: WagnerFacts.v, BPFacts.v, BPMinSum.v. *)
From Coq Require Import List Bool Arith QArith.
From KV Require Import Codes.PolarSC Decoders.Wagner Decoders.WagnerFacts Decoders.BP Decoders.BPFacts Decoders.BPMinSum.
From KV Require Decoders.BPTanhR.
Import ListNotations.

(* Wagner: for EVERY non-empty real input (ties included) the decoded word has even parity and no even-parity word
   has a larger correlation sum (1 - 2 c_i) r_i: a maximum-likelihood codeword of the single-parity-check code *)
Theorem C10_wagner_is_ml : forall r, r <> [] ->
  Wagner.parity (wagner_word r) = false /\ length (wagner_word r) = length r /\
  forall c, length c = length r -> Wagner.parity c = false -> corr c r <= corr (wagner_word r) r.
Proof. exact wagner_is_ml. Qed.
Print Assumptions C10_wagner_is_ml.

(* flooding belief propagation / min-sum on ANY parity-check matrix: if the channel LLRs carry a codeword with any
   positive magnitudes and the check-node function is sign consistent, then after ANY number of iterations every
   posterior LLR carries the transmitted bit and the hard decisions are the codeword *)
Theorem C10_bp_clean_decodes : forall (Phi : list Q -> Q) (H : list (list bool)) (nc nv : nat) (x : list bool) (L : list Q),
  (forall l bits, l <> [] -> Forall2 agrees l bits -> agrees (Phi l) (parityb bits)) ->
  (forall c, (c < nc)%nat -> parityb (map (fun v => nth v x false) (filter (edge H c) (seq 0 nv))) = false) ->
  (forall v, (v < nv)%nat -> agrees (nth v L 0) (nth v x false)) ->
  forall n v, (v < nv)%nat ->
    agrees (nth v (bp_posterior Phi H nc nv n L) 0) (nth v x false) /\
    nth v (bp_decide Phi H nc nv n L) false = nth v x false.
Proof. intros Phi H nc nv x L H1 H2 H3 n v Hv. split; [now apply bp_clean_posterior|now apply bp_clean_decodes]. Qed.
Print Assumptions C10_bp_clean_decodes.

(* the min-sum check update (sign product times minimum magnitude, positive scaling, no offset) is sign consistent *)
Theorem C10_minsum_update_sign_consistent : forall scale, 0 < scale -> forall l bits, l <> [] -> Forall2 agrees l bits ->
  agrees (minsum_phi scale 0 l) (parityb bits).
Proof. exact minsum_phi_consistent. Qed.
Print Assumptions C10_minsum_update_sign_consistent.

(* ingredients of scale invariance: |.| and sign are homogeneous under positive rescaling *)
Theorem C10_minsum_homogeneous_parts : forall a x, 0 < a -> BP.qabs (a * x) == a * BP.qabs x /\ BP.qsgn (a * x) == BP.qsgn x.
Proof. intros. split; [now apply qabs_scale|now apply qsgn_scale]. Qed.
Print Assumptions C10_minsum_homogeneous_parts.

(* the exact sum-product check update 2 atanh (prod tanh (l_i / 2)) over the reals is sign consistent as well (Coq Reals):
   non-zero incoming messages that carry the signs of their bits give a non-zero outgoing message with the sign of the parity *)
Theorem C10_sum_product_update_sign_consistent : forall (l : list Rdefinitions.R) bits, l <> [] -> Forall2 BPTanhR.agreesR l bits ->
  BPTanhR.agreesR (BPTanhR.phi_tanh l) (BPTanhR.parityb bits).
Proof. exact BPTanhR.phi_tanh_consistent. Qed.
Print Assumptions C10_sum_product_update_sign_consistent.
