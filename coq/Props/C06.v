(* C06 -- demodulators decide for the nearest point and emit correctly signed, scaled max-log LLRs.
   All statements hold for ANY labelled constellation, any received point with rational coordinates. *)
From Coq Require Import QArith List Bool Arith.
From KV Require Import Mod.Constellation Mod.Demod Mod.DemodFacts.
Import ListNotations.

(* the hard decision's point is at minimum Euclidean distance (first minimum, as torch.argmin) *)
Theorem C06_nearest_is_min : forall pts y, pts <> [] ->
  (nearest pts y < length pts)%nat /\ forall p, In p pts -> d2 y (nth (nearest pts y) pts (0, 0)) <= d2 y p.
Proof. exact nearest_is_min. Qed.
Print Assumptions C06_nearest_is_min.

(* the sign of (min d^2 to a 1-labelled point) - (min d^2 to a 0-labelled point) agrees with the hard decision *)
Theorem C06_llr_sign_agrees_with_hard : forall tbl i y, tbl <> [] ->
  (0 < llr_core tbl i y -> nth i (hard_label tbl y) false = false) /\
  (llr_core tbl i y < 0 -> nth i (hard_label tbl y) false = true).
Proof. exact llr_sign_agrees_with_hard. Qed.
Print Assumptions C06_llr_sign_agrees_with_hard.

(* LLR = c * core / sigma^2 scales inversely with the noise variance *)
Theorem C06_llr_scales_inversely : forall c D s a, ~ s == 0 -> ~ a == 0 -> c * D / (a * s) == (c * D / s) / a.
Proof. exact llr_scales_inversely. Qed.
Print Assumptions C06_llr_scales_inversely.
