(* C09 -- a coded, modulated link over an ideal or bounded-error channel returns the data.
   Assume/guarantee composition (Pipe/Chain.v): the hypotheses are boolean checkers the kernel evaluates on the matrices
   and tables the implementation publishes; the conclusions hold for every message, error pattern and displacement. *)
From Coq Require Import NArith QArith List Bool.
From KV Require Import Base.GF2 Decoders.Hard Mod.Constellation Mod.Demod Pipe.Chain Pipe.Pipeline Pipe.PipelineFacts.

(* stage order of ChannelCodeModel(encoder, constraint, modulator, channel, demodulator, decoder) *)
Theorem C09_stage_order : forall enc con modu ch dem dec : nat, channelcode_steps enc con modu ch dem dec = (enc :: modu :: con :: ch :: dem :: dec :: nil)%list.
Proof. reflexivity. Qed.
Print Assumptions C09_stage_order.

Theorem C09_bounded_bit_errors : forall n k gs hs rs ts t tx, code_pair_ok n k gs hs rs ts = true -> min_distance_ge k gs (2 * t + 1) = true ->
  forall m e, (m < 2 ^ N.of_nat k)%N -> (e < 2 ^ N.of_nat n)%N -> (wt e <= t)%nat -> tx (comb m gs) = N.lxor (comb m gs) e ->
  link n gs hs rs tx m = m.
Proof. exact link_bounded_errors. Qed.
Print Assumptions C09_bounded_bit_errors.

Theorem C09_ideal_channel : forall n k gs hs rs ts t tx, code_pair_ok n k gs hs rs ts = true -> min_distance_ge k gs (2 * t + 1) = true ->
  forall m, (m < 2 ^ N.of_nat k)%N -> tx (comb m gs) = comb m gs -> link n gs hs rs tx m = m.
Proof. exact link_ideal. Qed.
Print Assumptions C09_ideal_channel.

(* a symbol displaced by less than half the minimum distance is decided as the transmitted one, for every labelled
   constellation with distinct points and labels; whole sequences demodulate to the transmitted bits *)
Theorem C09_displacement_symbol : forall tbl D e y, table_ok tbl = true -> min_sqdist_ge (map fst tbl) D = true -> In e tbl ->
  (4 * d2 y (fst e) < D)%Q -> hard_label tbl y = snd e.
Proof. exact hard_label_within_half. Qed.
Print Assumptions C09_displacement_symbol.

Theorem C09_displacement_sequence : forall tbl D, table_ok tbl = true -> min_sqdist_ge (map fst tbl) D = true ->
  forall (es : list entry) (ys : list pt), Forall2 (fun e y => In e tbl /\ (4 * d2 y (fst e) < D)%Q) es ys ->
  demodulate tbl ys = concat (map snd es).
Proof. exact demodulate_within_half. Qed.
Print Assumptions C09_displacement_sequence.

Theorem C09_ideal_symbols : forall tbl D, table_ok tbl = true -> min_sqdist_ge (map fst tbl) D = true -> (0 < D)%Q ->
  forall es, (forall e, In e es -> In e tbl) -> demodulate tbl (map fst es) = concat (map snd es).
Proof. exact demodulate_ideal. Qed.
Print Assumptions C09_ideal_symbols.

(* the same statement for the brute-force maximum-likelihood decoder: no syndrome table, only the minimum distance *)
Theorem C09_bounded_bit_errors_ml : forall k gs t tx, min_distance_ge k gs (2 * t + 1) = true ->
  forall m e, (m < 2 ^ N.of_nat k)%N -> (wt e <= t)%nat -> tx (comb m gs) = N.lxor (comb m gs) e -> link_ml k gs tx m = m.
Proof. exact link_ml_bounded_errors. Qed.
Print Assumptions C09_bounded_bit_errors_ml.
