(* C14 -- Constellations are bijectively labelled, normalised, Gray-coded when requested; the Gray conversion
   utilities are mutually inverse bijections mapping consecutive integers to words at Hamming distance one.
   Statements only (closed by [exact]); proofs in Mod/GrayFacts.v and Mod/ConstellationFacts.v.
   The special cases hard-coded in binary_to_gray / gray_to_binary are REGENERATED from the source
   (Gen/GrayConst.v). *)
From Coq Require Import NArith QArith List Bool.
From Coq Require Import Reals.
From Coq Require Import ZArith.
From KV Require Mod.PSKGeomR Mod.GridGeom.
From KV Require Import Gen.GrayConst Mod.Gray Mod.GrayFacts Mod.Constellation Mod.ConstellationFacts.
Import ListNotations.

(* ---- the reflected binary Gray code n xor (n >> 1) and the loop that inverts it: all n : N ---- *)
Theorem C14_gray_inverse : forall n, ungray (gray n) = n /\ gray (ungray n) = n.
Proof. intro n. split; [apply ungray_gray|apply gray_ungray]. Qed.
Print Assumptions C14_gray_inverse.

Theorem C14_gray_injective : forall a b, gray a = gray b -> a = b.
Proof. exact gray_injective. Qed.
Print Assumptions C14_gray_injective.

Theorem C14_ungray_loop_terminates : forall n, ungray_loop (N.to_nat (N.size n)) n n = Some (ungray n).
Proof. exact ungray_total. Qed.
Print Assumptions C14_ungray_loop_terminates.

Theorem C14_gray_consecutive_one_bit : forall n, hamming (gray n) (gray (N.succ n)) = 1%nat.
Proof. exact gray_succ_hamming. Qed.
Print Assumptions C14_gray_consecutive_one_bit.

Theorem C14_gray_wraparound_one_bit : forall b, N.lxor (gray (2 ^ N.succ b - 1)) (gray 0) = (2 ^ b)%N.
Proof. exact gray_wrap. Qed.
Print Assumptions C14_gray_wraparound_one_bit.

Theorem C14_gray_preserves_width : forall n b, (n < 2 ^ b)%N -> (gray n < 2 ^ b)%N.
Proof. exact gray_lt_pow2. Qed.
Print Assumptions C14_gray_preserves_width.

(* ---- the functions as written (with the regenerated special cases) ---- *)
Theorem C14_code_regular_inputs : forall n,
  (lookup_exc n b2g_exceptions = None -> b2g n = gray n) /\ (lookup_exc n g2b_exceptions = None -> g2b n = ungray n).
Proof. intro n. split; [apply b2g_regular|apply g2b_regular]. Qed.
Print Assumptions C14_code_regular_inputs.

(* if every hard-coded case agrees with the rule (decided by the kernel on the regenerated tables; the harness
   evaluates [exceptions_ok] on every run and replays any disagreeing constant on the implementation), then the
   utilities satisfy all three laws for every n *)
Theorem C14_code_all_inputs : exceptions_ok = true -> forall n,
  g2b (b2g n) = n /\ b2g (g2b n) = n /\ hamming (b2g n) (b2g (N.succ n)) = 1%nat.
Proof.
  intros H n. destruct (exceptions_ok_spec H n) as [E1 E2].
  destruct (exceptions_ok_spec H (b2g n)) as [_ E3]. destruct (exceptions_ok_spec H (g2b n)) as [E4 _].
  destruct (exceptions_ok_spec H (N.succ n)) as [E5 _].
  rewrite E3, E4, E1, E2, E5. split; [apply ungray_gray|]. split; [apply gray_ungray|apply gray_succ_hamming].
Qed.
Print Assumptions C14_code_all_inputs.

(* ---- checkers applied by the kernel to the tables each modulator publishes ---- *)
Theorem C14_labels_bijective : forall b labs, labels_ok b labs = true ->
  NoDup labs /\ length labs = (2 ^ b)%nat /\ (forall l, In l labs -> length l = b) /\
  (forall w, length w = b -> In w labs).
Proof. exact labels_ok_bijective. Qed.
Print Assumptions C14_labels_bijective.

Theorem C14_points_distinct : forall pts, points_distinct pts = true ->
  forall i j, (i < length pts)%nat -> (j < length pts)%nat -> i <> j -> ~ (d2 (pnth pts i) (pnth pts j) == 0)%Q.
Proof. exact points_distinct_spec. Qed.
Print Assumptions C14_points_distinct.

Theorem C14_gray_nearest_neighbours : forall tol pts labs, gray_nn_ok tol pts labs = true ->
  forall i j, (i < length pts)%nat -> (j < length pts)%nat -> i <> j ->
  (forall k, (k < length pts)%nat -> k <> i -> (d2 (pnth pts i) (pnth pts j) <= (1 + tol) * d2 (pnth pts i) (pnth pts k))%Q) ->
  hamming_bits (lnth labs i) (lnth labs j) = 1%nat.
Proof. exact gray_nn_ok_spec. Qed.
Print Assumptions C14_gray_nearest_neighbours.

Theorem C14_unit_energy : forall tol pts, unit_energy_ok tol pts = true ->
  ((1 - tol) * inject_Z (Z.of_nat (length pts)) <= qsum (map energy pts) <= (1 + tol) * inject_Z (Z.of_nat (length pts)))%Q.
Proof. exact unit_energy_ok_spec. Qed.
Print Assumptions C14_unit_energy.

(* PSK of ARBITRARY order M (Coq Reals): the two circular neighbours of a point are strictly nearer than every other point and equally
   near; all points are distinct.  With C14_gray_consecutive_one_bit and C14_gray_wraparound_one_bit (labels of circular neighbours
   differ in one bit) this is the Gray nearest-neighbour clause for every M = 2^b, beyond the published tables. *)
Theorem C14_psk_neighbours_are_nearest : forall M d : nat, (4 <= M)%nat -> (2 <= d)%nat -> (d <= M - 2)%nat -> (PSKGeomR.chord2 M 1 < PSKGeomR.chord2 M d)%R.
Proof. exact PSKGeomR.psk_neighbours_are_nearest. Qed.
Print Assumptions C14_psk_neighbours_are_nearest.

Theorem C14_psk_two_neighbours_and_distinct : forall M d : nat, (2 <= M)%nat ->
  PSKGeomR.chord2 M (M - 1) = PSKGeomR.chord2 M 1 /\ ((1 <= d)%nat -> (d <= M - 1)%nat -> (0 < PSKGeomR.chord2 M d)%R).
Proof. intros M d HM. split; [now apply PSKGeomR.psk_two_neighbours_equal|intros; now apply PSKGeomR.psk_points_distinct]. Qed.
Print Assumptions C14_psk_two_neighbours_and_distinct.

(* square grids (QAM) of EVERY order 4^h: the nearest grid points of (i, j) are exactly its four axis neighbours, and the Gray label
   bits(gray i) ++ bits(gray j) of an axis neighbour differs in exactly one bit (the label-table model Mod/Labels.v uses b2g, which is
   gray outside the regenerated special cases: C14_code_regular_inputs) *)
Theorem C14_grid_nearest_points : forall i j i' j' : Z, (i <> i' \/ j <> j') ->
  (4 <= GridGeom.gd2 i j i' j')%Z /\
  (GridGeom.gd2 i j i' j' = 4%Z <-> (Z.abs (i - i') = 1 /\ j = j')%Z \/ (i = i' /\ Z.abs (j - j') = 1)%Z).
Proof. exact GridGeom.grid_nearest. Qed.
Print Assumptions C14_grid_nearest_points.

Theorem C14_qam_gray_neighbours_one_bit : forall (h : nat) (i j : N), (N.succ i < 2 ^ N.of_nat h)%N -> (j < 2 ^ N.of_nat h)%N ->
  GridGeom.lham (GridGeom.qam_label h i j) (GridGeom.qam_label h (N.succ i) j) = 1%nat /\
  GridGeom.lham (GridGeom.qam_label h j i) (GridGeom.qam_label h j (N.succ i)) = 1%nat.
Proof. exact GridGeom.qam_gray_neighbours. Qed.
Print Assumptions C14_qam_gray_neighbours_one_bit.

Theorem C14_qam_model_table_is_labelled_so : forall h i j, Gray.exceptions_ok = true -> (i < Labels.order h)%nat -> (j < Labels.order h)%nat ->
  nth (i * Labels.order h + j) (Labels.qam_patterns (2 * h) true) nil = GridGeom.qam_label h (N.of_nat i) (N.of_nat j).
Proof. exact GridGeom.qam_patterns_are_labels. Qed.
Print Assumptions C14_qam_model_table_is_labelled_so.

(* PSK of every order 2^b: the model's label table (tied to the implementation) lists bits(gray i) at index i; circular neighbours,
   including the wrap-around 2^b - 1 -> 0, carry labels at Hamming distance one *)
Theorem C14_psk_gray_labels_all_orders : forall b i,
  ((i < Labels.order b)%nat -> nth i (Labels.psk_patterns b true) nil = GridGeom.psk_label b (N.of_nat i)) /\
  (forall n : N, (N.succ n < 2 ^ N.of_nat b)%N -> GridGeom.lham (GridGeom.psk_label b n) (GridGeom.psk_label b (N.succ n)) = 1%nat) /\
  GridGeom.lham (GridGeom.psk_label (S b) (2 ^ N.of_nat (S b) - 1)) (GridGeom.psk_label (S b) 0) = 1%nat.
Proof.
  intros b i. split; [apply GridGeom.psk_patterns_are_labels|split; [intros n Hn; now apply GridGeom.psk_gray_neighbours|apply GridGeom.psk_gray_wraparound]].
Qed.
Print Assumptions C14_psk_gray_labels_all_orders.
