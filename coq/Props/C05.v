(* C05 -- noise-free modulation followed by hard demodulation returns the transmitted bits.
   Generic in the labelled constellation (Mod/Demod.v): the checker table_ok (points pairwise distinct, labels pairwise
   distinct) is evaluated by the kernel on the table each modulator publishes.  Schemes with memory: Mod/Stateful.v. *)
From Coq Require Import QArith List Bool Arith.
From KV Require Import Mod.Constellation Mod.ConstellationFacts Mod.Demod Mod.DemodFacts Mod.Stateful.
Import ListNotations.

(* one symbol: the modulator emits the point labelled by the bit group and the hard demodulator returns that label *)
Theorem C05_symbol_roundtrip : forall tbl, table_ok tbl = true -> forall e, In e tbl ->
  mod_point tbl (snd e) = Some (fst e) /\ hard_label tbl (fst e) = snd e.
Proof. exact table_roundtrip. Qed.
Print Assumptions C05_symbol_roundtrip.

(* every sequence of bit groups (any length): demodulated bits = transmitted bits, one symbol per group *)
Theorem C05_sequence_roundtrip : forall tbl, table_ok tbl = true -> forall gs, (forall g, In g gs -> In g (map snd tbl)) ->
  exists ys, map (mod_point tbl) gs = map Some ys /\ demodulate tbl ys = concat gs /\ length ys = length gs.
Proof. exact sequence_roundtrip. Qed.
Print Assumptions C05_sequence_roundtrip.

(* differential PSK (any order M, any number of symbols): every phase index except the reference symbol's comes back *)
Theorem C05_dpsk_roundtrip_drop_ref : forall M idx, (0 < M)%nat -> Forall (fun k => (k < M)%nat) idx ->
  dpsk_decisions M (cumphase M 0 idx) = tl idx.
Proof. exact dpsk_roundtrip_drop_ref. Qed.
Print Assumptions C05_dpsk_roundtrip_drop_ref.

(* offset QPSK after reset: in-phase bits in place; quadrature bits delayed by one symbol, first value 0 *)
Theorem C05_oqpsk_roundtrip_delay : forall pairs,
  map fst (oqpsk_demod (oqpsk_mod None pairs)) = map fst pairs /\
  map snd (oqpsk_demod (oqpsk_mod None pairs)) = firstn (length pairs) (false :: map snd pairs).
Proof. exact oqpsk_roundtrip_delay. Qed.
Print Assumptions C05_oqpsk_roundtrip_delay.
