(* C19 -- DeepJSCC pipelines are differentiable end to end and keep their shape contract.
   Derivatives (Coquelicot) of the power constraints and analog channels along every direction at every point, for a
   fixed noise realisation (Diff/Deriv.v); spatial-size arithmetic of convolution chains and the Bourtsoulatze
   encoder / decoder regenerated from the source (Diff/ConvShape.v, Gen/Arch.v). *)
From Coq Require Import Reals ZArith List.
From Coquelicot Require Import Coquelicot.
From KV Require Import Diff.Deriv Diff.ConvShape Gen.Arch.

Theorem C19_constraint_derivative : forall T eps n xv xi vi, (0 < T)%R -> (0 < eps)%R -> (0 < n)%R ->
  is_derive (constrained T eps n xv xi vi) 0 (scale T eps n xv 0 * (vi - xi * dot xv / (n * (sumsq xv / n + eps))))%R.
Proof. exact constraint_directional_derivative. Qed.
Print Assumptions C19_constraint_derivative.

Theorem C19_additive_noise_derivative : forall xi vi ni, is_derive (fun t => xi + t * vi + ni)%R 0 vi.
Proof. exact additive_noise_derivative. Qed.
Print Assumptions C19_additive_noise_derivative.

Theorem C19_snr_noise_derivative : forall L n xv xi vi gi, (0 < L)%R -> (0 < n)%R -> (0 < sumsq xv)%R ->
  is_derive (fun t => xi + t * vi + gi * sqrt (S xv t / n / L))%R 0 (vi + gi * dot xv / (n * L * sqrt (sumsq xv / n / L)))%R.
Proof. exact snr_noise_derivative. Qed.
Print Assumptions C19_snr_noise_derivative.

Theorem C19_fading_derivative : forall hr hi xr xim vr vim nr nim,
  is_derive (fun t => hr * (xr + t * vr) - hi * (xim + t * vim) + nr)%R 0 (hr * vr - hi * vim)%R /\
  is_derive (fun t => hr * (xim + t * vim) + hi * (xr + t * vr) + nim)%R 0 (hr * vim + hi * vr)%R.
Proof. exact fading_derivative. Qed.
Print Assumptions C19_fading_derivative.

(* a constraint whose scale is cut out of the graph returns a different gradient whenever x_i and x.v are non-zero *)
Theorem C19_detached_scale_differs : forall T eps n xv xi vi, (0 < T)%R -> (0 < eps)%R -> (0 < n)%R -> xi <> 0%R -> dot xv <> 0%R ->
  (scale T eps n xv 0 * (vi - xi * dot xv / (n * (sumsq xv / n + eps))) <> scale T eps n xv 0 * vi)%R.
Proof. exact detached_scale_differs. Qed.
Print Assumptions C19_detached_scale_differs.

(* shape contract, every admissible size *)
Theorem C19_encoder_shape : forall ls, down_only ls = true -> forall h, through ls (2 ^ Z.of_nat (count_half ls) * h)%Z = h.
Proof. exact encoder_shape. Qed.
Print Assumptions C19_encoder_shape.

Theorem C19_autoencoder_shape : forall enc dec, down_only enc = true -> up_only dec = true -> count_half enc = count_double dec ->
  forall h, through dec (through enc (2 ^ Z.of_nat (count_half enc) * h)%Z) = (2 ^ Z.of_nat (count_half enc) * h)%Z.
Proof. exact autoencoder_shape. Qed.
Print Assumptions C19_autoencoder_shape.

(* the published Bourtsoulatze encoder / decoder, as they stand in the source: H -> H/4 -> H for every H = 4h *)
Theorem C19_bourtsoulatze_shapes : forall h, through bourtsoulatze_encoder (4 * h)%Z = h /\ through bourtsoulatze_decoder (through bourtsoulatze_encoder (4 * h)%Z) = (4 * h)%Z.
Proof.
  assert (He : down_only bourtsoulatze_encoder = true) by (vm_compute; reflexivity).
  assert (Hd : up_only bourtsoulatze_decoder = true) by (vm_compute; reflexivity).
  assert (Hc : count_half bourtsoulatze_encoder = 2%nat) by (vm_compute; reflexivity).
  assert (Hu : count_double bourtsoulatze_decoder = 2%nat) by (vm_compute; reflexivity).
  intro h. split.
  - pose proof (encoder_shape _ He h) as E. rewrite Hc in E. exact E.
  - pose proof (autoencoder_shape _ _ He Hd ltac:(rewrite Hc, Hu; reflexivity) h) as E. rewrite Hc in E. exact E.
Qed.
Print Assumptions C19_bourtsoulatze_shapes.

Theorem C19_bandwidth_ratio : forall (d : nat) (cin num den H W : Z), (0 < den)%Z -> ((cin * 4 ^ Z.of_nat d * num) mod den = 0)%Z ->
  let cout := (cin * 4 ^ Z.of_nat d * num / den)%Z in
  (cout * H * W * den = num * (cin * (2 ^ Z.of_nat d * H) * (2 ^ Z.of_nat d * W)))%Z.
Proof. exact bandwidth_ratio. Qed.
Print Assumptions C19_bandwidth_ratio.

(* the Kurka-2020 feedback encoder / decoder (nn.ModuleList applied in order; GDN / PReLU / Sigmoid keep the size) *)
Theorem C19_kurka_shapes : forall h, through kurka_encoder (4 * h)%Z = h /\ through kurka_decoder (through kurka_encoder (4 * h)%Z) = (4 * h)%Z.
Proof.
  assert (He : down_only kurka_encoder = true) by (vm_compute; reflexivity).
  assert (Hd : up_only kurka_decoder = true) by (vm_compute; reflexivity).
  assert (Hc : count_half kurka_encoder = 2%nat) by (vm_compute; reflexivity).
  assert (Hu : count_double kurka_decoder = 2%nat) by (vm_compute; reflexivity).
  intro h. split.
  - pose proof (encoder_shape _ He h) as E. rewrite Hc in E. exact E.
  - pose proof (autoencoder_shape _ _ He Hd ltac:(rewrite Hc, Hu; reflexivity) h) as E. rewrite Hc in E. exact E.
Qed.
Print Assumptions C19_kurka_shapes.

(* the Tung-2022 DeepJSCC-Q (four strided blocks) and DeepJSCC-Q2 (two strided blocks) encoders / decoders, as lists of residual /
   attention / upsampling blocks regenerated from the source; the two branches of a strided block agree on every size *)
Theorem C19_tung_shapes : forall h,
  (through tung_q_encoder (16 * h)%Z = h /\ through tung_q_decoder (through tung_q_encoder (16 * h)%Z) = (16 * h)%Z) /\
  (through tung_q2_encoder (4 * h)%Z = h /\ through tung_q2_decoder (through tung_q2_encoder (4 * h)%Z) = (4 * h)%Z).
Proof.
  assert (He : down_only tung_q_encoder = true) by (vm_compute; reflexivity).
  assert (Hd : up_only tung_q_decoder = true) by (vm_compute; reflexivity).
  assert (Hc : count_half tung_q_encoder = 4%nat) by (vm_compute; reflexivity).
  assert (Hu : count_double tung_q_decoder = 4%nat) by (vm_compute; reflexivity).
  assert (He2 : down_only tung_q2_encoder = true) by (vm_compute; reflexivity).
  assert (Hd2 : up_only tung_q2_decoder = true) by (vm_compute; reflexivity).
  assert (Hc2 : count_half tung_q2_encoder = 2%nat) by (vm_compute; reflexivity).
  assert (Hu2 : count_double tung_q2_decoder = 2%nat) by (vm_compute; reflexivity).
  intro h. split; split.
  - pose proof (encoder_shape _ He h) as E. rewrite Hc in E. exact E.
  - pose proof (autoencoder_shape _ _ He Hd ltac:(rewrite Hc, Hu; reflexivity) h) as E. rewrite Hc in E. exact E.
  - pose proof (encoder_shape _ He2 h) as E. rewrite Hc2 in E. exact E.
  - pose proof (autoencoder_shape _ _ He2 Hd2 ltac:(rewrite Hc2, Hu2; reflexivity) h) as E. rewrite Hc2 in E. exact E.
Qed.
Print Assumptions C19_tung_shapes.

Theorem C19_strided_block_branches_agree : forall h, out_size (Conv 3 2 1) h = out_size (Conv 1 2 0) h /\ out_size (Conv 3 2 1) h = out_size (Block Half) h.
Proof. exact stride_block_branches_agree. Qed.
Print Assumptions C19_strided_block_branches_agree.
