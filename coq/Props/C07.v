(* C07 -- additive-noise channels deliver exactly the configured noise power / SNR.
   Real-number statements (Coq Reals) for every draw list, every power and every SNR (Chan/NoiseR.v); the squared,
   exact-rational form evaluated on the implementation's output and the meaning of its checkers (Chan/NoiseQ.v). *)
From Coq Require Import Reals QArith Qabs List.
From KV Require Import Chan.NoiseR Chan.NoiseQ.

(* real input: added power = P * (second moment of the draws), added mean = sqrt P * (mean of the draws) *)
Theorem C07_awgn_real_power : forall P g, (0 <= P)%R -> mean_sq (awgn_real P g) = (P * mean_sq g)%R.
Proof. exact awgn_real_power. Qed.
Print Assumptions C07_awgn_real_power.

Theorem C07_awgn_zero_mean : forall P g, mean_l (awgn_real P g) = (sqrt P * mean_l g)%R.
Proof. exact awgn_real_mean. Qed.
Print Assumptions C07_awgn_zero_mean.

(* complex input: summed over real and imaginary parts the added power is P for unit draws *)
Theorem C07_awgn_complex_power : forall P g1 g2, (0 <= P)%R -> length g1 = length g2 ->
  cmean_sq (awgn_cplx_component P g1) (awgn_cplx_component P g2) = (P / 2 * (mean_sq g1 + mean_sq g2))%R.
Proof. exact awgn_cplx_power. Qed.
Print Assumptions C07_awgn_complex_power.

Theorem C07_awgn_complex_unit_draws : forall P g1 g2, (0 <= P)%R -> length g1 = length g2 -> mean_sq g1 = 1%R -> mean_sq g2 = 1%R ->
  cmean_sq (awgn_cplx_component P g1) (awgn_cplx_component P g2) = P.
Proof. exact awgn_cplx_unit_draws. Qed.
Print Assumptions C07_awgn_complex_unit_draws.

(* same seed, two powers *)
Theorem C07_same_seed_scaling : forall P1 P2 g, (0 < P1)%R -> (0 <= P2)%R ->
  awgn_real P2 g = scaled (sqrt (P2 / P1)) (awgn_real P1 g) /\ awgn_cplx_component P2 g = scaled (sqrt (P2 / P1)) (awgn_cplx_component P1 g).
Proof. intros. split; [now apply same_seed_scaling|now apply same_seed_scaling_cplx]. Qed.
Print Assumptions C07_same_seed_scaling.

(* configured SNR: measured with the library's own definition it is the configured value *)
Theorem C07_awgn_snr_real : forall x g d, (0 < mean_sq x)%R -> mean_sq g = 1%R ->
  noise_power_to_snr (mean_sq x) (mean_sq (awgn_real (snr_to_noise_power (mean_sq x) d) g)) = d.
Proof. exact awgn_snr_real. Qed.
Print Assumptions C07_awgn_snr_real.

Theorem C07_awgn_snr_complex : forall S g1 g2 d, (0 < S)%R -> length g1 = length g2 -> mean_sq g1 = 1%R -> mean_sq g2 = 1%R ->
  noise_power_to_snr S (cmean_sq (awgn_cplx_component (snr_to_noise_power S d) g1) (awgn_cplx_component (snr_to_noise_power S d) g2)) = d.
Proof. exact awgn_snr_cplx. Qed.
Print Assumptions C07_awgn_snr_complex.

(* dB <-> linear <-> noise power are mutually inverse; 10 dB is a factor 10 (so neither dB/20 nor a factor 2) *)
Theorem C07_db_linear_inverse : forall d r, lin_to_db (db_to_lin d) = d /\ ((0 < r)%R -> db_to_lin (lin_to_db r) = r).
Proof. intros. split; [apply lin_db_inverse|apply db_lin_inverse]. Qed.
Print Assumptions C07_db_linear_inverse.

Theorem C07_db_anchor : db_to_lin 0 = 1%R /\ db_to_lin 10 = 10%R /\ (forall a b, db_to_lin (a + b) = (db_to_lin a * db_to_lin b)%R) /\
  (forall d1 d2, (d1 < d2)%R -> (db_to_lin d1 < db_to_lin d2)%R).
Proof. split; [apply db_to_lin_0|split; [apply db_to_lin_10|split; [apply db_to_lin_add|apply db_to_lin_increasing]]]. Qed.
Print Assumptions C07_db_anchor.

Theorem C07_noise_power_snr_inverse : forall S N d, (0 < S)%R ->
  noise_power_to_snr S (snr_to_noise_power S d) = d /\ ((0 < N)%R -> snr_to_noise_power S (noise_power_to_snr S N) = N).
Proof. intros. split; [now apply noise_power_snr_inverse|intro; now apply snr_noise_power_inverse]. Qed.
Print Assumptions C07_noise_power_snr_inverse.

(* one SNR definition: calculate_snr = noise_power_to_snr above the clamp; the metric differs by a bounded offset *)
Theorem C07_snr_definitions_agree : forall S N eps, (0 < S)%R -> (0 < N)%R -> (0 <= eps)%R ->
  ((eps <= N)%R -> calculate_snr S N eps = noise_power_to_snr S N) /\
  metric_snr S N eps = (noise_power_to_snr S N - lin_to_db (1 + eps / N))%R /\
  (0 <= lin_to_db (1 + eps / N) <= 10 / ln 10 * (eps / N))%R.
Proof.
  intros S N eps HS HN He. split; [apply calculate_snr_agrees|split; [now apply metric_snr_offset|now apply metric_snr_offset_bound]].
Qed.
Print Assumptions C07_snr_definitions_agree.

(* Laplacian noise: configured power delivered for real input and, summed over both parts, for complex input *)
Theorem C07_laplacian_power : forall P l l1 l2, (0 <= P)%R ->
  (mean_sq l = 2%R -> mean_sq (lap_real P l) = P) /\
  (length l1 = length l2 -> mean_sq l1 = 2%R -> mean_sq l2 = 2%R -> cmean_sq (lap_cplx_component P l1) (lap_cplx_component P l2) = P).
Proof. intros. split; [now apply lap_real_unit|now apply lap_cplx_unit]. Qed.
Print Assumptions C07_laplacian_power.

Theorem C07_noise_verbatim : forall x n, length x = length n -> sub (add x n) x = n.
Proof. exact noise_verbatim. Qed.
Print Assumptions C07_noise_verbatim.

(* the checkers the kernel runs on the implementation's output *)
Theorem C07_dB_checker_meaning : forall d r, (db_to_lin d ^ 10 = Rpower 10 d)%R /\ ((0 < r)%R -> (r ^ 10 = Rpower 10 d)%R -> r = db_to_lin d).
Proof. intros. split; [apply db_to_lin_pow10|apply db_to_lin_unique]. Qed.
Print Assumptions C07_dB_checker_meaning.

Theorem C07_scale_checker_sound : forall P tol g n, scale_check P tol g n = true ->
  length g = length n /\ (Qabs (qsum_sq n - P * qsum_sq g) <= tol * (P * qsum_sq g))%Q.
Proof. intros. split; [eapply scale_check_length; eassumption|now apply scale_check_total]. Qed.
Print Assumptions C07_scale_checker_sound.
