(* C16 -- error-rate metrics are exact counts; the streaming form is partition- and order-independent.
   Statements only; proofs in Metrics/ErrorRateFacts.v.  Model: Metrics/ErrorRate.v (BitErrorRate,
   BlockErrorRate = SER = FER, benchmark helpers), counters unbounded, rates as exact (numerator, denominator). *)
From Coq Require Import NArith QArith List Bool Arith Permutation.
From KV Require Import Metrics.ErrorRate Metrics.ErrorRateFacts Metrics.BlockCut.
Import ListNotations.

(* For EVERY history p of update / compute / reset operations (updates with rejected batches included), a
   following compute() returns errors / max(total, 1) of the batches accepted since the last reset, and the
   counters are exactly their sums: the metric refines the pair-of-counts specification.
   Generic in the per-batch count function, hence valid for BER, BLER, SER and FER alike. *)
Theorem C16_streaming_refines_oneshot : forall (B : Type) (cnt : B -> option (N * N)) (p : list (op B)),
  exists s rs, run cnt init (p ++ [Compute]) = (s, rs ++ [oneshot (sum_counts cnt (since_reset cnt [] p))])
               /\ s = st_of (sum_counts cnt (since_reset cnt [] p)).
Proof. exact @compute_refines_oneshot. Qed.
Print Assumptions C16_streaming_refines_oneshot.

Theorem C16_reset_restores_initial_state : forall (B : Type) (cnt : B -> option (N * N)) p q,
  fst (run cnt init (p ++ Reset :: q)) = fst (run cnt init q).
Proof. exact @reset_restores_init. Qed.
Print Assumptions C16_reset_restores_initial_state.

Theorem C16_order_independent : forall (B : Type) (cnt : B -> option (N * N)) l l',
  Permutation l l' -> sum_counts cnt l = sum_counts cnt l'.
Proof. exact @sum_counts_perm. Qed.
Print Assumptions C16_order_independent.

(* BER: accumulating any split of the data equals the one-shot count on the concatenation *)
Theorem C16_ber_partition_independent : forall t (l : list (list (Q * Q))),
  sum_counts (fun b => Some (ber_count t b)) l = ber_count t (concat l).
Proof. exact ber_stream_eq_concat. Qed.
Print Assumptions C16_ber_partition_independent.

Theorem C16_ber_symmetric : forall t b, ber_count t (map (fun p => (snd p, fst p)) b) = ber_count t b.
Proof. exact ber_symmetric. Qed.
Print Assumptions C16_ber_symmetric.

Theorem C16_ber_zero_iff_equal : forall t b,
  snd (ber_count t b) = 0%N <-> forall p, In p b -> gtb (fst p) t = gtb (snd p) t.
Proof. exact ber_zero_iff_equal. Qed.
Print Assumptions C16_ber_zero_iff_equal.

Theorem C16_ber_at_most_one : forall t b, (snd (ber_count t b) <= fst (ber_count t b))%N.
Proof. exact ber_bounds. Qed.
Print Assumptions C16_ber_at_most_one.

(* BLER: counts are additive over concatenation along the batch dimension, symmetric, and a row whose length is
   not a multiple of the block size is rejected wherever it sits in the batch *)
Theorem C16_bler_partition_independent : forall t bsz a b ca cb,
  bler_count t bsz a = Some ca -> bler_count t bsz b = Some cb ->
  bler_count t bsz (a ++ b) = Some ((fst ca + fst cb)%N, (snd ca + snd cb)%N).
Proof. exact bler_count_app. Qed.
Print Assumptions C16_bler_partition_independent.

Theorem C16_bler_symmetric : forall t bsz b,
  bler_count t bsz (map (map (fun p => (snd p, fst p))) b) = bler_count t bsz b.
Proof. exact bler_symmetric. Qed.
Print Assumptions C16_bler_symmetric.

Theorem C16_bler_rejects_nondivisor : forall t bs row b1 b2, (0 < bs)%nat -> Nat.modulo (length row) bs <> 0%nat ->
  bler_count t (Some bs) (b1 ++ row :: b2) = None.
Proof. exact bler_rejects_nondivisor. Qed.
Print Assumptions C16_bler_rejects_nondivisor.

(* BER <= BLER <= min(1, B*BER): with c errors among len = nb*B flags and bad of the nb blocks in error,
   c/len <= bad/nb,  bad/nb <= B*c/len  and  bad <= nb  (cross-multiplied, exact naturals) *)
Theorem C16_ber_le_bler_le : forall bs (flags : list bool) nb, (0 < bs)%nat -> length flags = (nb * bs)%nat ->
  let c := ctn flags in let bad := ctn (map any (chunks bs flags)) in
  (c * nb <= bad * length flags)%nat /\ (bad * length flags <= bs * c * nb)%nat /\ (bad <= length (chunks bs flags))%nat.
Proof. exact ber_le_bler_le. Qed.
Print Assumptions C16_ber_le_bler_le.

(* ---- where the blocks of a multi-dimensional item are cut (Metrics/BlockCut.v) ---- *)

(* when the block size divides every row, cutting whole blocks row by row (Tensor.unfold along the last axis) is cutting the
   flattened item: an implementation may use either *)
Theorem C16_unfold_cut_agrees : forall (A : Type) bs (rows : list (list A)), (0 < bs)%nat ->
  Forall (fun r => Nat.modulo (length r) bs = 0%nat) rows -> unfold_cut bs rows = flat_cut bs rows.
Proof. exact @unfold_cut_agrees. Qed.
Print Assumptions C16_unfold_cut_agrees.

(* when it divides the item but not its rows they differ: blocks are lost and differences in the dropped positions are
   not seen (the shape of the seeded change C16_f); the correspondence evaluates the flattened cut on such shapes *)
Theorem C16_unfold_cut_refuted :
  exists (rows : list (list bool)) (bs : nat), (0 < bs)%nat /\ Nat.modulo (length (concat rows)) bs = 0%nat /\
    length (unfold_cut bs rows) <> length (flat_cut bs rows) /\
    (exists rows', concat rows' <> concat rows /\ unfold_cut bs rows' = unfold_cut bs rows).
Proof. exact unfold_cut_refuted. Qed.
Print Assumptions C16_unfold_cut_refuted.
