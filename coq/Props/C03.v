(* C03 -- the (n, k, d) and structure a code object advertises are its true parameters.
   Checkers over published matrices with soundness theorems (Base/GF2Facts.v, Codes/CyclicFacts.v); the bound of an
   enumeration is part of its statement (2^k messages). *)
From Coq Require Import NArith List Bool Arith.
From KV Require Import Base.GF2 Base.GF2Facts Algebra.BinPoly Algebra.BinPolyFacts Codes.Cyclic Codes.CyclicFacts.
Import ListNotations.
Local Open Scope N_scope.

(* minimum distance: every non-zero message of a linear code gives a codeword of weight >= d (enumeration of all
   2^k - 1 messages by the kernel); with linearity this is the minimum distance between distinct codewords *)
Theorem C03_min_distance_ge : forall k G d, min_distance_ge k G d = true ->
  forall m, 0 < m -> m < 2 ^ N.of_nat k -> (d <= wt (comb m G))%nat.
Proof. exact min_distance_ge_sound. Qed.
Print Assumptions C03_min_distance_ge.

Theorem C03_distance_between_codewords : forall k G d, min_distance_ge k G d = true ->
  forall m m', m < 2 ^ N.of_nat k -> m' < 2 ^ N.of_nat k -> m <> m' -> (d <= wt (N.lxor (comb m G) (comb m' G)))%nat.
Proof. exact min_distance_pairs. Qed.
Print Assumptions C03_distance_between_codewords.

(* cyclic structure: closed under cyclic shifts (checked on the generator rows, lifted by additivity of the shift) *)
Theorem C03_closed_under_shift : forall n G H, shift_closed_ok n G H = true -> forall m, syndN (rot n (comb m G)) H = 0.
Proof. exact shift_closed_sound. Qed.
Print Assumptions C03_closed_under_shift.

(* the code consists of the multiples of its generator polynomial g, and g divides X^n + 1 *)
Theorem C03_codewords_are_multiples : forall G g, g <> 0 -> rows_multiples_ok G g = true -> forall m, divides g (comb m G).
Proof. exact rows_multiples_sound. Qed.
Print Assumptions C03_codewords_are_multiples.

Theorem C03_multiples_are_codewords : forall k g H, multiples_in_code_ok k g H = true ->
  forall q, q < 2 ^ N.of_nat k -> syndN (clmul q g) H = 0.
Proof. exact multiples_in_code_sound. Qed.
Print Assumptions C03_multiples_are_codewords.

Theorem C03_generator_divides_xn1 : forall n g, g <> 0 -> divides_xn1 n g = true -> divides g (N.lxor (2 ^ N.of_nat n) 1).
Proof. exact divides_xn1_sound. Qed.
Print Assumptions C03_generator_divides_xn1.

(* perfect codes: Hamming parameters meet the sphere-packing bound with equality for every mu; Golay (23,12,7) too *)
Theorem C03_hamming_perfect : forall mu, (mu <= 2 ^ mu - 1)%nat ->
  2 ^ N.of_nat (2 ^ mu - 1 - mu) * (1 + N.of_nat (2 ^ mu - 1)) = 2 ^ N.of_nat (2 ^ mu - 1).
Proof. exact hamming_sphere_packing. Qed.
Print Assumptions C03_hamming_perfect.

Theorem C03_golay_perfect : perfect_ok 23 12 3 = true.
Proof. vm_compute. reflexivity. Qed.
Print Assumptions C03_golay_perfect.
