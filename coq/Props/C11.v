(* C11 -- polar encoding is the Arikan transform on the 5G information set, and inverts.
   Models: Codes/Polar.v; proofs: Codes/PolarFacts.v, PolarInfo.v, PolarSC.v, PolarMinSum.v.
   The reliability ranking is REGENERATED from kaira/models/fec/rank_polar.csv (Gen/PolarRank.v) and compared by
   the kernel with the pinned 5G sequence (Spec/Polar5G.v). *)
From Coq Require Import List Bool Arith QArith.
From KV Require Import Gen.PolarRank Spec.Polar5G Codes.Polar Codes.PolarFacts Codes.PolarInfo Codes.PolarSC Codes.PolarMinSum.
Import ListNotations.

(* the m stages of x[p] ^= x[p + 2^i] ARE multiplication by the m-fold Kronecker power of [[1,0],[1,1]]:
   every m, every input of length 2^m *)
Theorem C11_transform_is_kronecker_power : forall m u, length u = (2 ^ m)%nat -> transform m u = vm (2 ^ m) u (kron m).
Proof. exact transform_eq_kron. Qed.
Print Assumptions C11_transform_is_kronecker_power.

(* GF(2)-linear and an involution, hence injective: the message is recoverable from the codeword *)
Theorem C11_transform_linear_involutive : forall m x y, length x = (2 ^ m)%nat -> length y = (2 ^ m)%nat ->
  transform m (xorl x y) = xorl (transform m x) (transform m y) /\ transform m (transform m x) = x.
Proof. intros. split; [now apply transform_additive|now apply transform_involutive]. Qed.
Print Assumptions C11_transform_linear_involutive.

(* the ranking shipped with the library is the 5G sequence, a permutation below every power of two up to 1024 *)
Theorem C11_rank_table_is_5g : polar_rank = polar_rank_5g.
Proof. vm_compute. reflexivity. Qed.
Print Assumptions C11_rank_table_is_5g.

Theorem C11_rank_table_permutation : forallb (rank_okb polar_rank) [2; 4; 8; 16; 32; 64; 128; 256; 512; 1024]%nat = true.
Proof. vm_compute. reflexivity. Qed.
Print Assumptions C11_rank_table_permutation.

(* exactly k information positions for every admissible (k, N), nested in k *)
Theorem C11_info_set_size : forall N, In N [2; 4; 8; 16; 32; 64; 128; 256; 512; 1024]%nat -> forall k, (k <= N)%nat ->
  length (filter (fun b => b) (info_mask polar_rank N k)) = k.
Proof.
  intros N HN k Hk. apply info_set_size; [|assumption]. apply rank_okb_sound.
  pose proof C11_rank_table_permutation as H. rewrite forallb_forall in H. now apply H.
Qed.
Print Assumptions C11_info_set_size.

Theorem C11_info_set_nested : forall rank N k p, (k < N)%nat ->
  memn p (frozen_positions rank N (S k)) = true -> memn p (frozen_positions rank N k) = true.
Proof. exact info_set_nested. Qed.
Print Assumptions C11_info_set_nested.

(* successive cancellation on noise-free LLRs of ANY positive magnitudes returns the message and the codeword:
   every m, every information mask, frozen value, and every sign-consistent check-node function *)
Theorem C11_sc_clean_decodes : forall f frozen, sign_consistent f -> forall (m : nat) y mask u,
  length mask = (2 ^ m)%nat -> length u = (2 ^ m)%nat ->
  (forall j, (j < 2 ^ m)%nat -> nth j mask true = false -> nth j u false = frozen) ->
  Forall2 agrees y (transform m u) -> sc f frozen m y mask = (u, transform m u).
Proof. exact sc_clean. Qed.
Print Assumptions C11_sc_clean_decodes.

Theorem C11_minsum_check_sign_consistent : forall clip, 0 < clip -> sign_consistent (minsum_check clip).
Proof. exact minsum_sign_consistent. Qed.
Print Assumptions C11_minsum_check_sign_consistent.
