(* C20 -- per-sample components are pure: the batch result equals the stack of the single results.
   Statements about the functional model (Batch/Pure.v, Base/Layout.v): a component is the function it applies to one
   item / block; the batched entry points are map and blockwise.  Partial by nature: hidden state between calls and
   in-place modification cannot be expressed by a pure function and are decided by the correspondence check alone. *)
From Coq Require Import List Bool Arith Permutation.
Import ListNotations.
From KV Require Import Base.Layout Base.LayoutFacts Batch.Pure Batch.IterStop Batch.IterStopFacts Gen.IterLoops.

Theorem C20_batch_is_stack : forall (A B : Type) (f : A -> B) xs i d d', i < length xs ->
  nth i (map f xs) d' = f (nth i xs d) /\ length (map f xs) = length xs.
Proof. intros. split; [now apply batch_is_stack|apply batch_length]. Qed.
Print Assumptions C20_batch_is_stack.

Theorem C20_member_independent : forall (A B : Type) (f : A -> B) before after before' after' x d,
  nth (length before) (map f (before ++ x :: after)) d = nth (length before') (map f (before' ++ x :: after')) d.
Proof. intros. apply member_independent. Qed.
Print Assumptions C20_member_independent.

Theorem C20_permutation : forall (A B : Type) (f : A -> B) xs ys (pi : list nat) d d',
  (Permutation xs ys -> Permutation (map f xs) (map f ys)) /\
  ((forall i, In i pi -> i < length xs) -> map (fun i => nth i (map f xs) d') pi = map f (map (fun i => nth i xs d) pi)).
Proof. intros. split; [apply batch_permutation|apply batch_reindex]. Qed.
Print Assumptions C20_permutation.

Theorem C20_batch_of_one_and_split : forall (A B : Type) (f : A -> B) x xs ys, map f [x] = [f x] /\ map f (xs ++ ys) = map f xs ++ map f ys.
Proof. intros. split; [apply batch_of_one|apply batch_split]. Qed.
Print Assumptions C20_batch_of_one_and_split.

Theorem C20_block_grouping : forall (A B : Type) (g : list A -> list B) bs l1 l2 r1 r2, 0 < bs ->
  blockwise bs g l1 = Some r1 -> blockwise bs g l2 = Some r2 -> blockwise bs g (l1 ++ l2) = Some (r1 ++ r2).
Proof. intros. now apply blockwise_grouping. Qed.
Print Assumptions C20_block_grouping.

Theorem C20_single_block : forall (A B : Type) (g : list A -> list B) bs l, 0 < bs -> length l = bs -> blockwise bs g l = Some (g l).
Proof. intros. now apply blockwise_single. Qed.
Print Assumptions C20_single_block.

Theorem C20_rows_independent : forall (A B : Type) (g : list A -> list B) bs rows out i, blockwise2 bs g rows = Some out -> i < length rows ->
  blockwise bs g (nth i rows []) = Some (nth i out []).
Proof. intros. now apply rows_independent. Qed.
Print Assumptions C20_rows_independent.

Theorem C20_bad_layout_rejected : forall (A B : Type) (g : list A -> list B) bs l, Nat.modulo (length l) bs <> 0 -> blockwise bs g l = None.
Proof. intros. now apply blockwise_rejects_bad_length. Qed.
Print Assumptions C20_bad_layout_rejected.

(* ---- iterative decoders: the stopping discipline of the message-passing loop (Batch/IterStop.v) ---- *)

(* rows leave the loop one by one through an index set (polar BP with early_stop): batch = stack of members decoded alone,
   for every per-row state, step, answer and criterion, every batch and every iteration budget *)
Theorem C20_index_set_stop_pure : forall (S O : Type) (step : S -> S) (out : S -> O) (stop : S -> bool) n d ss,
  batch_decode S O step out stop n d ss = map (single_decode S O step out stop n d) ss.
Proof. exact index_set_stop_pure. Qed.
Print Assumptions C20_index_set_stop_pure.

Theorem C20_index_set_stop_member : forall (S O : Type) (step : S -> S) (out : S -> O) (stop : S -> bool) n d ss i s0, i < length ss ->
  nth i (batch_decode S O step out stop n d ss) d = single_decode S O step out stop n d (nth i ss s0).
Proof. exact index_set_stop_member. Qed.
Print Assumptions C20_index_set_stop_member.

(* a loop that always runs its passes (LDPC BP / min-sum): every member gets exactly the configured number of steps *)
Theorem C20_fixed_count_pure : forall (S O : Type) (step : S -> S) (out : S -> O) n d ss,
  batch_decode S O step out (fun _ => false) (Datatypes.S n) d ss = map (fun s => out (iter (Datatypes.S n) step s)) ss.
Proof. exact fixed_count_pure. Qed.
Print Assumptions C20_fixed_count_pure.

(* the loops of the published decoders, as the translator reads them from the source on this run *)
Theorem C20_published_loops_pure : pure_discipline ldpc_bp_loop /\ pure_discipline polar_bp_loop.
Proof. exact (conj (every_discipline_pure _) (every_discipline_pure _)). Qed.
Print Assumptions C20_published_loops_pure.

(* stopping on a whole-batch criterion is NOT pure although every batch of one is answered correctly (the shape of the
   seeded change C20_f): the translator refuses such a loop *)
Theorem C20_whole_batch_stop_refuted :
  exists (step : nat -> nat) (out : nat -> nat) (stop : nat -> bool) (n : nat) (d : nat) (ss : list nat),
    global_decode nat nat step out stop n d ss <> map (single_decode nat nat step out stop n d) ss
    /\ forall s, In s ss -> global_decode nat nat step out stop n d [s] = [single_decode nat nat step out stop n d s].
Proof. exact whole_batch_stop_refuted. Qed.
Print Assumptions C20_whole_batch_stop_refuted.
