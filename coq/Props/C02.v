(* C02 -- hard-decision decoders correct every error pattern within the advertised capability; the complete decoders
   are maximum-likelihood.  Models: Decoders/Hard.v; proofs: Decoders/HardFacts.v.  All statements hold for every
   parity-check / generator matrix, every length and every received word; the only bounded ingredient is the kernel
   evaluation of the checkers in the hypotheses of C02_syndrome_decoder_corrects / C02_hamming_inverse. *)
From Coq Require Import NArith List Bool Arith.
From KV Require Import Base.GF2 Base.GF2Facts Decoders.Hard Decoders.HardFacts.
Import ListNotations.
Local Open Scope N_scope.

(* the syndrome table (patterns enumerated by weight, then lexicographically; first hit wins) holds a coset leader:
   same syndrome, minimum weight among ALL words of length n with that syndrome *)
Theorem C02_table_holds_coset_leaders : forall n H s e', e' < 2 ^ N.of_nat n -> syndN e' H = s ->
  exists L, leader n H s = Some L /\ syndN (vec_of L) H = s /\ vec_of L < 2 ^ N.of_nat n /\ (wt (vec_of L) <= wt e')%nat.
Proof. exact leader_is_coset_leader. Qed.
Print Assumptions C02_table_holds_coset_leaders.

(* complete decoding is maximum likelihood: for EVERY received word the corrected word is a zero-syndrome word at
   minimum Hamming distance *)
Theorem C02_syndrome_decoder_ml : forall n H r, r < 2 ^ N.of_nat n ->
  syndN (syn_correct n H r) H = 0 /\ syn_correct n H r < 2 ^ N.of_nat n /\
  forall c, c < 2 ^ N.of_nat n -> syndN c H = 0 -> (wt (N.lxor r (syn_correct n H r)) <= wt (N.lxor r c))%nat.
Proof. exact syn_correct_is_ml. Qed.
Print Assumptions C02_syndrome_decoder_ml.

(* bounded distance, for every H: if all non-zero zero-syndrome words weigh >= 2t+1, every <= t errors are removed *)
Theorem C02_syndrome_decoder_bounded : forall n H t c e, c < 2 ^ N.of_nat n -> e < 2 ^ N.of_nat n -> syndN c H = 0 ->
  (wt e <= t)%nat -> (forall x, x < 2 ^ N.of_nat n -> x <> 0 -> syndN x H = 0 -> (2 * t + 1 <= wt x)%nat) ->
  syn_correct n H (N.lxor c e) = c.
Proof. exact syn_correct_bounded. Qed.
Print Assumptions C02_syndrome_decoder_bounded.

(* instance for a published (G, H): checkers evaluated by the kernel => all 2^k codewords x all patterns of weight <= t *)
Theorem C02_syndrome_decoder_corrects : forall n k G H R T t,
  code_pair_ok n k G H R T = true -> min_distance_ge k G (2 * t + 1) = true ->
  forall m e, m < 2 ^ N.of_nat k -> e < 2 ^ N.of_nat n -> (wt e <= t)%nat -> syn_correct n H (N.lxor (comb m G) e) = comb m G.
Proof. exact syndrome_decoder_corrects. Qed.
Print Assumptions C02_syndrome_decoder_corrects.

(* exhaustive ML and the Reed-Muller nearest-codeword inverse: for every generator matrix, every received word, the
   returned message's codeword is at minimum distance over ALL 2^k messages *)
Theorem C02_brute_force_is_ml : forall k G r m, m < 2 ^ N.of_nat k ->
  (wt (N.lxor r (comb (ml_decode k G r) G)) <= wt (N.lxor r (comb m G)))%nat.
Proof. exact ml_decode_minimum_distance. Qed.
Print Assumptions C02_brute_force_is_ml.

(* Hamming inverse: for every H whose columns are non-zero and pairwise distinct, a clean codeword is left alone
   and every single error is corrected *)
Theorem C02_hamming_inverse : forall n H, columns_ok n H = true -> forall c, syndN c H = 0 ->
  ham_correct n H c = c /\ forall j, (j < n)%nat -> ham_correct n H (N.lxor c (2 ^ N.of_nat j)) = c.
Proof. exact ham_correct_single. Qed.
Print Assumptions C02_hamming_inverse.

(* Hamming weight facts used above *)
Theorem C02_weight_triangle : forall a b, (wt (N.lxor a b) <= wt a + wt b)%nat.
Proof. exact wt_lxor_le. Qed.
Print Assumptions C02_weight_triangle.
