(* C13 -- flat fading: block-constant, correctly normalised gains, y = h.x + n.
   Structure over exact complex rationals for every length, coherence time (divisor or not) and batch
   (Chan/Fading.v, FadingFacts.v); gain normalisation over the reals for every draw list (Chan/FadingR.v);
   the noise stage is the complex Gaussian stage of C07 applied to the faded signal. *)
From Coq Require Import Reals QArith List Arith.
From KV Require Import Chan.Fading Chan.FadingFacts Chan.NoiseR Chan.FadingR.
Local Open Scope nat_scope.

Theorem C13_block_constant : forall (d : C) h ct L i j, i < L -> j < L -> i / ct = j / ct ->
  nth i (expand d h ct L) d = nth j (expand d h ct L) d.
Proof. intros. now apply expand_block_constant. Qed.
Print Assumptions C13_block_constant.

Theorem C13_block_value : forall (d : C) h ct L i, i < L -> nth i (expand d h ct L) d = nth (i / ct) h d.
Proof. intros. now apply expand_block_index. Qed.
Print Assumptions C13_block_value.

(* ceil(L/ct) blocks cover every position for divisors and non-divisors alike, none is superfluous *)
Theorem C13_blocks_cover : forall L ct i, 0 < ct -> (i < L -> i / ct < num_blocks L ct) /\ (0 < L -> (num_blocks L ct - 1) * ct < L).
Proof. intros. split; [now apply blocks_cover|now apply blocks_tight]. Qed.
Print Assumptions C13_blocks_cover.

(* y = h.x + n position by position, the shape (length, batch size) is preserved, items use their own coefficients *)
Theorem C13_output_is_hx_plus_n : forall hb ct x n i, i < length x -> length n = length x ->
  length (item hb ct x n) = length x /\
  nth i (item hb ct x n) c0 = cadd (cmul (nth (i / ct) hb c0) (nth i x c0)) (nth i n c0).
Proof. intros. split; [now apply item_length|now apply item_nth]. Qed.
Print Assumptions C13_output_is_hx_plus_n.

Theorem C13_supplied_csi_and_noise : forall h x n i, i < length x -> length h = length x -> length n = length x ->
  length (forward h x n) = length x /\ nth i (forward h x n) c0 = cadd (cmul (nth i h c0) (nth i x c0)) (nth i n c0).
Proof. intros. split; [now apply forward_length|now apply forward_nth]. Qed.
Print Assumptions C13_supplied_csi_and_noise.

Theorem C13_batch_items_independent : forall hbs ct xs ns b, b < length xs -> length hbs = length xs -> length ns = length xs ->
  length (batch hbs ct xs ns) = length xs /\ nth b (batch hbs ct xs ns) nil = item (nth b hbs nil) ct (nth b xs nil) (nth b ns nil).
Proof. intros. split; [now apply batch_length|now apply batch_nth]. Qed.
Print Assumptions C13_batch_items_independent.

(* gain normalisation *)
Theorem C13_rayleigh_unit_gain : forall g1 g2, length g1 = length g2 -> mean_sq g1 = 1%R -> mean_sq g2 = 1%R ->
  cmean_sq (rayleigh_comp g1) (rayleigh_comp g2) = 1%R.
Proof. exact rayleigh_unit_gain. Qed.
Print Assumptions C13_rayleigh_unit_gain.

Theorem C13_rician_gain : forall K g1 g2, (0 <= K)%R -> length g1 = length g2 -> 0 < length g1 ->
  cmean_sq (rician_re K g1) (rician_im K g2) = (K / (K + 1) + 2 * los K * scat K * mean_l g1 + 1 / (K + 1) * ((mean_sq g1 + mean_sq g2) / 2))%R.
Proof. exact rician_gain. Qed.
Print Assumptions C13_rician_gain.

Theorem C13_rician_unit_gain : forall K g1 g2, (0 <= K)%R -> length g1 = length g2 -> 0 < length g1 -> mean_l g1 = 0%R -> mean_sq g1 = 1%R -> mean_sq g2 = 1%R ->
  cmean_sq (rician_re K g1) (rician_im K g2) = 1%R.
Proof. exact rician_unit_gain. Qed.
Print Assumptions C13_rician_unit_gain.

Theorem C13_rician_k_factor : forall K g1 g2, (0 <= K)%R -> length g1 = length g2 -> mean_sq g1 = 1%R -> mean_sq g2 = 1%R ->
  (los K * los K / (2 * (scat K * scat K)) = K)%R /\ (los K * los K = K / (K + 1))%R /\
  cmean_sq (scaled (scat K) g1) (scaled (scat K) g2) = (1 / (K + 1))%R.
Proof. intros. split; [now apply rician_k_factor|split; [now apply los_sq|now apply rician_scattered_power]]. Qed.
Print Assumptions C13_rician_k_factor.

Theorem C13_rician_k0_is_rayleigh : forall g, rician_re 0 g = rayleigh_comp g /\ rician_im 0 g = rayleigh_comp g.
Proof. exact rician_k0. Qed.
Print Assumptions C13_rician_k0_is_rayleigh.

(* the noise stage: complex Gaussian noise calibrated against the power S of the faded signal h.x *)
Theorem C13_noise_relative_to_faded_signal : forall S g1 g2 d, (0 < S)%R -> length g1 = length g2 -> mean_sq g1 = 1%R -> mean_sq g2 = 1%R ->
  noise_power_to_snr S (cmean_sq (awgn_cplx_component (snr_to_noise_power S d) g1) (awgn_cplx_component (snr_to_noise_power S d) g2)) = d.
Proof. exact awgn_snr_cplx. Qed.
Print Assumptions C13_noise_relative_to_faded_signal.
