(* Non-vacuity: concrete, non-trivial objects that meet the hypotheses of the property theorems (so that no implication
   in Props/Cxx.v is true for lack of instances).  Every example is closed by kernel computation or linear arithmetic. *)
From Coq Require Import NArith ZArith QArith Reals Lra Lqa List Bool.
Import ListNotations.
From KV Require Import Base.GF2 Decoders.Hard Mod.Constellation Mod.Demod Pipe.Chain Constr.Power Constr.PowerFacts
  Chan.NoiseR Chan.NoiseQ Chan.Fading Diff.ConvShape Gen.Arch Batch.Pure Base.Layout Batch.IterStop.

(* C09 / C02 / C01: the (7,4) Hamming code with its certificates satisfies the hypotheses of the chain theorem with t = 1 *)
Definition ham_g : list N := [49; 82; 100; 120]%N.
Definition ham_h : list N := [27; 45; 78]%N.
Example ham_distance : min_distance_ge 4 ham_g 3 = true.
Proof. vm_compute. reflexivity. Qed.
Example ham_rows_in_kernel : rows_in_kernel ham_g ham_h = true.
Proof. vm_compute. reflexivity. Qed.

(* C09: a labelled constellation (QPSK corners) with distinct points and labels and squared minimum distance 4 *)
Definition qpsk_tbl : list entry := [((1, 1), [false; false]); ((-1, 1), [true; false]); ((-1, -1), [true; true]); ((1, -1), [false; true])]%Q.
Example qpsk_table_ok : table_ok qpsk_tbl = true /\ min_sqdist_ge (map fst qpsk_tbl) 4 = true.
Proof. split; vm_compute; reflexivity. Qed.
Example qpsk_displaced_symbol : hard_label qpsk_tbl (7 # 10, 13 # 10)%Q = [false; false].
Proof. vm_compute. reflexivity. Qed.

(* C08: a non-trivial item (powers 1, 4, 9) is non-negative, its PAPR is at most 27/14, and the 0.1 % band applies to it *)
Example c08_item : nonneg [1; 4; 9]%Q /\ papr_le (27 # 14) [1; 4; 9]%Q /\ (999 * eps8 <= Power.qsum [1; 4; 9])%Q.
Proof.
  split; [intros x [<-|[<-|[<-|[]]]]; lra|]. split; [unfold papr_le; vm_compute; discriminate|vm_compute; discriminate].
Qed.

(* C07: draw lists of unit second moment and zero mean exist (so the "unit draws" corollaries are not vacuous) *)
Example c07_unit_draws : mean_sq [1; -1]%R = 1%R /\ mean_l [1; -1]%R = 0%R.
Proof. unfold mean_sq, mean_l; cbn. split; field. Qed.

(* C13: length 12 with coherence time 5 (a non-divisor) needs 3 blocks; position 11 lies in block 2 *)
Example c13_non_divisor : num_blocks 12 5 = 3%nat /\ (11 / 5 = 2)%nat.
Proof. split; reflexivity. Qed.

(* C19: the regenerated architectures are chains of Same / Half (encoders) and Same / Double (decoders) with matching counts *)
Example c19_architectures : down_only bourtsoulatze_encoder = true /\ up_only bourtsoulatze_decoder = true /\
  count_half kurka_encoder = count_double kurka_decoder /\ count_half tung_q_encoder = 4%nat /\ count_double tung_q2_decoder = 2%nat.
Proof. repeat split; vm_compute; reflexivity. Qed.

(* C20: a row of two blocks of length 3 is accepted and answered block by block *)
Example c20_two_blocks : blockwise 3 (fun b : list bool => map negb b) [true; false; true; false; false; true] = Some [false; true; false; true; true; false].
Proof. reflexivity. Qed.

(* C20: an index-set loop whose members leave at different passes (after 3, 1 and never within the budget of 4) *)
Example c20_rows_leave_at_different_passes :
  IterStop.batch_decode nat nat S (fun s => s) (fun s => Nat.eqb s 3) 4 0%nat [0; 2; 5]%nat = [3; 3; 9]%nat
  /\ map (IterStop.single_decode nat nat S (fun s => s) (fun s => Nat.eqb s 3) 4 0%nat) [0; 2; 5]%nat = [3; 3; 9]%nat
  /\ IterStop.global_decode nat nat S (fun s => s) (fun s => Nat.eqb s 3) 4 0%nat [0; 2; 5]%nat = [4; 6; 9]%nat.
Proof. repeat split; vm_compute; reflexivity. Qed.
