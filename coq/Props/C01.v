(* C01 -- encoder, generator matrix and parity-check matrix describe one and the same code.
   Vectors are bit masks (bit i = coordinate i), matrices lists of rows; m.G = [comb m G], x.H^T = [syndN x H]
   (Base/GF2.v).  The theorems hold for ALL matrices; the boolean checkers in their hypotheses are evaluated by the
   kernel on the matrices each encoder of the catalogue publishes (certificates rs, ts, ... come from the untrusted
   harness and are only checked).  Proofs in Base/GF2Facts.v. *)
From Coq Require Import NArith List Bool.
From KV Require Import Base.GF2 Base.GF2Facts.
Import ListNotations.
Local Open Scope N_scope.

(* multiplication by a generator matrix is GF(2)-linear, for every matrix and all messages *)
Theorem C01_encoding_linear : forall G m m', comb (N.lxor m m') G = N.lxor (comb m G) (comb m' G).
Proof. intros. apply comb_lxor. Qed.
Print Assumptions C01_encoding_linear.

Theorem C01_syndrome_linear : forall H x y, syndN (N.lxor x y) H = N.lxor (syndN x H) (syndN y H).
Proof. intros. apply syndN_lxor. Qed.
Print Assumptions C01_syndrome_linear.

(* two additive maps agreeing on the unit vectors agree on all of {0,1}^n: lifts every basis check to all inputs *)
Theorem C01_linear_extension : forall f g (n : nat), additive f -> additive g ->
  (forall i, (i < n)%nat -> f (2 ^ N.of_nat i) = g (2 ^ N.of_nat i)) -> forall x, x < 2 ^ N.of_nat n -> f x = g x.
Proof. exact linear_ext. Qed.
Print Assumptions C01_linear_extension.

(* one code: k rows, injective on k-bit messages, and a word of length n has an all-zero syndrome iff it is a codeword *)
Theorem C01_one_code : forall n k G H R T, code_pair_ok n k G H R T = true ->
  length G = k /\
  (forall m m', m < 2 ^ N.of_nat k -> m' < 2 ^ N.of_nat k -> comb m G = comb m' G -> m = m') /\
  (forall x, x < 2 ^ N.of_nat n -> (syndN x H = 0 <-> exists m, m < 2 ^ N.of_nat k /\ x = comb m G)).
Proof. exact code_pair_sound. Qed.
Print Assumptions C01_one_code.

(* rank: the row space of H has dimension exactly d (a basis of d independent vectors spanning, and spanned by, the rows) *)
Theorem C01_check_matrix_rank : forall d H B L C D, rowspace_dim_ok d H B L C D = true ->
  length B = d /\ (forall c, c < 2 ^ N.of_nat d -> comb c B = 0 -> c = 0) /\
  (forall h, In h H -> exists c, h = comb c B) /\ (forall b, In b B -> exists c, b = comb c H).
Proof. exact rowspace_dim_sound. Qed.
Print Assumptions C01_check_matrix_rank.

Theorem C01_codewords_have_zero_syndrome : forall G H, rows_in_kernel G H = true -> forall m, syndN (comb m G) H = 0.
Proof. exact rows_in_kernel_sound. Qed.
Print Assumptions C01_codewords_have_zero_syndrome.
