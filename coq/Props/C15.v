(* C15 -- one LLR polarity everywhere: positive means bit 0, negative means bit 1.
   Real-number statements (Coq Reals) about the LLR -> probability conversion and the consumers' decision rules
   (LLR/SigmoidR.v); exact-rational composition of any positively-scaled max-log producer with the sign consumers
   (LLR/Compose.v). *)
From Coq Require Import Reals QArith List Bool.
From KV Require Import LLR.SigmoidR LLR.Compose Mod.Constellation Mod.Demod.

(* P(bit = 1) = sigmoid(-LLR) is strictly decreasing in the LLR and equals 1/2 at 0 *)
Theorem C15_probability_of_one_monotone : forall L1 L2 : R, (L1 < L2)%R -> (p1 L2 < p1 L1)%R.
Proof. exact p1_decreasing. Qed.
Print Assumptions C15_probability_of_one_monotone.

Theorem C15_probability_half_iff_sign : forall L : R, ((/ 2 < p1 L)%R <-> (L < 0)%R) /\ ((p1 L < / 2)%R <-> (0 < L)%R).
Proof. intro L. split; [apply p1_gt_half_iff|apply p1_lt_half_iff]. Qed.
Print Assumptions C15_probability_half_iff_sign.

(* consumers that threshold P(bit=1): monotone in the LLR for any threshold; at 1/2 the decision is "1 iff LLR < 0" *)
Theorem C15_threshold_consumers : forall t L1 L2 : R, (L1 <= L2)%R -> decide_thr t L2 = true -> decide_thr t L1 = true.
Proof. exact decide_thr_monotone. Qed.
Print Assumptions C15_threshold_consumers.

Theorem C15_neutral_threshold_polarity : forall L : R, decide_thr (/ 2) L = true <-> (L < 0)%R.
Proof. exact decide_half_polarity. Qed.
Print Assumptions C15_neutral_threshold_polarity.

Theorem C15_llr_thresholder_polarity : forall scale L : R, (0 < scale)%R -> (decide_llr scale 0 L = true <-> (L < 0)%R).
Proof. exact decide_llr_polarity. Qed.
Print Assumptions C15_llr_thresholder_polarity.

(* hysteresis: a 1 is only ever produced by a negative LLR; any history of positive LLRs from reset stays at 0 *)
Theorem C15_hysteresis_polarity : forall hi lo st L, (lo <= / 2 <= hi)%R ->
  (hyst_step hi lo st L = true -> (L < 0)%R \/ st = true) /\ ((0 < L)%R -> hyst_step hi lo false L = false).
Proof. exact hyst_polarity. Qed.
Print Assumptions C15_hysteresis_polarity.

Theorem C15_hysteresis_positive_history : forall hi lo Ls, (lo <= / 2 <= hi)%R -> (forall L, List.In L Ls -> (0 < L)%R) ->
  hyst_run hi lo false Ls = false.
Proof. exact hyst_positive_history. Qed.
Print Assumptions C15_hysteresis_positive_history.

(* producers compose with consumers: for every table with distinct points and labels, every positive constant c and
   noise variance, the consumer "1 iff LLR < 0" applied to the noise-free max-log output returns the transmitted bit *)
Theorem C15_producer_consumer_compose : forall tbl, table_ok tbl = true -> forall e i (c s : Q), In e tbl -> (0 < c)%Q -> (0 < s)%Q ->
  ~ (llr_core tbl i (fst e) == 0)%Q -> llr_consumer (c * llr_core tbl i (fst e) / s) = nth i (snd e) false.
Proof. exact producer_consumer_compose. Qed.
Print Assumptions C15_producer_consumer_compose.
