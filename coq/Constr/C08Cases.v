(* Entry points evaluated by the harness for C08. *)
From Coq Require Import QArith Qabs Qminmax List Bool ZArith.
Import ListNotations.
From KV Require Import Chan.NoiseQ Constr.Power.

Fixpoint all2 {A} (f : A -> A -> bool) (l1 l2 : list A) : bool :=
  match l1, l2 with [], [] => true | a :: t1, b :: t2 => f a b && all2 f t1 t2 | _, _ => false end.
Definition sq (l : list Q) : list Q := map (fun x => x * x) l.
Definition close (tol scale a b : Q) : bool := Qle_bool (Qabs (a - b)) (tol * scale).

(* total power: y is a positive multiple of x and its power is T*c/(c+eps); samples given as re ++ im for complex items *)
Definition c08_total (tol T : Q) (x y : list Q) : bool :=
  prop_check tol x y && close tol T (qsum (sq y)) (out_power T (qsum (sq x))).
(* average power over n samples (n = number of complex samples for complex items) *)
Definition c08_avg (tol P : Q) (n : positive) (x y : list Q) : bool :=
  prop_check tol x y && close tol P (qsum (sq y) / inject_Z (Zpos n)) (out_power P (qsum (sq x) / inject_Z (Zpos n))).
(* peak amplitude, real samples: exact clamp *)
Definition c08_clamp (A : Q) (x y : list Q) : bool := all2 (fun a b => Qeq_bool (clamp A a) b) x y.
(* peak amplitude, complex samples: squared magnitudes clipped at A^2, phase kept *)
Definition c08_cclip (tol A2 : Q) (xre xim yre yim : list Q) : bool :=
  let px := map (fun ab => fst ab * fst ab + snd ab * snd ab) (combine xre xim) in
  let py := map (fun ab => fst ab * fst ab + snd ab * snd ab) (combine yre yim) in
  all2 (fun a b => close tol (Qmax A2 a) a b) (clip_sq A2 px) py &&
  all2 (fun x y => Qle_bool 0 (fst x * fst y + snd x * snd y) && close tol (Qabs (fst x * fst y) + Qabs (snd x * snd y) + 1) (fst x * snd y) (snd x * fst y))
       (combine xre xim) (combine yre yim).
(* PAPR: the model on the squared magnitudes vs the implementation's squared output magnitudes *)
Definition c08_papr (tol m : Q) (px py : list Q) : bool :=
  let out := papr_constraint m px in all2 (close tol (qmax px)) out py.
Definition c08_papr_le (m : Q) (py : list Q) : bool := papr_le_b m py.
(* did the model's final clip keep at least 98 % of the power (hypothesis of the partial theorem)? *)
Definition c08_papr_hyp (m : Q) (px : list Q) : bool :=
  Qle_bool ((98 # 100) * qsum (papr_loop m 15 0 px)) (qsum (papr_constraint m px)).
