From Coq Require Import QArith Qminmax Qabs Lqa Lia List Bool.
Import ListNotations.
From KV Require Import Constr.Power.
Local Open Scope Q_scope.

Definition nonneg (p : list Q) : Prop := forall x, In x p -> 0 <= x.

Lemma eps8_pos : 0 < eps8.
Proof. reflexivity. Qed.

(* ---------------- power constraints ---------------- *)
Theorem scale_sq_pos T c : 0 < T -> 0 <= c -> 0 < scale_sq T c.
Proof.
  intros HT Hc. unfold scale_sq. pose proof eps8_pos. apply Qlt_shift_div_l; lra.
Qed.

Theorem out_power_lt T c : 0 < T -> 0 <= c -> out_power T c < T.
Proof.
  intros HT Hc. unfold out_power. pose proof eps8_pos as He. apply Qlt_shift_div_r; [lra|]. nra.
Qed.

Theorem out_power_nonneg T c : 0 <= T -> 0 <= c -> 0 <= out_power T c.
Proof.
  intros HT Hc. unfold out_power. pose proof eps8_pos as He. apply Qle_shift_div_l; [lra|]. nra.
Qed.

(* within 0.1 % of the target as soon as the input power is at least 999 eps (about 1e-5) *)
Theorem out_power_close T c : 0 <= T -> 999 * eps8 <= c -> (999 # 1000) * T <= out_power T c.
Proof.
  intros HT Hc. unfold out_power. pose proof eps8_pos as He. apply Qle_shift_div_l; [lra|]. nra.
Qed.

Lemma qsum_scale s2 p : qsum (scale_powers s2 p) == s2 * qsum p.
Proof. induction p as [|a p IH]; cbn [scale_powers map qsum]; rewrite ?Qred_correct; [ring|]. unfold scale_powers in IH. rewrite IH. ring. Qed.

(* the output power of an item of power c scaled by s^2 = T/(c+eps) *)
Theorem scaled_item_power T p : 0 <= qsum p -> qsum (scale_powers (scale_sq T (qsum p)) p) == out_power T (qsum p).
Proof.
  intro Hc. rewrite qsum_scale. unfold scale_sq, out_power. pose proof eps8_pos. field. lra.
Qed.

(* applying the constraint to its own output: the power stays within the same bounds (idempotent up to eps) *)
Theorem second_application T c : 0 < T -> 0 <= c -> 999 * eps8 <= out_power T c ->
  (999 # 1000) * T <= out_power T (out_power T c) /\ out_power T (out_power T c) < T.
Proof.
  intros HT Hc H1. split; [apply out_power_close; [lra|exact H1]|apply out_power_lt; [exact HT|apply out_power_nonneg; lra]].
Qed.

(* rescaling the input by a (power a2 * c): both outputs are within 0.1 % of the same target *)
Theorem rescale_invariant T c a2 : 0 < T -> 999 * eps8 <= c -> 999 * eps8 <= a2 * c ->
  Qabs (out_power T (a2 * c) - out_power T c) <= (1 # 1000) * T.
Proof.
  intros HT H1 H2. pose proof eps8_pos as He.
  pose proof (out_power_close T c ltac:(lra) H1). pose proof (out_power_close T (a2 * c) ltac:(lra) H2).
  pose proof (out_power_lt T c HT ltac:(lra)). pose proof (out_power_lt T (a2 * c) HT ltac:(lra)).
  apply Qabs_Qle_condition. split; lra.
Qed.

(* ---------------- clamp ---------------- *)
Theorem clamp_bound A x : 0 <= A -> - A <= clamp A x /\ clamp A x <= A.
Proof.
  intro HA. unfold clamp. split; [apply Q.le_max_l|]. apply Q.max_lub; [lra|apply Q.le_min_r].
Qed.
Theorem clamp_in_range A x : - A <= x <= A -> clamp A x == x.
Proof. intros [H1 H2]. unfold clamp. rewrite Q.min_l by exact H2. rewrite Q.max_r by exact H1. reflexivity. Qed.
Theorem clamp_idempotent A x : 0 <= A -> clamp A (clamp A x) == clamp A x.
Proof. intro HA. apply clamp_in_range. apply clamp_bound, HA. Qed.
Theorem clamp_sign A x : 0 <= A -> 0 <= x * clamp A x.
Proof.
  intro HA. unfold clamp. destruct (Qlt_le_dec x 0) as [Hn|Hp].
  - rewrite Q.min_l by lra. destruct (Q.max_spec (- A) x) as [[_ ->]|[_ ->]]; nra.
  - destruct (Q.min_spec x A) as [[_ ->]|[_ ->]]; (rewrite Q.max_r by lra); nra.
Qed.

(* ---------------- clipping the squared magnitudes ---------------- *)
Lemma nonneg_cons a p : nonneg (a :: p) <-> 0 <= a /\ nonneg p.
Proof.
  unfold nonneg. split.
  - intro H. split; [apply H; now left|intros x Hx; apply H; now right].
  - intros [Ha Hp] x [<-|Hx]; [exact Ha|now apply Hp].
Qed.
Lemma qsum_nonneg p : nonneg p -> 0 <= qsum p.
Proof. induction p as [|a p IH]; intro H; cbn [qsum]; rewrite ?Qred_correct; [lra|]. apply nonneg_cons in H. destruct H as [Ha Hp]. specialize (IH Hp). lra. Qed.
Lemma qmax_nonneg p : 0 <= qmax p.
Proof. induction p as [|a p IH]; cbn [qmax]; [lra|]. eapply Qle_trans; [exact IH|apply Q.le_max_r]. Qed.
Lemma qmax_ge p x : In x p -> x <= qmax p.
Proof.
  induction p as [|a p IH]; [intros []|]. intros [<-|Hx]; cbn [qmax]; [apply Q.le_max_l|].
  eapply Qle_trans; [apply IH, Hx|apply Q.le_max_r].
Qed.
Lemma qmax_le_bound p b : 0 <= b -> (forall x, In x p -> x <= b) -> qmax p <= b.
Proof.
  intros Hb. induction p as [|a p IH]; intro H; cbn [qmax]; [exact Hb|].
  apply Q.max_lub; [apply H; now left|apply IH; intros x Hx; apply H; now right].
Qed.
Lemma qmax_le_sum p : nonneg p -> qmax p <= qsum p.
Proof.
  induction p as [|a p IH]; intro H; cbn [qmax qsum]; rewrite ?Qred_correct; [lra|]. apply nonneg_cons in H. destruct H as [Ha Hp].
  specialize (IH Hp). pose proof (qsum_nonneg p Hp). pose proof (qmax_nonneg p). apply Q.max_lub; lra.
Qed.

Lemma clip_nonneg a2 p : 0 <= a2 -> nonneg p -> nonneg (clip_sq a2 p).
Proof.
  intros Ha Hp x Hx. unfold clip_sq in Hx. apply in_map_iff in Hx. destruct Hx as [y [<- Hy]].
  apply Q.min_glb; [apply Hp, Hy|exact Ha].
Qed.
(* every clipped squared magnitude is below the level *)
Theorem clip_bound a2 p x : In x (clip_sq a2 p) -> x <= a2.
Proof. intro Hx. unfold clip_sq in Hx. apply in_map_iff in Hx. destruct Hx as [y [<- _]]. apply Q.le_min_r. Qed.
Lemma clip_le a2 p : nonneg p -> qsum (clip_sq a2 p) <= qsum p.
Proof.
  induction p as [|a p IH]; intro H; cbn [clip_sq map qsum]; rewrite ?Qred_correct; [lra|]. apply nonneg_cons in H. destruct H as [Ha Hp].
  specialize (IH Hp). unfold clip_sq in IH. pose proof (Q.le_min_l a a2). lra.
Qed.
Lemma qmax_clip_le_level a2 p : 0 <= a2 -> qmax (clip_sq a2 p) <= a2.
Proof. intro Ha. apply qmax_le_bound; [exact Ha|]. intros x Hx. eapply clip_bound; eassumption. Qed.
Lemma qmax_clip_le_qmax a2 p : qmax (clip_sq a2 p) <= qmax p.
Proof.
  apply qmax_le_bound; [apply qmax_nonneg|]. intros x Hx. unfold clip_sq in Hx. apply in_map_iff in Hx.
  destruct Hx as [y [<- Hy]]. eapply Qle_trans; [apply Q.le_min_l|apply qmax_ge, Hy].
Qed.

(* clipping never increases the peak-to-sum ratio:  peak' * sum <= peak * sum' *)
Theorem clip_ratio a2 p : 0 <= a2 -> nonneg p -> qmax (clip_sq a2 p) * qsum p <= qmax p * qsum (clip_sq a2 p).
Proof.
  intros Ha Hp. pose proof (qmax_clip_le_level a2 p Ha) as H1. pose proof (qmax_clip_le_qmax a2 p) as H2.
  pose proof (qmax_nonneg (clip_sq a2 p)) as H0.
  set (M' := qmax (clip_sq a2 p)) in *. set (M := qmax p) in *.
  assert (Hb : forall x, In x p -> x <= M) by (intros x Hx; apply qmax_ge, Hx).
  clearbody M M'. induction p as [|a p IH]; cbn [clip_sq map qsum]; rewrite ?Qred_correct; [lra|].
  apply nonneg_cons in Hp. destruct Hp as [Hna Hp]. specialize (IH Hp ltac:(intros x Hx; apply Hb; now right)).
  unfold clip_sq in IH. assert (HaM : a <= M) by (apply Hb; now left).
  assert (Ht : M' * a <= M * Qmin a a2).
  { destruct (Q.min_spec a a2) as [[Hlt ->]|[Hge ->]]; nra. }
  lra.
Qed.

(* hence a PAPR limit that holds keeps holding after any clipping *)
Theorem clip_keeps_papr m a2 p : 0 <= m -> 0 <= a2 -> nonneg p -> papr_le m p -> papr_le m (clip_sq a2 p).
Proof.
  intros Hm Ha Hp H. unfold papr_le in *. pose proof (clip_ratio a2 p Ha Hp) as Hr.
  assert (Hl : qlen (clip_sq a2 p) == qlen p) by (unfold qlen, clip_sq; rewrite map_length; reflexivity).
  rewrite Hl. pose proof (qsum_nonneg p Hp) as Hs. pose proof (qmax_nonneg (clip_sq a2 p)) as H0.
  pose proof (qmax_clip_le_qmax a2 p) as H2. pose proof (qmax_le_sum p Hp) as H3.
  pose proof (qsum_nonneg _ (clip_nonneg a2 p Ha Hp)) as Hs'.
  assert (Hn : 0 <= qlen p) by (unfold qlen; change 0 with (inject_Z 0); rewrite <- Zle_Qle; lia).
  destruct (Qlt_le_dec 0 (qsum p)) as [Hpos|Hz].
  - set (M' := qmax (clip_sq a2 p)) in *. set (M := qmax p) in *. set (S := qsum p) in *. set (S' := qsum (clip_sq a2 p)) in *.
    set (n := qlen p) in *. clearbody M M' S S' n.
    assert (M' * n * S <= m * S' * S) by nra.
    apply Qmult_le_r with (z := S); [exact Hpos|]. lra.
  - assert (qmax (clip_sq a2 p) == 0) by lra. rewrite H1. nra.
Qed.

(* positive scaling leaves the PAPR unchanged *)
Lemma qmax_scale s2 p : 0 <= s2 -> qmax (scale_powers s2 p) == s2 * qmax p.
Proof.
  intro Hs. induction p as [|a p IH]; cbn [scale_powers map qmax]; [ring|]. unfold scale_powers in IH. rewrite IH.
  destruct (Q.max_spec a (qmax p)) as [[Hlt E]|[Hge E]]; rewrite E.
  - apply Q.max_r. nra.
  - apply Q.max_l. nra.
Qed.
Theorem scale_keeps_papr m s2 p : 0 <= s2 -> papr_le m p -> papr_le m (scale_powers s2 p).
Proof.
  intros Hs H. unfold papr_le in *. rewrite qmax_scale, qsum_scale by exact Hs.
  assert (Hl : qlen (scale_powers s2 p) == qlen p) by (unfold qlen, scale_powers; rewrite map_length; reflexivity).
  rewrite Hl. nra.
Qed.
Lemma scale_nonneg s2 p : 0 <= s2 -> nonneg p -> nonneg (scale_powers s2 p).
Proof.
  intros Hs Hp x Hx. unfold scale_powers in Hx. apply in_map_iff in Hx. destruct Hx as [y [<- Hy]]. specialize (Hp y Hy). nra.
Qed.

(* ---------------- the PAPR algorithm ---------------- *)
Lemma qmean_nonneg p : nonneg p -> 0 <= qmean p.
Proof.
  intro Hp. unfold qmean. pose proof (qsum_nonneg p Hp).
  assert (Hn : 0 <= qlen p) by (unfold qlen; change 0 with (inject_Z 0); rewrite <- Zle_Qle; lia).
  destruct (Qeq_dec (qlen p) 0) as [E|NE]; [rewrite E; unfold Qdiv; rewrite Qmult_comm; cbn; lra|].
  apply Qle_shift_div_l; lra.
Qed.

Lemma papr_step_inv m m0 i p p' : 0 <= m -> 0 <= m0 -> nonneg p -> papr_le m0 p -> papr_step m i p = Some p' ->
  nonneg p' /\ papr_le m0 p'.
Proof.
  intros Hm Hm0 Hp H E. unfold papr_step in E. pose proof (qmean_nonneg p Hp) as Hav.
  destruct (Qle_bool _ _); [discriminate|].
  assert (Ha2 : 0 <= qmean p * (m * (9 # 10))) by nra.
  destruct (any_above _ p).
  - destruct (Nat.ltb 7 i); injection E as <-.
    + set (f := (95 # 100) - (5 # 100) * inject_Z (Z.of_nat (i - 7))).
      assert (Hf : 0 <= qmean p * (m * (9 # 10)) * (f * f)) by nra.
      split; [apply clip_nonneg; [exact Hf|apply clip_nonneg; assumption]|].
      apply clip_keeps_papr; [exact Hm0|exact Hf|apply clip_nonneg; assumption|]. apply clip_keeps_papr; assumption.
    + split; [apply clip_nonneg; assumption|apply clip_keeps_papr; assumption].
  - injection E as <-. split; assumption.
Qed.

Lemma papr_loop_inv m m0 fuel i p : 0 <= m -> 0 <= m0 -> nonneg p -> papr_le m0 p ->
  nonneg (papr_loop m fuel i p) /\ papr_le m0 (papr_loop m fuel i p).
Proof.
  intros Hm Hm0. revert i p. induction fuel as [|fuel IH]; intros i p Hp H; cbn [papr_loop]; [split; assumption|].
  destruct (papr_step m i p) as [p'|] eqn:E; [|split; assumption].
  destruct (papr_step_inv m m0 i p p' Hm Hm0 Hp H E) as [Hp' H']. apply IH; assumption.
Qed.

(* the constraint never increases the PAPR: any bound that held for the input holds for the output *)
Theorem papr_constraint_never_increases m m0 p : 0 <= m -> 0 <= m0 -> nonneg p -> papr_le m0 p ->
  nonneg (papr_constraint m p) /\ papr_le m0 (papr_constraint m p).
Proof.
  intros Hm Hm0 Hp H. unfold papr_constraint, papr_final.
  destruct (papr_loop_inv m m0 15 0 p Hm Hm0 Hp H) as [Hp' H'].
  pose proof (qmean_nonneg _ Hp') as Hav. assert (Hl : 0 <= qmean (papr_loop m 15 0 p) * m * (98 # 100)) by nra.
  split; [apply clip_nonneg; assumption|apply clip_keeps_papr; assumption].
Qed.

(* every output sample is below sqrt(0.98 * max_papr * average before the final clip) *)
Theorem papr_constraint_peak m p x : In x (papr_constraint m p) -> x <= qmean (papr_loop m 15 0 p) * m * (98 # 100).
Proof. unfold papr_constraint, papr_final. apply clip_bound. Qed.

Lemma qlen_nonneg p : 0 <= qlen p.
Proof. unfold qlen. change 0 with (inject_Z 0). rewrite <- Zle_Qle. lia. Qed.
Lemma papr_le_trivial p : nonneg p -> papr_le (qlen p) p.
Proof. intro Hp. unfold papr_le. pose proof (qmax_le_sum p Hp). pose proof (qlen_nonneg p). pose proof (qmax_nonneg p). nra. Qed.
Lemma papr_loop_nonneg m fuel i p : 0 <= m -> nonneg p -> nonneg (papr_loop m fuel i p).
Proof. intros Hm Hp. apply (papr_loop_inv m (qlen p) fuel i p Hm (qlen_nonneg p) Hp (papr_le_trivial p Hp)). Qed.

(* the limit is met whenever the final clip removes at most 2 % of the power (partial: nothing is proved when it removes more) *)
Theorem papr_constraint_limit_partial m p : 0 <= m -> nonneg p -> 0 < qlen (papr_loop m 15 0 p) ->
  (98 # 100) * qsum (papr_loop m 15 0 p) <= qsum (papr_constraint m p) -> papr_le m (papr_constraint m p).
Proof.
  intros Hm Hp Hn H. unfold papr_constraint, papr_final in *. set (q := papr_loop m 15 0 p) in *.
  assert (Hq : nonneg q) by (apply papr_loop_nonneg; assumption).
  pose proof (qmean_nonneg q Hq) as Hav. set (lvl := qmean q * m * (98 # 100)) in *.
  assert (Hl : 0 <= lvl) by (unfold lvl; nra).
  pose proof (qmax_clip_le_level lvl q Hl) as HM. unfold papr_le.
  assert (Hlen : qlen (clip_sq lvl q) == qlen q) by (unfold qlen, clip_sq; rewrite map_length; reflexivity).
  rewrite Hlen. assert (Hlv : lvl * qlen q == (98 # 100) * m * qsum q) by (unfold lvl, qmean; field; lra).
  pose proof (qmax_nonneg (clip_sq lvl q)). nra.
Qed.

(* ---------------- composites ---------------- *)
Theorem composite_app {A} (cs1 cs2 : list (A -> A)) x : composite (cs1 ++ cs2) x = composite cs2 (composite cs1 x).
Proof. unfold composite. apply fold_left_app. Qed.
Theorem composite_nil {A} (x : A) : composite [] x = x.
Proof. reflexivity. Qed.
Theorem composite_cons {A} (c : A -> A) cs x : composite (c :: cs) x = composite cs (c x).
Proof. reflexivity. Qed.

(* the OFDM factory chain [PAPR; total power; peak amplitude] on the squared magnitudes: if the PAPR stage reached its
   limit, the final signal meets the PAPR limit, the peak limit and the total-power limit together *)
Theorem ofdm_chain m T A2 p : 0 <= m -> 0 < T -> 0 <= A2 -> nonneg p -> papr_le m p ->
  let out := clip_sq A2 (scale_powers (scale_sq T (qsum p)) p) in
  papr_le m out /\ (forall x, In x out -> x <= A2) /\ qsum out < T.
Proof.
  intros Hm HT HA Hp H out. pose proof (qsum_nonneg p Hp) as Hs.
  pose proof (scale_sq_pos T (qsum p) HT Hs) as Hsc. assert (Hsc' : 0 <= scale_sq T (qsum p)) by lra.
  pose proof (scale_nonneg _ p Hsc' Hp) as Hn. split; [|split].
  - apply clip_keeps_papr; [exact Hm|exact HA|exact Hn|]. apply scale_keeps_papr; assumption.
  - intros x Hx. eapply clip_bound; exact Hx.
  - eapply Qle_lt_trans; [apply clip_le, Hn|]. rewrite scaled_item_power by exact Hs. apply out_power_lt; assumption.
Qed.

(* a trailing up-scaling after the clamp (the order the factory used before the repair) can break the peak limit *)
Theorem power_after_peak_refuted : exists (A2 T : Q) (p : list Q), 0 < T /\ (forall x, In x p -> x <= A2) /\ exists x, In x (scale_powers (scale_sq T (qsum p)) p) /\ A2 < x.
Proof.
  exists 1, 100, [1; 1]. split; [reflexivity|]. split.
  - intros x [<-|[<-|[]]]; apply Qle_refl.
  - exists (scale_sq 100 (qsum [1; 1]) * 1). split; [now left|]. vm_compute. reflexivity.
Qed.
