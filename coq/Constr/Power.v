(* Power / amplitude / PAPR constraints of kaira/constraints/{power,signal,antenna,composite}.py on exact rationals.
   Power constraints multiply by s = sqrt(T / (c + eps)); everything below is stated on squares, so no square root is
   needed: an item is represented by its samples (for the sign / proportionality statements) and by the list of its
   squared magnitudes (for power, peak and PAPR).  Executable; facts in PowerFacts.v. *)
From Coq Require Import QArith Qminmax List Bool.
Import ListNotations.
Local Open Scope Q_scope.

Definition eps8 : Q := 1 # 100000000.          (* the 1e-8 added to every denominator *)

(* sums are kept as reduced fractions so that the kernel can iterate the PAPR loop; Qred q == q *)
Fixpoint qsum (l : list Q) : Q := match l with [] => 0 | x :: t => Qred (x + qsum t) end.
Fixpoint qmax (l : list Q) : Q := match l with [] => 0 | x :: t => Qmax x (qmax t) end.
Definition qlen (l : list Q) : Q := inject_Z (Z.of_nat (length l)).
Definition qmean (l : list Q) : Q := qsum l / qlen l.

(* squared scale and output power of Total / Average / per-antenna power constraints; c = current (total or mean) power *)
Definition scale_sq (T c : Q) : Q := T / (c + eps8).
Definition out_power (T c : Q) : Q := T * c / (c + eps8).
Definition scale_powers (s2 : Q) (p : list Q) : list Q := map (Qmult s2) p.

(* clipping the magnitudes at squared level a2 *)
Definition clip_sq (a2 : Q) (p : list Q) : list Q := map (fun x => Qmin x a2) p.
(* peak-amplitude clamp on a real sample *)
Definition clamp (A x : Q) : Q := Qmax (- A) (Qmin x A).

(* PAPR as a cross-multiplied comparison:  peak / mean <= m  <->  peak * n <= m * sum *)
Definition papr_le (m : Q) (p : list Q) : Prop := qmax p * qlen p <= m * qsum p.
Definition papr_le_b (m : Q) (p : list Q) : bool := Qle_bool (qmax p * qlen p) (m * qsum p).

(* PAPRConstraint._apply_constraint_to_single_item on the squared magnitudes (the +1e-8 inside the phase
   normalisation x / (|x| + 1e-8) is below the comparison tolerance and is not modelled) *)
Definition any_above (a2 : Q) (p : list Q) : bool := existsb (fun x => negb (Qle_bool x a2)) p.
Definition papr_step (m : Q) (i : nat) (p : list Q) : option (list Q) :=
  let avg := qmean p in
  let peak := qmax p in
  if Qle_bool (peak / (avg + eps8)) (m * (98 # 100)) then None            (* break *)
  else
    let a2 := avg * (m * (9 # 10)) in
    if any_above a2 p then
      let p1 := clip_sq a2 p in
      if Nat.ltb 7 i then
        let f := (95 # 100) - (5 # 100) * inject_Z (Z.of_nat (i - 7)) in
        Some (clip_sq (a2 * (f * f)) p1)
      else Some p1
    else Some p.
Fixpoint papr_loop (m : Q) (fuel i : nat) (p : list Q) : list Q :=
  match fuel with
  | O => p
  | S fuel' => match papr_step m i p with None => p | Some p' => papr_loop m fuel' (S i) p' end
  end.
Definition papr_final (m : Q) (p : list Q) : list Q := clip_sq (qmean p * m * (98 # 100)) p.
Definition papr_constraint (m : Q) (p : list Q) : list Q := papr_final m (papr_loop m 15 0 p).

(* CompositeConstraint / apply_constraint_chain: sequential application *)
Definition composite {A} (cs : list (A -> A)) (x : A) : A := fold_left (fun acc c => c acc) cs x.
