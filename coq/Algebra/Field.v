(* The concrete fields of kaira: the GF2m model instantiated with the modulus table and the
   primitive-element constant REGENERATED from /repo (Gen/PrimPolys.v).  No proofs here. *)
From Coq Require Import NArith List Bool.
From KV Require Import Gen.PrimPolys Algebra.BinPoly Algebra.GF2m.
Import ListNotations.
Local Open Scope N_scope.

Fixpoint lookupN (m : N) (t : list (N * N)) : option N :=
  match t with [] => None | (k, v) :: t' => if k =? m then Some v else lookupN m t' end.

(* FiniteBifield(m).modulus.value ; None = ValueError / NotImplementedError *)
Definition modulus_of (m : N) : option N := lookupN m modulus_table.

(* FiniteBifield(m).primitive_element().value *)
Definition prim (m : N) : N := felt m (prim_const m).

(* what "GF(2^m) with designated primitive element" needs from a table row:
   the modulus has degree m and the designated element has multiplicative order exactly 2^m - 1 *)
Definition field_ok (m p : N) : bool :=
  (1 <=? m) && (N.size p =? m + 1) && (order_of m p (prim m) =? 2 ^ m - 1).

Definition rows_ok : list (N * bool) := map (fun mp => (fst mp, field_ok (fst mp) (snd mp))) modulus_table.
Definition row_test (mp : N * N) : bool := field_ok (fst mp) (snd mp).
(* NB: theorems state [forallb row_test modulus_table = true] literally: hiding it behind a constant makes
   the kernel re-evaluate the whole table lazily at every Qed that unfolds it (minutes). *)
Definition table_covers : bool := forallb (fun k => match modulus_of (N.of_nat k) with Some _ => true | None => false end) (seq 1 (N.to_nat max_m)).
