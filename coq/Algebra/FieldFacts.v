(* The general GF(2^m) theory instantiated on every row of the regenerated modulus table. *)
From Coq Require Import NArith ZArith List Bool Lia.
From KV Require Import Gen.PrimPolys Algebra.BinPoly Algebra.BinPolyFacts Algebra.GF2m Algebra.Field Algebra.GF2mFacts.
Import ListNotations.
Local Open Scope N_scope.

Lemma forallb_in {A} (f : A -> bool) l x : forallb f l = true -> In x l -> f x = true.
Proof. intro H. apply forallb_forall. exact H. Qed.

Lemma field_ok_spec m p : field_ok m p = true ->
  m <> 0 /\ N.size p = m + 1 /\ order_of m p (prim m) = 2 ^ m - 1.
Proof.
  unfold field_ok. intro H. apply andb_prop in H. destruct H as [H H3]. apply andb_prop in H. destruct H as [H1 H2].
  apply N.leb_le in H1. apply N.eqb_eq in H2. apply N.eqb_eq in H3. repeat split; [lia|assumption|assumption].
Qed.

Lemma row_ok m p : forallb row_test modulus_table = true -> In (m, p) modulus_table ->
  m <> 0 /\ N.size p = m + 1 /\ order_of m p (prim m) = 2 ^ m - 1.
Proof. intros H Hin. apply field_ok_spec. exact (forallb_in row_test _ (m, p) H Hin). Qed.

Lemma prim_elt m : m <> 0 -> prim m < 2 ^ m.
Proof. intro H. unfold prim, felt. apply N.mod_lt. apply N.pow_nonzero. discriminate. Qed.

Section Table.
Hypothesis Hall : forallb row_test modulus_table = true.

Lemma table_ring_laws : forall m p, In (m, p) modulus_table -> forall a b c, a < 2 ^ m -> b < 2 ^ m -> c < 2 ^ m ->
  fmul m p a b < 2 ^ m /\
  fmul m p a b = fmul m p b a /\
  fmul m p (fmul m p a b) c = fmul m p a (fmul m p b c) /\
  fmul m p a (N.lxor b c) = N.lxor (fmul m p a b) (fmul m p a c) /\
  fmul m p a 1 = a /\ fadd m a b = N.lxor a b.
Proof.
  intros m p Hin a b c Ha Hb Hc. destruct (row_ok m p Hall Hin) as (Hm & Hdeg & _).
  repeat split.
  - eapply fmul_elt; eassumption.
  - eapply fmul_comm; eassumption.
  - eapply fmul_assoc; eassumption.
  - eapply fmul_lxor_r; eassumption.
  - eapply fmul_1_r; eassumption.
  - eapply fadd_lxor; eassumption.
Qed.

Lemma table_frobenius : forall m p, In (m, p) modulus_table -> forall a b, a < 2 ^ m -> b < 2 ^ m ->
  fmul m p (N.lxor a b) (N.lxor a b) = N.lxor (fmul m p a a) (fmul m p b b).
Proof.
  intros m p Hin a b Ha Hb. destruct (row_ok m p Hall Hin) as (Hm & Hdeg & _).
  eapply frobenius; eassumption.
Qed.

Lemma table_pow_spec : forall m p, In (m, p) modulus_table -> forall a e, a < 2 ^ m ->
  fpow m p a e = pow_nat m p a (N.to_nat e).
Proof.
  intros m p Hin a e Ha. destruct (row_ok m p Hall Hin) as (Hm & Hdeg & _).
  eapply fpow_spec; eassumption.
Qed.

Lemma table_primitive_order : forall m p, In (m, p) modulus_table ->
  pow_nat m p (prim m) (N.to_nat (2 ^ m - 1)) = 1 /\
  forall j, (0 < j < N.to_nat (2 ^ m - 1))%nat -> pow_nat m p (prim m) j <> 1.
Proof.
  intros m p Hin. destruct (row_ok m p Hall Hin) as (Hm & Hdeg & Hord).
  eapply (g_order m p) with (g := prim m); try eassumption. apply prim_elt; exact Hm.
Qed.

Lemma table_powers_exhaust : forall m p, In (m, p) modulus_table -> forall a, a < 2 ^ m -> a <> 0 ->
  exists j, (j < N.to_nat (2 ^ m - 1))%nat /\ a = pow_nat m p (prim m) j.
Proof.
  intros m p Hin a Ha Ha0. destruct (row_ok m p Hall Hin) as (Hm & Hdeg & Hord).
  eapply (powers_exhaust m p) with (g := prim m); try eassumption. apply prim_elt; exact Hm.
Qed.

Lemma table_inverse : forall m p, In (m, p) modulus_table -> forall a, a < 2 ^ m -> a <> 0 ->
  exists b, finv m p a = Some b /\ b < 2 ^ m /\ fmul m p a b = 1.
Proof.
  intros m p Hin a Ha Ha0. destruct (row_ok m p Hall Hin) as (Hm & Hdeg & Hord).
  eapply (finv_spec m p) with (g := prim m); try eassumption. apply prim_elt; exact Hm.
Qed.

Lemma table_integral : forall m p, In (m, p) modulus_table -> forall a b, a < 2 ^ m -> b < 2 ^ m ->
  fmul m p a b = 0 -> a = 0 \/ b = 0.
Proof.
  intros m p Hin a b Ha Hb. destruct (row_ok m p Hall Hin) as (Hm & Hdeg & Hord).
  eapply (integral m p) with (g := prim m); try eassumption. apply prim_elt; exact Hm.
Qed.
End Table.
