(* Executable model of kaira/models/fec/algebra.py : class BinaryPolynomial.
   A polynomial over GF(2) is the bit mask [value : N] exactly as in the Python class.
   No proofs in this file (the model must keep running when a proof breaks). *)
From Coq Require Import NArith ZArith List Bool.
Import ListNotations.
Local Open Scope N_scope.

(* BinaryPolynomial.degree : bit_length - 1, and -1 for the zero polynomial *)
Definition degree (a : N) : Z :=
  match a with 0 => (-1)%Z | _ => Z.of_N (N.log2 a) end.

(* __mul__ : while b > 0: if b & 1: result ^= a;  a <<= 1; b >>= 1
   the loop runs over the binary digits of b, least significant first *)
Fixpoint mul_pos (a : N) (b : positive) : N :=
  match b with
  | xH => a
  | xO b' => mul_pos (N.double a) b'
  | xI b' => N.lxor a (mul_pos (N.double a) b')
  end.

Definition clmul (a b : N) : N :=
  match b with 0 => 0 | Npos p => mul_pos a p end.

(* with the "if self.value == 0 or other.value == 0: return 0" shortcut *)
Definition pmul (a b : N) : N :=
  if (a =? 0) || (b =? 0) then 0 else clmul a b.

(* The common loop of __mod__, div and _custom_div_with_remainder:
     while True:
        if degree(remainder) < degree(divisor): break
        shift = degree(remainder) - degree(divisor)
        quotient |= 1 << shift ; remainder ^= divisor << shift
   bit_length = N.size; degree(0) = -1 < degree(d) for d <> 0 is  size 0 = 0 < size d. *)
Fixpoint divmod_fuel (fuel : nat) (q r d : N) : option (N * N) :=
  if N.size r <? N.size d then Some (q, r) else
  match fuel with
  | O => None
  | S f =>
      let s := N.size r - N.size d in
      divmod_fuel f (N.lor q (N.shiftl 1 s)) (N.lxor r (N.shiftl d s)) d
  end.

Definition divmod (a d : N) : option (N * N) :=
  if d =? 0 then None (* ValueError *) else divmod_fuel (N.to_nat (N.size a)) 0 a d.

(* __mod__ : ValueError on zero modulus; shortcuts (self = 0, deg self < deg modulus) agree with the loop *)
Definition pmod (a m : N) : option N :=
  match divmod a m with Some (_, r) => Some r | None => None end.

(* div : ValueError on zero; shortcuts: self == 0 -> 0, self == divisor -> 1, deg self < deg divisor -> 0 *)
Definition pdiv (a d : N) : option N :=
  if d =? 0 then None else
  if a =? 0 then Some 0 else
  if a =? d then Some 1 else
  match divmod a d with Some (q, _) => Some q | None => None end.

(* gcd : special cases, then  while b != 0: a, b = b, a % b *)
Fixpoint gcd_fuel (fuel : nat) (a b : N) : option N :=
  if b =? 0 then Some a else
  match fuel with
  | O => None
  | S f => match pmod a b with Some r => gcd_fuel f b r | None => None end
  end.

Definition pgcd (a b : N) : option N :=
  if a =? 0 then Some b else
  if b =? 0 then Some a else
  if a =? b then Some a else
  gcd_fuel (S (N.to_nat (N.size b))) a b.

(* lcm : 0 if either is 0; self if equal; (a*b) div gcd *)
Definition plcm (a b : N) : option N :=
  if (a =? 0) || (b =? 0) then Some 0 else
  if a =? b then Some a else
  match pgcd a b with
  | Some g => if g =? 0 then Some 0 else pdiv (pmul a b) g
  | None => None
  end.

(* evaluate at an integer: result ^= power ; power *= x  (ordinary integer product, as written) *)
Fixpoint eval_int_pos (v : positive) (x power : N) : N :=
  match v with
  | xH => power
  | xO v' => eval_int_pos v' x (power * x)
  | xI v' => N.lxor power (eval_int_pos v' x (power * x))
  end.
Definition eval_int (a x : N) : N :=
  match a with 0 => 0 | Npos p => eval_int_pos p x 1 end.

(* derivative : for odd powers with coefficient 1 set bit (power-1) *)
Fixpoint keep_alt (keep : bool) (p : positive) : N :=
  match p with
  | xH => if keep then 1 else 0
  | xO q => N.double (keep_alt (negb keep) q)
  | xI q => if keep then N.succ_double (keep_alt (negb keep) q) else N.double (keep_alt (negb keep) q)
  end.
Definition keep_even_bits (a : N) : N := match a with 0 => 0 | Npos p => keep_alt true p end.
Definition derivative (a : N) : N := keep_even_bits (N.shiftr a 1).

(* to_coefficient_list : lowest degree first, [0] for the zero polynomial *)
Fixpoint bits_pos (p : positive) : list bool :=
  match p with xH => [true] | xO q => false :: bits_pos q | xI q => true :: bits_pos q end.
Definition coeff_list (a : N) : list bool :=
  match a with 0 => [false] | Npos p => bits_pos p end.
