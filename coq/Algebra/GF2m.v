(* Executable model of kaira/models/fec/algebra.py : FiniteBifield / FiniteBifieldElement.
   A field is (m, p) with p the modulus bit mask taken from the generated table Gen/PrimPolys.v;
   an element is its integer value.  No proofs here. *)
From Coq Require Import NArith ZArith List Bool.
From KV Require Import Algebra.BinPoly.
Import ListNotations.
Local Open Scope N_scope.

(* FiniteBifield.__call__ / FiniteBifieldElement.__init__ :  value % 2**m  (integer reduction) *)
Definition felt (m v : N) : N := v mod 2 ^ m.

Definition fadd (m a b : N) : N := felt m (N.lxor a b).

Definition pmod_or0 (a p : N) : N := match pmod a p with Some r => r | None => 0 end.

(* __mul__ with its 0 / 1 shortcuts *)
Definition fmul (m p a b : N) : N :=
  if (a =? 0) || (b =? 0) then felt m 0 else
  if a =? 1 then b else
  if b =? 1 then a else
  felt m (pmod_or0 (pmul a b) p).

(* __pow__ : shortcuts, then square-and-multiply over the binary digits of the exponent, LSB first *)
Fixpoint fpow_pos (m p result base : N) (e : positive) : N :=
  match e with
  | xH => fmul m p result base
  | xO e' => fpow_pos m p result (fmul m p base base) e'
  | xI e' => fpow_pos m p (fmul m p result base) (fmul m p base base) e'
  end.

Definition fpow (m p a e : N) : N :=
  match e with
  | 0 => felt m 1
  | Npos pe =>
      if e =? 1 then a else
      if a =? 0 then a else
      if a =? 1 then a else
      fpow_pos m p (felt m 1) a pe
  end.

(* inverse : ValueError on zero; 1 -> 1; else a ** (2^m - 2) *)
Definition finv (m p a : N) : option N :=
  if a =? 0 then None else if a =? 1 then Some a else Some (fpow m p a (2 ^ m - 2)).

(* conjugates : [a, a^2, a^4, ...] at most m entries, stop at the first return to a *)
Fixpoint conj_fuel (m p a : N) (fuel : nat) (e : N) : list N :=
  match fuel with
  | O => []
  | S f => let e' := fmul m p e e in
           if e' =? a then [] else e' :: conj_fuel m p a f e'
  end.
Definition conjugates (m p a : N) : list N := a :: conj_fuel m p a (N.to_nat m - 1) a.

(* trace : xor of a, a^2, ..., a^(2^(m-1)) as integers, then & 1 *)
Fixpoint trace_fuel (m p : N) (fuel : nat) (e acc : N) : N :=
  match fuel with
  | O => acc
  | S f => let e' := fmul m p e e in trace_fuel m p f e' (N.lxor acc e')
  end.
Definition ftrace (m p a : N) : N := N.land (trace_fuel m p (N.to_nat m - 1) a a) 1.

(* BinaryPolynomial.evaluate at a field element: result = result + power ; power = power * x *)
Fixpoint feval_pos (m p : N) (v : positive) (x power : N) : N :=
  match v with
  | xH => fadd m 0 power
  | xO v' => feval_pos m p v' x (fmul m p power x)
  | xI v' => fadd m power (feval_pos m p v' x (fmul m p power x))
  end.
Definition feval (m p poly x : N) : N :=
  match poly with 0 => 0 | Npos v => feval_pos m p v x (felt m 1) end.

(* minimal_polynomial : for mask in range(1 << d): candidate = X^d + mask; first one vanishing on all conjugates *)
Definition vanishes_on (m p poly : N) (l : list N) : bool := forallb (fun c => feval m p poly c =? 0) l.

Fixpoint minpoly_search (m p : N) (conjs : list N) (d : N) (fuel : nat) (mask : N) : option N :=
  match fuel with
  | O => None (* RuntimeError *)
  | S f => let cand := N.lxor (N.shiftl 1 d) mask in
           if vanishes_on m p cand conjs then Some cand else minpoly_search m p conjs d f (N.succ mask)
  end.
Definition minpoly (m p a : N) : option N :=
  let cs := conjugates m p a in
  let d := N.of_nat (length cs) in
  minpoly_search m p cs d (N.to_nat (2 ^ d)) 0.

(* order of an element by repeated multiplication (specification-side helper, used by field_ok):
   least j in [1, 2^m] with a^j = 1, or 0 when there is none *)
Fixpoint order_fuel (m p a : N) (fuel : nat) (j cur : N) : N :=
  match fuel with
  | O => 0
  | S f => if cur =? 1 then j else order_fuel m p a f (N.succ j) (fmul m p cur a)
  end.
Definition order_of (m p a : N) : N := order_fuel m p a (N.to_nat (2 ^ m)) 1 a.
