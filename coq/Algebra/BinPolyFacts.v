(* Ring and Euclidean-division theory of the BinaryPolynomial model (all inputs, no bound). *)
From Coq Require Import NArith ZArith List Bool Lia.
From KV Require Import Algebra.BinPoly.
Import ListNotations.
Local Open Scope N_scope.

(* ---------- doubling and xor ---------- *)
Lemma double_lxor a b : N.double (N.lxor a b) = N.lxor (N.double a) (N.double b).
Proof. destruct a as [|p], b as [|q]; reflexivity. Qed.

Lemma succ_double_lxor a : N.succ_double a = N.lxor 1 (N.double a).
Proof. destruct a as [|p]; reflexivity. Qed.

Lemma double_0 : N.double 0 = 0. Proof. reflexivity. Qed.

(* ---------- mul_pos / clmul ---------- *)
Lemma mul_pos_0 p : mul_pos 0 p = 0.
Proof. induction p as [p IH|p IH|]; cbn [mul_pos]; rewrite ?double_0, ?IH; reflexivity. Qed.

Lemma mul_pos_lxor p : forall a b, mul_pos (N.lxor a b) p = N.lxor (mul_pos a p) (mul_pos b p).
Proof.
  induction p as [p IH|p IH|]; intros a b; cbn [mul_pos].
  - rewrite double_lxor, IH.
    rewrite !N.lxor_assoc. f_equal.
    rewrite <- !N.lxor_assoc. f_equal. apply N.lxor_comm.
  - rewrite double_lxor, IH. reflexivity.
  - reflexivity.
Qed.

Lemma mul_pos_double p : forall a, mul_pos (N.double a) p = N.double (mul_pos a p).
Proof.
  induction p as [p IH|p IH|]; intros a; cbn [mul_pos].
  - rewrite IH, double_lxor. reflexivity.
  - rewrite IH. reflexivity.
  - reflexivity.
Qed.

Lemma clmul_0_l b : clmul 0 b = 0.
Proof. destruct b; cbn; [reflexivity|apply mul_pos_0]. Qed.
Lemma clmul_0_r a : clmul a 0 = 0. Proof. reflexivity. Qed.
Lemma clmul_1_r a : clmul a 1 = a. Proof. reflexivity. Qed.

Lemma clmul_double_r a b : clmul a (N.double b) = N.double (clmul a b).
Proof. destruct b as [|p]; cbn; [reflexivity|apply mul_pos_double]. Qed.

Lemma clmul_succ_double_r a b : clmul a (N.succ_double b) = N.lxor a (N.double (clmul a b)).
Proof.
  destruct b as [|p]; cbn.
  - rewrite N.lxor_0_r. reflexivity.
  - rewrite mul_pos_double. reflexivity.
Qed.

Lemma clmul_lxor_l a b c : clmul (N.lxor a b) c = N.lxor (clmul a c) (clmul b c).
Proof. destruct c as [|p]; cbn; [reflexivity|apply mul_pos_lxor]. Qed.

Lemma clmul_double_l a b : clmul (N.double a) b = N.double (clmul a b).
Proof. destruct b as [|p]; cbn; [reflexivity|apply mul_pos_double]. Qed.

Lemma clmul_1_l a : clmul 1 a = a.
Proof.
  induction a as [|a IH|a IH] using N.binary_ind.
  - reflexivity.
  - rewrite clmul_double_r, IH. reflexivity.
  - rewrite clmul_succ_double_r, IH. symmetry. apply succ_double_lxor.
Qed.

Theorem clmul_comm a b : clmul a b = clmul b a.
Proof.
  revert a. induction b as [|b IH|b IH] using N.binary_ind; intro a.
  - rewrite clmul_0_l. reflexivity.
  - rewrite clmul_double_r, clmul_double_l, IH. reflexivity.
  - rewrite clmul_succ_double_r, (succ_double_lxor b), clmul_lxor_l, clmul_1_l, clmul_double_l, IH.
    reflexivity.
Qed.

Theorem clmul_lxor_r a b c : clmul a (N.lxor b c) = N.lxor (clmul a b) (clmul a c).
Proof. rewrite clmul_comm, clmul_lxor_l, (clmul_comm b), (clmul_comm c). reflexivity. Qed.

Theorem clmul_assoc a b c : clmul (clmul a b) c = clmul a (clmul b c).
Proof.
  induction c as [|c IH|c IH] using N.binary_ind.
  - reflexivity.
  - rewrite !clmul_double_r, IH. reflexivity.
  - rewrite !clmul_succ_double_r, clmul_lxor_r, clmul_double_r, IH. reflexivity.
Qed.

(* the Python shortcuts do not change the function *)
Lemma pmul_clmul a b : pmul a b = clmul a b.
Proof.
  unfold pmul. destruct (N.eqb_spec a 0) as [->|]; [rewrite clmul_0_l; reflexivity|].
  destruct (N.eqb_spec b 0) as [->|]; reflexivity.
Qed.

Theorem pmul_comm a b : pmul a b = pmul b a.
Proof. rewrite !pmul_clmul. apply clmul_comm. Qed.
Theorem pmul_assoc a b c : pmul (pmul a b) c = pmul a (pmul b c).
Proof. rewrite !pmul_clmul. apply clmul_assoc. Qed.
Theorem pmul_lxor_l a b c : pmul (N.lxor a b) c = N.lxor (pmul a c) (pmul b c).
Proof. rewrite !pmul_clmul. apply clmul_lxor_l. Qed.
Theorem pmul_lxor_r a b c : pmul a (N.lxor b c) = N.lxor (pmul a b) (pmul a c).
Proof. rewrite !pmul_clmul. apply clmul_lxor_r. Qed.
Theorem pmul_1_l a : pmul 1 a = a. Proof. rewrite pmul_clmul. apply clmul_1_l. Qed.
Theorem pmul_1_r a : pmul a 1 = a. Proof. rewrite pmul_clmul. apply clmul_1_r. Qed.

(* ---------- shifts ---------- *)
Lemma shiftl_succ_double a s : N.shiftl a (N.succ s) = N.double (N.shiftl a s).
Proof. rewrite N.shiftl_succ_r, N.double_spec. reflexivity. Qed.

Lemma clmul_shiftl_r a b s : clmul a (N.shiftl b s) = N.shiftl (clmul a b) s.
Proof.
  induction s as [|s IH] using N.peano_ind.
  - rewrite !N.shiftl_0_r. reflexivity.
  - rewrite !shiftl_succ_double, clmul_double_r, IH. reflexivity.
Qed.

Lemma clmul_pow2_l d s : clmul (N.shiftl 1 s) d = N.shiftl d s.
Proof. rewrite clmul_comm, clmul_shiftl_r, clmul_1_r. reflexivity. Qed.

(* ---------- sizes ---------- *)
Lemma size_log2 a : a <> 0 -> N.size a = N.succ (N.log2 a).
Proof. intro H. apply N.size_log2. exact H. Qed.

Lemma size_0_iff a : N.size a = 0 <-> a = 0.
Proof. destruct a; cbn; split; intro H; try reflexivity; try discriminate. Qed.

Lemma size_pos a : a <> 0 -> 0 < N.size a.
Proof. intro H. rewrite size_log2 by exact H. lia. Qed.

Lemma lt_pow2_of_high_bits_false z n : (forall i, n <= i -> N.testbit z i = false) -> z < 2 ^ n.
Proof.
  intro H. destruct (N.eq_dec z 0) as [->|Hz].
  - apply N.neq_0_lt_0. apply N.pow_nonzero. discriminate.
  - apply N.log2_lt_pow2; [lia|].
    destruct (N.lt_ge_cases (N.log2 z) n) as [Hlt|Hge]; [exact Hlt|].
    specialize (H _ Hge). rewrite N.bit_log2 in H by exact Hz. discriminate.
Qed.

Lemma size_le_iff z n : N.size z <= n <-> z < 2 ^ n.
Proof.
  destruct (N.eq_dec z 0) as [->|Hz].
  - cbn. split; intro; [apply N.neq_0_lt_0, N.pow_nonzero; discriminate|lia].
  - rewrite size_log2 by exact Hz. rewrite N.le_succ_l. symmetry. apply N.log2_lt_pow2. lia.
Qed.

Lemma testbit_above_size z i : N.size z <= i -> N.testbit z i = false.
Proof.
  intro H. destruct (N.eq_dec z 0) as [->|Hz]; [apply N.bits_0|].
  apply N.bits_above_log2. rewrite size_log2 in H by exact Hz. lia.
Qed.

Lemma size_lxor_le x y : N.size (N.lxor x y) <= N.max (N.size x) (N.size y).
Proof.
  apply size_le_iff. apply lt_pow2_of_high_bits_false. intros i Hi.
  rewrite N.lxor_spec, !testbit_above_size by lia. reflexivity.
Qed.

Lemma size_lxor_same x y : x <> 0 -> N.size x = N.size y -> N.size (N.lxor x y) < N.size x.
Proof.
  intros Hx Hs.
  assert (Hy : y <> 0) by (intro; subst y; apply Hx; apply size_0_iff; exact Hs).
  assert (Hl : N.log2 x = N.log2 y) by (rewrite !size_log2 in Hs by assumption; lia).
  rewrite (size_log2 x) by exact Hx. apply N.lt_succ_r.
  apply size_le_iff. apply lt_pow2_of_high_bits_false. intros i Hi.
  rewrite N.lxor_spec.
  destruct (N.eq_dec i (N.log2 x)) as [->|Hne].
  - rewrite N.bit_log2 by exact Hx. rewrite Hl, N.bit_log2 by exact Hy. reflexivity.
  - rewrite !N.bits_above_log2 by lia. reflexivity.
Qed.

Lemma size_lxor_lt x y : N.size x < N.size y -> N.size (N.lxor x y) = N.size y.
Proof.
  intro H.
  assert (Hy : y <> 0) by (intro; subst y; cbn in H; lia).
  apply N.le_antisymm.
  - etransitivity; [apply size_lxor_le|]. lia.
  - assert (Hb : N.testbit (N.lxor x y) (N.log2 y) = true).
    { rewrite N.lxor_spec, N.bit_log2 by exact Hy.
      rewrite testbit_above_size; [reflexivity|]. rewrite (size_log2 y) in H by exact Hy. lia. }
    assert (Hz : N.lxor x y <> 0) by (intro E; rewrite E, N.bits_0 in Hb; discriminate).
    rewrite (size_log2 y), (size_log2 _ Hz) by exact Hy. apply -> N.succ_le_mono.
    destruct (N.le_gt_cases (N.log2 y) (N.log2 (N.lxor x y))) as [Hle|Hgt]; [exact Hle|].
    rewrite N.bits_above_log2 in Hb by exact Hgt. discriminate.
Qed.

Lemma size_double a : a <> 0 -> N.size (N.double a) = N.succ (N.size a).
Proof. destruct a; [congruence|reflexivity]. Qed.

Lemma size_shiftl a s : a <> 0 -> N.size (N.shiftl a s) = N.size a + s.
Proof.
  intro Ha. induction s as [|s IH] using N.peano_ind.
  - rewrite N.shiftl_0_r. lia.
  - rewrite shiftl_succ_double, size_double, IH; [lia|].
    intro E. apply N.shiftl_eq_0_iff in E. contradiction.
Qed.

Lemma double_neq_0 a : a <> 0 -> N.double a <> 0.
Proof. destruct a; [congruence|discriminate]. Qed.

(* deg (a*b) = deg a + deg b, as sizes:  size(a*b) + 1 = size a + size b *)
Theorem size_clmul a b : a <> 0 -> b <> 0 -> N.size (clmul a b) + 1 = N.size a + N.size b.
Proof.
  intros Ha. induction b as [|b IH|b IH] using N.binary_ind; intro Hb.
  - congruence.
  - assert (Hb' : b <> 0) by (intro; subst b; apply Hb; reflexivity).
    rewrite clmul_double_r.
    assert (Hc : clmul a b <> 0).
    { intro E. specialize (IH Hb'). rewrite E in IH. cbn in IH. pose proof (size_pos a Ha). pose proof (size_pos b Hb'). lia. }
    rewrite size_double by exact Hc. rewrite (size_double b Hb'). specialize (IH Hb'). lia.
  - rewrite clmul_succ_double_r.
    destruct (N.eq_dec b 0) as [->|Hb'].
    + rewrite clmul_0_r, double_0, N.lxor_0_r. cbn. lia.
    + specialize (IH Hb').
      assert (Hc : clmul a b <> 0).
      { intro E. rewrite E in IH. cbn in IH. pose proof (size_pos a Ha). pose proof (size_pos b Hb'). lia. }
      assert (Hsd : N.size (N.succ_double b) = N.succ (N.size b)) by (destruct b; [congruence|reflexivity]).
      rewrite size_lxor_lt; rewrite size_double by exact Hc; [rewrite Hsd; lia|].
      pose proof (size_pos b Hb'). lia.
Qed.

Lemma clmul_neq_0 a b : a <> 0 -> b <> 0 -> clmul a b <> 0.
Proof.
  intros Ha Hb E. pose proof (size_clmul a b Ha Hb) as H. rewrite E in H. cbn in H.
  pose proof (size_pos a Ha). pose proof (size_pos b Hb). lia.
Qed.

Theorem degree_pmul a b : a <> 0 -> b <> 0 -> degree (pmul a b) = (degree a + degree b)%Z.
Proof.
  intros Ha Hb. rewrite pmul_clmul.
  pose proof (size_clmul a b Ha Hb) as H. pose proof (clmul_neq_0 a b Ha Hb) as Hc.
  rewrite !size_log2 in H by assumption.
  unfold degree. destruct a; [congruence|]. destruct b; [congruence|].
  destruct (clmul (N.pos p) (N.pos p0)) eqn:E; [congruence|]. lia.
Qed.

(* ---------- Euclidean division ---------- *)
(* invariant of the loop: a = q*d + r, and the low bits of q (up to the next shift) are clear *)
Lemma lor_pow2_disjoint q s : N.testbit q s = false -> N.lor q (N.shiftl 1 s) = N.lxor q (N.shiftl 1 s).
Proof.
  intro H. apply N.bits_inj; intro i. rewrite N.lor_spec, N.lxor_spec.
  destruct (N.eq_dec i s) as [->|Hne].
  - rewrite H. destruct (N.testbit (N.shiftl 1 s) s); reflexivity.
  - rewrite N.shiftl_1_l, N.pow2_bits_false by congruence. destruct (N.testbit q i); reflexivity.
Qed.

Lemma divmod_fuel_spec fuel : forall q r d a,
  d <> 0 ->
  (N.size r <= N.of_nat fuel) ->
  a = N.lxor (clmul q d) r ->
  (forall i, N.size d <= N.size r -> i <= N.size r - N.size d -> N.testbit q i = false) ->
  exists q' r', divmod_fuel fuel q r d = Some (q', r') /\ a = N.lxor (clmul q' d) r' /\ N.size r' < N.size d.
Proof.
  induction fuel as [|f IH]; intros q r d a Hd Hfuel Ha Hq.
  - assert (r = 0) by (apply size_0_iff; cbn in Hfuel; lia). subst r.
    cbn. pose proof (size_pos d Hd). destruct (N.ltb_spec 0 (N.size d)); [|lia].
    exists q, 0. repeat split; assumption.
  - cbn [divmod_fuel]. destruct (N.ltb_spec (N.size r) (N.size d)) as [Hlt|Hge].
    + exists q, r. repeat split; assumption.
    + set (s := N.size r - N.size d).
      assert (Hr : r <> 0) by (intro; subst r; cbn in Hge; pose proof (size_pos d Hd); lia).
      assert (Hsz : N.size (N.shiftl d s) = N.size r) by (rewrite size_shiftl by exact Hd; unfold s; lia).
      assert (Hdec : N.size (N.lxor r (N.shiftl d s)) < N.size r) by (apply size_lxor_same; [exact Hr|symmetry; exact Hsz]).
      apply IH.
      * exact Hd.
      * lia.
      * rewrite lor_pow2_disjoint by (apply Hq; [exact Hge|unfold s; lia]).
        rewrite clmul_lxor_l, clmul_pow2_l. rewrite Ha.
        rewrite !N.lxor_assoc. f_equal. rewrite <- N.lxor_assoc, (N.lxor_comm (N.shiftl d s)), N.lxor_assoc.
        rewrite N.lxor_nilpotent, N.lxor_0_r. reflexivity.
      * intros i Hge' Hi. rewrite N.lor_spec. rewrite Hq by (try exact Hge; unfold s in *; lia).
        rewrite N.shiftl_1_l, N.pow2_bits_false; [reflexivity|]. unfold s in *. lia.
Qed.

Theorem divmod_spec a d : d <> 0 ->
  exists q r, divmod a d = Some (q, r) /\ a = N.lxor (pmul q d) r /\ (degree r < degree d)%Z.
Proof.
  intro Hd. unfold divmod. destruct (N.eqb_spec d 0) as [|_]; [contradiction|].
  destruct (divmod_fuel_spec (N.to_nat (N.size a)) 0 a d a Hd) as (q & r & E & Ha & Hs).
  - rewrite N2Nat.id. lia.
  - rewrite clmul_0_l, N.lxor_0_l. reflexivity.
  - intros i _ _. apply N.bits_0.
  - exists q, r. rewrite pmul_clmul. repeat split; try assumption.
    unfold degree. destruct d as [|pd]; [congruence|].
    destruct r as [|pr]; [lia|].
    rewrite !size_log2 in Hs by discriminate. lia.
Qed.

(* uniqueness of quotient and remainder *)
Lemma lxor_cancel_eq a b c : N.lxor a c = N.lxor b c -> a = b.
Proof.
  intro H. rewrite <- (N.lxor_0_r a), <- (N.lxor_nilpotent c), <- N.lxor_assoc, H, N.lxor_assoc,
    N.lxor_nilpotent, N.lxor_0_r. reflexivity.
Qed.

Theorem divmod_unique d q1 r1 q2 r2 : d <> 0 ->
  N.lxor (clmul q1 d) r1 = N.lxor (clmul q2 d) r2 ->
  N.size r1 < N.size d -> N.size r2 < N.size d -> q1 = q2 /\ r1 = r2.
Proof.
  intros Hd E H1 H2.
  assert (E' : clmul (N.lxor q1 q2) d = N.lxor r1 r2).
  { rewrite clmul_lxor_l. apply lxor_cancel_eq with (c := N.lxor (clmul q2 d) r1).
    rewrite (N.lxor_comm (clmul q2 d) r1) at 2.
    rewrite <- (N.lxor_assoc (N.lxor r1 r2)), (N.lxor_assoc r1 r2 r1), (N.lxor_comm r2 r1), <- (N.lxor_assoc r1 r1 r2).
    rewrite N.lxor_nilpotent, N.lxor_0_l.
    rewrite N.lxor_assoc, <- (N.lxor_assoc (clmul q2 d)), N.lxor_nilpotent, N.lxor_0_l.
    rewrite (N.lxor_comm r2). exact E. }
  destruct (N.eq_dec (N.lxor q1 q2) 0) as [Hq|Hq].
  - apply N.lxor_eq in Hq. subst q2. split; [reflexivity|].
    rewrite N.lxor_nilpotent, clmul_0_l in E'. symmetry in E'. apply N.lxor_eq in E'. exact E'.
  - exfalso. pose proof (size_clmul _ _ Hq Hd) as Hs. rewrite E' in Hs.
    pose proof (size_lxor_le r1 r2). pose proof (size_pos _ Hq). lia.
Qed.

(* pmod / pdiv agree with divmod (the shortcuts are consistent) *)
Definition divides (d a : N) : Prop := exists q, a = clmul q d.

Lemma pmod_spec a d : d <> 0 ->
  exists q r, pmod a d = Some r /\ a = N.lxor (clmul q d) r /\ N.size r < N.size d.
Proof.
  intro Hd. unfold pmod, divmod. destruct (N.eqb_spec d 0) as [|_]; [contradiction|].
  destruct (divmod_fuel_spec (N.to_nat (N.size a)) 0 a d a Hd) as (q & r & E & Ha & Hs).
  - rewrite N2Nat.id. lia.
  - rewrite clmul_0_l, N.lxor_0_l. reflexivity.
  - intros i _ _. apply N.bits_0.
  - exists q, r. rewrite E. auto.
Qed.

Lemma pdiv_spec a d : d <> 0 ->
  exists q r, pdiv a d = Some q /\ a = N.lxor (clmul q d) r /\ N.size r < N.size d.
Proof.
  intro Hd. unfold pdiv. destruct (N.eqb_spec d 0) as [|_]; [contradiction|].
  destruct (N.eqb_spec a 0) as [->|Ha0].
  { exists 0, 0. rewrite clmul_0_l. repeat split. apply size_pos; exact Hd. }
  destruct (N.eqb_spec a d) as [->|Hne].
  { exists 1, 0. rewrite clmul_1_l, N.lxor_0_r. repeat split. apply size_pos; exact Hd. }
  unfold divmod. destruct (N.eqb_spec d 0) as [|_]; [contradiction|].
  destruct (divmod_fuel_spec (N.to_nat (N.size a)) 0 a d a Hd) as (q & r & E & Ha & Hs).
  - rewrite N2Nat.id. lia.
  - rewrite clmul_0_l, N.lxor_0_l. reflexivity.
  - intros i _ _. apply N.bits_0.
  - exists q, r. rewrite E. auto.
Qed.

Lemma pmod_pdiv_agree a d : d <> 0 ->
  exists q r, pmod a d = Some r /\ pdiv a d = Some q /\ a = N.lxor (clmul q d) r /\ N.size r < N.size d.
Proof.
  intro Hd. destruct (pmod_spec a d Hd) as (q1 & r1 & E1 & H1 & S1).
  destruct (pdiv_spec a d Hd) as (q2 & r2 & E2 & H2 & S2).
  destruct (divmod_unique d q1 r1 q2 r2 Hd) as [-> ->]; [congruence|assumption|assumption|].
  exists q2, r2. auto.
Qed.

(* ---------- gcd ---------- *)
Lemma divides_lxor d a b : divides d a -> divides d b -> divides d (N.lxor a b).
Proof. intros [x ->] [y ->]. exists (N.lxor x y). rewrite clmul_lxor_l. reflexivity. Qed.
Lemma divides_mul d a c : divides d a -> divides d (clmul c a).
Proof. intros [x ->]. exists (clmul c x). rewrite clmul_assoc. reflexivity. Qed.
Lemma divides_refl d : divides d d. Proof. exists 1. rewrite clmul_1_l. reflexivity. Qed.
Lemma divides_0 d : divides d 0. Proof. exists 0. rewrite clmul_0_l. reflexivity. Qed.

Definition bezout (a b g : N) : Prop := exists u v, g = N.lxor (clmul u a) (clmul v b).

Lemma gcd_fuel_spec fuel : forall a b, N.size b < N.of_nat fuel \/ b = 0 ->
  exists g, gcd_fuel fuel a b = Some g /\ divides g a /\ divides g b /\ bezout a b g
            /\ (forall c, divides c a -> divides c b -> divides c g).
Proof.
  induction fuel as [|f IH]; intros a b Hf.
  - assert (b = 0) by (destruct Hf as [Hf|Hf]; [cbn in Hf; lia|exact Hf]). subst b. cbn.
    exists a. repeat split; [apply divides_refl|apply divides_0| |intros; assumption].
    exists 1, 0. rewrite clmul_1_l, clmul_0_l, N.lxor_0_r. reflexivity.
  - cbn [gcd_fuel]. destruct (N.eqb_spec b 0) as [->|Hb].
    + exists a. repeat split; [apply divides_refl|apply divides_0| |intros; assumption].
      exists 1, 0. rewrite clmul_1_l, clmul_0_l, N.lxor_0_r. reflexivity.
    + destruct (pmod_spec a b Hb) as (q & r & E & Ha & Hs). rewrite E.
      destruct (IH b r) as (g & Eg & Hgb & Hgr & [u [v Hbz]] & Hgreat).
      { left. destruct Hf as [Hf|Hf]; [|contradiction]. lia. }
      exists g. split; [exact Eg|]. repeat split.
      * rewrite Ha. apply divides_lxor; [apply divides_mul; exact Hgb|exact Hgr].
      * exact Hgb.
      * (* g = u b + v r, r = a + q b  =>  g = v a + (u + v q) b *)
        assert (Hr : r = N.lxor a (clmul q b)).
        { rewrite Ha. rewrite (N.lxor_comm (clmul q b) r), N.lxor_assoc, N.lxor_nilpotent, N.lxor_0_r. reflexivity. }
        exists v, (N.lxor u (clmul v q)). rewrite Hbz, Hr, clmul_lxor_r, clmul_lxor_l, clmul_assoc.
        rewrite (N.lxor_comm (clmul u b)), !N.lxor_assoc. f_equal. apply N.lxor_comm.
      * intros c Hca Hcb. apply Hgreat; [exact Hcb|].
        assert (Hr : r = N.lxor a (clmul q b)).
        { rewrite Ha. rewrite (N.lxor_comm (clmul q b) r), N.lxor_assoc, N.lxor_nilpotent, N.lxor_0_r. reflexivity. }
        rewrite Hr. apply divides_lxor; [exact Hca|apply divides_mul; exact Hcb].
Qed.

Theorem pgcd_spec a b :
  exists g, pgcd a b = Some g /\ divides g a /\ divides g b /\ bezout a b g
            /\ (forall c, divides c a -> divides c b -> divides c g).
Proof.
  unfold pgcd.
  destruct (N.eqb_spec a 0) as [->|Ha].
  { exists b. repeat split; [apply divides_0|apply divides_refl| |intros; assumption].
    exists 0, 1. rewrite clmul_1_l, clmul_0_l, N.lxor_0_l. reflexivity. }
  destruct (N.eqb_spec b 0) as [->|Hb].
  { exists a. repeat split; [apply divides_refl|apply divides_0| |intros; assumption].
    exists 1, 0. rewrite clmul_1_l, clmul_0_l, N.lxor_0_r. reflexivity. }
  destruct (N.eqb_spec a b) as [->|Hne].
  { exists b. repeat split; [apply divides_refl|apply divides_refl| |intros; assumption].
    exists 0, 1. rewrite clmul_1_l, clmul_0_l, N.lxor_0_l. reflexivity. }
  apply gcd_fuel_spec. left. rewrite Nat2N.inj_succ, N2Nat.id. lia.
Qed.

(* ---------- lcm ---------- *)
Lemma clmul_cancel_r a b c : c <> 0 -> clmul a c = clmul b c -> a = b.
Proof.
  intros Hc E. apply N.lxor_eq.
  destruct (N.eq_dec (N.lxor a b) 0) as [H|H]; [exact H|exfalso].
  apply (clmul_neq_0 _ _ H Hc). rewrite clmul_lxor_l, E. apply N.lxor_nilpotent.
Qed.

Lemma pdiv_exact q g : g <> 0 -> pdiv (clmul q g) g = Some q.
Proof.
  intro Hg. destruct (pdiv_spec (clmul q g) g Hg) as (q' & r & E & Ha & Hs). rewrite E. f_equal.
  destruct (divmod_unique g q' r q 0 Hg) as [H _].
  - rewrite N.lxor_0_r. symmetry. exact Ha.
  - exact Hs.
  - apply size_pos; exact Hg.
  - exact H.
Qed.

Theorem plcm_spec a b : a <> 0 -> b <> 0 ->
  exists l g, plcm a b = Some l /\ pgcd a b = Some g /\ pmul l g = pmul a b
              /\ divides a l /\ divides b l.
Proof.
  intros Ha Hb. unfold plcm.
  destruct (N.eqb_spec a 0) as [|_]; [contradiction|]. destruct (N.eqb_spec b 0) as [|_]; [contradiction|].
  cbn [orb].
  destruct (N.eqb_spec a b) as [->|Hne].
  { exists b, b. unfold pgcd. destruct (N.eqb_spec b 0) as [|_]; [contradiction|]. rewrite N.eqb_refl.
    repeat split; apply divides_refl. }
  destruct (pgcd_spec a b) as (g & Eg & [x Hx] & [y Hy] & _ & _). rewrite Eg.
  assert (Hg : g <> 0) by (intro; subst g; rewrite clmul_0_r in Hx; contradiction).
  destruct (N.eqb_spec g 0) as [|_]; [contradiction|].
  (* a*b = (x*y*g)*g *)
  assert (Hab : pmul a b = clmul (clmul x b) g).
  { rewrite pmul_clmul. rewrite Hx at 1. rewrite (clmul_assoc x g b), (clmul_comm g b), <- clmul_assoc. reflexivity. }
  exists (clmul x b), g. rewrite Hab, pdiv_exact by exact Hg. rewrite pmul_clmul.
  repeat split.
  - rewrite Hy at 1. rewrite <- clmul_assoc, (clmul_comm x y), clmul_assoc, <- Hx. exists y. reflexivity.
  - exists x. reflexivity.
Qed.
