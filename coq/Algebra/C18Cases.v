(* Helpers used by the generated correspondence case files of C18 (no proofs). *)
From Coq Require Import NArith ZArith List Bool.
From KV Require Import Gen.PrimPolys Algebra.BinPoly Algebra.GF2m Algebra.Field.
Import ListNotations.
Local Open Scope N_scope.

Definition dig (acc v : N) : N := (acc * 1000003 + v + 1) mod 2305843009213693951.
Definition digest (l : list N) : N := fold_left dig l 7.
Definition oN (o : option N) : N := match o with None => 0 | Some v => N.succ v end.
Definition zN (z : Z) : N := Z.to_N (z + 1).
Fixpoint bitsN (l : list bool) : N :=
  match l with [] => 0 | b :: t => (if b then 1 else 0) + 2 * bitsN t end.

(* every binary operator of BinaryPolynomial on one pair *)
Definition poly_ops (a b : N) : list N :=
  [pmul a b; oN (pmod a b); oN (pdiv a b); oN (pgcd a b); oN (plcm a b)].
(* unary operators *)
Definition poly_unary (a : N) : list N :=
  [zN (degree a); derivative a; bitsN (coeff_list a); N.of_nat (length (coeff_list a));
   eval_int a 0; eval_int a 1; eval_int a 2; eval_int a 3; eval_int a 5].

Definition poly_row (nb : nat) (a : N) : N :=
  digest (poly_unary a ++ flat_map (fun b => poly_ops a (N.of_nat b)) (seq 0 nb)).
Definition poly_grid (na nb : nat) : list N := map (fun a => poly_row nb (N.of_nat a)) (seq 0 na).

(* field operators; the field is selected by m through the regenerated table *)
Definition pm (m : N) : N := match modulus_of m with Some p => p | None => 0 end.
Definition f_binary (m a b : N) : list N := [fadd m a b; fmul m (pm m) a b].
Definition f_unary (m a : N) : list N :=
  [oN (finv m (pm m) a); ftrace m (pm m) a; digest (conjugates m (pm m) a)].
Definition f_minpoly (m a : N) : N := oN (minpoly m (pm m) a).
Definition f_pow (m a e : N) : N := fpow m (pm m) a e.
Definition f_eval (m poly x : N) : N := feval m (pm m) poly x.

Definition f_row (m a : N) : N :=
  digest (f_unary m a ++ flat_map (fun b => f_binary m a (N.of_nat b)) (seq 0 (N.to_nat (2 ^ m)))).
Definition f_grid (m : N) : list N := map (fun a => f_row m (N.of_nat a)) (seq 0 (N.to_nat (2 ^ m))).
Definition f_pow_grid (m emax : N) : list N :=
  map (fun a => digest (map (fun e => f_pow m (N.of_nat a) (N.of_nat e)) (seq 0 (N.to_nat emax))))
      (seq 0 (N.to_nat (2 ^ m))).
Definition f_minpoly_all (m : N) : list N := map (fun a => f_minpoly m (N.of_nat a)) (seq 0 (N.to_nat (2 ^ m))).
Definition f_info (m : N) : list N := [pm m; prim m; order_of m (pm m) (prim m)].
