(* Theory of the GF(2^m) model: for any m and any modulus p of degree m the elements below 2^m form a
   commutative ring under (xor, fmul); if moreover a designated element g has order 2^m - 1 (the
   computed test [order_of m p g = 2^m - 1]) every non-zero element is a power of g, has an inverse
   given by Fermat's formula, and there are no zero divisors. *)
From Coq Require Import NArith ZArith List Bool Lia.
From KV Require Import Algebra.BinPoly Algebra.BinPolyFacts Algebra.GF2m.
Import ListNotations.
Local Open Scope N_scope.

Section Field.
Variables m p : N.
Hypothesis Hdeg : N.size p = m + 1.

Let Hp : p <> 0.
Proof. intro E. rewrite E in Hdeg. cbn in Hdeg. lia. Qed.

Definition red (x : N) : N := pmod_or0 x p.
Definition elt (a : N) : Prop := a < 2 ^ m.

Lemma elt_size a : elt a <-> N.size a < N.size p.
Proof. unfold elt. rewrite Hdeg. rewrite <- size_le_iff. lia. Qed.

Lemma red_spec x : exists q, x = N.lxor (clmul q p) (red x) /\ elt (red x).
Proof.
  destruct (pmod_spec x p Hp) as (q & r & E & Hx & Hs). unfold red, pmod_or0. rewrite E.
  exists q. split; [exact Hx|apply elt_size; exact Hs].
Qed.

Lemma red_unique x q r : x = N.lxor (clmul q p) r -> elt r -> red x = r.
Proof.
  intros Hx Hr. destruct (red_spec x) as (q' & Hx' & Hr').
  destruct (divmod_unique p q' (red x) q r Hp) as [_ H].
  - rewrite <- Hx'. exact Hx.
  - apply elt_size; exact Hr'.
  - apply elt_size; exact Hr.
  - exact H.
Qed.

Lemma red_elt x : elt (red x).
Proof. destruct (red_spec x) as (q & _ & H). exact H. Qed.

Lemma red_small x : elt x -> red x = x.
Proof. intro H. apply red_unique with (q := 0); [rewrite clmul_0_l, N.lxor_0_l; reflexivity|exact H]. Qed.

Lemma elt_lxor a b : elt a -> elt b -> elt (N.lxor a b).
Proof.
  intros Ha Hb. apply elt_size. apply elt_size in Ha. apply elt_size in Hb.
  pose proof (size_lxor_le a b). lia.
Qed.

Lemma red_lxor x y : red (N.lxor x y) = N.lxor (red x) (red y).
Proof.
  destruct (red_spec x) as (q1 & Hx & Hrx). destruct (red_spec y) as (q2 & Hy & Hry).
  apply red_unique with (q := N.lxor q1 q2); [|apply elt_lxor; assumption].
  rewrite clmul_lxor_l. rewrite Hx at 1. rewrite Hy at 1.
  rewrite !N.lxor_assoc. f_equal. rewrite <- !N.lxor_assoc. f_equal. apply N.lxor_comm.
Qed.

Lemma red_add_multiple x q : red (N.lxor x (clmul q p)) = red x.
Proof.
  destruct (red_spec x) as (q1 & Hx & Hrx).
  apply red_unique with (q := N.lxor q1 q); [|exact Hrx].
  rewrite clmul_lxor_l. rewrite Hx at 1.
  rewrite !N.lxor_assoc. f_equal. apply N.lxor_comm.
Qed.

Lemma red_mul_l x y : red (clmul (red x) y) = red (clmul x y).
Proof.
  destruct (red_spec x) as (q & Hx & _).
  rewrite Hx at 2. rewrite clmul_lxor_l, N.lxor_comm.
  rewrite (clmul_comm (clmul q p) y), <- clmul_assoc. symmetry. apply red_add_multiple.
Qed.

Lemma red_mul_r x y : red (clmul x (red y)) = red (clmul x y).
Proof. rewrite clmul_comm, red_mul_l, clmul_comm. reflexivity. Qed.

Lemma felt_small a : elt a -> felt m a = a.
Proof. intro H. unfold felt. apply N.mod_small. exact H. Qed.

Lemma elt_0 : elt 0.
Proof. unfold elt. apply N.neq_0_lt_0. apply N.pow_nonzero. discriminate. Qed.

Lemma elt_1 : m <> 0 -> elt 1.
Proof. intro H. unfold elt. apply N.pow_gt_1; lia. Qed.

(* the shortcuts of __mul__ do not change the function *)
Lemma fmul_red a b : elt a -> elt b -> fmul m p a b = red (clmul a b).
Proof.
  intros Ha Hb. unfold fmul.
  destruct (N.eqb_spec a 0) as [->|Ha0]; cbn [orb].
  { rewrite clmul_0_l, red_small by exact elt_0. apply felt_small, elt_0. }
  destruct (N.eqb_spec b 0) as [->|Hb0].
  { rewrite clmul_0_r, red_small by exact elt_0. apply felt_small, elt_0. }
  destruct (N.eqb_spec a 1) as [->|Ha1].
  { rewrite clmul_1_l, red_small by exact Hb. reflexivity. }
  destruct (N.eqb_spec b 1) as [->|Hb1].
  { rewrite clmul_1_r, red_small by exact Ha. reflexivity. }
  rewrite pmul_clmul. fold (red (clmul a b)). apply felt_small, red_elt.
Qed.

Theorem fmul_elt a b : elt a -> elt b -> elt (fmul m p a b).
Proof. intros Ha Hb. rewrite fmul_red by assumption. apply red_elt. Qed.

Theorem fmul_comm a b : elt a -> elt b -> fmul m p a b = fmul m p b a.
Proof. intros Ha Hb. rewrite !fmul_red by assumption. rewrite clmul_comm. reflexivity. Qed.

Theorem fmul_assoc a b c : elt a -> elt b -> elt c ->
  fmul m p (fmul m p a b) c = fmul m p a (fmul m p b c).
Proof.
  intros Ha Hb Hc.
  rewrite (fmul_red (fmul m p a b) c) by (try apply fmul_elt; assumption).
  rewrite (fmul_red a (fmul m p b c)) by (try apply fmul_elt; assumption).
  rewrite !fmul_red by assumption.
  rewrite red_mul_l, red_mul_r, clmul_assoc. reflexivity.
Qed.

Theorem fmul_lxor_r a b c : elt a -> elt b -> elt c ->
  fmul m p a (N.lxor b c) = N.lxor (fmul m p a b) (fmul m p a c).
Proof.
  intros Ha Hb Hc. rewrite !fmul_red by (try apply elt_lxor; assumption).
  rewrite clmul_lxor_r, red_lxor. reflexivity.
Qed.

Theorem fmul_lxor_l a b c : elt a -> elt b -> elt c ->
  fmul m p (N.lxor a b) c = N.lxor (fmul m p a c) (fmul m p b c).
Proof.
  intros Ha Hb Hc. rewrite !fmul_red by (try apply elt_lxor; assumption).
  rewrite clmul_lxor_l, red_lxor. reflexivity.
Qed.

Theorem fmul_1_l a : fmul m p 1 a = a \/ a = 0.
Proof.
  unfold fmul. destruct (N.eqb_spec a 0) as [->|]; [right; reflexivity|left]. cbn. reflexivity.
Qed.

Theorem fmul_1_r a : elt a -> fmul m p a 1 = a.
Proof.
  intro Ha. unfold fmul. destruct (N.eqb_spec a 0) as [->|Ha0]; cbn [orb N.eqb].
  - apply felt_small, elt_0.
  - cbn. destruct (N.eqb_spec a 1) as [->|]; reflexivity.
Qed.

Theorem fmul_0_l a : fmul m p 0 a = 0.
Proof. unfold fmul. change (0 =? 0) with true. cbn [orb]. apply felt_small, elt_0. Qed.

Theorem fmul_0_r a : fmul m p a 0 = 0.
Proof. unfold fmul. rewrite orb_true_r. apply felt_small, elt_0. Qed.

Theorem fadd_lxor a b : elt a -> elt b -> fadd m a b = N.lxor a b.
Proof. intros Ha Hb. apply felt_small, elt_lxor; assumption. Qed.

(* Frobenius: squaring is additive *)
Theorem frobenius a b : elt a -> elt b ->
  fmul m p (N.lxor a b) (N.lxor a b) = N.lxor (fmul m p a a) (fmul m p b b).
Proof.
  intros Ha Hb.
  rewrite fmul_lxor_l, !fmul_lxor_r by (try apply elt_lxor; assumption).
  rewrite (fmul_comm b a) by assumption.
  rewrite N.lxor_assoc, <- (N.lxor_assoc (fmul m p a b)), N.lxor_nilpotent, N.lxor_0_l. reflexivity.
Qed.

(* ---------- powers ---------- *)
Fixpoint pow_nat (a : N) (n : nat) : N :=
  match n with O => 1 | S k => fmul m p (pow_nat a k) a end.

Hypothesis Hm : m <> 0.

Lemma pow_nat_elt a n : elt a -> elt (pow_nat a n).
Proof. intro Ha. induction n as [|n IH]; cbn; [apply elt_1; exact Hm|apply fmul_elt; assumption]. Qed.

Lemma pow_nat_add a i j : elt a -> pow_nat a (i + j) = fmul m p (pow_nat a i) (pow_nat a j).
Proof.
  intro Ha. induction j as [|j IH].
  - rewrite Nat.add_0_r. cbn. rewrite fmul_1_r by (apply pow_nat_elt; exact Ha). reflexivity.
  - rewrite Nat.add_succ_r. cbn. rewrite IH.
    apply fmul_assoc; try apply pow_nat_elt; assumption.
Qed.

Lemma pow_nat_mul a i j : elt a -> pow_nat a (i * j) = pow_nat (pow_nat a i) j.
Proof.
  intro Ha. induction j as [|j IH].
  - rewrite Nat.mul_0_r. reflexivity.
  - rewrite Nat.mul_succ_r, pow_nat_add by exact Ha. cbn. rewrite IH. reflexivity.
Qed.

Lemma pow_nat_1 n : pow_nat 1 n = 1.
Proof. induction n as [|n IH]; cbn; [reflexivity|]. rewrite IH. reflexivity. Qed.

Lemma pow_nat_0 n : pow_nat 0 (S n) = 0.
Proof. cbn. apply fmul_0_r. Qed.

Lemma pow_nat_one b : pow_nat b 1 = b.
Proof.
  change (pow_nat b 1) with (fmul m p 1 b).
  destruct (fmul_1_l b) as [E|E]; [exact E|subst b; apply fmul_0_r].
Qed.

Lemma pow_nat_two b : pow_nat b 2 = fmul m p b b.
Proof. change (pow_nat b 2) with (fmul m p (pow_nat b 1) b). rewrite pow_nat_one. reflexivity. Qed.

(* __pow__ (square and multiply, with shortcuts) computes the iterated product *)
Lemma fpow_pos_spec e : forall r b, elt r -> elt b ->
  fpow_pos m p r b e = fmul m p r (pow_nat b (Pos.to_nat e)).
Proof.
  induction e as [e IH|e IH|]; intros r b Hr Hb; cbn [fpow_pos].
  - rewrite IH by (apply fmul_elt; assumption).
    rewrite Pos2Nat.inj_xI.
    replace (S (2 * Pos.to_nat e))%nat with (1 + 2 * Pos.to_nat e)%nat by lia.
    rewrite pow_nat_add, pow_nat_mul by exact Hb.
    rewrite pow_nat_two, pow_nat_one.
    apply fmul_assoc; try assumption. apply pow_nat_elt, fmul_elt; assumption.
  - rewrite IH by (try apply fmul_elt; assumption).
    rewrite Pos2Nat.inj_xO. rewrite pow_nat_mul by exact Hb.
    rewrite pow_nat_two. reflexivity.
  - change (Pos.to_nat 1) with 1%nat. rewrite pow_nat_one. reflexivity.
Qed.

Theorem fpow_spec a e : elt a -> fpow m p a e = pow_nat a (N.to_nat e).
Proof.
  intro Ha. unfold fpow. destruct e as [|pe].
  - cbn. apply felt_small, elt_1; exact Hm.
  - destruct (N.eqb_spec (N.pos pe) 1) as [E|Hne].
    { injection E as ->. change (N.to_nat 1) with 1%nat. rewrite pow_nat_one. reflexivity. }
    destruct (N.eqb_spec a 0) as [->|Ha0].
    { cbn [N.to_nat]. destruct (Pos2Nat.is_succ pe) as [k ->]. symmetry. apply pow_nat_0. }
    destruct (N.eqb_spec a 1) as [->|Ha1].
    { symmetry. apply pow_nat_1. }
    rewrite fpow_pos_spec by (try rewrite felt_small; try apply elt_1; assumption).
    rewrite (felt_small 1) by (apply elt_1; exact Hm). cbn [N.to_nat].
    destruct (fmul_1_l (pow_nat a (Pos.to_nat pe))) as [E|E]; [exact E|rewrite E; apply fmul_0_r].
Qed.

(* ---------- the computed order test ---------- *)
Lemma order_fuel_spec a (Ha : elt a) fuel : forall j cur r,
  (1 <= j)%nat -> cur = pow_nat a j ->
  order_fuel m p a fuel (N.of_nat j) cur = r -> r <> 0 ->
  exists k, r = N.of_nat k /\ (j <= k)%nat /\ pow_nat a k = 1 /\
            forall i, (j <= i < k)%nat -> pow_nat a i <> 1.
Proof.
  induction fuel as [|f IH]; intros j cur r Hj Hcur E Hr; cbn [order_fuel] in E.
  - congruence.
  - destruct (N.eqb_spec cur 1) as [E1|E1].
    + exists j. subst r. repeat split; [lia|congruence|intros i Hi; lia].
    + rewrite <- Nat2N.inj_succ in E.
      destruct (IH (S j) (fmul m p cur a) r) as (k & Hk & Hle & Hone & Hmin); try assumption; [lia|subst cur; reflexivity|].
      exists k. repeat split; try assumption; [lia|].
      intros i Hi. destruct (Nat.eq_dec i j) as [->|Hne]; [congruence|apply Hmin; lia].
Qed.

Variable g : N.
Hypothesis Hg : elt g.
Hypothesis Hord : order_of m p g = 2 ^ m - 1.

Definition ord : nat := N.to_nat (2 ^ m - 1).

Lemma pow2m_ge_2 : 2 <= 2 ^ m.
Proof. change 2 with (2 ^ 1) at 1. apply N.pow_le_mono_r; lia. Qed.

Lemma ord_pos : (1 <= ord)%nat.
Proof. unfold ord. pose proof pow2m_ge_2. lia. Qed.

Theorem g_order : pow_nat g ord = 1 /\ forall j, (0 < j < ord)%nat -> pow_nat g j <> 1.
Proof.
  unfold order_of in Hord.
  destruct (order_fuel_spec g Hg (N.to_nat (2 ^ m)) 1 g (2 ^ m - 1)) as (k & Hk & Hle & Hone & Hmin).
  - lia.
  - symmetry. apply pow_nat_one.
  - exact Hord.
  - pose proof pow2m_ge_2. lia.
  - assert (k = ord) by (unfold ord; rewrite Hk, Nat2N.id; reflexivity). subst k.
    split; [exact Hone|]. intros j Hj. apply Hmin. lia.
Qed.

Lemma one_neq_zero_pow i : (i <= ord)%nat -> fmul m p (pow_nat g i) (pow_nat g (ord - i)) = 1.
Proof.
  intro Hi. rewrite <- pow_nat_add by exact Hg. replace (i + (ord - i))%nat with ord by lia. apply g_order.
Qed.

Lemma cancel_r a b x y : elt a -> elt b -> elt x -> elt y -> fmul m p x y = 1 ->
  fmul m p a x = fmul m p b x -> a = b.
Proof.
  intros Ha Hb Hx Hy Hxy E.
  rewrite <- (fmul_1_r a Ha), <- (fmul_1_r b Hb), <- Hxy.
  rewrite <- !fmul_assoc by assumption. rewrite E. reflexivity.
Qed.

Lemma pow_g_inj i j : (i < j < ord)%nat -> pow_nat g i <> pow_nat g j.
Proof.
  intros Hij E.
  apply (proj2 g_order (j - i)%nat); [lia|].
  assert (Hj : pow_nat g j = fmul m p (pow_nat g (j - i)) (pow_nat g i)).
  { rewrite <- pow_nat_add by exact Hg. f_equal. lia. }
  apply (cancel_r _ _ (pow_nat g i) (pow_nat g (ord - i))); try apply pow_nat_elt; try exact Hg.
  - apply elt_1; exact Hm.
  - apply one_neq_zero_pow. lia.
  - rewrite <- Hj, <- E. destruct (fmul_1_l (pow_nat g i)) as [H|H]; [symmetry; exact H|].
    rewrite H. rewrite fmul_0_r. reflexivity.
Qed.

Lemma pow_g_nonzero i : (i <= ord)%nat -> pow_nat g i <> 0.
Proof.
  intros Hi E. pose proof (one_neq_zero_pow i Hi) as H. rewrite E, fmul_0_l in H. discriminate.
Qed.

Lemma NoDup_map_on {A B} (f : A -> B) (l : list A) :
  (forall x y, In x l -> In y l -> f x = f y -> x = y) -> NoDup l -> NoDup (map f l).
Proof.
  intros Hinj Hnd. induction Hnd as [|x l Hx Hnd IH]; cbn; constructor.
  - intro Hin. apply in_map_iff in Hin. destruct Hin as (y & Hy & Hyin).
    assert (y = x) by (apply Hinj; [right; exact Hyin|left; reflexivity|exact Hy]). subst y. contradiction.
  - apply IH. intros a b Ha Hb. apply Hinj; right; assumption.
Qed.

Theorem powers_exhaust a : elt a -> a <> 0 -> exists j, (j < ord)%nat /\ a = pow_nat g j.
Proof.
  intros Ha Ha0.
  set (L := map (pow_nat g) (seq 0 ord)).
  set (T := map N.of_nat (seq 1 ord)).
  assert (HndL : NoDup L).
  { apply NoDup_map_on; [|apply seq_NoDup].
    intros x y Hx Hy E. apply in_seq in Hx. apply in_seq in Hy.
    destruct (Nat.lt_trichotomy x y) as [H|[H|H]]; [|exact H|].
    - exfalso. apply (pow_g_inj x y); [lia|exact E].
    - exfalso. apply (pow_g_inj y x); [lia|symmetry; exact E]. }
  assert (Hincl : incl L T).
  { intros v Hv. apply in_map_iff in Hv. destruct Hv as (i & <- & Hi). apply in_seq in Hi.
    apply in_map_iff. exists (N.to_nat (pow_nat g i)). split; [apply N2Nat.id|].
    apply in_seq. pose proof (pow_nat_elt g i Hg) as He. unfold elt in He.
    pose proof (pow_g_nonzero i ltac:(lia)). unfold ord. lia. }
  assert (Hlen : (length T <= length L)%nat) by (unfold T, L; rewrite !map_length, !seq_length; lia).
  pose proof (NoDup_length_incl HndL Hlen Hincl) as Hback.
  assert (HaT : In a T).
  { apply in_map_iff. exists (N.to_nat a). split; [apply N2Nat.id|]. apply in_seq. unfold elt in Ha. unfold ord. lia. }
  apply Hback in HaT. apply in_map_iff in HaT. destruct HaT as (j & Hj & Hjin). apply in_seq in Hjin.
  exists j. split; [lia|symmetry; exact Hj].
Qed.

Theorem fermat a : elt a -> a <> 0 -> pow_nat a ord = 1.
Proof.
  intros Ha Ha0. destruct (powers_exhaust a Ha Ha0) as (j & Hj & ->).
  rewrite <- pow_nat_mul by exact Hg. rewrite Nat.mul_comm, pow_nat_mul by exact Hg.
  rewrite (proj1 g_order). apply pow_nat_1.
Qed.

Theorem finv_spec a : elt a -> a <> 0 -> exists b, finv m p a = Some b /\ elt b /\ fmul m p a b = 1.
Proof.
  intros Ha Ha0. unfold finv. destruct (N.eqb_spec a 0) as [|_]; [contradiction|].
  destruct (N.eqb_spec a 1) as [->|Ha1].
  - exists 1. split; [reflexivity|]. split; [apply elt_1; exact Hm|reflexivity].
  - exists (fpow m p a (2 ^ m - 2)). rewrite fpow_spec by exact Ha. split; [reflexivity|]. split.
    + apply pow_nat_elt; exact Ha.
    + replace (N.to_nat (2 ^ m - 2)) with (ord - 1)%nat by (unfold ord; lia).
      pose proof ord_pos.
      rewrite fmul_comm by (try apply pow_nat_elt; exact Ha).
      change (fmul m p (pow_nat a (ord - 1)) a) with (pow_nat a (S (ord - 1))).
      replace (S (ord - 1)) with ord by lia. apply fermat; assumption.
Qed.

Theorem integral a b : elt a -> elt b -> fmul m p a b = 0 -> a = 0 \/ b = 0.
Proof.
  intros Ha Hb E. destruct (N.eq_dec a 0) as [H|H]; [left; exact H|right].
  destruct (finv_spec a Ha H) as (c & _ & Hc & Hac).
  rewrite <- (fmul_1_r b Hb), <- Hac.
  rewrite <- fmul_assoc, (fmul_comm b a), E by assumption. apply fmul_0_l.
Qed.

End Field.
