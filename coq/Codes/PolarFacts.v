From Coq Require Import List Bool Arith Lia.
From KV Require Import Base.Layout Base.LayoutFacts Codes.Polar.
Import ListNotations.

(* ---------- xorl ---------- *)
Lemma xorl_length a : forall b, length (xorl a b) = Nat.min (length a) (length b).
Proof. induction a as [|x a IH]; intros [|y b]; simpl; auto. Qed.
Lemma xorl_app a : forall b c d, length a = length b -> xorl (a ++ c) (b ++ d) = xorl a b ++ xorl c d.
Proof. induction a as [|x a IH]; intros [|y b] c d H; simpl in *; try discriminate; [reflexivity|]. f_equal. apply IH. lia. Qed.
Lemma xorl_false_r a : xorl a (repeat false (length a)) = a.
Proof. induction a as [|x a IH]; simpl; [reflexivity|]. rewrite IH, xorb_false_r. reflexivity. Qed.
Lemma xorl_false_l a : xorl (repeat false (length a)) a = a.
Proof. induction a as [|x a IH]; simpl; [reflexivity|]. rewrite IH. now destruct x. Qed.
Lemma xorl_nilpotent a : xorl a a = repeat false (length a).
Proof. induction a as [|x a IH]; simpl; [reflexivity|]. rewrite IH, xorb_nilpotent. reflexivity. Qed.
Lemma xorl_comm a : forall b, xorl a b = xorl b a.
Proof. induction a as [|x a IH]; intros [|y b]; simpl; auto. rewrite IH, xorb_comm. reflexivity. Qed.
Lemma xorl_assoc a : forall b c, xorl (xorl a b) c = xorl a (xorl b c).
Proof. induction a as [|x a IH]; intros [|y b] [|z c]; simpl; auto. rewrite IH, xorb_assoc. reflexivity. Qed.

(* ---------- chunks ---------- *)
Lemma chunks_lengths {A} bs (l : list A) : 0 < bs -> Nat.modulo (length l) bs = 0 -> Forall (fun b => length b = bs) (chunks bs l).
Proof. intros. apply chunks_fuel_lengths; auto. Qed.

Lemma chunks_app {A} bs (a b : list A) : 0 < bs -> Nat.modulo (length a) bs = 0 -> Nat.modulo (length b) bs = 0 ->
  chunks bs (a ++ b) = chunks bs a ++ chunks bs b.
Proof.
  intros Hbs Ha Hb.
  rewrite <- (concat_chunks bs a Hbs) at 1. rewrite <- (concat_chunks bs b Hbs) at 1. rewrite <- concat_app.
  apply chunks_of_blocks; [assumption|]. apply Forall_app. split; now apply chunks_lengths.
Qed.
Lemma chunks_single {A} bs (x : list A) : 0 < bs -> length x = bs -> chunks bs x = [x].
Proof.
  intros Hbs Hl. replace x with (concat [x]) at 1 by (simpl; apply app_nil_r).
  apply chunks_of_blocks; [assumption|]. constructor; [assumption|constructor].
Qed.
Lemma chunks_count {A} bs (l : list A) : 0 < bs -> Nat.modulo (length l) bs = 0 -> length (chunks bs l) * bs = length l.
Proof.
  intros Hbs Hm. pose proof (concat_length_blocks (chunks bs l) bs (chunks_lengths bs l Hbs Hm)) as E.
  rewrite concat_chunks in E by assumption. lia.
Qed.

(* ---------- stages ---------- *)
Lemma butterfly_length d c : length c = 2 * d -> length (butterfly d c) = 2 * d.
Proof. intro H. unfold butterfly. rewrite app_length, xorl_length, firstn_length, skipn_length. lia. Qed.

Lemma stage_length d x : 0 < d -> Nat.modulo (length x) (2 * d) = 0 -> length (stage d x) = length x.
Proof.
  intros Hd Hm. unfold stage.
  assert (Hb : Forall (fun b => length b = 2 * d) (map (butterfly d) (chunks (2 * d) x))).
  { apply Forall_forall. intros b Hin. apply in_map_iff in Hin. destruct Hin as [c [<- Hc]].
    apply butterfly_length. pose proof (chunks_lengths (2 * d) x ltac:(lia) Hm) as Hl. rewrite Forall_forall in Hl. now apply Hl. }
  rewrite (concat_length_blocks _ _ Hb), map_length. apply chunks_count; [lia|assumption].
Qed.

Lemma stage_app d a b : 0 < d -> Nat.modulo (length a) (2 * d) = 0 -> Nat.modulo (length b) (2 * d) = 0 ->
  stage d (a ++ b) = stage d a ++ stage d b.
Proof. intros Hd Ha Hb. unfold stage. rewrite chunks_app by (auto; lia). now rewrite map_app, concat_app. Qed.

Lemma pow2_pos i : 0 < 2 ^ i. Proof. apply Nat.neq_0_lt_0, Nat.pow_nonzero. lia. Qed.
Lemma pow2_mod m i : i < m -> Nat.modulo (2 ^ m) (2 * 2 ^ i) = 0.
Proof.
  intro H. replace (2 * 2 ^ i) with (2 ^ S i) by (simpl; lia).
  replace m with (S i + (m - S i)) by lia. rewrite Nat.pow_add_r, Nat.mul_comm. apply Nat.mod_mul.
  apply Nat.pow_nonzero. lia.
Qed.

Lemma stages_length l : forall m x, (forall i, In i l -> i < m) -> length x = 2 ^ m ->
  length (fold_left (fun x i => stage (2 ^ i) x) l x) = 2 ^ m.
Proof.
  induction l as [|i l IH]; intros m x Hl Hx; simpl; [assumption|].
  apply IH; [intros; apply Hl; now right|]. rewrite stage_length; [assumption|apply pow2_pos|].
  rewrite Hx. apply pow2_mod. apply Hl. now left.
Qed.

Lemma stages_app l : forall m a b, (forall i, In i l -> i < m) -> length a = 2 ^ m -> length b = 2 ^ m ->
  fold_left (fun x i => stage (2 ^ i) x) l (a ++ b) =
  fold_left (fun x i => stage (2 ^ i) x) l a ++ fold_left (fun x i => stage (2 ^ i) x) l b.
Proof.
  induction l as [|i l IH]; intros m a b Hl Ha Hb; simpl; [reflexivity|].
  assert (Hi : i < m) by (apply Hl; now left).
  rewrite stage_app by (try apply pow2_pos; rewrite ?Ha, ?Hb; now apply pow2_mod).
  apply (IH m); [intros; apply Hl; now right| |];
    (rewrite stage_length; [assumption|apply pow2_pos|rewrite ?Ha, ?Hb; now apply pow2_mod]).
Qed.

Lemma transform_length m x : length x = 2 ^ m -> length (transform m x) = 2 ^ m.
Proof. intro H. unfold transform. apply (stages_length _ m); [intros i Hi; apply in_seq in Hi; lia|assumption]. Qed.

(* the iterative transform has the recursive butterfly structure (T a + T b, T b) *)
Theorem transform_rec m a b : length a = 2 ^ m -> length b = 2 ^ m ->
  transform (S m) (a ++ b) = xorl (transform m a) (transform m b) ++ transform m b.
Proof.
  intros Ha Hb. unfold transform. rewrite seq_S, fold_left_app. simpl.
  rewrite (stages_app _ m) by (try assumption; intros i Hi; apply in_seq in Hi; lia).
  fold (transform m a). fold (transform m b).
  pose proof (transform_length m a Ha) as La. pose proof (transform_length m b Hb) as Lb.
  unfold stage. rewrite chunks_single; [|pose proof (pow2_pos m); lia|rewrite app_length; lia].
  simpl. rewrite app_nil_r. unfold butterfly.
  rewrite firstn_app, La, Nat.sub_diag, firstn_O, app_nil_r, <- La, firstn_all.
  rewrite skipn_app, La, Nat.sub_diag, <- La, skipn_all. simpl. reflexivity.
Qed.

(* ---------- Kronecker power ---------- *)
Lemma kron_shape m : length (kron m) = 2 ^ m /\ Forall (fun r => length r = 2 ^ m) (kron m).
Proof.
  induction m as [|m [IH1 IH2]]; simpl; [split; [reflexivity|repeat constructor]|].
  split; [rewrite app_length, !map_length, IH1; lia|].
  apply Forall_app. rewrite Forall_forall in IH2. split; apply Forall_forall; intros r Hr; apply in_map_iff in Hr;
    destruct Hr as [r0 [<- Hr0]]; rewrite app_length, ?repeat_length, (IH2 r0 Hr0); lia.
Qed.

Lemma vm_fold_length n l : forall acc, length acc = n -> (forall ur, In ur l -> length (snd ur) = n) ->
  length (fold_left (fun acc (ur : bool * list bool) => if fst ur then xorl acc (snd ur) else acc) l acc) = n.
Proof.
  induction l as [|ur l IH]; intros acc Ha Hl; simpl; [assumption|]. apply IH; [|intros; apply Hl; now right].
  destruct (fst ur); [|assumption]. rewrite xorl_length, Ha, (Hl ur (or_introl eq_refl)). lia.
Qed.

(* fold with a starting accumulator = start xor fold from zero *)
Lemma vm_fold_acc n l : forall acc, length acc = n -> (forall ur, In ur l -> length (snd ur) = n) ->
  fold_left (fun acc (ur : bool * list bool) => if fst ur then xorl acc (snd ur) else acc) l acc =
  xorl acc (fold_left (fun acc (ur : bool * list bool) => if fst ur then xorl acc (snd ur) else acc) l (repeat false n)).
Proof.
  induction l as [|ur l IH]; intros acc Ha Hl; simpl.
  - rewrite <- Ha. symmetry. apply xorl_false_r.
  - assert (Hr : length (snd ur) = n) by (apply Hl; now left).
    assert (Hl' : forall ur0, In ur0 l -> length (snd ur0) = n) by (intros; apply Hl; now right).
    destruct (fst ur).
    + rewrite (IH (xorl acc (snd ur))) by (rewrite ?xorl_length; auto; lia).
      rewrite (IH (xorl (repeat false n) (snd ur))) by (rewrite ?xorl_length, ?repeat_length; auto; lia).
      rewrite <- Hr at 2. rewrite xorl_false_l. now rewrite xorl_assoc.
    + now apply IH.
Qed.

Lemma combine_app' {A B} (a : list A) : forall (b : list B) c d, length a = length b ->
  combine (a ++ c) (b ++ d) = combine a b ++ combine c d.
Proof. induction a as [|x a IH]; intros [|y b] c d H; simpl in *; try discriminate; [reflexivity|]. f_equal. apply IH. lia. Qed.

Lemma vm_app n u1 : forall rows1 u2 rows2, length u1 = length rows1 ->
  (forall r, In r rows1 -> length r = n) -> (forall r, In r rows2 -> length r = n) ->
  vm n (u1 ++ u2) (rows1 ++ rows2) = xorl (vm n u1 rows1) (vm n u2 rows2).
Proof.
  intros rows1 u2 rows2 Hl H1 H2. unfold vm. rewrite combine_app' by assumption. rewrite fold_left_app.
  apply vm_fold_acc.
  - apply vm_fold_length; [apply repeat_length|]. intros [ub ur] Hin. apply in_combine_r in Hin. simpl. now apply H1.
  - intros [ub ur] Hin. apply in_combine_r in Hin. simpl. now apply H2.
Qed.

(* rows extended by a common function g that is additive w.r.t. xorl and maps zeros to zeros *)
Lemma vm_map n n' (g : list bool -> list bool) u : forall rows,
  (forall r, In r rows -> length r = n) ->
  (forall a b, length a = n -> length b = n -> g (xorl a b) = xorl (g a) (g b)) ->
  g (repeat false n) = repeat false n' -> (forall a, length a = n -> length (g a) = n') ->
  vm n' u (map g rows) = g (vm n u rows).
Proof.
  intros rows Hr Hadd Hz Hlen. unfold vm.
  assert (Hgen : forall l acc, length acc = n -> (forall ur, In ur l -> length (snd ur) = n) ->
     fold_left (fun acc (ur : bool * list bool) => if fst ur then xorl acc (snd ur) else acc)
               (map (fun ur => (fst ur, g (snd ur))) l) (g acc) =
     g (fold_left (fun acc (ur : bool * list bool) => if fst ur then xorl acc (snd ur) else acc) l acc)).
  { induction l as [|ur l IH]; intros acc Ha Hl; simpl; [reflexivity|].
    assert (Hru : length (snd ur) = n) by (apply Hl; now left).
    destruct (fst ur).
    - rewrite <- Hadd by assumption. apply IH; [rewrite xorl_length; lia|intros; apply Hl; now right].
    - apply IH; [assumption|intros; apply Hl; now right]. }
  rewrite <- Hz. rewrite <- (Hgen (combine u rows) (repeat false n)).
  - f_equal. clear. revert rows. induction u as [|b u IH]; intros [|r rows]; simpl; try reflexivity. now rewrite IH.
  - apply repeat_length.
  - intros [ub ur] Hin. apply in_combine_r in Hin. simpl. now apply Hr.
Qed.

(* the polar transform IS multiplication by the m-fold Kronecker power of [[1,0],[1,1]] -- every m, every input *)
Theorem transform_eq_kron m : forall u, length u = 2 ^ m -> transform m u = vm (2 ^ m) u (kron m).
Proof.
  induction m as [|m IH]; intros u Hu.
  - destruct u as [|b [|? ?]]; try discriminate. destruct b; reflexivity.
  - simpl in Hu. set (h := 2 ^ m) in *.
    rewrite <- (firstn_skipn h u). set (a := firstn h u). set (b := skipn h u).
    assert (Ha : length a = h) by (unfold a; rewrite firstn_length; lia).
    assert (Hb : length b = h) by (unfold b; rewrite skipn_length; lia).
    rewrite (transform_rec m a b Ha Hb). rewrite (IH a Ha), (IH b Hb).
    destruct (kron_shape m) as [Kl Kr]. rewrite Forall_forall in Kr. fold h in Kl, Kr.
    cbn [kron]. fold h.
    change (2 ^ S m) with (2 * 2 ^ m). fold h.
    rewrite (vm_app (2 * h)); [| rewrite map_length; lia | |];
      try (intros r Hr; apply in_map_iff in Hr; destruct Hr as [r0 [<- Hr0]]; rewrite app_length, ?repeat_length, (Kr r0 Hr0); lia).
    rewrite (vm_map h (2 * h) (fun r => r ++ repeat false h)); try assumption.
    + rewrite (vm_map h (2 * h) (fun r => r ++ r)); try assumption.
      * set (A := vm h a (kron m)). set (B := vm h b (kron m)).
        assert (LA : length A = h) by (unfold A, vm; apply vm_fold_length; [apply repeat_length|intros [ub ur] Hin; apply in_combine_r in Hin; simpl; now apply Kr]).
        assert (LB : length B = h) by (unfold B, vm; apply vm_fold_length; [apply repeat_length|intros [ub ur] Hin; apply in_combine_r in Hin; simpl; now apply Kr]).
        rewrite xorl_app by lia. f_equal. symmetry. rewrite <- LB at 1. apply xorl_false_l.
      * intros x y Hx Hy. rewrite xorl_app by lia. reflexivity.
      * rewrite <- repeat_app. f_equal. lia.
      * intros x Hx. rewrite app_length. lia.
    + intros x y Hx Hy. rewrite xorl_app by lia. f_equal. rewrite xorl_nilpotent, repeat_length. reflexivity.
    + rewrite <- repeat_app. f_equal. lia.
    + intros x Hx. rewrite app_length, repeat_length. lia.
Qed.

(* ---------- additivity and involution: the encoder is injective ---------- *)
Theorem transform_additive m : forall x y, length x = 2 ^ m -> length y = 2 ^ m ->
  transform m (xorl x y) = xorl (transform m x) (transform m y).
Proof.
  induction m as [|m IH]; intros x y Hx Hy; [reflexivity|].
  simpl in Hx, Hy. set (h := 2 ^ m) in *.
  rewrite <- (firstn_skipn h x), <- (firstn_skipn h y).
  set (a := firstn h x). set (b := skipn h x). set (c := firstn h y). set (d := skipn h y).
  assert (Ha : length a = h) by (unfold a; rewrite firstn_length; lia).
  assert (Hb : length b = h) by (unfold b; rewrite skipn_length; lia).
  assert (Hc : length c = h) by (unfold c; rewrite firstn_length; lia).
  assert (Hd : length d = h) by (unfold d; rewrite skipn_length; lia).
  rewrite xorl_app by lia.
  rewrite !transform_rec by (rewrite ?xorl_length; lia).
  rewrite !IH by lia.
  pose proof (transform_length m a Ha). pose proof (transform_length m b Hb).
  pose proof (transform_length m c Hc). pose proof (transform_length m d Hd). fold h in H, H0, H1, H2.
  rewrite xorl_app by (rewrite !xorl_length; lia). f_equal.
  rewrite !xorl_assoc. f_equal. rewrite <- !xorl_assoc. f_equal. apply xorl_comm.
Qed.

Theorem transform_involutive m : forall x, length x = 2 ^ m -> transform m (transform m x) = x.
Proof.
  induction m as [|m IH]; intros x Hx; [reflexivity|].
  simpl in Hx. set (h := 2 ^ m) in *.
  rewrite <- (firstn_skipn h x). set (a := firstn h x). set (b := skipn h x).
  assert (Ha : length a = h) by (unfold a; rewrite firstn_length; lia).
  assert (Hb : length b = h) by (unfold b; rewrite skipn_length; lia).
  pose proof (transform_length m a Ha) as La. pose proof (transform_length m b Hb) as Lb. fold h in La, Lb.
  rewrite (transform_rec m a b Ha Hb).
  rewrite transform_rec by (rewrite ?xorl_length; lia).
  rewrite transform_additive by assumption. rewrite !IH by assumption.
  f_equal. rewrite xorl_assoc, xorl_nilpotent, Hb, <- Ha. apply xorl_false_r.
Qed.
