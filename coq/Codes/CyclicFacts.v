From Coq Require Import NArith List Bool Arith Lia.
From KV Require Import Base.GF2 Base.GF2Facts Algebra.BinPoly Algebra.BinPolyFacts Codes.Cyclic.
Import ListNotations.
Local Open Scope N_scope.

Lemma pmod_zero_divides r g : g <> 0 -> pmod r g = Some 0 -> divides g r.
Proof.
  intros Hg H. destruct (pmod_spec r g Hg) as [q [rem [Hm [E _]]]].
  rewrite H in Hm. injection Hm as <-. exists q. rewrite N.lxor_0_r in E. exact E.
Qed.

(* every codeword polynomial is a multiple of the generator polynomial *)
Theorem rows_multiples_sound gs g : g <> 0 -> rows_multiples_ok gs g = true -> forall m, divides g (comb m gs).
Proof.
  intros Hg. unfold rows_multiples_ok. induction gs as [|r t IH]; intros H m; cbn [comb]; [apply divides_0|].
  simpl in H. apply andb_true_iff in H. destruct H as [Hr Ht].
  apply divides_lxor; [|now apply IH].
  destruct (N.odd m); [|apply divides_0].
  apply pmod_zero_divides; [assumption|]. destruct (pmod r g) as [[|p]|]; try discriminate. reflexivity.
Qed.

(* every multiple q.g with q < 2^k has zero syndrome *)
Theorem multiples_in_code_sound k g hs : multiples_in_code_ok k g hs = true ->
  forall q, q < 2 ^ N.of_nat k -> syndN (clmul q g) hs = 0.
Proof.
  intros H q Hq.
  apply (linear_ext (fun q => syndN (clmul q g) hs) (fun _ => 0) k); [| | |assumption].
  - intros a b. now rewrite clmul_lxor_l, syndN_lxor.
  - intros a b. reflexivity.
  - intros i Hi. unfold multiples_in_code_ok in H. rewrite forallb_forall in H.
    specialize (H i). rewrite in_seq in H. specialize (H ltac:(lia)). apply N.eqb_eq in H.
    rewrite <- N.shiftl_1_l, clmul_pow2_l. exact H.
Qed.

Theorem divides_xn1_sound n g : g <> 0 -> divides_xn1 n g = true -> divides g (N.lxor (2 ^ N.of_nat n) 1).
Proof.
  intros Hg H. unfold divides_xn1 in H. apply pmod_zero_divides; [assumption|].
  destruct (pmod _ g) as [[|p]|]; try discriminate. reflexivity.
Qed.

(* perfect single-error-correcting parameters: 2^(2^mu - 1 - mu) * (1 + (2^mu - 1)) = 2^(2^mu - 1) for every mu *)
Theorem hamming_sphere_packing mu : (mu <= 2 ^ mu - 1)%nat ->
  2 ^ N.of_nat (2 ^ mu - 1 - mu) * (1 + N.of_nat (2 ^ mu - 1)) = 2 ^ N.of_nat (2 ^ mu - 1).
Proof.
  intro H. assert (Hp : (0 < 2 ^ mu)%nat) by (apply Nat.neq_0_lt_0, Nat.pow_nonzero; lia).
  replace (1 + N.of_nat (2 ^ mu - 1)) with (2 ^ N.of_nat mu).
  - rewrite <- N.pow_add_r. f_equal. lia.
  - replace (1 + N.of_nat (2 ^ mu - 1)) with (N.of_nat (2 ^ mu)) by lia.
    rewrite Nat2N.inj_pow. reflexivity.
Qed.
