(* Successive cancellation on noise-free LLRs returns the message (and re-encodes the codeword): every m, every
   information mask, frozen value 0/1, every positive magnitudes, every sign-consistent check-node function. *)
From Coq Require Import List Bool Arith Lia QArith Lqa.
From KV Require Import Base.Layout Base.LayoutFacts Codes.Polar Codes.PolarFacts.
Import ListNotations.

(* y carries bit c: negative for 1, positive for 0 (never zero) *)
Definition agrees (y : Q) (c : bool) : Prop := if c then y < 0 else 0 < y.
(* sign consistency of a check-node function on non-zero inputs *)
Definition sign_consistent (f : Q -> Q -> Q) : Prop :=
  forall a b ca cb, agrees a ca -> agrees b cb -> agrees (f a b) (xorb ca cb).

Lemma qsign_bit_agrees y c : agrees y c -> qsign_bit y = c.
Proof.
  unfold agrees, qsign_bit. destruct c; intro H; destruct (Qlt_le_dec y 0) as [Hl|Hg]; try reflexivity; lra.
Qed.

Lemma bit_agrees lo hi ta tb : agrees lo (xorb ta tb) -> agrees hi tb ->
  agrees (hi + (if ta then - (1) else 1) * lo) tb.
Proof. unfold agrees. destruct ta, tb; simpl; intros; lra. Qed.

Section SCproof.
Variable f : Q -> Q -> Q.
Variable frozen : bool.
Hypothesis Hf : sign_consistent f.

Lemma check_row lo : forall hi p q, Forall2 agrees lo (xorl p q) -> Forall2 agrees hi q -> length p = length q ->
  Forall2 agrees (map (fun pr : Q * Q => f (fst pr) (snd pr)) (combine lo hi)) p.
Proof.
  induction lo as [|l lo IH]; intros hi p q H1 H2 Hl.
  - inversion H1 as [E|]; subst. destruct p as [|pp p]; [constructor|]. destruct q; simpl in *; discriminate.
  - destruct p as [|pp p]; [inversion H1|]. destruct q as [|qq q]; [simpl in Hl; discriminate|].
    simpl in H1. inversion H1 as [|? ? ? ? Hh Ht]; subst. inversion H2 as [|? ? ? ? Hh2 Ht2]; subst.
    simpl. constructor.
    + cbn [fst snd]. replace pp with (xorb (xorb pp qq) qq) by (destruct pp, qq; reflexivity). now apply Hf.
    + apply (IH _ p q); auto.
Qed.

Lemma bit_row lo : forall hi p q, Forall2 agrees lo (xorl p q) -> Forall2 agrees hi q -> length p = length q ->
  Forall2 agrees (map (fun t : (Q * Q) * bool => snd (fst t) + (if snd t then - (1) else 1) * fst (fst t))
                      (combine (combine lo hi) p)) q.
Proof.
  induction lo as [|l lo IH]; intros hi p q H1 H2 Hl.
  - inversion H1 as [E|]; subst. destruct p as [|pp p]; destruct q as [|qq q]; simpl in *; try discriminate.
    + inversion H2; subst. constructor.
  - destruct p as [|pp p]; [inversion H1|]. destruct q as [|qq q]; [simpl in Hl; discriminate|].
    simpl in H1. inversion H1 as [|? ? ? ? Hh Ht]; subst. inversion H2 as [|? ? ? ? Hh2 Ht2]; subst.
    simpl. constructor.
    + cbn [fst snd]. now apply bit_agrees.
    + apply (IH _ p q); auto.
Qed.

Lemma Forall2_app_split {A B} (R : A -> B -> Prop) l : forall l1 l2, Forall2 R l (l1 ++ l2) ->
  Forall2 R (firstn (length l1) l) l1 /\ Forall2 R (skipn (length l1) l) l2.
Proof.
  intros l1. revert l. induction l1 as [|b l1 IH]; intros l l2 H; simpl.
  - split; [constructor|assumption].
  - inversion H as [|? ? ? ? Hh Ht]; subst. destruct (IH _ _ Ht) as [H1 H2]. simpl. split; [constructor; assumption|assumption].
Qed.

Theorem sc_clean (m : nat) : forall y mask u, length mask = (2 ^ m)%nat -> length u = (2 ^ m)%nat ->
  (forall j, (j < 2 ^ m)%nat -> nth j mask true = false -> nth j u false = frozen) ->
  Forall2 agrees y (transform m u) ->
  sc f frozen m y mask = (u, transform m u).
Proof.
  induction m as [|m IH]; intros y mask u Hm Hu Hfr Hy.
  - destruct u as [|u0 [|? ?]]; try discriminate. destruct mask as [|k0 [|? ?]]; try discriminate.
    change (transform 0 [u0]) with [u0] in *. inversion Hy as [|y0 ? ? ? Ha Ht]; subst. inversion Ht; subst.
    simpl. destruct k0.
    + now rewrite (qsign_bit_agrees y0 u0 Ha).
    + specialize (Hfr 0%nat ltac:(simpl; lia) eq_refl). simpl in Hfr. now subst.
  - simpl in Hm, Hu. set (h := (2 ^ m)%nat) in *.
    rewrite <- (firstn_skipn h u) in Hy |- *. set (a := firstn h u) in *. set (b := skipn h u) in *.
    assert (Ha : length a = h) by (unfold a; rewrite firstn_length; lia).
    assert (Hb : length b = h) by (unfold b; rewrite skipn_length; lia).
    rewrite (transform_rec m a b Ha Hb) in Hy |- *.
    pose proof (transform_length m a Ha) as La. pose proof (transform_length m b Hb) as Lb. fold h in La, Lb.
    destruct (Forall2_app_split agrees y _ _ Hy) as [Hlo Hhi]. rewrite xorl_length, La, Lb, Nat.min_id in Hlo, Hhi.
    assert (H2 : (2 ^ S m = h + h)%nat) by (simpl; unfold h; lia).
    cbn [sc]. fold h.
    assert (Hma : length (firstn h mask) = (2 ^ m)%nat) by (rewrite firstn_length; fold h; lia).
    assert (Hmb : length (skipn h mask) = (2 ^ m)%nat) by (rewrite skipn_length; fold h; lia).
    rewrite (IH _ (firstn h mask) a Hma Ha).
    + rewrite (IH _ (skipn h mask) b Hmb Hb).
      * reflexivity.
      * intros j Hj Hmj. fold h in Hj. specialize (Hfr (h + j)%nat ltac:(rewrite H2; lia)).
        rewrite <- (firstn_skipn h mask) in Hfr. rewrite app_nth2 in Hfr by (rewrite firstn_length; lia).
        rewrite firstn_length, Nat.min_l in Hfr by lia. replace (h + j - h)%nat with j in Hfr by lia.
        specialize (Hfr Hmj). rewrite <- (firstn_skipn h u) in Hfr. fold a b in Hfr.
        rewrite app_nth2 in Hfr by lia. now replace (h + j - length a)%nat with j in Hfr by lia.
      * apply (bit_row _ _ (transform m a) (transform m b)); [assumption|assumption|lia].
    + intros j Hj Hmj. fold h in Hj. specialize (Hfr j ltac:(rewrite H2; lia)).
      rewrite <- (firstn_skipn h mask) in Hfr. rewrite app_nth1 in Hfr by (rewrite firstn_length; lia).
      specialize (Hfr Hmj). rewrite <- (firstn_skipn h u) in Hfr. fold a b in Hfr. now rewrite app_nth1 in Hfr by lia.
    + apply (check_row _ _ (transform m a) (transform m b)); [assumption|assumption|lia].
Qed.
End SCproof.

