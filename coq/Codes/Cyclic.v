(* Checkers relating a published generator matrix to the polynomial description of a cyclic code.
   A word is the bit mask of its coefficient list (bit i = coefficient of X^i); [revn] turns the other orientation
   into this one.  No proofs here. *)
From Coq Require Import NArith List Bool.
From KV Require Import Base.GF2 Algebra.BinPoly.
Import ListNotations.
Local Open Scope N_scope.

(* g divides X^n + 1 *)
Definition divides_xn1 (n : nat) (g : N) : bool :=
  match pmod (N.lxor (2 ^ N.of_nat n) 1) g with Some 0 => true | _ => false end.
(* every generator row is a multiple of g *)
Definition rows_multiples_ok (gs : list N) (g : N) : bool :=
  forallb (fun r => match pmod r g with Some 0 => true | _ => false end) gs.
(* every X^i g, i < k, has zero syndrome (so every multiple of g of degree < n is a codeword) *)
Definition multiples_in_code_ok (k : nat) (g : N) (hs : list N) : bool :=
  forallb (fun i => syndN (N.shiftl g (N.of_nat i)) hs =? 0) (seq 0 k).
(* reversal of the n coordinates *)
Definition revn (n : nat) (x : N) : N :=
  fold_left (fun acc i => if N.testbit x (N.of_nat i) then N.lor acc (2 ^ N.of_nat (n - 1 - i)) else acc) (seq 0 n) 0.

(* sphere-packing equality for a t-error-correcting (n, k) code: 2^k * sum_{i<=t} C(n,i) = 2^n *)
Fixpoint binom (n k : nat) : N :=
  match k, n with
  | O, _ => 1
  | S k', O => 0
  | S k', S n' => binom n' k' + binom n' k
  end.
Definition sphere (n t : nat) : N := fold_left (fun a i => a + binom n i) (seq 0 (S t)) 0.
Definition perfect_ok (n k t : nat) : bool := (2 ^ N.of_nat k * sphere n t =? 2 ^ N.of_nat n).
