From Coq Require Import List Bool Arith Lia QArith Lqa.
From KV Require Import Codes.Polar Codes.PolarSC.
(* the min-sum check node sign(a) sign(b) min(|a|,|b|), clipped to [-clip, clip] with any clip > 0, is sign consistent *)
Theorem minsum_sign_consistent clip : 0 < clip -> sign_consistent (minsum_check clip).
Proof.
  intros Hc a b ca cb Ha Hb. unfold minsum_check, qclip, qsgn, qmin, qabs, agrees in *.
  destruct ca, cb; simpl in *;
    destruct (Qlt_le_dec a 0); try lra; destruct (Qlt_le_dec b 0); try lra;
    repeat (match goal with
            | |- context [Qlt_le_dec ?x ?y] => destruct (Qlt_le_dec x y); try lra
            | H : context [Qlt_le_dec ?x ?y] |- _ => destruct (Qlt_le_dec x y); try lra
            end); try lra.
Qed.
