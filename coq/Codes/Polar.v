(* Executable model of kaira/models/fec/encoders/polar_code.py (PolarCodeEncoder, non-interleaved and
   interleaved transform, 5G information set from the regenerated ranking Gen/PolarRank.v) and of
   decoders/successive_cancellation.py (halves recursion; check-node function as a parameter).  No proofs. *)
From Coq Require Import List Bool Arith QArith.
From KV Require Import Base.Layout.
Import ListNotations.

Fixpoint xorl (a b : list bool) : list bool :=
  match a, b with x :: a', y :: b' => xorb x y :: xorl a' b' | _, _ => [] end.

(* one stage: x[p] ^= x[p + d] for the positions p whose bit log2(d) is 0, i.e. within every chunk of 2d entries
   (lo, hi) -> (lo xor hi, hi) *)
Definition butterfly (d : nat) (c : list bool) : list bool := xorl (firstn d c) (skipn d c) ++ skipn d c.
Definition stage (d : nat) (x : list bool) : list bool := concat (map (butterfly d) (chunks (2 * d) x)).
(* polar_transform with polar_i = False: stages with distance 1, 2, 4, ..., N/2 *)
Definition transform (m : nat) (x : list bool) : list bool := fold_left (fun x i => stage (2 ^ i) x) (seq 0 m) x.

(* perm_ind of stage i: arange(N).reshape(N / 2^(i+1), 2, -1).permute(0, 2, 1): within every block of 2^(i+1)... the
   block (rows of length L = N / (g*2) with g = N / 2^(i+1) groups) is transposed from (2, L) to (L, 2) *)
Definition interleave2 (c : list bool) : list bool :=
  let h := Nat.div (length c) 2 in
  flat_map (fun j => [nth j c false; nth (h + j) c false]) (seq 0 h).
Definition perm_stage (i : nat) (x : list bool) : list bool :=
  concat (map interleave2 (chunks (2 * 2 ^ i) x)).
Definition transform_i (m : nat) (x : list bool) : list bool :=
  fold_left (fun x i => perm_stage i (stage (2 ^ i) x)) (seq 0 m) x.

(* Kronecker power of [[1,0],[1,1]]: F^(m+1) = [[F^m, 0], [F^m, F^m]] *)
Fixpoint kron (m : nat) : list (list bool) :=
  match m with
  | O => [[true]]
  | S m' => map (fun r => r ++ repeat false (2 ^ m')) (kron m') ++ map (fun r => r ++ r) (kron m')
  end.
(* u . M over GF(2) for rows of length n *)
Definition vm (n : nat) (u : list bool) (rows : list (list bool)) : list bool :=
  fold_left (fun acc (ur : bool * list bool) => if fst ur then xorl acc (snd ur) else acc) (combine u rows) (repeat false n).

(* information set: F[rank[rank < N][: N - k]] = 1 ; info = positions with F = 0 *)
Definition frozen_positions (rank : list nat) (N k : nat) : list nat := firstn (N - k) (filter (fun p => p <? N) rank).
Definition memn (p : nat) (l : list nat) : bool := existsb (Nat.eqb p) l.
Definition info_mask (rank : list nat) (N k : nat) : list bool :=
  map (fun p => negb (memn p (frozen_positions rank N k))) (seq 0 N).
(* codeword[:, info] = message, frozen value elsewhere, then the transform *)
Fixpoint place (mask : list bool) (msg : list bool) (frozen : bool) : list bool :=
  match mask with
  | [] => []
  | true :: t => match msg with b :: msg' => b :: place t msg' frozen | [] => frozen :: place t [] frozen end
  | false :: t => frozen :: place t msg frozen
  end.
Definition polar_encode (m : nat) (mask : list bool) (frozen : bool) (msg : list bool) : list bool :=
  transform m (place mask msg frozen).
Definition polar_encode_i (m : nat) (mask : list bool) (frozen : bool) (msg : list bool) : list bool :=
  transform_i m (place mask msg frozen).
Fixpoint extract (mask u : list bool) : list bool :=
  match mask, u with
  | true :: t, b :: u' => b :: extract t u'
  | false :: t, _ :: u' => extract t u'
  | _, _ => []
  end.

(* ---- successive cancellation (polar_i = False): returns (u_hat, x_hat) ---- *)
Section SC.
Variable f : Q -> Q -> Q.        (* check-node function after clipping *)
Variable frozen : bool.
Definition qsign_bit (y : Q) : bool := if Qlt_le_dec y 0 then true else false.   (* sign_to_bin(sign(y)) = 1 iff y < 0 (for y <> 0) *)
Fixpoint sc (m : nat) (y : list Q) (mask : list bool) : list bool * list bool :=
  match m with
  | O => let b := if hd false mask then qsign_bit (hd 0 y) else frozen in ([b], [b])
  | S m' =>
      let h := (2 ^ m')%nat in
      let y_lo := firstn h y in let y_hi := skipn h y in
      let y1 := map (fun p : Q * Q => f (fst p) (snd p)) (combine y_lo y_hi) in
      let '(u1, x1) := sc m' y1 (firstn h mask) in
      let y2 := map (fun t : (Q * Q) * bool => snd (fst t) + (if snd t then - (1) else 1) * fst (fst t)) (combine (combine y_lo y_hi) x1) in
      let '(u2, x2) := sc m' y2 (skipn h mask) in
      (u1 ++ u2, xorl x1 x2 ++ x2)
  end.
End SC.
(* polar_i = True: even / odd split, result re-interleaved *)
Section SCI.
Variable f : Q -> Q -> Q.
Variable frozen : bool.
Fixpoint evens {A} (l : list A) : list A := match l with x :: _ :: t => x :: evens t | x :: [] => [x] | [] => [] end.
Definition odds {A} (l : list A) : list A := match l with [] => [] | _ :: t => evens t end.
Fixpoint sci (m : nat) (y : list Q) (mask : list bool) : list bool * list bool :=
  match m with
  | O => let b := if hd false mask then qsign_bit (hd 0 y) else frozen in ([b], [b])
  | S m' =>
      let h := (2 ^ m')%nat in
      let y_lo := evens y in let y_hi := odds y in
      let y1 := map (fun p : Q * Q => f (fst p) (snd p)) (combine y_lo y_hi) in
      let '(u1, x1) := sci m' y1 (firstn h mask) in
      let y2 := map (fun t : (Q * Q) * bool => snd (fst t) + (if snd t then - (1) else 1) * fst (fst t)) (combine (combine y_lo y_hi) x1) in
      let '(u2, x2) := sci m' y2 (skipn h mask) in
      (u1 ++ u2, interleave2 (xorl x1 x2 ++ x2))
  end.
End SCI.
(* min-sum check node: sign(a) sign(b) min(|a|, |b|), clipped to [-clip, clip] *)
Definition qabs (a : Q) : Q := if Qlt_le_dec a 0 then - a else a.
Definition qmin (a b : Q) : Q := if Qlt_le_dec a b then a else b.
Definition qsgn (a : Q) : Q := if Qlt_le_dec a 0 then - 1 else if Qlt_le_dec 0 a then 1 else 0.
Definition qclip (c a : Q) : Q := if Qlt_le_dec a (- c) then - c else if Qlt_le_dec c a then c else a.
Definition minsum_check (clip a b : Q) : Q := qclip clip (qsgn a * qsgn b * qmin (qabs a) (qabs b)).
