(* The information set built from a reliability ranking: exactly k positions, nested in k. *)
From Coq Require Import List Bool Arith Lia.
From KV Require Import Codes.Polar.
Import ListNotations.

Lemma memn_In p l : memn p l = true <-> In p l.
Proof.
  unfold memn. rewrite existsb_exists. split.
  - intros [x [Hx E]]. apply Nat.eqb_eq in E. now subst.
  - intro H. exists p. split; [assumption|apply Nat.eqb_refl].
Qed.

Lemma filter_partition {A} (f : A -> bool) l : length (filter f l) + length (filter (fun x => negb (f x)) l) = length l.
Proof. induction l as [|x l IH]; simpl; [reflexivity|]. destruct (f x); simpl; lia. Qed.

Lemma count_eq_in_seq s N : s < N -> length (filter (fun p => p =? s) (seq 0 N)) = 1.
Proof.
  intro H. replace N with (s + (1 + (N - s - 1))) by lia. rewrite !seq_app, !filter_app, !app_length.
  assert (H1 : forall a len, (forall p, In p (seq a len) -> p <> s) -> length (filter (fun p => p =? s) (seq a len)) = 0).
  { intros a len Hn. induction len as [|len IH] in a, Hn |- *; [reflexivity|]. simpl.
    destruct (Nat.eqb_spec a s) as [E|_]; [exfalso; apply (Hn a); [now left|assumption]|].
    apply IH. intros p Hp. apply Hn. now right. }
  rewrite (H1 0 s), (H1 (0 + s + 1)); try (intros p Hp; apply in_seq in Hp; lia).
  simpl. rewrite Nat.eqb_refl. reflexivity.
Qed.

Lemma count_mem N F : NoDup F -> (forall x, In x F -> x < N) ->
  length (filter (fun p => memn p F) (seq 0 N)) = length F.
Proof.
  induction F as [|s F IH]; intros Hnd Hlt.
  - simpl. induction (seq 0 N); simpl; auto.
  - inversion Hnd as [|? ? Hnotin Hnd']; subst.
    assert (Hsplit : forall l, (forall p, In p l -> True) ->
      length (filter (fun p => memn p (s :: F)) l) =
      length (filter (fun p => p =? s) l) + length (filter (fun p => memn p F) l)).
    { induction l as [|p l IHl]; intros _; [reflexivity|].
      cbn [filter]. change (memn p (s :: F)) with ((p =? s) || memn p F).
      destruct (p =? s) eqn:E.
      - apply Nat.eqb_eq in E. subst p.
        assert (Hm : memn s F = false) by (apply not_true_iff_false; intro E; apply memn_In in E; contradiction).
        rewrite Hm. cbn [orb length]. rewrite IHl; auto.
      - cbn [orb]. destruct (memn p F); cbn [length]; rewrite IHl; auto; lia. }
    rewrite Hsplit by auto. rewrite count_eq_in_seq by (apply Hlt; now left).
    rewrite IH; [reflexivity|assumption|intros; apply Hlt; now right].
Qed.

Lemma NoDup_app_l {A} (a b : list A) : NoDup (a ++ b) -> NoDup a.
Proof.
  induction a as [|x a IH]; simpl; intro H; [constructor|]. inversion H as [|? ? Hn Hd]; subst.
  constructor; [|now apply IH]. intro Hin. apply Hn. apply in_or_app. now left.
Qed.

(* the ranking restricted to [0, N) is a duplicate-free list of exactly N positions *)
Definition rank_ok (rank : list nat) (N : nat) : Prop :=
  NoDup (filter (fun p => p <? N) rank) /\ length (filter (fun p => p <? N) rank) = N.

Theorem info_set_size rank N k : rank_ok rank N -> k <= N ->
  length (filter (fun b => b) (info_mask rank N k)) = k.
Proof.
  intros [Hnd Hlen] Hk. unfold info_mask. set (F := frozen_positions rank N k).
  assert (HF : NoDup F /\ (forall x, In x F -> x < N) /\ length F = N - k).
  { unfold F, frozen_positions. split; [|split].
    - rewrite <- (firstn_skipn (N - k) (filter _ rank)) in Hnd. now apply NoDup_app_l in Hnd.
    - intros x Hx. apply (In_nth _ _ 0) in Hx. destruct Hx as [i [Hi <-]].
      rewrite firstn_length in Hi.
      assert (Hin : In (nth i (firstn (N - k) (filter (fun p => p <? N) rank)) 0) (filter (fun p => p <? N) rank)).
      { rewrite <- (firstn_skipn (N - k) (filter _ rank)) at 2. apply in_or_app. left. apply nth_In. rewrite firstn_length. exact Hi. }
      apply filter_In in Hin. destruct Hin as [_ Hlt]. now apply Nat.ltb_lt in Hlt.
    - rewrite firstn_length, Hlen. lia. }
  destruct HF as [HFnd [HFlt HFlen]].
  assert (E : filter (fun b => b) (map (fun p => negb (memn p F)) (seq 0 N)) =
              map (fun p => negb (memn p F)) (filter (fun p => negb (memn p F)) (seq 0 N))).
  { induction (seq 0 N) as [|p l IH]; [reflexivity|]. simpl. destruct (negb (memn p F)) eqn:Ep; simpl; rewrite ?Ep, IH; reflexivity. }
  rewrite E, map_length.
  pose proof (filter_partition (fun p => memn p F) (seq 0 N)) as Hp. rewrite (count_mem N F HFnd HFlt), seq_length in Hp. lia.
Qed.

(* nesting: a position that carries information for k still does for k + 1 *)
Theorem info_set_nested rank N k p : k < N -> memn p (frozen_positions rank N (S k)) = true -> memn p (frozen_positions rank N k) = true.
Proof.
  intros Hk H. apply memn_In in H. apply memn_In. unfold frozen_positions in *.
  replace (N - k) with (N - S k + 1) by lia. set (L := filter (fun p0 => p0 <? N) rank) in *.
  rewrite <- (firstn_skipn (N - S k) L) at 1. rewrite firstn_app, firstn_firstn.
  apply in_or_app. left. replace (Nat.min (N - S k + 1) (N - S k)) with (N - S k) by lia. exact H.
Qed.

(* boolean form of rank_ok for kernel evaluation *)
Fixpoint nodupn (l : list nat) : bool := match l with [] => true | x :: t => negb (memn x t) && nodupn t end.
Definition rank_okb (rank : list nat) (N : nat) : bool :=
  nodupn (filter (fun p => p <? N) rank) && (length (filter (fun p => p <? N) rank) =? N).
Lemma nodupn_NoDup l : nodupn l = true -> NoDup l.
Proof.
  induction l as [|x t IH]; simpl; intro H; [constructor|]. apply andb_true_iff in H. destruct H as [H1 H2].
  constructor; [|now apply IH]. intro Hin. apply memn_In in Hin. rewrite Hin in H1. discriminate.
Qed.
Theorem rank_okb_sound rank N : rank_okb rank N = true -> rank_ok rank N.
Proof. unfold rank_okb, rank_ok. intro H. apply andb_true_iff in H. destruct H as [H1 H2]. split; [now apply nodupn_NoDup|now apply Nat.eqb_eq]. Qed.
