From Coq Require Import List Bool Arith NArith QArith.
From KV Require Import Gen.PolarRank Codes.Polar Codes.PolarInfo.
Import ListNotations.
Fixpoint bitsN (l : list bool) : N := match l with [] => 0%N | b :: t => ((if b then 1 else 0) + 2 * bitsN t)%N end.
Fixpoint ofN (n : nat) (x : N) : list bool := match n with O => [] | S n' => N.odd x :: ofN n' (N.div2 x) end.
Definition dig (acc v : N) : N := ((acc * 1000003 + v + 1) mod 2305843009213693951)%N.
Definition digest (l : list N) : N := fold_left dig l 7%N.
Definition info_maskN (nn k : nat) : N := bitsN (info_mask polar_rank nn k).
(* encode the messages (bit masks over k positions) with the 5G information set *)
Definition encode_case (m k : nat) (frozen interleaved : bool) (msgs : list N) : N :=
  let mask := info_mask polar_rank (2 ^ m) k in
  digest (map (fun x => bitsN ((if interleaved then polar_encode_i else polar_encode) m mask frozen (ofN k x))) msgs).
Definition encode_mask_case (m : nat) (mask : N) (k : nat) (frozen interleaved : bool) (msgs : list N) : N :=
  let mk := ofN (2 ^ m) mask in
  digest (map (fun x => bitsN ((if interleaved then polar_encode_i else polar_encode) m mk frozen (ofN k x))) msgs).
Definition kron_rows (m : nat) : list N := map bitsN (kron m).
(* successive cancellation with the min-sum check node on exact rational LLRs *)
Definition sc_case (m : nat) (mask : N) (frozen interleaved : bool) (clip : Q) (ys : list (list Q)) : list N :=
  let mk := ofN (2 ^ m) mask in
  map (fun y => bitsN (extract mk (fst ((if interleaved then sci else sc) (minsum_check clip) frozen m y mk)))) ys.
(* tie detector for the correspondence: true when an information leaf sees an exactly zero LLR (the implementation then
   emits the non-binary value 0.5; such inputs have measure zero and are excluded from the comparison) *)
Fixpoint sc_tie (interleaved : bool) (f : Q -> Q -> Q) (frozen : bool) (m : nat) (y : list Q) (mask : list bool) : bool :=
  match m with
  | O => hd false mask && Qeq_bool (hd 0 y) 0
  | S m' =>
      let h := (2 ^ m')%nat in
      let y_lo := if interleaved then evens y else firstn h y in
      let y_hi := if interleaved then odds y else skipn h y in
      let y1 := map (fun p : Q * Q => f (fst p) (snd p)) (combine y_lo y_hi) in
      let x1 := snd ((if interleaved then sci else sc) f frozen m' y1 (firstn h mask)) in
      let y2 := map (fun t : (Q * Q) * bool => snd (fst t) + (if snd t then - (1) else 1) * fst (fst t)) (combine (combine y_lo y_hi) x1) in
      sc_tie interleaved f frozen m' y1 (firstn h mask) || sc_tie interleaved f frozen m' y2 (skipn h mask)
  end.
Definition sc_case_t (m : nat) (mask : N) (frozen interleaved : bool) (clip : Q) (ys : list (list Q)) : list (N * bool) :=
  let mk := ofN (2 ^ m) mask in
  map (fun y => (bitsN (extract mk (fst ((if interleaved then sci else sc) (minsum_check clip) frozen m y mk))),
                 sc_tie interleaved (minsum_check clip) frozen m y mk)) ys.
Definition rank_checks : list bool :=
  map (rank_okb polar_rank) [2; 4; 8; 16; 32; 64; 128; 256; 512; 1024]%nat.
(* adding a bit to an index never makes it less reliable: position in the ranking increases *)

