From Coq Require Import NArith List Bool.
From KV Require Import Base.GF2 Algebra.BinPoly Codes.Cyclic.
Import ListNotations.
Local Open Scope N_scope.
(* cyclic structure: gs/hs already in the orientation in which bit i is the coefficient of X^i *)
Definition c03_cyclic (n k : nat) (gs hs rs ts : list N) (g : N) : list bool :=
  [code_pair_ok n k gs hs rs ts; shift_closed_ok n gs hs; rows_multiples_ok gs g; multiples_in_code_ok k g hs; divides_xn1 n g].
Definition c03_perfect (n k t : nat) : bool := perfect_ok n k t.
