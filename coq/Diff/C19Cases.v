(* Entry points evaluated by the harness for C19. *)
From Coq Require Import QArith Qabs Qminmax ZArith List Bool.
Import ListNotations.
From KV Require Import Diff.ConvShape.

Local Open Scope Q_scope.
Fixpoint qsumsq (l : list Q) : Q := match l with [] => 0 | x :: t => Qred (x * x + qsumsq t) end.
Fixpoint qdot (x v : list Q) : Q := match x, v with a :: x', b :: v' => Qred (a * b + qdot x' v') | _, _ => 0 end.
Fixpoint all3 (f : Q -> Q -> Q -> bool) (a b c : list Q) : bool :=
  match a, b, c with [], [], [] => true | x :: a', y :: b', z :: c' => f x y z && all3 f a' b' c' | _, _, _ => false end.
(* u = J v for the power constraints: u_i = s (v_i - x_i (x.v) / (n (c + eps))),  s^2 = T / (c + eps),  c = |x|^2 / n.
   Checked without square roots: sign u_i = sign w_i and u_i^2 (c + eps) = T w_i^2 (relative tolerance, scaled by max |w|) *)
Definition c19_constraint_jvp (tol T eps n : Q) (x v u : list Q) : bool :=
  let c := qsumsq x / n in
  let d := qdot x v in
  let w := fun xi vi => vi - xi * d / (n * (c + eps)) in
  let wmax := fold_right (fun p acc => Qmax (Qabs (w (fst p) (snd p))) acc) 0 (combine x v) in
  all3 (fun xi vi ui => let wi := w xi vi in
          Qle_bool (- tol * (T * wmax * wmax)) (ui * wi * (c + eps)) &&
          Qle_bool (Qabs (ui * ui * (c + eps) - T * (wi * wi))) (tol * (T * wmax * wmax))) x v u.
(* spatial sizes through a list of layers *)
Definition c19_through (ls : list layer) (h : Z) : Z := through ls h.
Definition c19_layer (l : layer) (h : Z) : Z := out_size l h.
(* SNR-configured additive noise with a fixed realisation: u = v + noise * (x.v) / |x|^2  (Diff/Deriv.v snr_noise_derivative with
   noise_i = g_i sqrt(c / L)); cross-multiplied, relative tolerance scaled by the largest |v_i| |x|^2 *)
Fixpoint all4 (f : Q -> Q -> Q -> Q -> bool) (a b c d : list Q) : bool :=
  match a, b, c, d with [], [], [], [] => true | x :: a', y :: b', z :: c', w :: d' => f x y z w && all4 f a' b' c' d' | _, _, _, _ => false end.
Definition c19_snr_jvp (tol : Q) (x v nz u : list Q) : bool :=
  let s2 := qsumsq x in
  let d := qdot x v in
  let m := fold_right (fun p acc => Qmax (Qabs (fst p) + Qabs (snd p)) acc) 0 (combine v nz) in
  all4 (fun xi vi ni ui => Qle_bool (Qabs (ui * s2 - (vi * s2 + ni * d))) (tol * (m * (s2 + Qabs d)))) x v nz u.
