(* Spatial-size arithmetic of nn.Conv2d / nn.ConvTranspose2d (dilation 1) and chains of such layers.
   conv:  out = floor((h + 2p - k) / s) + 1        tconv: out = (h - 1) s - 2p + k + op *)
From Coq Require Import ZArith List Lia Bool.
Import ListNotations.
Local Open Scope Z_scope.

(* a Block is a residual / attention / upsampling unit known only through what it does to the size (its two branches are
   convolutions that agree on every size, see stride_block_branches_agree / upsample_block below) *)
Inductive effect := Same | Half | Double | Other.
Inductive layer := Conv (k s p : Z) | TConv (k s p op : Z) | Block (e : effect).

Definition out_size (l : layer) (h : Z) : Z :=
  match l with
  | Conv k s p => (h + 2 * p - k) / s + 1
  | TConv k s p op => (h - 1) * s - 2 * p + k + op
  | Block Half => (h - 1) / 2 + 1
  | Block Double => 2 * h
  | Block _ => h
  end.
Definition through (ls : list layer) (h : Z) : Z := fold_left (fun acc l => out_size l acc) ls h.

(* classification of a layer by what it does to an (even, for halving) size *)
Definition effect_of (l : layer) : effect :=
  match l with
  | Conv k s p => if (s =? 1) && (k =? 2 * p + 1) then Same else if (s =? 2) && (k =? 2 * p + 1) then Half else Other
  | TConv k s p op => if (s =? 1) && (k =? 2 * p + 1) && (op =? 0) then Same
                      else if (s =? 2) && (k =? 2 * p + 1) && (op =? 1) then Double else Other
  | Block e => e
  end.
Fixpoint count_half (ls : list layer) : nat := match ls with [] => O | l :: r => (match effect_of l with Half => 1 | _ => 0 end + count_half r)%nat end.
Fixpoint count_double (ls : list layer) : nat := match ls with [] => O | l :: r => (match effect_of l with Double => 1 | _ => 0 end + count_double r)%nat end.
Definition classified (ls : list layer) : bool := forallb (fun l => match effect_of l with Other => false | _ => true end) ls.
(* an encoder: only Same / Half ; a decoder: only Same / Double *)
Definition down_only (ls : list layer) : bool := forallb (fun l => match effect_of l with Same | Half => true | _ => false end) ls.
Definition up_only (ls : list layer) : bool := forallb (fun l => match effect_of l with Same | Double => true | _ => false end) ls.

(* ---------------- facts ---------------- *)
Lemma same_conv k s p h : effect_of (Conv k s p) = Same -> out_size (Conv k s p) h = h.
Proof.
  unfold effect_of. destruct ((s =? 1) && (k =? 2 * p + 1)) eqn:E; [|destruct ((s =? 2) && (k =? 2 * p + 1)); discriminate].
  intros _. apply andb_true_iff in E. destruct E as [E1 E2]. apply Z.eqb_eq in E1, E2. subst. cbn [out_size].
  replace (h + 2 * p - (2 * p + 1)) with (h - 1) by lia. rewrite Z.div_1_r. lia.
Qed.
Lemma half_conv k s p h : effect_of (Conv k s p) = Half -> out_size (Conv k s p) (2 * h) = h.
Proof.
  unfold effect_of. destruct ((s =? 1) && (k =? 2 * p + 1)) eqn:E0; [discriminate|].
  destruct ((s =? 2) && (k =? 2 * p + 1)) eqn:E; [|discriminate].
  intros _. apply andb_true_iff in E. destruct E as [E1 E2]. apply Z.eqb_eq in E1, E2. subst. cbn [out_size].
  replace (2 * h + 2 * p - (2 * p + 1)) with (2 * h - 1) by lia.
  assert ((2 * h - 1) / 2 = h - 1) by (symmetry; apply Z.div_unique with (r := 1); lia). lia.
Qed.
(* for an odd size a halving layer gives the ceiling: (2h+1) -> h+1, so sizes that are not multiples of 2^d do not come back *)
Lemma half_conv_odd k s p h : effect_of (Conv k s p) = Half -> out_size (Conv k s p) (2 * h + 1) = h + 1.
Proof.
  unfold effect_of. destruct ((s =? 1) && (k =? 2 * p + 1)) eqn:E0; [discriminate|].
  destruct ((s =? 2) && (k =? 2 * p + 1)) eqn:E; [|discriminate].
  intros _. apply andb_true_iff in E. destruct E as [E1 E2]. apply Z.eqb_eq in E1, E2. subst. cbn [out_size].
  replace (2 * h + 1 + 2 * p - (2 * p + 1)) with (2 * h) by lia.
  assert ((2 * h) / 2 = h) by (symmetry; apply Z.div_unique with (r := 0); lia). lia.
Qed.
Lemma same_tconv k s p op h : effect_of (TConv k s p op) = Same -> out_size (TConv k s p op) h = h.
Proof.
  unfold effect_of. destruct ((s =? 1) && (k =? 2 * p + 1) && (op =? 0)) eqn:E; [|destruct ((s =? 2) && (k =? 2 * p + 1) && (op =? 1)); discriminate].
  intros _. apply andb_true_iff in E. destruct E as [E E3]. apply andb_true_iff in E. destruct E as [E1 E2].
  apply Z.eqb_eq in E1, E2, E3. subst. cbn [out_size]. lia.
Qed.
Lemma double_tconv k s p op h : effect_of (TConv k s p op) = Double -> out_size (TConv k s p op) h = 2 * h.
Proof.
  unfold effect_of. destruct ((s =? 1) && (k =? 2 * p + 1) && (op =? 0)) eqn:E0; [discriminate|].
  destruct ((s =? 2) && (k =? 2 * p + 1) && (op =? 1)) eqn:E; [|discriminate].
  intros _. apply andb_true_iff in E. destruct E as [E E3]. apply andb_true_iff in E. destruct E as [E1 E2].
  apply Z.eqb_eq in E1, E2, E3. subst. cbn [out_size]. lia.
Qed.

Lemma half_block h : out_size (Block Half) (2 * h) = h.
Proof. cbn [out_size]. assert ((2 * h - 1) / 2 = h - 1) by (symmetry; apply Z.div_unique with (r := 1); lia). lia. Qed.
(* the two branches of a stride-2 residual block (3x3 stride 2 padding 1, and 1x1 stride 2) agree on EVERY size, so the sum is well formed *)
Theorem stride_block_branches_agree h : out_size (Conv 3 2 1) h = out_size (Conv 1 2 0) h /\ out_size (Conv 3 2 1) h = out_size (Block Half) h.
Proof. cbn [out_size]. replace (h + 2 * 1 - 3) with (h - 1) by lia. replace (h + 2 * 0 - 1) with (h - 1) by lia. split; reflexivity. Qed.
(* a 3x3 stride-1 padding-1 convolution keeps the size; followed by PixelShuffle(2) the size doubles: both branches of an upsampling block *)
Theorem same_conv3 h : out_size (Conv 3 1 1) h = h.
Proof. apply same_conv. reflexivity. Qed.

(* an encoder made of Same / Half layers maps 2^d * h to h, where d is its number of halving layers *)
Theorem encoder_shape ls : down_only ls = true -> forall h, through ls (2 ^ Z.of_nat (count_half ls) * h) = h.
Proof.
  induction ls as [|l r IH]; intros Hd h; [unfold through; cbn [fold_left count_half]; change (Z.of_nat 0) with 0; rewrite Z.pow_0_r; lia|].
  cbn [down_only forallb] in Hd. apply andb_true_iff in Hd. destruct Hd as [Hl Hr]. specialize (IH Hr).
  unfold through in *. cbn [fold_left count_half]. destruct (effect_of l) eqn:El; try discriminate.
  - cbn [Nat.add]. destruct l as [k s p|k s p op|e]; [rewrite same_conv by exact El|rewrite same_tconv by exact El|cbn [effect_of] in El; subst e; cbn [out_size]]; apply IH.
  - replace (Z.of_nat (1 + count_half r)) with (Z.of_nat (count_half r) + 1) by lia.
    rewrite Z.pow_add_r by lia. replace (2 ^ Z.of_nat (count_half r) * 2 ^ 1 * h) with (2 * (2 ^ Z.of_nat (count_half r) * h)) by lia.
    destruct l as [k s p|k s p op|e].
    + rewrite half_conv by exact El. apply IH.
    + unfold effect_of in El; destruct ((s =? 1) && (k =? 2 * p + 1) && (op =? 0)); [discriminate|destruct ((s =? 2) && (k =? 2 * p + 1) && (op =? 1)); discriminate].
    + cbn [effect_of] in El; subst e. rewrite half_block. apply IH.
Qed.

(* a decoder made of Same / Double layers maps h to 2^u * h *)
Theorem decoder_shape ls : up_only ls = true -> forall h, through ls h = 2 ^ Z.of_nat (count_double ls) * h.
Proof.
  induction ls as [|l r IH]; intros Hd h; [unfold through; cbn [fold_left count_double]; change (Z.of_nat 0) with 0; rewrite Z.pow_0_r; lia|].
  cbn [up_only forallb] in Hd. apply andb_true_iff in Hd. destruct Hd as [Hl Hr]. specialize (IH Hr).
  unfold through in *. cbn [fold_left count_double]. destruct (effect_of l) eqn:El; try discriminate.
  - cbn [Nat.add]. destruct l as [k s p|k s p op|e]; [rewrite same_conv by exact El|rewrite same_tconv by exact El|cbn [effect_of] in El; subst e; cbn [out_size]]; apply IH.
  - assert (Hstep : out_size l h = 2 * h).
    { destruct l as [k s p|k s p op|e].
      - unfold effect_of in El; destruct ((s =? 1) && (k =? 2 * p + 1)); [discriminate|destruct ((s =? 2) && (k =? 2 * p + 1)); discriminate].
      - now apply double_tconv.
      - cbn [effect_of] in El; subst e. reflexivity. }
    rewrite Hstep, IH.
    replace (Z.of_nat (1 + count_double r)) with (Z.of_nat (count_double r) + 1) by lia. rewrite Z.pow_add_r by lia. lia.
Qed.

(* encoder then decoder with as many doublings as halvings: every size that is a multiple of 2^d comes back *)
Theorem autoencoder_shape enc dec : down_only enc = true -> up_only dec = true -> count_half enc = count_double dec ->
  forall h, through dec (through enc (2 ^ Z.of_nat (count_half enc) * h)) = 2 ^ Z.of_nat (count_half enc) * h.
Proof. intros He Hd Hc h. rewrite encoder_shape by exact He. rewrite decoder_shape by exact Hd. now rewrite Hc. Qed.

(* number of latent values per image: c_out * (H/2^d) * (W/2^d); with c_out = c_in * 4^d * ratio (calculate_num_filters_factor_image)
   the latent has ratio * (number of image values) entries *)
Theorem bandwidth_ratio (d : nat) (cin num den H W : Z) : 0 < den -> (cin * 4 ^ Z.of_nat d * num) mod den = 0 ->
  let cout := cin * 4 ^ Z.of_nat d * num / den in
  cout * H * W * den = num * (cin * (2 ^ Z.of_nat d * H) * (2 ^ Z.of_nat d * W)).
Proof.
  intros Hden Hm cout. unfold cout.
  assert (E : cin * 4 ^ Z.of_nat d * num = den * (cin * 4 ^ Z.of_nat d * num / den)) by (apply Z_div_exact_full_2; lia).
  assert (E4 : 4 ^ Z.of_nat d = 2 ^ Z.of_nat d * 2 ^ Z.of_nat d).
  { replace 4 with (2 ^ 2) by reflexivity. rewrite <- Z.pow_mul_r by lia. replace (2 * Z.of_nat d) with (Z.of_nat d + Z.of_nat d) by lia. apply Z.pow_add_r; lia. }
  set (q := cin * 4 ^ Z.of_nat d * num / den) in *. rewrite E4 in E. set (P := 2 ^ Z.of_nat d) in *.
  replace (q * H * W * den) with (den * q * H * W) by ring. rewrite <- E. ring.
Qed.
