(* C19 -- derivatives of the power constraints and analog channels along an arbitrary direction v at an arbitrary point x
   (Coquelicot).  A signal is a list of (x_j, v_j); the functions of t are the components of stage(x + t v) for a fixed
   noise realisation.  The closed forms proved here are what the implementation's autograd must return. *)
From Coq Require Import Reals Lra List.
From Coquelicot Require Import Coquelicot.
Import ListNotations.
Local Open Scope R_scope.

(* S(t) = sum_j (x_j + t v_j)^2 ,  c = S(0) = sum x_j^2 ,  x.v = sum x_j v_j *)
Fixpoint S (xv : list (R * R)) (t : R) : R := match xv with [] => 0 | (x, v) :: r => (x + t * v) * (x + t * v) + S r t end.
Fixpoint dot (xv : list (R * R)) : R := match xv with [] => 0 | (x, v) :: r => x * v + dot r end.
Fixpoint sumsq (xv : list (R * R)) : R := match xv with [] => 0 | (x, _) :: r => x * x + sumsq r end.

Lemma S_0 xv : S xv 0 = sumsq xv.
Proof. induction xv as [|[x v] r IH]; cbn [S sumsq]; [reflexivity|]. rewrite IH. ring. Qed.
Lemma S_nonneg xv t : 0 <= S xv t.
Proof. induction xv as [|[x v] r IH]; cbn [S]; [lra|]. pose proof (Rle_0_sqr (x + t * v)) as H. unfold Rsqr in H. lra. Qed.

Lemma is_derive_lin (x v t0 : R) : is_derive (fun t => x + t * v) t0 v.
Proof. auto_derive; [exact I|ring]. Qed.

Lemma is_derive_S xv t0 : is_derive (S xv) t0 (2 * (dot xv + t0 * (S (map (fun p => (snd p, 0)) xv) 0))).
Proof.
  induction xv as [|[x v] r IH].
  - cbn [S dot map]. replace (2 * (0 + t0 * 0)) with 0 by ring. apply (is_derive_const 0 t0).
  - cbn [S dot map snd].
    evar_last.
    + apply (is_derive_plus (fun t => (x + t * v) * (x + t * v)) (S r)); [|exact IH].
      apply Derive.is_derive_mult; apply is_derive_lin.
    + unfold plus; cbn. ring.
Qed.
Corollary is_derive_S_0 xv : is_derive (S xv) 0 (2 * dot xv).
Proof. evar_last; [apply is_derive_S|ring]. Qed.

Lemma is_derive_div_const (f : R -> R) (x0 l n : R) : is_derive f x0 l -> is_derive (fun t => f t / n) x0 (l / n).
Proof.
  intro H. replace (l / n) with (/ n * l) by (unfold Rdiv; ring).
  apply is_derive_ext with (f := fun t => / n * f t).
  - intro t. unfold Rdiv. apply Rmult_comm.
  - now apply is_derive_scal.
Qed.

(* ---- power constraints: component (xi + t vi) * sqrt (T / (S(t)/n + eps)) ; n = 1 for the total-power constraint ---- *)
Definition scale (T eps n : R) (xv : list (R * R)) (t : R) : R := sqrt (T / (S xv t / n + eps)).
Definition constrained (T eps n : R) (xv : list (R * R)) (xi vi : R) (t : R) : R := (xi + t * vi) * scale T eps n xv t.

Lemma is_derive_scale T eps n xv : 0 < T -> 0 < eps -> 0 < n ->
  is_derive (scale T eps n xv) 0 (- scale T eps n xv 0 * dot xv / (n * (sumsq xv / n + eps))).
Proof.
  intros HT He Hn. unfold scale.
  assert (Hc : 0 < S xv 0 / n + eps) by (pose proof (S_nonneg xv 0); assert (0 <= S xv 0 / n) by (apply Rle_mult_inv_pos; assumption); lra).
  assert (Hq : 0 < T / (S xv 0 / n + eps)) by (apply Rdiv_lt_0_compat; assumption).
  evar_last.
  - apply is_derive_sqrt; [|exact Hq].
    apply (is_derive_div (fun _ => T) (fun t => S xv t / n + eps)); [apply is_derive_const| |lra].
    apply (is_derive_plus (fun t => S xv t / n) (fun _ => eps)); [|apply is_derive_const].
    apply is_derive_div_const. apply is_derive_S_0.
  - unfold plus, zero, scal, mult; cbn. unfold mult; cbn. rewrite <- S_0.
    pose proof (sqrt_lt_R0 _ Hq) as Hs. set (s := sqrt (T / (S xv 0 / n + eps))) in *.
    assert (Es : s * s = T / (S xv 0 / n + eps)) by (apply sqrt_sqrt; lra).
    set (c := S xv 0 / n + eps) in *.
    assert (ET : T = s * s * c) by (rewrite Es; field; lra).
    rewrite ET at 1. field. repeat split; lra.
Qed.

(* d/dt at 0 of the i-th output of a total / average power constraint applied to x + t v *)
Theorem constraint_directional_derivative T eps n xv xi vi : 0 < T -> 0 < eps -> 0 < n ->
  is_derive (constrained T eps n xv xi vi) 0
    (scale T eps n xv 0 * (vi - xi * dot xv / (n * (sumsq xv / n + eps)))).
Proof.
  intros HT He Hn. unfold constrained. evar_last.
  - apply (Derive.is_derive_mult (fun t => xi + t * vi) (scale T eps n xv)); [apply is_derive_lin|now apply is_derive_scale].
  - rewrite Rmult_0_l, Rplus_0_r. field.
    pose proof (S_nonneg xv 0) as H0. rewrite S_0 in H0. assert (0 < eps * n) by (apply Rmult_lt_0_compat; assumption). split; lra.
Qed.

(* ---- channels with a fixed noise realisation ---- *)
(* additive noise of configured power: y_i(t) = x_i + t v_i + n_i *)
Theorem additive_noise_derivative xi vi ni : is_derive (fun t => xi + t * vi + ni) 0 vi.
Proof. auto_derive; [exact I|ring]. Qed.

(* SNR-configured Gaussian / Laplacian noise: y_i(t) = x_i + t v_i + g_i * sqrt ((S(t)/n) / L) ; the noise scale follows the input power *)
Theorem snr_noise_derivative L n xv xi vi gi : 0 < L -> 0 < n -> 0 < sumsq xv ->
  is_derive (fun t => xi + t * vi + gi * sqrt (S xv t / n / L)) 0 (vi + gi * dot xv / (n * L * sqrt (sumsq xv / n / L))).
Proof.
  intros HL Hn Hc.
  assert (Hq : 0 < S xv 0 / n / L) by (rewrite S_0; apply Rdiv_lt_0_compat; [apply Rdiv_lt_0_compat|]; assumption).
  evar_last.
  - apply (is_derive_plus (fun t => xi + t * vi) (fun t => gi * sqrt (S xv t / n / L))); [apply is_derive_lin|].
    apply is_derive_scal. apply is_derive_sqrt; [|exact Hq].
    apply (is_derive_div_const (fun t => S xv t / n)). apply is_derive_div_const. apply is_derive_S_0.
  - unfold plus, scal, mult; cbn. unfold mult; cbn. rewrite S_0 in *.
    pose proof (sqrt_lt_R0 _ Hq) as Hs. field. repeat split; lra.
Qed.

(* flat fading with supplied coefficient h = (hr, hi) on a complex sample: y = h (x + t v) + n ; both parts *)
Theorem fading_derivative hr hi xr xim vr vim nr nim :
  is_derive (fun t => hr * (xr + t * vr) - hi * (xim + t * vim) + nr) 0 (hr * vr - hi * vim) /\
  is_derive (fun t => hr * (xim + t * vim) + hi * (xr + t * vr) + nim) 0 (hr * vim + hi * vr).
Proof. split; auto_derive; try exact I; ring. Qed.

(* a stage that detaches the scale from the graph would return  s * v_i  instead: the two differ exactly by the projection term *)
Theorem detached_scale_differs T eps n xv xi vi : 0 < T -> 0 < eps -> 0 < n -> xi <> 0 -> dot xv <> 0 ->
  scale T eps n xv 0 * (vi - xi * dot xv / (n * (sumsq xv / n + eps))) <> scale T eps n xv 0 * vi.
Proof.
  intros HT He Hn Hx Hd E.
  pose proof (S_nonneg xv 0) as H0. rewrite S_0 in H0. assert (Hq : 0 <= sumsq xv / n) by (apply Rle_mult_inv_pos; assumption).
  assert (Hs : 0 < scale T eps n xv 0).
  { unfold scale. apply sqrt_lt_R0. rewrite S_0. apply Rdiv_lt_0_compat; lra. }
  assert (E2 : xi * dot xv / (n * (sumsq xv / n + eps)) = 0).
  { apply Rmult_eq_reg_l with (scale T eps n xv 0); [|lra]. lra. }
  assert (E3 : xi * dot xv = 0).
  { assert (Hd0 : n * (sumsq xv / n + eps) <> 0) by (apply Rgt_not_eq; apply Rmult_lt_0_compat; lra).
    unfold Rdiv in E2. apply Rmult_integral in E2. destruct E2 as [E2|E2]; [exact E2|]. exfalso. apply (Rinv_neq_0_compat _ Hd0). exact E2. }
  apply Rmult_integral in E3. destruct E3; contradiction.
Qed.
