(* Helpers for the generated correspondence case files of C16 (no proofs). *)
From Coq Require Import NArith QArith List Bool Arith.
From KV Require Import Metrics.ErrorRate.
Import ListNotations.

Definition dig (acc v : N) : N := ((acc * 1000003 + v + 1) mod 2305843009213693951)%N.
Definition digest (l : list N) : N := fold_left dig l 7%N.

(* op codes: i < length pool -> Update pool[i]; length pool -> Compute; length pool + 1 -> Reset *)
Definition decode {B} (pool : list B) (dflt : B) (c : nat) : op B :=
  if (c <? length pool)%nat then Update (nth c pool dflt)
  else if (c =? length pool)%nat then Compute else Reset.
Definition out_code (o : out) : list N :=
  match o with Rate n d => [N.succ n; d] | Rejected => [0%N] | Quiet => [] end.
Definition trace {B} (cnt : B -> option (N * N)) (pool : list B) (dflt : B) (codes : list nat) : list N :=
  let '(s, outs) := run cnt init (map (decode pool dflt) codes) in
  total s :: errs s :: flat_map out_code outs.

(* all code sequences of length exactly len over {0..k-1}, lexicographic *)
Fixpoint seqs (k len : nat) : list (list nat) :=
  match len with O => [[]] | S l => flat_map (fun c => map (cons c) (seqs k l)) (seq 0 k) end.
(* one digest per (first code, length): sequences c :: tail with |tail| = len *)
Definition shard {B} (cnt : B -> option (N * N)) (pool : list B) (dflt : B) (k c len : nat) : N :=
  digest (flat_map (fun tl => trace cnt pool dflt (c :: tl)) (seqs k len)).

Definition ber_cnt (t : Q) (b : list (Q * Q)) : option (N * N) := Some (ber_count t b).
Definition ber_shard t pool k c len := shard (ber_cnt t) pool [] k c len.
Definition bler_shard t bsz pool k c len := shard (bler_count t bsz) pool [] k c len.
Definition ber_trace t pool codes := trace (ber_cnt t) pool [] codes.
Definition bler_trace t bsz pool codes := trace (bler_count t bsz) pool [] codes.
Definition oneshot_code (c : option (N * N)) : list N :=
  match c with Some c => out_code (oneshot c) | None => [0%N] end.

(* a batch of multi-dimensional items (each a list of rows): blocks are cut from the flattened item *)
Definition bler_multidim (bs : nat) (items : list (list (list (Q * Q)))) : list N :=
  oneshot_code (bler_count 0 (Some bs) (map (@concat (Q * Q)) items)).
