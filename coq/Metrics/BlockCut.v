(* C16 -- where the blocks of a multi-dimensional item are cut.
   BlockErrorRate flattens each batch item and cuts consecutive blocks of block_size elements from the flattened item.
   Cutting each row of the item separately (what Tensor.unfold along the last axis does: whole blocks only, the rest of the
   row is dropped) is the same thing when block_size divides the row length, and a different thing otherwise, even when
   block_size divides the number of elements of the item. *)
From Coq Require Import List Bool Arith Lia.
Import ListNotations.
From KV Require Import Base.Layout Base.LayoutFacts Batch.Pure.

Definition flat_cut {A} (bs : nat) (rows : list (list A)) : list (list A) := chunks bs (concat rows).
(* whole blocks of each row, remainder dropped *)
Definition unfold_row {A} (bs : nat) (r : list A) : list (list A) := filter (fun b => Nat.eqb (length b) bs) (chunks bs r).
Definition unfold_cut {A} (bs : nat) (rows : list (list A)) : list (list A) := concat (map (unfold_row bs) rows).

Lemma filter_all {A} (p : A -> bool) l : Forall (fun x => p x = true) l -> filter p l = l.
Proof. induction 1 as [|x l Hx _ IH]; cbn [filter]; [reflexivity|]. rewrite Hx, IH. reflexivity. Qed.

Lemma unfold_row_whole {A} bs (r : list A) : 0 < bs -> Nat.modulo (length r) bs = 0 -> unfold_row bs r = chunks bs r.
Proof.
  intros Hbs Hm. unfold unfold_row. apply filter_all.
  pose proof (chunks_fuel_lengths (length r) bs r Hbs (le_n _) Hm) as F. fold (chunks bs r) in F.
  eapply Forall_impl; [|exact F]. cbn beta. intros b Hb. apply Nat.eqb_eq, Hb.
Qed.

Lemma concat_length_mod {A} bs (rows : list (list A)) : 0 < bs -> Forall (fun r => Nat.modulo (length r) bs = 0) rows ->
  Nat.modulo (length (concat rows)) bs = 0.
Proof.
  intros Hbs. induction 1 as [|r rows Hr _ IH]; cbn [concat].
  - cbn [length]. apply Nat.mod_0_l. lia.
  - rewrite app_length. rewrite Nat.add_mod by lia. rewrite Hr, IH. cbn [Nat.add]. apply Nat.mod_0_l. lia.
Qed.

Lemma chunks_nil {A} bs : @chunks A bs [] = [].
Proof. reflexivity. Qed.

(* block size divides every row: cutting the rows is cutting the flattened item *)
Theorem unfold_cut_agrees {A} bs (rows : list (list A)) : 0 < bs -> Forall (fun r => Nat.modulo (length r) bs = 0) rows ->
  unfold_cut bs rows = flat_cut bs rows.
Proof.
  intros Hbs. unfold unfold_cut, flat_cut. induction 1 as [|r rows Hr Hrows IH]; cbn [map concat].
  - symmetry. apply chunks_nil.
  - rewrite IH. rewrite unfold_row_whole by assumption. symmetry.
    apply chunks_app; [exact Hbs|exact Hr|]. apply concat_length_mod; assumption.
Qed.

(* block size divides the item but not its rows: blocks are lost (the denominator changes) and differences in the dropped
   positions are not seen -- the shape of the seeded change C16_f *)
Theorem unfold_cut_refuted :
  exists (rows : list (list bool)) (bs : nat), 0 < bs /\ Nat.modulo (length (concat rows)) bs = 0 /\
    length (unfold_cut bs rows) <> length (flat_cut bs rows) /\
    (exists rows', concat rows' <> concat rows /\ unfold_cut bs rows' = unfold_cut bs rows).
Proof.
  exists [[false; false; false]; [false; false; false]], 2. repeat split.
  - lia.
  - vm_compute. discriminate.
  - exists [[false; false; true]; [false; false; false]]. split; [discriminate|reflexivity].
Qed.
