From Coq Require Import NArith QArith List Bool Arith Lia Lqa Permutation.
From KV Require Import Metrics.ErrorRate.
Import ListNotations.

Definition st_of (c : N * N) : st := {| total := fst c; errs := snd c |}.
Definition ctn (l : list bool) : nat := length (filter (fun b => b) l).
Lemma count_true_ctn l : count_true l = N.of_nat (ctn l). Proof. reflexivity. Qed.
Lemma ctn_app a b : ctn (a ++ b) = (ctn a + ctn b)%nat.
Proof. unfold ctn. now rewrite filter_app, app_length. Qed.
Lemma ctn_le l : (ctn l <= length l)%nat.
Proof. unfold ctn. induction l as [|x l IH]; simpl; [lia|]. destruct x; simpl; lia. Qed.
Lemma count_true_app a b : count_true (a ++ b) = (count_true a + count_true b)%N.
Proof. rewrite !count_true_ctn, ctn_app. lia. Qed.

(* ---------------- streaming state machine ---------------- *)
Section Stream.
Context {B : Type} (cnt : B -> option (N * N)).

Lemma sum_counts_snoc acc b :
  sum_counts cnt (acc ++ [b]) =
  match cnt b with Some (n, e) => (fst (sum_counts cnt acc) + n, snd (sum_counts cnt acc) + e)%N | None => sum_counts cnt acc end.
Proof. unfold sum_counts. rewrite fold_left_app. simpl. reflexivity. Qed.

Lemma run_cons_fst s o t : fst (run cnt s (o :: t)) = fst (run cnt (fst (step cnt s o)) t).
Proof. cbn [run]. destruct (step cnt s o) as [s1 r]. cbn [fst]. destruct (run cnt s1 t) as [s2 rs]. reflexivity. Qed.

Theorem run_state ops : forall acc,
  fst (run cnt (st_of (sum_counts cnt acc)) ops) = st_of (sum_counts cnt (since_reset cnt acc ops)).
Proof.
  induction ops as [|o ops IH]; intro acc; [reflexivity|].
  rewrite run_cons_fst. cbn [since_reset]. destruct o as [b| |]; cbn [step].
  - destruct (cnt b) as [[n e]|] eqn:Hc; cbn [fst].
    + rewrite <- IH. rewrite sum_counts_snoc, Hc. reflexivity.
    + apply IH.
  - cbn [fst]. apply IH.
  - cbn [fst]. apply (IH []).
Qed.

Lemma run_app ops1 : forall s ops2,
  run cnt s (ops1 ++ ops2) =
  let '(s1, r1) := run cnt s ops1 in let '(s2, r2) := run cnt s1 ops2 in (s2, r1 ++ r2).
Proof.
  induction ops1 as [|o ops1 IH]; intros s ops2; cbn [run app].
  - destruct (run cnt s ops2). reflexivity.
  - destruct (step cnt s o) as [s1 r]. rewrite IH.
    destruct (run cnt s1 ops1) as [s1' r1]. destruct (run cnt s1' ops2) as [s2 r2]. reflexivity.
Qed.

(* every compute() returns the one-shot value of the data accepted since the last reset, whatever the
   history of update / compute / reset operations before it *)
Theorem compute_refines_oneshot p :
  exists s rs, run cnt init (p ++ [Compute]) = (s, rs ++ [oneshot (sum_counts cnt (since_reset cnt [] p))])
               /\ s = st_of (sum_counts cnt (since_reset cnt [] p)).
Proof.
  rewrite run_app. pose proof (run_state p []) as H. change (st_of (sum_counts cnt [])) with init in H.
  destruct (run cnt init p) as [s1 r1]. cbn [fst] in H. subst s1. cbn [run step].
  eexists. eexists. split; [reflexivity|reflexivity].
Qed.

Theorem reset_restores_init p q : fst (run cnt init (p ++ Reset :: q)) = fst (run cnt init q).
Proof.
  rewrite run_app. destruct (run cnt init p) as [s1 r1]. cbn [run step].
  destruct (run cnt init q) as [s2 r2]. reflexivity.
Qed.

Lemma sum_counts_fold l : forall a,
  fold_left (fun a b => match cnt b with Some (n, e) => (fst a + n, snd a + e)%N | None => a end) l a =
  ((fst a + fst (sum_counts cnt l))%N, (snd a + snd (sum_counts cnt l))%N).
Proof.
  unfold sum_counts. induction l as [|b l IH]; intro a; cbn [fold_left].
  - destruct a as [x y]. cbn [fst snd]. rewrite !N.add_0_r. reflexivity.
  - rewrite IH. rewrite (IH (match cnt b with Some (n, e) => _ | None => _ end)).
    destruct (cnt b) as [[n e]|]; cbn [fst snd]; rewrite ?N.add_0_l, ?N.add_assoc; reflexivity.
Qed.

Lemma sum_counts_app l1 l2 :
  sum_counts cnt (l1 ++ l2) = ((fst (sum_counts cnt l1) + fst (sum_counts cnt l2))%N, (snd (sum_counts cnt l1) + snd (sum_counts cnt l2))%N).
Proof. unfold sum_counts at 1. rewrite fold_left_app. fold (sum_counts cnt l1). apply sum_counts_fold. Qed.

(* the accumulated counts do not depend on the order in which the batches arrive *)
Theorem sum_counts_perm l l' : Permutation l l' -> sum_counts cnt l = sum_counts cnt l'.
Proof.
  induction 1 as [|x l l' _ IH|x y l|l l' l'' _ IH1 _ IH2].
  - reflexivity.
  - change (x :: l) with ([x] ++ l). change (x :: l') with ([x] ++ l'). rewrite !sum_counts_app, IH. reflexivity.
  - change (y :: x :: l) with ([y] ++ [x] ++ l). change (x :: y :: l) with ([x] ++ [y] ++ l).
    rewrite !sum_counts_app. cbn [fst snd]. f_equal; lia.
  - congruence.
Qed.
End Stream.

(* ---------------- BER ---------------- *)
Lemma ber_count_app t a b :
  ber_count t (a ++ b) = ((fst (ber_count t a) + fst (ber_count t b))%N, (snd (ber_count t a) + snd (ber_count t b))%N).
Proof. unfold ber_count. cbn [fst snd]. rewrite app_length, map_app, count_true_app. f_equal. lia. Qed.

(* accumulating any split of the data = one shot on the concatenation *)
Theorem ber_stream_eq_concat t l : sum_counts (fun b => Some (ber_count t b)) l = ber_count t (concat l).
Proof.
  induction l as [|b l IH] using rev_ind; [reflexivity|].
  rewrite sum_counts_snoc, concat_app, ber_count_app, IH. simpl. rewrite app_nil_r. reflexivity.
Qed.

Theorem ber_symmetric t b : ber_count t (map (fun p => (snd p, fst p)) b) = ber_count t b.
Proof.
  unfold ber_count. rewrite map_length, map_map. f_equal. f_equal. apply map_ext.
  intros [x y]. unfold ber_err. simpl. apply xorb_comm.
Qed.

Lemma ctn_zero_iff l : ctn l = 0%nat <-> forall x, In x l -> x = false.
Proof.
  unfold ctn. induction l as [|x l IH]; simpl; [tauto|]. destruct x; simpl.
  - split; [discriminate|]. intro H. specialize (H true (or_introl eq_refl)). discriminate.
  - rewrite IH. split; intros H y; [intros [<-|Hy]; auto|intro Hy; apply H; now right].
Qed.

(* BER = 0 exactly when the thresholded sequences agree everywhere *)
Theorem ber_zero_iff_equal t b :
  snd (ber_count t b) = 0%N <-> forall p, In p b -> gtb (fst p) t = gtb (snd p) t.
Proof.
  unfold ber_count. cbn [snd]. rewrite count_true_ctn.
  split.
  - intros H p Hp. assert (H0 : ctn (map (ber_err t) b) = 0%nat) by lia.
    rewrite ctn_zero_iff in H0. specialize (H0 (ber_err t p) (in_map _ _ _ Hp)).
    unfold ber_err in H0. now apply xorb_eq.
  - intro H. assert (H0 : ctn (map (ber_err t) b) = 0%nat).
    { apply ctn_zero_iff. intros x Hx. apply in_map_iff in Hx. destruct Hx as [p [<- Hp]].
      unfold ber_err. rewrite (H p Hp). apply xorb_nilpotent. }
    lia.
Qed.

Theorem ber_bounds t b : (snd (ber_count t b) <= fst (ber_count t b))%N.
Proof. unfold ber_count. cbn [fst snd]. rewrite count_true_ctn. pose proof (ctn_le (map (ber_err t) b)). rewrite map_length in H. lia. Qed.

(* ---------------- blocks ---------------- *)
Lemma chunks_fuel_concat {A} f : forall bs (l : list A), (0 < bs)%nat -> (length l <= f)%nat -> concat (chunks_fuel f bs l) = l.
Proof.
  induction f as [|f IH]; intros bs l Hbs Hl.
  - destruct l; [reflexivity|simpl in Hl; lia].
  - destruct l as [|x l]; [reflexivity|]. cbn [chunks_fuel concat].
    rewrite IH; [apply firstn_skipn|assumption|].
    rewrite skipn_length. cbn [length] in *. lia.
Qed.
Lemma chunks_concat {A} bs (l : list A) : (0 < bs)%nat -> concat (chunks bs l) = l.
Proof. intro H. apply chunks_fuel_concat; [assumption|lia]. Qed.

Lemma chunks_fuel_len {A} f : forall bs (l : list A), Forall (fun blk => (length blk <= bs)%nat) (chunks_fuel f bs l).
Proof.
  induction f as [|f IH]; intros bs l; [constructor|]. destruct l as [|x l]; [constructor|].
  cbn [chunks_fuel]. constructor; [|apply IH]. rewrite firstn_length. lia.
Qed.

Lemma any_true_ctn blk : any blk = true -> (1 <= ctn blk)%nat.
Proof.
  unfold any, ctn. induction blk as [|x blk IH]; simpl; [discriminate|]. destruct x; simpl; [lia|]. exact IH.
Qed.
Lemma any_false_ctn blk : any blk = false -> ctn blk = 0%nat.
Proof.
  unfold any, ctn. induction blk as [|x blk IH]; simpl; [reflexivity|]. destruct x; simpl; [discriminate|]. exact IH.
Qed.

(* for any partition of the error flags into blocks of at most bs elements:
   #bad blocks <= #errors <= bs * #bad blocks, and #bad blocks <= #blocks *)
Lemma ctn_cons x l : ctn (x :: l) = ((if x then 1 else 0) + ctn l)%nat.
Proof. unfold ctn. destruct x; reflexivity. Qed.

Theorem blocks_sandwich bs (blocks : list (list bool)) :
  Forall (fun blk => (length blk <= bs)%nat) blocks ->
  (ctn (map any blocks) <= ctn (concat blocks))%nat /\
  (ctn (concat blocks) <= bs * ctn (map any blocks))%nat /\
  (ctn (map any blocks) <= length blocks)%nat.
Proof.
  intro H. induction H as [|blk blocks Hb _ IH]; [cbn; lia|].
  destruct IH as [I1 [I2 I3]]. cbn [map concat length]. rewrite ctn_app, ctn_cons.
  destruct (any blk) eqn:Ha.
  - pose proof (any_true_ctn blk Ha). pose proof (ctn_le blk). nia.
  - rewrite (any_false_ctn blk Ha). lia.
Qed.

(* BER <= BLER <= min(1, B * BER) for every block size B > 0 dividing the length, as cross-multiplied
   inequalities between the exact counts (errors c of len = nb*B bits, bad of nb blocks) *)
Theorem ber_le_bler_le bs (flags : list bool) nb : (0 < bs)%nat -> length flags = (nb * bs)%nat ->
  let c := ctn flags in let bad := ctn (map any (chunks bs flags)) in
  (c * nb <= bad * length flags)%nat /\ (bad * length flags <= bs * c * nb)%nat /\ (bad <= length (chunks bs flags))%nat.
Proof.
  intros Hbs Hlen c bad.
  pose proof (blocks_sandwich bs (chunks bs flags) (chunks_fuel_len _ _ _)) as [H1 [H2 H3]].
  rewrite chunks_concat in H1, H2 by assumption. fold c in H1, H2. fold bad in H1, H2, H3.
  rewrite Hlen. split; [|split; [|assumption]]; nia.
Qed.

(* ---------------- BLER ---------------- *)
Lemma all_some_app {A} (a b : list (option A)) :
  all_some (a ++ b) = match all_some a, all_some b with Some x, Some y => Some (x ++ y) | _, _ => None end.
Proof.
  induction a as [|[x|] a IH]; simpl.
  - destruct (all_some b); reflexivity.
  - rewrite IH. destruct (all_some a); [|reflexivity]. destruct (all_some b); reflexivity.
  - reflexivity.
Qed.

Theorem bler_count_app t bsz a b ca cb : bler_count t bsz a = Some ca -> bler_count t bsz b = Some cb ->
  bler_count t bsz (a ++ b) = Some ((fst ca + fst cb)%N, (snd ca + snd cb)%N).
Proof.
  unfold bler_count, bler_flags. rewrite map_app, all_some_app.
  destruct (all_some (map _ a)) as [x|]; [|discriminate]. destruct (all_some (map _ b)) as [y|]; [|discriminate].
  intros Ha Hb. injection Ha as <-. injection Hb as <-. cbn [fst snd].
  rewrite concat_app, map_app, app_length, count_true_app. f_equal. f_equal. lia.
Qed.

Theorem bler_rejects_nondivisor t bs row b1 b2 : (0 < bs)%nat -> Nat.modulo (length row) bs <> 0%nat ->
  bler_count t (Some bs) (b1 ++ row :: b2) = None.
Proof.
  intros Hbs Hm. unfold bler_count, bler_flags. rewrite map_app, all_some_app. cbn [map all_some].
  unfold row_blocks at 2. rewrite map_length.
  destruct (Nat.eqb_spec bs 0); [lia|]. destruct (Nat.eqb_spec (Nat.modulo (length row) bs) 0); [contradiction|].
  destruct (all_some (map _ b1)); reflexivity.
Qed.

Lemma gtb_comp a b t : a == b -> gtb a t = gtb b t.
Proof. intro H. unfold gtb. f_equal. destruct (Qle_bool a t) eqn:E1, (Qle_bool b t) eqn:E2; try reflexivity.
  - apply Qle_bool_iff in E1. rewrite H in E1. apply Qle_bool_iff in E1. congruence.
  - apply Qle_bool_iff in E2. rewrite <- H in E2. apply Qle_bool_iff in E2. congruence.
Qed.
Lemma qabs_sym x y : qabs (x - y) == qabs (y - x).
Proof.
  unfold qabs. destruct (Qle_bool 0 (x - y)) eqn:E1, (Qle_bool 0 (y - x)) eqn:E2.
  - apply Qle_bool_iff in E1, E2. apply Qle_antisym; lra.
  - ring.
  - ring.
  - assert (~ 0 <= x - y) by (intro H; apply Qle_bool_iff in H; congruence).
    assert (~ 0 <= y - x) by (intro H'; apply Qle_bool_iff in H'; congruence). lra.
Qed.
Theorem bler_symmetric t bsz b :
  bler_count t bsz (map (map (fun p => (snd p, fst p))) b) = bler_count t bsz b.
Proof.
  unfold bler_count, bler_flags. rewrite map_map.
  replace (map (fun x => row_blocks bsz (map (bler_err t) (map (fun p => (snd p, fst p)) x))) b)
    with (map (fun row => row_blocks bsz (map (bler_err t) row)) b); [reflexivity|].
  apply map_ext. intro row. f_equal. rewrite map_map. apply map_ext. intros [x y]. unfold bler_err. simpl.
  apply gtb_comp, qabs_sym.
Qed.
