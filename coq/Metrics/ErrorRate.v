(* Executable model of kaira/metrics/signal/ber.py (BitErrorRate) and bler.py (BlockErrorRate and its aliases
   SER / FER / SymbolErrorRate / FrameErrorRate), and of StandardMetrics.bit_error_rate / block_error_rate in
   kaira/benchmarks/metrics.py.  Values are exact rationals, counters unbounded N (int64 overflow is an
   assumption), rates are returned as the pair (numerator, denominator).  No proofs here. *)
From Coq Require Import NArith QArith List Bool Arith.
Import ListNotations.

Definition gtb (v t : Q) : bool := negb (Qle_bool v t).          (* v > t *)
Definition qabs (v : Q) : Q := if Qle_bool 0 v then v else - v.

(* ---- per-batch counts ---- *)
(* BER: a batch is the element-wise pairing of x and y (equal shapes; complex inputs contribute their real and
   imaginary parts as two elements); an element is in error when the thresholded values differ *)
Definition ber_err (t : Q) (p : Q * Q) : bool := xorb (gtb (fst p) t) (gtb (snd p) t).
Definition count_true (l : list bool) : N := N.of_nat (length (filter (fun b => b) l)).
Definition ber_count (t : Q) (b : list (Q * Q)) : N * N :=
  (N.of_nat (length b), count_true (map (ber_err t) b)).

(* BLER: a batch is a list of rows (first dimension), each row the flattened remaining dimensions;
   an element is in error when |x - y| > threshold; a block is in error when any element is *)
Definition bler_err (t : Q) (p : Q * Q) : bool := gtb (qabs (fst p - snd p)) t.
Fixpoint chunks_fuel {A} (fuel : nat) (bs : nat) (l : list A) : list (list A) :=
  match fuel with
  | O => []
  | S f => match l with [] => [] | _ => firstn bs l :: chunks_fuel f bs (skipn bs l) end
  end.
Definition chunks {A} (bs : nat) (l : list A) : list (list A) := chunks_fuel (length l) bs l.
Definition any (l : list bool) : bool := existsb (fun b => b) l.

(* _reshape_into_blocks on one row: None = ValueError (row length not divisible by block_size) *)
Definition row_blocks (bsz : option nat) (row : list bool) : option (list (list bool)) :=
  match bsz with
  | None => Some [row]
  | Some bs => if (bs =? 0)%nat then None else
               if (Nat.modulo (length row) bs =? 0)%nat then Some (chunks bs row) else None
  end.
Fixpoint all_some {A} (l : list (option A)) : option (list A) :=
  match l with
  | [] => Some []
  | None :: _ => None
  | Some x :: t => match all_some t with Some r => Some (x :: r) | None => None end
  end.
Definition bler_flags (t : Q) (bsz : option nat) (b : list (list (Q * Q))) : option (list bool) :=
  match all_some (map (fun row => row_blocks bsz (map (bler_err t) row)) b) with
  | Some bl => Some (map any (concat bl))
  | None => None
  end.
Definition bler_count (t : Q) (bsz : option nat) (b : list (list (Q * Q))) : option (N * N) :=
  match bler_flags t bsz b with
  | Some fl => Some (N.of_nat (length fl), count_true fl)
  | None => None
  end.

(* ---- the streaming state machine shared by both metrics ---- *)
Record st := { total : N; errs : N }.
Definition init : st := {| total := 0; errs := 0 |}.
Inductive op (B : Type) := Update (b : B) | Compute | Reset.
Arguments Update {B} b. Arguments Compute {B}. Arguments Reset {B}.
Inductive out := Rate (num den : N) | Rejected | Quiet.

(* compute: errors / max(total, 1) *)
Definition rate (s : st) : out := Rate (errs s) (N.max (total s) 1).

Definition step {B} (cnt : B -> option (N * N)) (s : st) (o : op B) : st * out :=
  match o with
  | Update b => match cnt b with
                | Some (n, e) => ({| total := total s + n; errs := errs s + e |}, Quiet)
                | None => (s, Rejected)           (* ValueError raised before the counters are touched *)
                end
  | Compute => (s, rate s)
  | Reset => (init, Quiet)
  end.
Fixpoint run {B} (cnt : B -> option (N * N)) (s : st) (ops : list (op B)) : st * list out :=
  match ops with
  | [] => (s, [])
  | o :: t => let '(s1, r) := step cnt s o in let '(s2, rs) := run cnt s1 t in (s2, r :: rs)
  end.

(* one-shot forward (reduction mean): errors / total, 0 when there is nothing *)
Definition oneshot (c : N * N) : out := Rate (snd c) (N.max (fst c) 1).

(* specification side: the accepted batches since the last reset *)
Fixpoint since_reset {B} (cnt : B -> option (N * N)) (acc : list B) (ops : list (op B)) : list B :=
  match ops with
  | [] => acc
  | Update b :: t => since_reset cnt (match cnt b with Some _ => acc ++ [b] | None => acc end) t
  | Compute :: t => since_reset cnt acc t
  | Reset :: t => since_reset cnt [] t
  end.
Definition sum_counts {B} (cnt : B -> option (N * N)) (l : list B) : N * N :=
  fold_left (fun a b => match cnt b with Some (n, e) => (fst a + n, snd a + e)%N | None => a end) l (0, 0)%N.

(* benchmark helpers on 1-D inputs: bit_error_rate = #(x != y) / numel ; block_error_rate truncates to whole blocks *)
Definition helper_ber (b : list (Q * Q)) : N * N :=
  (N.of_nat (length b), count_true (map (fun p => negb (Qeq_bool (fst p) (snd p))) b)).
Definition helper_bler (bs : nat) (b : list (Q * Q)) : N * N :=
  let nb := Nat.div (length b) bs in
  let fl := map any (chunks bs (map (fun p => negb (Qeq_bool (fst p) (snd p))) (firstn (nb * bs) b))) in
  (N.of_nat nb, count_true fl).
