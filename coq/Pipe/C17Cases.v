(* Helpers for the generated correspondence case files of C17 (no proofs). Values are traces: the list of stage
   ids applied so far; a stage appends its id. *)
From Coq Require Import List Bool Arith ZArith.
From KV Require Import Pipe.Pipeline.
Import ListNotations.

Definition TV := list nat.
Definition tapp (s : nat) (v : TV) : TV := v ++ [s].

(* sequential: run a history of add/remove operations from initial steps, then forward on the empty trace *)
Definition seq_case (init : list nat) (ops : list sop) : list nat * list bool * TV * list (nat * TV) :=
  let '(steps, oks) := srun init ops in
  let '(v, tr) := sforward TV tapp steps [] in (steps, oks, v, tr).

Definition par_case (cfgs : list (nat * nat)) (pi : list nat) : list (nat * TV) * list TV :=
  (parallel_results TV tapp cfgs [] pi, parallel_agg_input TV tapp cfgs [] pi).

(* branching on integer inputs: condition kinds 0: x > t, 1: x < t, 2: always, 3: never; model m maps x to [m; x] *)
Definition cond_of (kind t : nat) (x : TV) : bool :=
  let xv := hd 0 x in
  match kind with 0 => t <? xv | 1 => xv <? t | 2 => true | _ => false end.
Inductive bop_code := CAdd (name kind t m : nat) | CRemove (name : nat) | CDefault (m : nat).
Definition bdecode (c : bop_code) : bop TV :=
  match c with
  | CAdd n k t m => AddBranch TV {| bname := n; bcond := cond_of k t; bmodel := m |}
  | CRemove n => RemoveBranch TV n
  | CDefault m => SetDefault TV m
  end.
Definition br_case (ops : list bop_code) (xs : list nat)
  : list bool * list nat * list (list nat * option (option nat * TV)) :=
  let '(s, oks) := fold_left (fun st c => let '(s', ok) := bstep TV (fst st) (bdecode c) in (s', snd st ++ [ok]))
                             ops ({| branches := []; dflt := None |}, []) in
  (oks, map (bname TV) (branches TV s), map (fun x => bforward TV tapp s [x]) xs).

Definition comp_code (c : comp) : nat :=
  match c with Processor => 0 | Encoder => 1 | FwdChannel => 2 | Decoder => 3 | Generator => 4 | FbChannel => 5 end.
Definition fb_case (n : nat) : list nat * nat := let '(tr, r) := feedback_run n in (map comp_code tr, r).
Definition mac_case (encs : list nat) (users : nat) := mac_encoder_calls encs users.
