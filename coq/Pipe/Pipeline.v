(* Executable models of the pipeline containers (kaira/models/base.py ConfigurableModel,
   generic/sequential.py, generic/parallel.py, generic/branching.py, feedback_channel.py,
   multiple_access_channel.py, deepjscc.py, channel_code.py).
   Stages are identified by natural numbers; what a stage computes is the parameter [app]; every run records the
   trace of calls (stage, argument) so that "each stage exactly once, in declared order" is a statement about a list.
   Threads: a ParallelModel run is parameterised by the completion order pi of its futures (all the scheduler
   can influence, because forward only consumes as_completed).  No proofs here. *)
From Coq Require Import List Bool Arith ZArith.
Import ListNotations.

Section Pipe.
Variable V : Type.
Variable app : nat -> V -> V.            (* stage id -> what it computes (extra args fixed for the run) *)

(* ---------- ConfigurableModel / SequentialModel ---------- *)
Inductive sop := Add (s : nat) | Remove (i : Z).
(* remove_step: IndexError unless 0 <= index < len(steps) *)
Definition remove_at {A} (i : nat) (l : list A) : list A := firstn i l ++ skipn (S i) l.
Definition sstep (steps : list nat) (o : sop) : list nat * bool :=
  match o with
  | Add s => (steps ++ [s], true)
  | Remove i => if (0 <=? i)%Z && (i <? Z.of_nat (length steps))%Z
                then (remove_at (Z.to_nat i) steps, true) else (steps, false)
  end.
Definition srun (steps : list nat) (ops : list sop) : list nat * list bool :=
  fold_left (fun st o => let '(s', ok) := sstep (fst st) o in (s', snd st ++ [ok])) ops (steps, []).
(* forward: result = step(result) for step in steps; trace of (stage, argument) *)
Definition sforward (steps : list nat) (x : V) : V * list (nat * V) :=
  fold_left (fun st s => (app s (fst st), snd st ++ [(s, fst st)])) steps (x, []).
(* DeepJSCCModel(encoder, constraint, channel, decoder) and
   ChannelCodeModel(encoder, constraint, modulator, channel, demodulator, decoder): constructor argument order ->
   execution order *)
Definition deepjscc_steps (enc con ch dec : nat) : list nat := [enc; con; ch; dec].
Definition channelcode_steps (enc con modu ch dem dec : nat) : list nat := [enc; modu; con; ch; dem; dec].

(* ---------- ParallelModel ---------- *)
(* Python dict: assignment to an existing key keeps its position, a new key is appended *)
Fixpoint dict_set {A} (d : list (nat * A)) (k : nat) (v : A) : list (nat * A) :=
  match d with
  | [] => [(k, v)]
  | (k', v') :: t => if (k' =? k)%nat then (k, v) :: t else (k', v') :: dict_set t k v
  end.
Fixpoint dict_get {A} (d : list (nat * A)) (k : nat) : option A :=
  match d with [] => None | (k', v) :: t => if (k' =? k)%nat then Some v else dict_get t k end.
(* step_configs : list of (name, stage); futures are numbered by position; pi = order in which as_completed yields *)
Definition collect (cfgs : list (nat * nat)) (x : V) (pi : list nat) : list (nat * V) :=
  fold_left (fun res i => match nth_error cfgs i with
                          | Some (name, s) => dict_set res name (app s x)
                          | None => res end) pi [].
(* results = {name: results[name] for name, _ in step_configs}: declared order, duplicate names collapse *)
Definition reorder (cfgs : list (nat * nat)) (res : list (nat * V)) : list (nat * V) :=
  fold_left (fun d nm => match dict_get res (fst nm) with Some v => dict_set d (fst nm) v | None => d end) cfgs [].
Definition parallel_results cfgs x pi := reorder cfgs (collect cfgs x pi).
(* aggregator(list(results.values())) *)
Definition parallel_agg_input cfgs x pi : list V := map snd (parallel_results cfgs x pi).

(* ---------- BranchingModel ---------- *)
Record branch := { bname : nat; bcond : V -> bool; bmodel : nat }.
Inductive bop := AddBranch (b : branch) | RemoveBranch (n : nat) | SetDefault (m : nat).
Record bstate := { branches : list branch; dflt : option nat }.
Definition has_name (n : nat) (l : list branch) : bool := existsb (fun b => (bname b =? n)%nat) l.
Definition bstep (s : bstate) (o : bop) : bstate * bool :=
  match o with
  | AddBranch b => if has_name (bname b) (branches s) then (s, false)    (* ValueError *)
                   else ({| branches := branches s ++ [b]; dflt := dflt s |}, true)
  | RemoveBranch n => if has_name n (branches s)
                      then ({| branches := filter (fun b => negb (bname b =? n)%nat) (branches s); dflt := dflt s |}, true)
                      else (s, false)                                    (* KeyError *)
  | SetDefault m => ({| branches := branches s; dflt := Some m |}, true)
  end.
(* forward: (names whose condition was evaluated, in order; Some (chosen name or None = default, output)) *)
Fixpoint bforward_aux (l : list branch) (d : option nat) (x : V) (seen : list nat) : list nat * option (option nat * V) :=
  match l with
  | [] => (seen, match d with Some m => Some (None, app m x) | None => None (* RuntimeError *) end)
  | b :: t => if bcond b x then (seen ++ [bname b], Some (Some (bname b), app (bmodel b) x))
              else bforward_aux t d x (seen ++ [bname b])
  end.
Definition bforward (s : bstate) (x : V) := bforward_aux (branches s) (dflt s) x [].

(* ---------- FeedbackChannelModel ---------- *)
Inductive comp := Processor | Encoder | FwdChannel | Decoder | Generator | FbChannel.
(* one round's calls; the processor is called from the second round on *)
Definition round_calls (i : nat) : list comp :=
  (if (i =? 0)%nat then [] else [Processor]) ++ [Encoder; FwdChannel; Decoder; Generator; FbChannel].
Fixpoint feedback_loop (n i : nat) (tr : list comp) (rounds : nat) : list comp * nat :=
  match n with
  | O => (tr, rounds)
  | S n' => feedback_loop n' (S i) (tr ++ round_calls i) (S rounds)
  end.
Definition feedback_run (max_iterations : nat) : list comp * nat := feedback_loop max_iterations 0 [] 0.

(* ---------- MultipleAccessChannelModel ---------- *)
(* encoders: list of object identities; is_shared_encoder = len == 1 or (users > 1 and len == users and all same) *)
Definition all_same (l : list nat) : bool := match l with [] => true | a :: t => forallb (fun b => (b =? a)%nat) t end.
Definition mac_shared (encs : list nat) (users : nat) : bool :=
  (length encs =? 1)%nat || ((1 <? users)%nat && (length encs =? users)%nat && all_same encs).
(* (encoder object used, user index) per user, in order *)
Definition mac_encoder_calls (encs : list nat) (users : nat) : list (nat * nat) :=
  map (fun i => (nth (if mac_shared encs users then 0 else i) encs 0, i)) (seq 0 users).
End Pipe.
