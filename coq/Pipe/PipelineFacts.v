From Coq Require Import List Bool Arith ZArith Lia Permutation.
From KV Require Import Pipe.Pipeline.
Import ListNotations.

Section Facts.
Variable V : Type.
Variable app : nat -> V -> V.

(* ---------- sequential ---------- *)
Fixpoint trace_spec (steps : list nat) (x : V) : list (nat * V) :=
  match steps with [] => [] | s :: t => (s, x) :: trace_spec t (app s x) end.

Lemma sforward_gen steps : forall v tr,
  fold_left (fun st s => (app s (fst st), snd st ++ [(s, fst st)])) steps (v, tr) =
  (fold_left (fun v s => app s v) steps v, tr ++ trace_spec steps v).
Proof.
  induction steps as [|s t IH]; intros v tr; simpl.
  - now rewrite app_nil_r.
  - rewrite IH. now rewrite <- app_assoc.
Qed.

(* every stage is called exactly once, in declared order, each on the output of its predecessor *)
Theorem sforward_spec steps x :
  sforward V app steps x = (fold_left (fun v s => app s v) steps x, trace_spec steps x).
Proof. unfold sforward. rewrite sforward_gen. reflexivity. Qed.

Lemma trace_spec_calls steps : forall x, map fst (trace_spec steps x) = steps.
Proof. induction steps as [|s t IH]; intro x; simpl; [reflexivity|]. now rewrite IH. Qed.

Theorem sforward_calls steps x : map fst (snd (sforward V app steps x)) = steps.
Proof. rewrite sforward_spec. apply trace_spec_calls. Qed.

Theorem remove_at_length {A} i (l : list A) : i < length l -> length (remove_at i l) = length l - 1.
Proof. intro H. unfold remove_at. rewrite app_length, firstn_length, skipn_length. lia. Qed.

Lemma nth_firstn_lt {A} (d : A) : forall (l : list A) i j, j < i -> nth j (firstn i l) d = nth j l d.
Proof.
  induction l as [|a l IH]; intros i j H; [now rewrite firstn_nil|].
  destruct i as [|i]; [lia|]. destruct j as [|j]; [reflexivity|]. simpl. apply IH. lia.
Qed.
Lemma nth_skipn_add {A} (d : A) : forall n (l : list A) k, nth k (skipn n l) d = nth (n + k) l d.
Proof.
  induction n as [|n IH]; intros l k; [reflexivity|]. destruct l as [|a l]; [simpl; now destruct k|]. simpl. apply IH.
Qed.

Theorem remove_at_nth {A} i (l : list A) d j : i < length l ->
  nth j (remove_at i l) d = if j <? i then nth j l d else nth (S j) l d.
Proof.
  intro H. unfold remove_at. destruct (Nat.ltb_spec j i) as [Hj|Hj].
  - rewrite app_nth1 by (rewrite firstn_length; lia). now apply nth_firstn_lt.
  - rewrite app_nth2 by (rewrite firstn_length; lia). rewrite firstn_length, Nat.min_l by lia.
    rewrite nth_skipn_add. f_equal. lia.
Qed.

Theorem sstep_spec steps o :
  sstep steps o = match o with
                  | Add s => (steps ++ [s], true)
                  | Remove i => if ((0 <=? i)%Z && (i <? Z.of_nat (length steps))%Z)%bool
                                then (firstn (Z.to_nat i) steps ++ skipn (S (Z.to_nat i)) steps, true)
                                else (steps, false)
                  end.
Proof. destruct o; reflexivity. Qed.

(* ---------- parallel ---------- *)
Lemma dict_get_set_same {A} (d : list (nat * A)) k v : dict_get (dict_set d k v) k = Some v.
Proof.
  induction d as [|[k' v'] t IH]; simpl; [now rewrite Nat.eqb_refl|].
  destruct (Nat.eqb_spec k' k) as [->|Hn]; simpl; [now rewrite Nat.eqb_refl|].
  destruct (Nat.eqb_spec k' k); [contradiction|]. exact IH.
Qed.
Lemma dict_get_set_other {A} (d : list (nat * A)) k k' v : k <> k' -> dict_get (dict_set d k v) k' = dict_get d k'.
Proof.
  intro Hne. induction d as [|[k0 v0] t IH]; simpl.
  - destruct (Nat.eqb_spec k k'); [contradiction|reflexivity].
  - destruct (Nat.eqb_spec k0 k) as [->|Hn]; simpl.
    + destruct (Nat.eqb_spec k k'); [contradiction|reflexivity].
    + destruct (Nat.eqb_spec k0 k'); [reflexivity|exact IH].
Qed.
Lemma dict_set_new {A} (d : list (nat * A)) k v : ~ In k (map fst d) -> dict_set d k v = d ++ [(k, v)].
Proof.
  induction d as [|[k0 v0] t IH]; simpl; intro H; [reflexivity|].
  destruct (Nat.eqb_spec k0 k) as [->|Hn]; [exfalso; apply H; now left|].
  f_equal. apply IH. intro Hin. apply H. now right.
Qed.

Section Par.
Variable cfgs : list (nat * nat).
Variable x : V.
Let F := fun (res : list (nat * V)) i => match nth_error cfgs i with
                          | Some (name, s) => dict_set res name (app s x)
                          | None => res end.

Lemma collect_other pi : forall res k,
  (forall i name s, In i pi -> nth_error cfgs i = Some (name, s) -> name <> k) ->
  dict_get (fold_left F pi res) k = dict_get res k.
Proof.
  induction pi as [|j pi IH]; intros res k H; [reflexivity|]. simpl.
  rewrite IH by (intros i name s Hi; apply H; now right).
  unfold F. destruct (nth_error cfgs j) as [[name s]|] eqn:E; [|reflexivity].
  apply dict_get_set_other. apply (H j name s); [now left|assumption].
Qed.

Lemma collect_found pi : forall res i name s, In i pi -> nth_error cfgs i = Some (name, s) ->
  (forall j name' s', In j pi -> nth_error cfgs j = Some (name', s') -> name' = name -> j = i) ->
  dict_get (fold_left F pi res) name = Some (app s x).
Proof.
  induction pi as [|j pi IH]; intros res i name s Hin Hi Huniq; [destruct Hin|]. simpl.
  destruct (in_dec Nat.eq_dec i pi) as [Hip|Hnip].
  - apply (IH _ i name s Hip Hi). intros j' n' s' Hj'. apply Huniq. now right.
  - destruct Hin as [->|Hin]; [|contradiction].
    rewrite collect_other.
    + unfold F. rewrite Hi. apply dict_get_set_same.
    + intros j' n' s' Hj' Hnth Heq. apply Hnip. rewrite <- (Huniq j' n' s'); [assumption|now right|assumption|assumption].
Qed.

Lemma names_unique : NoDup (map fst cfgs) -> forall i j a b c,
  nth_error cfgs i = Some (a, b) -> nth_error cfgs j = Some (a, c) -> i = j.
Proof.
  intros Hnd i j a b c Hi Hj. rewrite NoDup_nth_error in Hnd. apply Hnd.
  - rewrite map_length. apply nth_error_Some. congruence.
  - rewrite (map_nth_error fst i cfgs Hi), (map_nth_error fst j cfgs Hj). reflexivity.
Qed.

Lemma reorder_gen (res : list (nat * V)) (g : nat * nat -> V) : forall suf pre,
  NoDup (map fst (pre ++ suf)) ->
  (forall c, In c suf -> dict_get res (fst c) = Some (g c)) ->
  fold_left (fun d nm => match dict_get res (fst nm) with Some v => dict_set d (fst nm) v | None => d end) suf
            (map (fun c => (fst c, g c)) pre) = map (fun c => (fst c, g c)) (pre ++ suf).
Proof.
  induction suf as [|c suf IH]; intros pre Hnd Hg; simpl; [now rewrite app_nil_r|].
  rewrite (Hg c (or_introl eq_refl)). rewrite dict_set_new.
  - replace (map (fun c0 => (fst c0, g c0)) pre ++ [(fst c, g c)]) with (map (fun c0 => (fst c0, g c0)) (pre ++ [c]))
      by (rewrite map_app; reflexivity).
    rewrite IH.
    + now rewrite <- app_assoc.
    + now rewrite <- app_assoc.
    + intros c0 Hc0. apply Hg. now right.
  - rewrite map_map. simpl. rewrite map_app in Hnd. simpl in Hnd. apply NoDup_remove_2 in Hnd.
    intro Hin. apply Hnd. apply in_or_app. now left.
Qed.

(* With pairwise distinct branch names, for EVERY completion order pi of the futures: each branch's result is
   stored under its own name, and the returned dictionary -- hence the list handed to the aggregator -- is in
   declared order.  The right-hand side does not mention pi. *)
Theorem parallel_declared_order pi : NoDup (map fst cfgs) -> Permutation pi (seq 0 (length cfgs)) ->
  parallel_results V app cfgs x pi = map (fun c => (fst c, app (snd c) x)) cfgs.
Proof.
  intros Hnd Hperm. unfold parallel_results, reorder, collect. fold F.
  apply (reorder_gen (fold_left F pi []) (fun c => app (snd c) x) cfgs [] Hnd).
  intros [name s] Hin. simpl. apply In_nth_error in Hin. destruct Hin as [i Hi].
  apply (collect_found pi [] i name s).
  - apply (Permutation_in _ (Permutation_sym Hperm)). apply in_seq. split; [lia|]. simpl. apply nth_error_Some. congruence.
  - assumption.
  - intros j n' s' _ Hj ->. symmetry. apply (names_unique Hnd i j name s s' Hi Hj).
Qed.

Corollary parallel_aggregator_order pi : NoDup (map fst cfgs) -> Permutation pi (seq 0 (length cfgs)) ->
  parallel_agg_input V app cfgs x pi = map (fun c => app (snd c) x) cfgs.
Proof.
  intros Hnd Hp. unfold parallel_agg_input. rewrite parallel_declared_order by assumption. rewrite map_map. reflexivity.
Qed.
End Par.

Lemma NoDup_snoc {A} (l : list A) a : NoDup l -> ~ In a l -> NoDup (l ++ [a]).
Proof.
  induction l as [|b l IH]; intros H Hn; simpl; [constructor; [intros []|constructor]|].
  inversion H as [|? ? Hb Hl]; subst. constructor.
  - intro Hin. apply in_app_or in Hin. destruct Hin as [Hin|[->|[]]]; [contradiction|apply Hn; now left].
  - apply IH; [assumption|]. intro Hin. apply Hn. now right.
Qed.

(* ---------- branching ---------- *)
Theorem bforward_aux_spec l : forall d x seen seen' r, bforward_aux V app l d x seen = (seen', r) ->
  match r with
  | Some (Some n, v) => exists pre b post, l = pre ++ b :: post /\ bname V b = n /\ bcond V b x = true /\
                        (forall b', In b' pre -> bcond V b' x = false) /\
                        seen' = seen ++ map (bname V) pre ++ [n] /\ v = app (bmodel V b) x
  | Some (None, v) => (forall b', In b' l -> bcond V b' x = false) /\ seen' = seen ++ map (bname V) l /\
                      exists m, d = Some m /\ v = app m x
  | None => (forall b', In b' l -> bcond V b' x = false) /\ seen' = seen ++ map (bname V) l /\ d = None
  end.
Proof.
  induction l as [|b t IH]; intros d x seen seen' r H; simpl in H.
  - injection H as <- <-. destruct d as [m|].
    + split; [intros ? []|]. split; [now rewrite app_nil_r|]. exists m. split; reflexivity.
    + split; [intros ? []|]. split; [now rewrite app_nil_r|reflexivity].
  - destruct (bcond V b x) eqn:Hc.
    + injection H as <- <-. exists [], b, t. repeat split; try reflexivity; try assumption. intros ? [].
    + specialize (IH d x (seen ++ [bname V b]) seen' r H). destruct r as [[[n|] v]|].
      * destruct IH as [pre [b0 [post [-> [Hn [Hc0 [Hpre [Hs Hv]]]]]]]]. exists (b :: pre), b0, post.
        repeat split; try assumption.
        -- intros b' [<-|Hin]; [assumption|now apply Hpre].
        -- rewrite Hs. simpl. now rewrite <- app_assoc.
      * destruct IH as [Hall [Hs Hm]]. split; [intros b' [<-|Hin]; [assumption|now apply Hall]|].
        split; [rewrite Hs; simpl; now rewrite <- app_assoc|assumption].
      * destruct IH as [Hall [Hs Hm]]. split; [intros b' [<-|Hin]; [assumption|now apply Hall]|].
        split; [rewrite Hs; simpl; now rewrite <- app_assoc|assumption].
Qed.

(* add_branch never duplicates a name; remove/add keep the relative order of the surviving branches *)
Theorem bstep_names_nodup s o : NoDup (map (bname V) (branches V s)) -> NoDup (map (bname V) (branches V (fst (bstep V s o)))).
Proof.
  intro H. destruct o as [b|n|m]; simpl.
  - destruct (has_name V (bname V b) (branches V s)) eqn:E; simpl; [assumption|].
    rewrite map_app. simpl. apply NoDup_snoc; [assumption|].
    intro Hin. apply in_map_iff in Hin. destruct Hin as [b' [Hb' Hin]].
    unfold has_name in E. assert (existsb (fun b0 => bname V b0 =? bname V b) (branches V s) = true).
    { apply existsb_exists. exists b'. split; [assumption|]. now apply Nat.eqb_eq. }
    congruence.
  - destruct (has_name V n (branches V s)); simpl; [|assumption].
    induction (branches V s) as [|b t IH]; simpl in *; [constructor|].
    inversion H as [|? ? Hn Ht]; subst. destruct (negb (bname V b =? n)); simpl.
    + constructor; [|now apply IH]. intro Hin. apply Hn. apply in_map_iff in Hin. destruct Hin as [b' [E Hin]].
      apply filter_In in Hin. apply in_map_iff. exists b'. tauto.
    + now apply IH.
  - assumption.
Qed.

(* ---------- feedback ---------- *)
Lemma feedback_loop_spec n : forall i tr r,
  feedback_loop n i tr r = (tr ++ concat (map round_calls (seq i n)), r + n).
Proof.
  induction n as [|n IH]; intros i tr r; simpl.
  - rewrite app_nil_r. f_equal. lia.
  - rewrite IH. rewrite <- app_assoc. f_equal. lia.
Qed.
(* exactly max_iterations rounds; round i calls encoder, forward channel, decoder, feedback generator, feedback
   channel once each in this order, preceded by the feedback processor from the second round on *)
Theorem feedback_rounds n : feedback_run n = (concat (map round_calls (seq 0 n)), n).
Proof. unfold feedback_run. rewrite feedback_loop_spec. reflexivity. Qed.

(* ---------- multiple access ---------- *)
Lemma all_same_nth l i : all_same l = true -> i < length l -> nth i l 0 = nth 0 l 0.
Proof.
  destruct l as [|a t]; simpl; intros H Hi; [lia|]. destruct i as [|i]; [reflexivity|].
  rewrite forallb_forall in H. assert (Hin : In (nth i t 0) t) by (apply nth_In; lia).
  apply H in Hin. now apply Nat.eqb_eq in Hin.
Qed.
(* with one encoder object per user (aliased or not), user i is encoded by encoder i *)
Theorem mac_each_user_own_encoder encs users : length encs = users ->
  mac_encoder_calls encs users = map (fun i => (nth i encs 0, i)) (seq 0 users).
Proof.
  intro Hl. unfold mac_encoder_calls. apply map_ext_in. intros i Hi. apply in_seq in Hi. f_equal.
  destruct (mac_shared encs users) eqn:E; [|reflexivity].
  unfold mac_shared in E. apply orb_true_iff in E. destruct E as [E|E].
  - apply Nat.eqb_eq in E. assert (i = 0) by lia. now subst.
  - apply andb_true_iff in E. destruct E as [_ E]. symmetry. apply all_same_nth; [assumption|lia].
Qed.
(* a single shared encoder object serves every user *)
Theorem mac_single_shared_encoder e users :
  mac_encoder_calls [e] users = map (fun i => (e, i)) (seq 0 users).
Proof. unfold mac_encoder_calls. apply map_ext. intro i. reflexivity. Qed.
End Facts.
