(* ChannelCodeModel (kaira/models/channel_code.py): encoder -> modulator -> constraint -> channel -> demodulator ->
   decoder.  Assume/guarantee composition of the component theorems of C02 (bounded-distance decoding),
   C04 (right inverse), C05/C06 (modulation round trip, nearest-point decision).  Words are N bit masks as in Base/GF2.v;
   [tx] is everything between the encoder output and the decoder input, seen at the bit level. *)
From Coq Require Import NArith QArith Lqa List Bool Arith Lia.
Import ListNotations.
From KV Require Import Base.GF2 Base.GF2Facts Decoders.Hard Decoders.HardFacts Mod.Constellation Mod.ConstellationFacts Mod.Demod Mod.DemodFacts.

(* ---------------- the chain at the bit level ---------------- *)
Definition link (n : nat) (gs hs rs : list N) (tx : N -> N) (m : N) : N := comb (syn_correct n hs (tx (comb m gs))) rs.

Lemma code_pair_right_inverse n k gs hs rs ts : code_pair_ok n k gs hs rs ts = true -> right_inverse_ok k gs rs = true.
Proof.
  unfold code_pair_ok. intro H. apply andb_true_iff in H. destruct H as [H _]. apply andb_true_iff in H. destruct H as [_ H]. exact H.
Qed.

(* at most t flipped bits per block between encoder and decoder: the message comes back *)
Theorem link_bounded_errors n k gs hs rs ts t tx : code_pair_ok n k gs hs rs ts = true -> min_distance_ge k gs (2 * t + 1) = true ->
  forall m e, (m < 2 ^ N.of_nat k)%N -> (e < 2 ^ N.of_nat n)%N -> (wt e <= t)%nat -> tx (comb m gs) = N.lxor (comb m gs) e ->
  link n gs hs rs tx m = m.
Proof.
  intros Hcp Hd m e Hm He Hw Htx. unfold link. rewrite Htx.
  rewrite (syndrome_decoder_corrects n k gs hs rs ts t Hcp Hd m e Hm He Hw).
  apply (proj1 (right_inverse_sound k gs rs (code_pair_right_inverse n k gs hs rs ts Hcp))), Hm.
Qed.

(* ideal transport *)
Corollary link_ideal n k gs hs rs ts t tx : code_pair_ok n k gs hs rs ts = true -> min_distance_ge k gs (2 * t + 1) = true ->
  forall m, (m < 2 ^ N.of_nat k)%N -> tx (comb m gs) = comb m gs -> link n gs hs rs tx m = m.
Proof.
  intros Hcp Hd m Hm Htx. apply (link_bounded_errors n k gs hs rs ts t tx Hcp Hd m 0%N Hm).
  - apply N.neq_0_lt_0, N.pow_nonzero. discriminate.
  - cbn. lia.
  - rewrite N.lxor_0_r. exact Htx.
Qed.

(* ---------------- the symbol level: displacement below half the minimum distance ---------------- *)
Local Open Scope Q_scope.

(* every pair of distinct positions is at squared distance >= D *)
Definition min_sqdist_ge (pts : list pt) (D : Q) : bool :=
  let n := length pts in
  forallb (fun i => forallb (fun j => (i =? j)%nat || Qle_bool D (d2 (pnth pts i) (pnth pts j))) (seq 0 n)) (seq 0 n).

Lemma min_sqdist_spec pts D : min_sqdist_ge pts D = true ->
  forall i j, (i < length pts)%nat -> (j < length pts)%nat -> i <> j -> D <= d2 (pnth pts i) (pnth pts j).
Proof.
  unfold min_sqdist_ge. intros H i j Hi Hj Hij. rewrite forallb_forall in H. specialize (H i). rewrite in_seq in H.
  specialize (H ltac:(lia)). rewrite forallb_forall in H. specialize (H j). rewrite in_seq in H. specialize (H ltac:(lia)).
  apply orb_true_iff in H. destruct H as [H|H]; [apply Nat.eqb_eq in H; contradiction|]. now apply Qle_bool_iff.
Qed.

(* |y - p| < d/2 and |p - q| >= d  imply  |y - p| < |y - q|   (squared: 4|y-p|^2 < D <= |p-q|^2) *)
Lemma closer_than_half (y p q : pt) D : 4 * d2 y p < D -> D <= d2 p q -> d2 y p < d2 y q.
Proof.
  destruct y as [y1 y2], p as [p1 p2], q as [q1 q2]. unfold d2; cbn [fst snd]. intros H1 H2.
  set (a1 := y1 - p1) in *. set (a2 := y2 - p2) in *. set (b1 := q1 - p1). set (b2 := q2 - p2).
  assert (E1 : y1 - q1 == a1 - b1) by (unfold a1, b1; ring). assert (E2 : y2 - q2 == a2 - b2) by (unfold a2, b2; ring).
  assert (E3 : p1 - q1 == - b1) by (unfold b1; ring). assert (E4 : p2 - q2 == - b2) by (unfold b2; ring).
  rewrite E1, E2. rewrite E3, E4 in H2. clearbody a1 a2 b1 b2. clear E1 E2 E3 E4.
  assert (Ex : (a1 - b1) * (a1 - b1) + (a2 - b2) * (a2 - b2) == a1 * a1 + a2 * a2 - 2 * (a1 * b1 + a2 * b2) + (b1 * b1 + b2 * b2)) by ring.
  assert (Eb : - b1 * - b1 + - b2 * - b2 == b1 * b1 + b2 * b2) by ring. rewrite Eb in H2. rewrite Ex.
  destruct (Qlt_le_dec (2 * (a1 * b1 + a2 * b2)) (b1 * b1 + b2 * b2)) as [Hlt|Hge]; [set (P := a1 * b1 + a2 * b2) in *; set (A := a1 * a1 + a2 * a2) in *; set (B := b1 * b1 + b2 * b2) in *; lra|exfalso].
  pose proof (sq_nonneg (a1 * b2 - a2 * b1)) as Hcs.
  assert (Eid : (a1 * a1 + a2 * a2) * (b1 * b1 + b2 * b2) - (a1 * b1 + a2 * b2) * (a1 * b1 + a2 * b2) == (a1 * b2 - a2 * b1) * (a1 * b2 - a2 * b1)) by ring.
  pose proof (sq_nonneg b1). pose proof (sq_nonneg b2). pose proof (sq_nonneg a1). pose proof (sq_nonneg a2).
  set (B := b1 * b1 + b2 * b2) in *. set (A := a1 * a1 + a2 * a2) in *. set (P := a1 * b1 + a2 * b2) in *.
  assert (HP : P * P <= A * B) by lra.
  assert (H4A : 4 * A < B) by lra.
  assert (HA : 0 <= A) by (unfold A; lra). assert (HB : 0 < B) by lra.
  assert (HPpos : 0 < P) by lra.
  (* B <= 2P and P^2 <= A B < B^2/4  contradict *)
  assert (HBB : B * B <= 2 * P * B) by nra.
  assert (H2P : 2 * P * B <= 4 * (P * P)) by nra.
  assert (HAB : 4 * (A * B) < B * B) by nra.
  lra.
Qed.

Theorem hard_label_within_half tbl D e y : table_ok tbl = true -> min_sqdist_ge (map fst tbl) D = true -> In e tbl ->
  4 * d2 y (fst e) < D -> hard_label tbl y = snd e.
Proof.
  intros Hok Hd Hin Hy. unfold hard_label. set (pts := map fst tbl).
  assert (Hpn : pts <> []) by (unfold pts; destruct tbl; [destruct Hin|discriminate]).
  destruct (nearest_is_min pts y Hpn) as [Hj Hmin]. set (j := nearest pts y) in *.
  apply In_nth_error in Hin. destruct Hin as [a Ha].
  assert (Hal : (a < length pts)%nat) by (unfold pts; rewrite map_length; apply (proj1 (nth_error_Some tbl a)); rewrite Ha; discriminate).
  assert (Epa : nth a pts (0, 0) = fst e) by (unfold pts; apply nth_error_nth; now apply map_nth_error).
  destruct (Nat.eq_dec j a) as [->|Hne].
  - apply (nth_error_nth tbl a ((0, 0), [])) in Ha. now rewrite Ha.
  - exfalso. pose proof (min_sqdist_spec pts D Hd a j Hal Hj ltac:(auto)) as Hs. unfold pnth in Hs. rewrite Epa in Hs.
    pose proof (closer_than_half y (fst e) (nth j pts (0, 0)) D Hy Hs) as Hc.
    pose proof (Hmin (fst e) ltac:(rewrite <- Epa; now apply nth_In)). lra.
Qed.

(* a whole symbol sequence displaced by less than half the minimum distance demodulates to the transmitted bits *)
Theorem demodulate_within_half tbl D : table_ok tbl = true -> min_sqdist_ge (map fst tbl) D = true ->
  forall (es : list entry) (ys : list pt), Forall2 (fun e y => In e tbl /\ 4 * d2 y (fst e) < D) es ys ->
  demodulate tbl ys = concat (map snd es).
Proof.
  intros Hok Hd es ys H. induction H as [|e y es ys [Hin Hy] _ IH]; [reflexivity|].
  cbn [demodulate flat_map map concat]. rewrite (hard_label_within_half tbl D e y Hok Hd Hin Hy). unfold demodulate in IH. now rewrite IH.
Qed.

(* undisturbed symbols are a special case (any positive D) *)
Corollary demodulate_ideal tbl D : table_ok tbl = true -> min_sqdist_ge (map fst tbl) D = true -> 0 < D ->
  forall es, (forall e, In e es -> In e tbl) -> demodulate tbl (map fst es) = concat (map snd es).
Proof.
  intros Hok Hd HD es Hall. apply (demodulate_within_half tbl D Hok Hd).
  induction es as [|e es IH]; [constructor|]. cbn [map]. constructor.
  - split; [apply Hall; now left|]. pose proof (d2_self (fst e)). lra.
  - apply IH. intros x Hx. apply Hall. now right.
Qed.

(* ---------------- the same chain with the brute-force maximum-likelihood decoder ---------------- *)
Local Open Scope N_scope.
Definition link_ml (k : nat) (gs : list N) (tx : N -> N) (m : N) : N := ml_decode k gs (tx (comb m gs)).

Lemma ml_decode_lt k gs r : ml_decode k gs r < 2 ^ N.of_nat k.
Proof.
  destruct (ml_decode_is_ml k gs r) as [Hin _]. unfold all_messages in Hin. apply in_map_iff in Hin.
  destruct Hin as [i [<- _]]. apply msg_of_index_lt.
Qed.

(* at most t flipped bits per block and minimum distance >= 2t+1: the nearest codeword is the transmitted one *)
Theorem link_ml_bounded_errors k gs t tx : min_distance_ge k gs (2 * t + 1) = true ->
  forall m e, m < 2 ^ N.of_nat k -> (wt e <= t)%nat -> tx (comb m gs) = N.lxor (comb m gs) e -> link_ml k gs tx m = m.
Proof.
  intros Hd m e Hm Hw Htx. unfold link_ml. rewrite Htx. set (r := N.lxor (comb m gs) e). set (m' := ml_decode k gs r).
  pose proof (ml_decode_minimum_distance k gs r m Hm) as Hmin. fold m' in Hmin.
  assert (Er : N.lxor r (comb m gs) = e).
  { unfold r. apply N.bits_inj. intro i. rewrite !N.lxor_spec. destruct (N.testbit (comb m gs) i), (N.testbit e i); reflexivity. }
  rewrite Er in Hmin.
  destruct (N.eq_dec m' m) as [E|Hne]; [exact E|exfalso].
  assert (Hx : N.lxor m' m <> 0) by (intro E0; apply N.lxor_eq in E0; contradiction).
  assert (Hlt : N.lxor m' m < 2 ^ N.of_nat k).
  { apply lxor_lt_pow2; [apply ml_decode_lt|exact Hm]. }
  pose proof (min_distance_ge_sound k gs (2 * t + 1) Hd (N.lxor m' m) ltac:(lia) Hlt) as Hdist.
  rewrite comb_lxor in Hdist.
  assert (Esum : N.lxor (comb m' gs) (comb m gs) = N.lxor (N.lxor r (comb m' gs)) (N.lxor r (comb m gs))).
  { apply N.bits_inj. intro i. rewrite !N.lxor_spec. destruct (N.testbit (comb m' gs) i), (N.testbit (comb m gs) i), (N.testbit r i); reflexivity. }
  rewrite Esum, Er in Hdist. pose proof (wt_lxor_le (N.lxor r (comb m' gs)) e) as Htri. lia.
Qed.

Corollary link_ml_ideal k gs t tx : min_distance_ge k gs (2 * t + 1) = true ->
  forall m, m < 2 ^ N.of_nat k -> tx (comb m gs) = comb m gs -> link_ml k gs tx m = m.
Proof.
  intros Hd m Hm Htx. apply (link_ml_bounded_errors k gs t tx Hd m 0 Hm); [cbn; lia|]. rewrite N.lxor_0_r. exact Htx.
Qed.
