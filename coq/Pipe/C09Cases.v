(* Entry points evaluated by the harness for C09. *)
From Coq Require Import NArith QArith List Bool.
Import ListNotations.
From KV Require Import Base.GF2 Decoders.Hard Mod.Constellation Mod.Demod Pipe.Chain.

(* the chain at the bit level with an error word e placed between encoder and decoder *)
Definition c09_link (n : nat) (gs hs rs : list N) (e m : N) : N := link n gs hs rs (fun c => N.lxor c e) m.
Definition c09_hyp (n k : nat) (gs hs rs ts : list N) (t : nat) : bool := code_pair_ok n k gs hs rs ts && min_distance_ge k gs (2 * t + 1).
(* the symbol level: table checks and the hard decisions of displaced symbols *)
Definition c09_table (tbl : list entry) (D : Q) : bool := table_ok tbl && min_sqdist_ge (map fst tbl) D.
Definition c09_demod (tbl : list entry) (ys : list pt) : list bool := demodulate tbl ys.
Definition c09_link_ml (k : nat) (gs : list N) (e m : N) : N := link_ml k gs (fun c => N.lxor c e) m.
