(* Index-level models of the modulation schemes with memory (kaira/modulations/dpsk.py, oqpsk.py), in evaluation
   mode after reset_state.  DPSK works on phase indices in Z_M (a product of unit roots adds their indices);
   OQPSK delays the quadrature stream by one symbol.  Models and their theorems (short) in one file. *)
From Coq Require Import List Bool Arith Lia.
Import ListNotations.

(* ---- DPSK: y_i = y_(i-1) * phase(k_i), demodulated from z_i = y_i * conj(y_(i-1)) ---- *)
Fixpoint cumphase (M start : nat) (idx : list nat) : list nat :=
  match idx with [] => [] | k :: t => let c := (start + k) mod M in c :: cumphase M c t end.
Fixpoint phase_diffs (M prev : nat) (ys : list nat) : list nat :=
  match ys with [] => [] | y :: t => ((y + M - prev) mod M) :: phase_diffs M y t end.
Definition dpsk_decisions (M : nat) (ys : list nat) : list nat :=
  match ys with [] => [] | y0 :: t => phase_diffs M y0 t end.

Lemma phase_diffs_cumphase M : 0 < M -> forall idx start, start < M -> Forall (fun k => k < M) idx ->
  phase_diffs M start (cumphase M start idx) = idx.
Proof.
  intros HM. induction idx as [|k t IH]; intros start Hs Hall; simpl; [reflexivity|].
  inversion Hall as [|? ? Hk Ht]; subst. f_equal.
  - assert (Hc : (start + k) mod M < M) by (apply Nat.mod_upper_bound; lia).
    destruct (Nat.lt_ge_cases (start + k) M) as [Hlt|Hge].
    + rewrite (Nat.mod_small (start + k) M Hlt). replace (start + k + M - start) with (k + 1 * M) by lia.
      rewrite Nat.mod_add by lia. now apply Nat.mod_small.
    + assert (E : (start + k) mod M = start + k - M).
      { replace (start + k) with ((start + k - M) + 1 * M) at 1 by lia. rewrite Nat.mod_add by lia. apply Nat.mod_small. lia. }
      rewrite E. replace (start + k - M + M - start) with k by lia. now apply Nat.mod_small.
  - apply IH; [apply Nat.mod_upper_bound; lia|assumption].
Qed.

(* the differential demodulator returns every phase index except the one carried by the reference symbol *)
Theorem dpsk_roundtrip_drop_ref M idx : 0 < M -> Forall (fun k => k < M) idx ->
  dpsk_decisions M (cumphase M 0 idx) = tl idx.
Proof.
  intros HM Hall. destruct idx as [|k t]; [reflexivity|]. inversion Hall as [|? ? Hk Ht]; subst.
  simpl. apply phase_diffs_cumphase; [assumption|apply Nat.mod_upper_bound; lia|assumption].
Qed.

(* ---- OQPSK: in-phase bits in place, quadrature bits delayed by one symbol; amplitude 0 in the first slot ---- *)
(* a transmitted quadrature amplitude: Some b = +-1 carrying bit b, None = the zero amplitude of the reset state *)
Fixpoint oqpsk_mod (prev : option bool) (pairs : list (bool * bool)) : list (bool * option bool) :=
  match pairs with [] => [] | (i, q) :: t => (i, prev) :: oqpsk_mod (Some q) t end.
(* hard decision: bit 1 iff the amplitude is negative; the zero amplitude decides 0 *)
Definition amp_bit (a : option bool) : bool := match a with Some b => b | None => false end.
Definition oqpsk_demod (ys : list (bool * option bool)) : list (bool * bool) := map (fun y => (fst y, amp_bit (snd y))) ys.

Theorem oqpsk_roundtrip_delay pairs :
  map fst (oqpsk_demod (oqpsk_mod None pairs)) = map fst pairs /\
  map snd (oqpsk_demod (oqpsk_mod None pairs)) = firstn (length pairs) (false :: map snd pairs).
Proof.
  assert (G : forall prev, map fst (oqpsk_demod (oqpsk_mod prev pairs)) = map fst pairs /\
     map snd (oqpsk_demod (oqpsk_mod prev pairs)) = firstn (length pairs) (amp_bit prev :: map snd pairs)).
  { induction pairs as [|[i q] t IH]; intro prev; [split; reflexivity|]. destruct (IH (Some q)) as [H1 H2].
    split; simpl; f_equal; assumption. }
  apply (G None).
Qed.
