(* Helpers for the generated correspondence case files of C14 (no proofs). *)
From Coq Require Import NArith ZArith QArith List Bool.
From KV Require Import Gen.GrayConst Mod.Gray Mod.Constellation Mod.Labels.
Import ListNotations.

Definition dig (acc v : N) : N := ((acc * 1000003 + v + 1) mod 2305843009213693951)%N.
Definition digest (l : list N) : N := fold_left dig l 7%N.
(* digest of (b2g n, g2b n) over [lo, lo+cnt) *)
Definition gray_chunk (lo : N) (cnt : nat) : N :=
  digest (flat_map (fun i => let n := (lo + N.of_nat i)%N in [b2g n; g2b n]) (seq 0 cnt)).
Definition gray_pairs (l : list N) : list (N * N) := map (fun n => (b2g n, g2b n)) l.

(* all four checkers on one published table; gray / unit flags say which clauses apply *)
Definition check_table (b : nat) (tol_nn tol_e : Q) (pts : list pt) (labs : list (list bool)) : list bool :=
  [labels_ok b labs; points_distinct pts; gray_nn_ok tol_nn pts labs; unit_energy_ok tol_e pts;
   (length pts =? length labs)%nat].
