(* Geometry of M-PSK over the reals, for every order M >= 2 (not only the published tables):
   the squared chord between points k and j is 2 - 2 cos (2 pi (k - j) / M); among the M - 1 other points the two
   circular neighbours (index difference 1 or M - 1) are the nearest, strictly nearer than every other point.
   Together with the Gray theorems (consecutive labels and the wrap-around differ in one bit) this is the
   nearest-neighbour clause of C14 for PSK of arbitrary order. *)
From Coq Require Import Reals Lra Lia.
Local Open Scope R_scope.

Definition chord2 (M d : nat) : R := 2 - 2 * cos (2 * PI * INR d / INR M).

Lemma angle_bounds (M d : nat) : (2 <= M)%nat -> (d <= M)%nat -> 0 <= 2 * PI * INR d / INR M <= 2 * PI.
Proof.
  intros HM Hd. assert (HMr : 0 < INR M) by (apply lt_0_INR; lia). pose proof PI_RGT_0 as Hpi.
  assert (H0 : 0 <= INR d) by apply pos_INR. assert (H1 : INR d <= INR M) by (apply le_INR; exact Hd). split.
  - unfold Rdiv. apply Rmult_le_pos; [apply Rmult_le_pos; lra|apply Rlt_le, Rinv_0_lt_compat, HMr].
  - apply Rmult_le_reg_r with (INR M); [exact HMr|]. unfold Rdiv. rewrite Rmult_assoc, Rinv_l, Rmult_1_r by lra. nra.
Qed.

(* cos (2 pi d / M) = cos (2 pi (M - d) / M) *)
Lemma cos_mirror (M d : nat) : (2 <= M)%nat -> (d <= M)%nat -> cos (2 * PI * INR (M - d) / INR M) = cos (2 * PI * INR d / INR M).
Proof.
  intros HM Hd. assert (HMr : INR M <> 0) by (apply not_0_INR; lia). rewrite minus_INR by exact Hd.
  replace (2 * PI * (INR M - INR d) / INR M) with (- (2 * PI * INR d / INR M) + 2 * INR 1 * PI) by (simpl; field; exact HMr).
  rewrite cos_period. apply cos_neg.
Qed.

(* on the upper half (2 d <= M) the cosine decreases strictly with d *)
Lemma cos_half_decreasing (M d e : nat) : (2 <= M)%nat -> (d < e)%nat -> (2 * e <= M)%nat ->
  cos (2 * PI * INR e / INR M) < cos (2 * PI * INR d / INR M).
Proof.
  intros HM Hde He. assert (HMr : 0 < INR M) by (apply lt_0_INR; lia). pose proof PI_RGT_0 as Hpi.
  assert (Hd' : INR d < INR e) by (apply lt_INR; exact Hde).
  assert (He' : 2 * INR e <= INR M).
  { pose proof (le_INR _ _ He) as H. rewrite mult_INR in H. simpl (INR 2) in H. lra. }
  assert (H0 : 0 <= INR d) by apply pos_INR.
  apply cos_decreasing_1.
  - unfold Rdiv. apply Rmult_le_pos; [apply Rmult_le_pos; lra|apply Rlt_le, Rinv_0_lt_compat, HMr].
  - apply Rmult_le_reg_r with (INR M); [exact HMr|]. unfold Rdiv. rewrite Rmult_assoc, Rinv_l, Rmult_1_r by lra. nra.
  - unfold Rdiv. apply Rmult_le_pos; [apply Rmult_le_pos; lra|apply Rlt_le, Rinv_0_lt_compat, HMr].
  - apply Rmult_le_reg_r with (INR M); [exact HMr|]. unfold Rdiv. rewrite Rmult_assoc, Rinv_l, Rmult_1_r by lra. nra.
  - apply Rmult_lt_reg_r with (INR M); [exact HMr|]. unfold Rdiv. rewrite !Rmult_assoc, Rinv_l, !Rmult_1_r by lra. nra.
Qed.

(* every point other than the two circular neighbours is strictly farther than they are *)
Theorem psk_neighbours_are_nearest (M d : nat) : (4 <= M)%nat -> (2 <= d)%nat -> (d <= M - 2)%nat -> chord2 M 1 < chord2 M d.
Proof.
  intros HM Hd1 Hd2. unfold chord2.
  assert (Hc : cos (2 * PI * INR d / INR M) < cos (2 * PI * INR 1 / INR M)).
  { destruct (le_lt_dec (2 * d) M) as [Hh|Hh].
    - apply cos_half_decreasing; lia.
    - rewrite <- (cos_mirror M d) by lia. apply cos_half_decreasing; lia. }
  lra.
Qed.

(* the two circular neighbours are at the same distance *)
Theorem psk_two_neighbours_equal (M : nat) : (2 <= M)%nat -> chord2 M (M - 1) = chord2 M 1.
Proof. intro HM. unfold chord2. rewrite (cos_mirror M 1) by lia. reflexivity. Qed.

(* distinct points are distinct: the chord vanishes only for d = 0 (mod M) *)
Theorem psk_points_distinct (M d : nat) : (2 <= M)%nat -> (1 <= d)%nat -> (d <= M - 1)%nat -> 0 < chord2 M d.
Proof.
  intros HM H1 H2. unfold chord2.
  assert (Hc : cos (2 * PI * INR d / INR M) < 1).
  { rewrite <- cos_0. replace 0 with (2 * PI * INR 0 / INR M) by (simpl; unfold Rdiv; ring).
    destruct (le_lt_dec (2 * d) M) as [Hh|Hh].
    - apply cos_half_decreasing; lia.
    - rewrite <- (cos_mirror M d) by lia. apply cos_half_decreasing; lia. }
  lra.
Qed.
