From Coq Require Import QArith List Bool Arith Lia.
From KV Require Import Mod.Constellation.
Import ListNotations.
Local Open Scope nat_scope.

Lemma bits_eqb_eq a : forall b, bits_eqb a b = true <-> a = b.
Proof.
  unfold bits_eqb. induction a as [|x a IH]; intros [|y b]; simpl; split; intro H; try reflexivity; try discriminate.
  - apply andb_true_iff in H. destruct H as [Hl H]. apply andb_true_iff in H. destruct H as [Hx H].
    apply Bool.eqb_prop in Hx. subst. f_equal. apply IH. rewrite Hl. exact H.
  - injection H as -> ->. destruct (IH b) as [_ IH2]. specialize (IH2 eq_refl).
    apply andb_true_iff in IH2. destruct IH2 as [Hl Hf]. rewrite Hl. simpl. rewrite Hf, Bool.eqb_reflx. reflexivity.
Qed.

Lemma memb_In w l : memb w l = true <-> In w l.
Proof.
  induction l as [|x t IH]; simpl; [split; [discriminate|tauto]|].
  rewrite orb_true_iff, bits_eqb_eq, IH. split; intros [H|H]; auto.
Qed.

Lemma nodupb_NoDup l : nodupb l = true -> NoDup l.
Proof.
  induction l as [|x t IH]; simpl; intro H; [constructor|].
  apply andb_true_iff in H. destruct H as [H1 H2]. constructor; [|now apply IH].
  intro Hin. apply memb_In in Hin. rewrite Hin in H1. discriminate.
Qed.

Lemma all_words_length b : length (all_words b) = 2 ^ b.
Proof. induction b as [|b IH]; simpl; [reflexivity|]. rewrite app_length, !map_length, IH. lia. Qed.

Lemma all_words_complete b : forall w, length w = b -> In w (all_words b).
Proof.
  induction b as [|b IH]; intros w Hw.
  - destruct w; [left; reflexivity|discriminate].
  - destruct w as [|x w]; [discriminate|]. simpl in Hw. injection Hw as Hw. simpl. apply in_or_app.
    destruct x; [right|left]; apply in_map; now apply IH.
Qed.

(* every b-bit pattern labels exactly one point *)
Theorem labels_ok_bijective b labs : labels_ok b labs = true ->
  NoDup labs /\ length labs = 2 ^ b /\ (forall l, In l labs -> length l = b) /\
  (forall w, length w = b -> In w labs).
Proof.
  unfold labels_ok. intro H. apply andb_true_iff in H. destruct H as [H H3].
  apply andb_true_iff in H. destruct H as [H1 H2].
  apply Nat.eqb_eq in H1. apply nodupb_NoDup in H3. rewrite forallb_forall in H2.
  assert (Hl : forall l, In l labs -> length l = b) by (intros l Hl; apply Nat.eqb_eq; now apply H2).
  repeat split; try assumption.
  intros w Hw.
  assert (Hincl : incl labs (all_words b)) by (intros l Hin; apply all_words_complete; now apply Hl).
  assert (Hrev : incl (all_words b) labs).
  { apply NoDup_length_incl; [assumption| |assumption]. rewrite all_words_length, H1. lia. }
  apply Hrev. now apply all_words_complete.
Qed.

Theorem points_distinct_spec pts : points_distinct pts = true ->
  forall i j, i < length pts -> j < length pts -> i <> j -> ~ (d2 (pnth pts i) (pnth pts j) == 0)%Q.
Proof.
  unfold points_distinct. intros H i j Hi Hj Hij.
  rewrite forallb_forall in H. specialize (H i). rewrite in_seq in H. specialize (H ltac:(lia)).
  rewrite forallb_forall in H. specialize (H j). rewrite in_seq in H. specialize (H ltac:(lia)).
  apply orb_true_iff in H. destruct H as [H|H]; [apply Nat.eqb_eq in H; lia|].
  intro E. apply Qeq_bool_iff in E. rewrite E in H. discriminate.
Qed.

Lemma dmin_fold_member pts i : forall l acc,
  (forall m, acc = Some m -> exists k, k < length pts /\ k <> i /\ m = d2 (pnth pts i) (pnth pts k)) ->
  (forall k, In k l -> k < length pts) ->
  forall m, fold_left (fun acc k => if (k =? i)%nat then acc else
                          match acc with None => Some (d2 (pnth pts i) (pnth pts k))
                                       | Some m => Some (qminb m (d2 (pnth pts i) (pnth pts k))) end) l acc = Some m ->
  exists k, k < length pts /\ k <> i /\ m = d2 (pnth pts i) (pnth pts k).
Proof.
  induction l as [|k l IH]; intros acc Hacc Hl m; simpl.
  - apply Hacc.
  - apply IH; [|intros; apply Hl; now right].
    intros m' Hm'. destruct (Nat.eqb_spec k i) as [->|Hki]; [now apply Hacc|].
    destruct acc as [a|].
    + injection Hm' as <-. unfold qminb. destruct (Qle_bool a (d2 (pnth pts i) (pnth pts k))).
      * now apply Hacc.
      * exists k. split; [apply Hl; now left|]. split; [assumption|reflexivity].
    + injection Hm' as <-. exists k. split; [apply Hl; now left|]. split; [assumption|reflexivity].
Qed.

Theorem gray_nn_ok_spec tol pts labs : gray_nn_ok tol pts labs = true ->
  forall i j, i < length pts -> j < length pts -> i <> j ->
  (forall k, k < length pts -> k <> i -> (d2 (pnth pts i) (pnth pts j) <= (1 + tol) * d2 (pnth pts i) (pnth pts k))%Q) ->
  hamming_bits (lnth labs i) (lnth labs j) = 1.
Proof.
  unfold gray_nn_ok. intros H i j Hi Hj Hij Hnn.
  rewrite forallb_forall in H. specialize (H i). rewrite in_seq in H. specialize (H ltac:(lia)).
  destruct (dmin pts i) as [m|] eqn:Hd.
  - rewrite forallb_forall in H. specialize (H j). rewrite in_seq in H. specialize (H ltac:(lia)).
    apply orb_true_iff in H. destruct H as [H|H]; [|now apply Nat.eqb_eq].
    apply orb_true_iff in H. destruct H as [H|H]; [apply Nat.eqb_eq in H; lia|].
    unfold dmin in Hd. apply dmin_fold_member in Hd.
    + destruct Hd as [k [Hk [Hki ->]]]. specialize (Hnn k Hk Hki).
      apply Qle_bool_iff in Hnn. rewrite Hnn in H. discriminate.
    + intros m0 Hm0. discriminate.
    + intros k Hk. apply in_seq in Hk. lia.
  - (* no other point: impossible since j <> i is in range *)
    exfalso. unfold dmin in Hd.
    assert (Hgen : forall l acc, In j l -> acc <> None \/ True ->
       fold_left (fun acc k => if (k =? i)%nat then acc else
                          match acc with None => Some (d2 (pnth pts i) (pnth pts k))
                                       | Some m => Some (qminb m (d2 (pnth pts i) (pnth pts k))) end) l acc <> None).
    { assert (Hsome : forall l a, fold_left (fun acc k => if (k =? i)%nat then acc else
                          match acc with None => Some (d2 (pnth pts i) (pnth pts k))
                                       | Some m => Some (qminb m (d2 (pnth pts i) (pnth pts k))) end) l (Some a) <> None).
      { induction l as [|k l IH]; intros a; simpl; [discriminate|]. destruct (k =? i)%nat; apply IH. }
      induction l as [|k l IH]; intros acc Hin _; [destruct Hin|]. simpl.
      destruct Hin as [->|Hin].
      - destruct (Nat.eqb_spec j i) as [E|_]; [lia|]. destruct acc; apply Hsome.
      - apply IH; [assumption|now right]. }
    apply (Hgen (seq 0 (length pts)) None); [apply in_seq; lia|now right|exact Hd].
Qed.

Theorem unit_energy_ok_spec tol pts : unit_energy_ok tol pts = true ->
  let n := inject_Z (Z.of_nat (length pts)) in
  ((1 - tol) * n <= qsum (map energy pts) <= (1 + tol) * n)%Q.
Proof.
  unfold unit_energy_ok. intro H. apply andb_true_iff in H. destruct H as [H1 H2].
  apply Qle_bool_iff in H1. apply Qle_bool_iff in H2. split; assumption.
Qed.
