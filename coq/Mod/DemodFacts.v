From Coq Require Import QArith List Bool Arith Lia Lqa.
From KV Require Import Mod.Constellation Mod.ConstellationFacts Mod.Demod.
Import ListNotations.

Lemma sq_nonneg (a : Q) : 0 <= a * a.
Proof.
  destruct (Qlt_le_dec a 0) as [H|H].
  - setoid_replace (a * a) with ((- a) * (- a)) by ring. apply Qmult_le_0_compat; lra.
  - apply Qmult_le_0_compat; assumption.
Qed.
Lemma d2_nonneg a b : 0 <= d2 a b.
Proof. unfold d2. pose proof (sq_nonneg (fst a - fst b)). pose proof (sq_nonneg (snd a - snd b)). lra. Qed.
Lemma d2_self a : d2 a a == 0.
Proof. unfold d2. ring. Qed.

(* ---------- first argmin ---------- *)
Lemma argmin_from_spec f l : forall i bi bv,
  let r := argmin_from f l i bi bv in
  snd r <= bv /\ (forall p, In p l -> snd r <= f p) /\
  ((fst r = bi /\ snd r = bv) \/ ((i <= fst r < i + length l)%nat /\ snd r = f (nth (fst r - i) l (0, 0)))).
Proof.
  induction l as [|p l IH]; intros i bi bv; cbn [argmin_from].
  - cbn [fst snd]. split; [lra|]. split; [intros ? []|]. left. split; reflexivity.
  - destruct (Qlt_le_dec (f p) bv) as [Hlt|Hge].
    + specialize (IH (S i) i (f p)). cbv zeta in IH. destruct IH as [H1 [H2 H3]].
      split; [lra|]. split; [intros q [<-|Hq]; [exact H1|now apply H2]|]. right.
      destruct H3 as [[E1 E2]|[E1 E2]].
      * rewrite E1, E2. split; [cbn [length]; lia|]. rewrite Nat.sub_diag. reflexivity.
      * split; [cbn [length]; lia|]. rewrite E2. replace (fst (argmin_from f l (S i) i (f p)) - i)%nat with (S (fst (argmin_from f l (S i) i (f p)) - S i)) by lia. reflexivity.
    + specialize (IH (S i) bi bv). cbv zeta in IH. destruct IH as [H1 [H2 H3]].
      split; [exact H1|]. split; [intros q [<-|Hq]; [lra|now apply H2]|].
      destruct H3 as [[E1 E2]|[E1 E2]]; [left; split; assumption|right].
      split; [cbn [length]; lia|]. rewrite E2. replace (fst (argmin_from f l (S i) bi bv) - i)%nat with (S (fst (argmin_from f l (S i) bi bv) - S i)) by lia. reflexivity.
Qed.

(* hard decision: the chosen point is at minimum Euclidean distance from the received point, for every constellation *)
Theorem nearest_is_min pts y : pts <> [] ->
  (nearest pts y < length pts)%nat /\ forall p, In p pts -> d2 y (nth (nearest pts y) pts (0, 0)) <= d2 y p.
Proof.
  destruct pts as [|p0 t]; [contradiction|]. intros _. unfold nearest.
  pose proof (argmin_from_spec (d2 y) t 1 0 (d2 y p0)) as H. cbv zeta in H. destruct H as [H1 [H2 H3]].
  set (r := argmin_from (d2 y) t 1 0 (d2 y p0)) in *.
  destruct H3 as [[E1 E2]|[E1 E2]].
  - rewrite E1. split; [cbn [length]; lia|]. cbn [nth]. intros p [<-|Hp]; [lra|]. rewrite <- E2. now apply H2.
  - split; [cbn [length]; lia|]. intros p Hin.
    replace (nth (fst r) (p0 :: t) (0, 0)) with (nth (fst r - 1) t (0, 0)) by (destruct (fst r) as [|k]; [lia|cbn [nth]; f_equal; lia]).
    rewrite <- E2. destruct Hin as [<-|Hp]; [exact H1|now apply H2].
Qed.

(* ---------- class minima ---------- *)
Lemma list_min_spec l : (l <> [] -> exists m, list_min l = Some m) /\
  forall m, list_min l = Some m -> In m l /\ forall x, In x l -> m <= x.
Proof.
  induction l as [|x t [IH1 IH2]]; cbn [list_min].
  - split; [intro H; contradiction|discriminate].
  - split.
    + intros _. destruct (list_min t); eexists; reflexivity.
    + intros m Hm. destruct (list_min t) as [m'|] eqn:E.
      * destruct (IH2 m' eq_refl) as [Hin Hle]. injection Hm as <-.
        destruct (Qlt_le_dec x m') as [Hlt|Hge].
        -- split; [now left|]. intros z [<-|Hz]; [lra|]. specialize (Hle z Hz). lra.
        -- split; [now right|]. intros z [<-|Hz]; [lra|now apply Hle].
      * injection Hm as <-. split; [now left|]. intros z [<-|Hz]; [lra|].
        destruct t; [destruct Hz|]. destruct (IH1 ltac:(discriminate)) as [m' Em]. congruence.
Qed.

Lemma class_min_le tbl i b y e : In e tbl -> nth i (snd e) false = b -> exists m, class_min tbl i b y = Some m /\ m <= d2 y (fst e).
Proof.
  intros Hin Hb. unfold class_min.
  assert (Hc : In e (class_entries tbl i b)) by (apply filter_In; split; [assumption|now apply Bool.eqb_true_iff]).
  assert (Hd : In (d2 y (fst e)) (map (fun e0 => d2 y (fst e0)) (class_entries tbl i b))) by (apply in_map_iff; exists e; split; auto).
  destruct (list_min_spec (map (fun e0 => d2 y (fst e0)) (class_entries tbl i b))) as [H1 H2].
  destruct H1 as [m Em]; [intro E; rewrite E in Hd; destruct Hd|]. exists m. split; [exact Em|]. now apply (H2 m Em).
Qed.
Lemma class_min_member tbl i b y m : class_min tbl i b y = Some m -> exists e, In e tbl /\ nth i (snd e) false = b /\ m = d2 y (fst e).
Proof.
  unfold class_min. intro H. destruct (list_min_spec (map (fun e0 => d2 y (fst e0)) (class_entries tbl i b))) as [_ H2].
  destruct (H2 m H) as [Hin _]. apply in_map_iff in Hin. destruct Hin as [e [<- He]]. apply filter_In in He. destruct He as [He Hb].
  exists e. split; [exact He|]. split; [now apply Bool.eqb_prop|reflexivity].
Qed.

(* soft output: the sign of (min d^2 to label 1) - (min d^2 to label 0) agrees with the hard decision of the same bit *)
Theorem llr_sign_agrees_with_hard tbl i y : tbl <> [] ->
  (0 < llr_core tbl i y -> nth i (hard_label tbl y) false = false) /\
  (llr_core tbl i y < 0 -> nth i (hard_label tbl y) false = true).
Proof.
  intro Hne. unfold hard_label. set (pts := map fst tbl).
  assert (Hpn : pts <> []) by (unfold pts; destruct tbl; [contradiction|discriminate]).
  destruct (nearest_is_min pts y Hpn) as [Hj Hmin]. set (j := nearest pts y) in *.
  assert (Hjl : (j < length tbl)%nat) by (unfold pts in Hj; now rewrite map_length in Hj).
  set (e := nth j tbl ((0, 0), [])).
  assert (Hein : In e tbl) by (apply nth_In; exact Hjl).
  assert (Hfe : fst e = nth j pts (0, 0)) by (unfold e, pts; symmetry; apply (map_nth fst tbl ((0, 0), []) j)).
  assert (Hglob : forall e', In e' tbl -> d2 y (fst e) <= d2 y (fst e')).
  { intros e' Hin. rewrite Hfe. apply Hmin. unfold pts. now apply in_map. }
  unfold llr_core. split; intro Hl.
  - destruct (nth i (snd e) false) eqn:Eb; [|reflexivity]. exfalso.
    destruct (class_min_le tbl i true y e Hein Eb) as [m1 [E1 H1]]. rewrite E1 in Hl.
    destruct (class_min tbl i false y) as [m0|] eqn:E0; [|cbv beta iota in Hl; lra].
    destruct (class_min_member tbl i false y m0 E0) as [e0 [Hin0 [_ Em0]]]. pose proof (Hglob e0 Hin0). cbv beta iota in Hl. subst m0. lra.
  - destruct (nth i (snd e) false) eqn:Eb; [reflexivity|]. exfalso.
    destruct (class_min_le tbl i false y e Hein Eb) as [m0 [E0 H0]]. rewrite E0 in Hl.
    destruct (class_min tbl i true y) as [m1|] eqn:E1; [|cbv beta iota in Hl; lra].
    destruct (class_min_member tbl i true y m1 E1) as [e1 [Hin1 [_ Em1]]]. pose proof (Hglob e1 Hin1). cbv beta iota in Hl. subst m1. lra.
Qed.

(* the LLR scales inversely with the noise variance: c * D / (a * s) = (c * D / s) / a *)
Theorem llr_scales_inversely c D s a : ~ s == 0 -> ~ a == 0 -> c * D / (a * s) == (c * D / s) / a.
Proof. intros Hs Ha. field. split; assumption. Qed.

(* ---------- noise-free round trip ---------- *)
Lemma find_app' {A} (f : A -> bool) l1 l2 : find f (l1 ++ l2) = match find f l1 with Some x => Some x | None => find f l2 end.
Proof. induction l1 as [|x l1 IH]; simpl; [reflexivity|]. destruct (f x); [reflexivity|exact IH]. Qed.

Lemma mod_point_spec (tbl : list entry) : forall (acc : option pt) bits,
  fold_left (fun (acc : option pt) (e : entry) => if bits_eqb (snd e) bits then Some (fst e) else acc) tbl acc =
  match find (fun e : entry => bits_eqb (snd e) bits) (rev tbl) with Some e => Some (fst e) | None => acc end.
Proof.
  induction tbl as [|e tbl IH]; intros acc bits; cbn [fold_left rev]; [reflexivity|].
  rewrite IH. rewrite find_app'. destruct (find _ (rev tbl)) as [e'|]; [reflexivity|]. cbn [find].
  destruct (bits_eqb (snd e) bits); reflexivity.
Qed.

Theorem table_roundtrip tbl : table_ok tbl = true -> forall e, In e tbl ->
  mod_point tbl (snd e) = Some (fst e) /\ hard_label tbl (fst e) = snd e.
Proof.
  unfold table_ok. intro H. apply andb_true_iff in H. destruct H as [Hp Hl]. apply nodupb_NoDup in Hl.
  intros e Hin. split.
  - unfold mod_point. rewrite mod_point_spec.
    destruct (find _ (rev tbl)) as [e'|] eqn:Ef.
    + apply find_some in Ef. destruct Ef as [Hin' Heq]. apply bits_eqb_eq in Heq. apply in_rev in Hin'.
      (* equal labels => same entry, by NoDup of the label column *)
      apply In_nth_error in Hin. apply In_nth_error in Hin'. destruct Hin as [a Ha]. destruct Hin' as [b Hb].
      assert (a = b).
      { rewrite NoDup_nth_error in Hl. apply Hl; [rewrite map_length; apply (proj1 (nth_error_Some tbl a)); rewrite Ha; discriminate|].
        rewrite (map_nth_error snd a tbl Ha), (map_nth_error snd b tbl Hb). now rewrite Heq. }
      subst b. rewrite Ha in Hb. injection Hb as ->. reflexivity.
    + exfalso. pose proof (find_none _ _ Ef e (proj1 (in_rev tbl e) Hin)) as Hn. cbv beta in Hn.
      assert (bits_eqb (snd e) (snd e) = true) by now apply bits_eqb_eq. congruence.
  - unfold hard_label. set (pts := map fst tbl).
    assert (Hpn : pts <> []) by (unfold pts; destruct tbl; [destruct Hin|discriminate]).
    destruct (nearest_is_min pts (fst e) Hpn) as [Hj Hmin]. set (j := nearest pts (fst e)) in *.
    apply In_nth_error in Hin. destruct Hin as [a Ha].
    assert (Hal : (a < length pts)%nat) by (unfold pts; rewrite map_length; apply (proj1 (nth_error_Some tbl a)); rewrite Ha; discriminate).
    assert (Epa : nth a pts (0, 0) = fst e) by (unfold pts; apply nth_error_nth; now apply map_nth_error).
    assert (Hz : d2 (fst e) (nth j pts (0, 0)) == 0).
    { pose proof (Hmin (fst e) ltac:(rewrite <- Epa; now apply nth_In)). pose proof (d2_nonneg (fst e) (nth j pts (0, 0))).
      pose proof (d2_self (fst e)). lra. }
    destruct (Nat.eq_dec j a) as [->|Hne].
    + apply (nth_error_nth tbl a ((0, 0), [])) in Ha. now rewrite Ha.
    + exfalso. apply (points_distinct_spec pts Hp a j Hal Hj ltac:(auto)). unfold pnth. rewrite Epa. exact Hz.
Qed.

(* whole sequences: every sequence of bit groups that are labels of the table comes back unchanged *)
Theorem sequence_roundtrip tbl : table_ok tbl = true -> forall gs, (forall g, In g gs -> In g (map snd tbl)) ->
  exists ys, map (mod_point tbl) gs = map Some ys /\ demodulate tbl ys = concat gs /\ length ys = length gs.
Proof.
  intros Hok gs. induction gs as [|g gs IH]; intro Hall.
  - exists []. repeat split.
  - destruct IH as [ys [E1 [E2 E3]]]; [intros; apply Hall; now right|].
    assert (Hg : In g (map snd tbl)) by (apply Hall; now left). apply in_map_iff in Hg. destruct Hg as [e [<- Hin]].
    destruct (table_roundtrip tbl Hok e Hin) as [Hm Hh].
    exists (fst e :: ys). cbn [map demodulate flat_map concat length]. rewrite Hm, E1. repeat split.
    + unfold demodulate in E2. now rewrite Hh, E2.
    + now rewrite E3.
Qed.
