From Coq Require Import NArith List Bool Lia.
From KV Require Import Gen.GrayConst Mod.Gray.
Import ListNotations.
Local Open Scope N_scope.

Lemma gray_lxor a b : gray (N.lxor a b) = N.lxor (gray a) (gray b).
Proof.
  unfold gray. rewrite N.shiftr_lxor.
  rewrite !N.lxor_assoc. f_equal. rewrite <- !N.lxor_assoc. f_equal. apply N.lxor_comm.
Qed.

Lemma gray_0 : gray 0 = 0. Proof. reflexivity. Qed.

Lemma shiftr1_lt a : a <> 0 -> N.shiftr a 1 < a.
Proof. intro H. rewrite N.shiftr_div_pow2. change (2 ^ 1) with 2. apply N.div_lt; lia. Qed.

Lemma gray_eq_0 a : gray a = 0 -> a = 0.
Proof.
  unfold gray. intro H. apply N.lxor_eq in H.
  destruct (N.eq_dec a 0) as [|Hn]; [assumption|]. pose proof (shiftr1_lt a Hn). lia.
Qed.

Theorem gray_injective a b : gray a = gray b -> a = b.
Proof.
  intro H. apply N.lxor_eq. apply gray_eq_0. rewrite gray_lxor, H. apply N.lxor_nilpotent.
Qed.

(* closed form of the loop *)
Fixpoint sumshift (f : nat) (m : N) : N :=
  match f with O => 0 | S f' => N.lxor (N.shiftr m 1) (sumshift f' (N.shiftr m 1)) end.

Lemma sumshift_0 g : sumshift g 0 = 0.
Proof. induction g as [|g IHg]; [reflexivity|]. cbn [sumshift]. now rewrite N.shiftr_0_l, IHg. Qed.

Lemma ungray_loop_spec f : forall mask result, mask < 2 ^ N.of_nat f ->
  ungray_loop f mask result = Some (N.lxor result (sumshift f mask)).
Proof.
  induction f as [|f IH]; intros mask result Hm.
  - simpl in Hm. assert (mask = 0) by lia. subst. simpl. now rewrite N.lxor_0_r.
  - destruct (N.eq_dec mask 0) as [->|Hn].
    + rewrite sumshift_0, N.lxor_0_r. reflexivity.
    + cbn [ungray_loop sumshift]. apply N.eqb_neq in Hn. rewrite Hn. rewrite IH.
      * now rewrite N.lxor_assoc.
      * rewrite N.shiftr_div_pow2. change (2 ^ 1) with 2.
        apply N.div_lt_upper_bound; [lia|]. rewrite Nat2N.inj_succ, N.pow_succ_r' in Hm. exact Hm.
Qed.

Lemma gray_T f : forall m, m < 2 ^ N.of_nat f -> gray (N.lxor m (sumshift f m)) = m.
Proof.
  induction f as [|f IH]; intros m Hm.
  - simpl in Hm. assert (m = 0) by lia. subst. reflexivity.
  - cbn [sumshift]. rewrite gray_lxor. rewrite IH.
    + unfold gray. rewrite N.lxor_assoc, N.lxor_nilpotent. apply N.lxor_0_r.
    + rewrite N.shiftr_div_pow2. change (2 ^ 1) with 2.
      apply N.div_lt_upper_bound; [lia|]. rewrite Nat2N.inj_succ, N.pow_succ_r' in Hm. exact Hm.
Qed.

Lemma lt_pow2_size n : n < 2 ^ N.of_nat (N.to_nat (N.size n)).
Proof.
  rewrite N2Nat.id. destruct n as [|p]; [reflexivity|].
  rewrite N.size_log2 by discriminate. apply N.log2_spec. reflexivity.
Qed.

Theorem ungray_total n : ungray_loop (N.to_nat (N.size n)) n n = Some (ungray n).
Proof. unfold ungray. rewrite ungray_loop_spec by apply lt_pow2_size. reflexivity. Qed.

Theorem gray_ungray n : gray (ungray n) = n.
Proof. unfold ungray. rewrite ungray_loop_spec by apply lt_pow2_size. apply gray_T, lt_pow2_size. Qed.

Theorem ungray_gray n : ungray (gray n) = n.
Proof. apply gray_injective. apply gray_ungray. Qed.

(* consecutive integers: n xor (n+1) is a block of ones, whose Gray image is a single bit *)
Lemma lxor_succ_ones n : exists k, N.lxor n (N.succ n) = N.ones (N.succ k).
Proof.
  induction n as [|n IH|n IH] using N.binary_ind.
  - exists 0. reflexivity.
  - exists 0. rewrite N.double_spec. apply N.bits_inj. intro i.
    rewrite N.lxor_spec. destruct (N.eq_dec i 0) as [->|Hi].
    + rewrite N.testbit_even_0. replace (N.succ (2 * n)) with (2 * n + 1) by lia. rewrite N.testbit_odd_0. reflexivity.
    + replace i with (N.succ (N.pred i)) by lia.
      replace (N.succ (2 * n)) with (2 * n + 1) by lia.
      rewrite N.testbit_even_succ, N.testbit_odd_succ by lia. rewrite xorb_nilpotent.
      symmetry. apply N.ones_spec_high. lia.
  - destruct IH as [k Hk]. exists (N.succ k). rewrite N.succ_double_spec.
    replace (N.succ (2 * n + 1)) with (2 * N.succ n) by lia.
    apply N.bits_inj. intro i. rewrite N.lxor_spec.
    destruct (N.eq_dec i 0) as [->|Hi].
    + rewrite N.testbit_odd_0, N.testbit_even_0. symmetry. apply N.ones_spec_low. lia.
    + replace i with (N.succ (N.pred i)) by lia.
      rewrite N.testbit_odd_succ, N.testbit_even_succ by lia.
      rewrite <- N.lxor_spec, Hk.
      destruct (N.lt_ge_cases (N.pred i) (N.succ k)) as [Hl|Hg].
      * rewrite !N.ones_spec_low by lia. reflexivity.
      * rewrite !N.ones_spec_high by lia. reflexivity.
Qed.

Lemma gray_ones k : gray (N.ones (N.succ k)) = 2 ^ k.
Proof.
  unfold gray. apply N.bits_inj. intro i. rewrite N.lxor_spec, N.shiftr_spec by lia.
  rewrite N.pow2_bits_eqb.
  destruct (N.eqb_spec k i) as [->|Hne].
  - rewrite N.ones_spec_low by lia. rewrite N.ones_spec_high by lia. reflexivity.
  - destruct (N.lt_ge_cases i k).
    + rewrite !N.ones_spec_low by lia. reflexivity.
    + rewrite !N.ones_spec_high by lia. reflexivity.
Qed.

Theorem gray_succ_one_bit n : exists k, N.lxor (gray n) (gray (N.succ n)) = 2 ^ k.
Proof.
  destruct (lxor_succ_ones n) as [k Hk]. exists k. rewrite <- gray_lxor, Hk. apply gray_ones.
Qed.

Lemma popcount_double a : popcount (2 * a) = popcount a.
Proof. destruct a; reflexivity. Qed.

Lemma popcount_pow2 k : popcount (2 ^ k) = 1%nat.
Proof.
  induction k as [|k IH] using N.peano_ind; [reflexivity|].
  rewrite N.pow_succ_r', popcount_double. exact IH.
Qed.

Theorem gray_succ_hamming n : hamming (gray n) (gray (N.succ n)) = 1%nat.
Proof. unfold hamming. destruct (gray_succ_one_bit n) as [k ->]. apply popcount_pow2. Qed.

(* wrap-around used by PSK: the last and the first of 2^b words differ in one bit *)
Theorem gray_wrap b : N.lxor (gray (2 ^ N.succ b - 1)) (gray 0) = 2 ^ b.
Proof. rewrite gray_0, N.lxor_0_r. change (2 ^ N.succ b - 1) with (N.pred (2 ^ N.succ b)) || idtac.
  replace (2 ^ N.succ b - 1) with (N.ones (N.succ b)).
  - apply gray_ones.
  - unfold N.ones. rewrite N.shiftl_1_l. lia.
Qed.

Theorem gray_lt_pow2 n b : n < 2 ^ b -> gray n < 2 ^ b.
Proof.
  intro H. unfold gray. destruct (N.eq_dec n 0) as [->|Hn]; [exact H|].
  destruct (N.eq_dec (N.lxor n (N.shiftr n 1)) 0) as [->|Hx]; [lia|].
  apply N.log2_lt_pow2; [lia|]. eapply N.le_lt_trans; [apply N.log2_lxor|].
  apply N.max_lub_lt.
  - apply N.log2_lt_pow2; lia.
  - destruct (N.eq_dec (N.shiftr n 1) 0) as [->|Hs].
    + simpl. destruct b; [simpl in H; lia|lia].
    + apply N.log2_lt_pow2; [lia|]. pose proof (shiftr1_lt n Hn). lia.
Qed.

(* ---- the functions as written, with their special cases ---- *)
Theorem b2g_regular n : lookup_exc n b2g_exceptions = None -> b2g n = gray n.
Proof. unfold b2g. now intros ->. Qed.
Theorem g2b_regular n : lookup_exc n g2b_exceptions = None -> g2b n = ungray n.
Proof. unfold g2b. now intros ->. Qed.

Lemma lookup_ok f t : forallb (fun kv => snd kv =? f (fst kv)) t = true ->
  forall n, match lookup_exc n t with Some v => v | None => f n end = f n.
Proof.
  induction t as [|[k v] t IH]; intros H n; simpl in *; [reflexivity|].
  apply andb_true_iff in H. destruct H as [H1 H2].
  destruct (N.eqb_spec k n) as [->|]; [now apply N.eqb_eq in H1|]. now apply IH.
Qed.

Theorem exceptions_ok_spec : exceptions_ok = true -> forall n, b2g n = gray n /\ g2b n = ungray n.
Proof.
  unfold exceptions_ok. intros H n. apply andb_true_iff in H. destruct H as [H1 H2]. split.
  - apply (lookup_ok gray _ H1).
  - apply (lookup_ok ungray _ H2).
Qed.
