(* Labelled constellations as the modulators publish them: points (exact rationals; every float32/float64 is
   a dyadic rational) and one bit label per point.  Boolean checkers over a concrete table, evaluated by the
   kernel on the tables the implementation publishes; their soundness theorems are in ConstellationFacts.v. *)
From Coq Require Import QArith List Bool Arith.
Import ListNotations.

Definition pt := (Q * Q)%type.
Definition d2 (a b : pt) : Q := (fst a - fst b) * (fst a - fst b) + (snd a - snd b) * (snd a - snd b).
Definition energy (a : pt) : Q := fst a * fst a + snd a * snd a.

Definition bits_eqb (a b : list bool) : bool :=
  (length a =? length b)%nat && forallb (fun p => Bool.eqb (fst p) (snd p)) (combine a b).
Fixpoint hamming_bits (a b : list bool) : nat :=
  match a, b with
  | x :: a', y :: b' => (if Bool.eqb x y then 0 else 1) + hamming_bits a' b'
  | _, _ => 0
  end.

Fixpoint memb (w : list bool) (l : list (list bool)) : bool :=
  match l with [] => false | x :: t => bits_eqb w x || memb w t end.
Fixpoint nodupb (l : list (list bool)) : bool :=
  match l with [] => true | x :: t => negb (memb x t) && nodupb t end.

(* 2^b labels of length b, pairwise distinct *)
Definition labels_ok (b : nat) (labs : list (list bool)) : bool :=
  (length labs =? 2 ^ b)%nat && forallb (fun l => (length l =? b)%nat) labs && nodupb labs.

Definition pnth (l : list pt) (i : nat) : pt := nth i l (0, 0).
Definition lnth (l : list (list bool)) (i : nat) : list bool := nth i l [].

(* pairwise distinct points *)
Definition points_distinct (pts : list pt) : bool :=
  let n := length pts in
  forallb (fun i => forallb (fun j => (i =? j)%nat || negb (Qeq_bool (d2 (pnth pts i) (pnth pts j)) 0)) (seq 0 n)) (seq 0 n).

(* Gray property: whenever j is a nearest neighbour of i (up to the relative tolerance tol, which absorbs
   float rounding of the published coordinates), the labels differ in exactly one bit *)
Definition qminb (a b : Q) : Q := if Qle_bool a b then a else b.
Definition dmin (pts : list pt) (i : nat) : option Q :=
  fold_left (fun acc k => if (k =? i)%nat then acc else
                          match acc with None => Some (d2 (pnth pts i) (pnth pts k))
                                       | Some m => Some (qminb m (d2 (pnth pts i) (pnth pts k))) end)
            (seq 0 (length pts)) None.
Definition gray_nn_ok (tol : Q) (pts : list pt) (labs : list (list bool)) : bool :=
  let n := length pts in
  forallb (fun i =>
    match dmin pts i with
    | None => true
    | Some m => forallb (fun j =>
        (i =? j)%nat || negb (Qle_bool (d2 (pnth pts i) (pnth pts j)) ((1 + tol) * m))
        || (hamming_bits (lnth labs i) (lnth labs j) =? 1)%nat) (seq 0 n)
    end) (seq 0 n).

Fixpoint qsum (l : list Q) : Q := match l with [] => 0 | x :: t => x + qsum t end.
(* | mean |c|^2 - 1 | <= tol *)
Definition unit_energy_ok (tol : Q) (pts : list pt) : bool :=
  let s := qsum (map energy pts) in let n := inject_Z (Z.of_nat (length pts)) in
  Qle_bool s ((1 + tol) * n) && Qle_bool ((1 - tol) * n) s.

Fixpoint all_words (b : nat) : list (list bool) :=
  match b with O => [[]] | S b' => map (cons false) (all_words b') ++ map (cons true) (all_words b') end.
