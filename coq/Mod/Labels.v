(* Executable model of the label tables built by PSKModulator/QAMModulator/PAMModulator._create_constellation
   (kaira/modulations/psk.py, qam.py, pam.py) and of the integer geometry before normalisation. No proofs. *)
From Coq Require Import NArith ZArith List Bool.
From KV Require Import Gen.GrayConst Mod.Gray.
Import ListNotations.

(* format(n, f"0{b}b") for n < 2^b : b characters, most significant bit first *)
Definition to_bits_msb (b : nat) (n : N) : list bool :=
  map (fun i => N.testbit n (N.of_nat (b - 1 - i))) (seq 0 b).

Definition order (b : nat) : nat := N.to_nat (2 ^ N.of_nat b).

(* PSK: gray_idx = i ^ (i >> 1) (inline, not through binary_to_gray) *)
Definition psk_patterns (b : nat) (g : bool) : list (list bool) :=
  map (fun i => let n := N.of_nat i in to_bits_msb b (if g then gray n else n)) (seq 0 (order b)).

(* bit_to_symbol_map: for each i, idx = integer value of bit_patterns[i]; gray: map[idx] = i, else map[i] = i *)
Fixpoint bits_val (l : list bool) (acc : N) : N :=
  match l with [] => acc | x :: t => bits_val t (2 * acc + (if x then 1 else 0)) end.
Fixpoint set_nth {A} (l : list A) (i : nat) (v : A) : list A :=
  match l, i with
  | [], _ => []
  | _ :: t, O => v :: t
  | x :: t, S i' => x :: set_nth t i' v
  end.
Definition psk_symbol_map (b : nat) (g : bool) : list nat :=
  fold_left (fun m i =>
     if g then set_nth m (N.to_nat (bits_val (nth i (psk_patterns b g) []) 0)) i else set_nth m i i)
    (seq 0 (order b)) (repeat 0 (order b)).

(* PAM: labels through binary_to_gray (with its special cases); levels = -(M-1)+2i, permuted by the Gray map *)
Definition pam_patterns (b : nat) (g : bool) : list (list bool) :=
  map (fun i => let n := N.of_nat i in to_bits_msb b (if g then b2g n else n)) (seq 0 (order b)).
Definition pam_levels (b : nat) (g : bool) : list Z :=
  map (fun i => let n := N.of_nat i in
                let idx := if g then b2g n else n in
                (2 * Z.of_N idx - (Z.of_nat (order b) - 1))%Z) (seq 0 (order b)).

(* QAM (b even, k = 2^(b/2)): point idx = i*k + j is (level i, level j); gray label = bits(b2g i) ++ bits(b2g j) *)
Definition qam_patterns (b : nat) (g : bool) : list (list bool) :=
  let h := Nat.div b 2 in let k := order h in
  if g then flat_map (fun i => map (fun j => to_bits_msb h (b2g (N.of_nat i)) ++ to_bits_msb h (b2g (N.of_nat j))) (seq 0 k)) (seq 0 k)
  else map (fun i => to_bits_msb b (N.of_nat i)) (seq 0 (order b)).
Definition qam_grid (b : nat) : list (Z * Z) :=
  let h := Nat.div b 2 in let k := order h in
  flat_map (fun i => map (fun j => ((2 * Z.of_nat i - (Z.of_nat k - 1))%Z, (2 * Z.of_nat j - (Z.of_nat k - 1))%Z)) (seq 0 k)) (seq 0 k).
