From Coq Require Import QArith List Bool Arith NArith.
From KV Require Import Mod.Constellation Mod.Demod Mod.Stateful.
Import ListNotations.
Definition mk_table (pts : list pt) (labs : list (list bool)) : list entry := combine pts labs.
(* index of the point the model modulator picks for each label of the table (position in pts), and the hard label of each point *)
Fixpoint index_of_pt (p : pt) (pts : list pt) (i : nat) : nat :=
  match pts with [] => i | q :: t => if Qeq_bool (fst p) (fst q) && Qeq_bool (snd p) (snd q) then i else index_of_pt p t (S i) end.
Definition c05_table (pts : list pt) (labs : list (list bool)) : bool * list nat * list (list bool) :=
  let tbl := mk_table pts labs in
  (table_ok tbl,
   map (fun l => match mod_point tbl l with Some p => index_of_pt p pts 0 | None => length pts end) labs,
   map (hard_label tbl) pts).
(* hard labels and LLR cores for received points *)
Definition canonq (q : Q) : Z * Z := let r := Qred q in (Qnum r, Zpos (Qden r)).
Definition c06_points (pts : list pt) (labs : list (list bool)) (b : nat) (ys : list pt) : list (list bool * list (Z * Z)) :=
  let tbl := mk_table pts labs in
  map (fun y => (hard_label tbl y, map (fun i => canonq (llr_core tbl i y)) (seq 0 b))) ys.
