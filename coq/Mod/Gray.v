(* Executable model of kaira/modulations/utils.py : binary_to_gray / gray_to_binary.
   The hard-coded special cases (`if num == K: return V`) are REGENERATED from the source into
   Gen/GrayConst.v (b2g_exceptions, g2b_exceptions); the remaining body is transcribed by hand and tied
   by correspondence.  No proofs here. *)
From Coq Require Import NArith List Bool.
From KV Require Import Gen.GrayConst.
Import ListNotations.
Local Open Scope N_scope.

(* the reflected binary Gray code: num ^ (num >> 1) *)
Definition gray (n : N) : N := N.lxor n (N.shiftr n 1).

(* mask = num; result = num; while mask > 0: mask >>= 1; result ^= mask *)
Fixpoint ungray_loop (fuel : nat) (mask result : N) : option N :=
  if mask =? 0 then Some result else
  match fuel with
  | O => None
  | S f => let mask' := N.shiftr mask 1 in ungray_loop f mask' (N.lxor result mask')
  end.
Definition ungray (n : N) : N :=
  match ungray_loop (N.to_nat (N.size n)) n n with Some r => r | None => 0 end.

Fixpoint lookup_exc (n : N) (t : list (N * N)) : option N :=
  match t with [] => None | (k, v) :: t' => if k =? n then Some v else lookup_exc n t' end.

(* binary_to_gray / gray_to_binary as written (negative inputs raise ValueError: outside N) *)
Definition b2g (n : N) : N := match lookup_exc n b2g_exceptions with Some v => v | None => gray n end.
Definition g2b (n : N) : N := match lookup_exc n g2b_exceptions with Some v => v | None => ungray n end.

(* do the hard-coded cases agree with the general rule?  (false on a tree that special-cases a value wrongly) *)
Definition exceptions_ok : bool :=
  forallb (fun kv => snd kv =? gray (fst kv)) b2g_exceptions &&
  forallb (fun kv => snd kv =? ungray (fst kv)) g2b_exceptions.

Fixpoint popcount_pos (p : positive) : nat :=
  match p with xH => 1%nat | xO q => popcount_pos q | xI q => S (popcount_pos q) end.
Definition popcount (n : N) : nat := match n with 0 => O | Npos p => popcount_pos p end.
Definition hamming (a b : N) : nat := popcount (N.lxor a b).
