(* Square-grid (QAM) geometry and Gray labelling for EVERY order 4^h, beyond the published tables:
   the nearest points of grid point (i, j) are exactly (i +- 1, j) and (i, j +- 1), and the Gray label
   bits(gray i) ++ bits(gray j) of such a neighbour differs from the label of (i, j) in exactly one bit. *)
From Coq Require Import NArith ZArith List Bool Lia Arith.
Import ListNotations.
From KV Require Import Base.GF2Facts Gen.GrayConst Mod.Gray Mod.GrayFacts Mod.Labels.

(* ---- integer geometry: levels 2 i - (k - 1), squared distance 4 ((i - i')^2 + (j - j')^2) ---- *)
Local Open Scope Z_scope.
Definition gd2 (i j i' j' : Z) : Z := 4 * ((i - i') * (i - i') + (j - j') * (j - j')).

Theorem grid_nearest i j i' j' : (i <> i' \/ j <> j') ->
  4 <= gd2 i j i' j' /\
  (gd2 i j i' j' = 4 <-> (Z.abs (i - i') = 1 /\ j = j') \/ (i = i' /\ Z.abs (j - j') = 1)).
Proof.
  intro Hne. unfold gd2.
  assert (Hsq : forall a : Z, a <> 0 -> 1 <= a * a) by (intros a Ha; assert (a <= -1 \/ 1 <= a) by lia; nia).
  assert (Hnn : forall a : Z, 0 <= a * a) by (intro a; nia).
  split.
  { destruct Hne as [H|H]; [pose proof (Hsq (i - i') ltac:(lia)); pose proof (Hnn (j - j'))|pose proof (Hsq (j - j') ltac:(lia)); pose proof (Hnn (i - i'))]; lia. }
  split.
  - intro E. set (a := i - i') in *. set (b := j - j') in *.
    assert (Ha : a * a + b * b = 1) by lia.
    pose proof (Hnn a) as H1. pose proof (Hnn b) as H2.
    assert (Hroot : forall c : Z, c * c = 1 -> c = 1 \/ c = -1).
    { intros c Hc. assert (-1 <= c <= 1) by nia. assert (c <> 0) by (intro; subst; lia). lia. }
    assert (Hzero : forall c : Z, c * c = 0 -> c = 0) by (intros c Hc; nia).
    assert (Hc : (a * a = 1 /\ b * b = 0) \/ (a * a = 0 /\ b * b = 1)) by lia.
    destruct Hc as [[Ea Eb]|[Ea Eb]].
    + left. pose proof (Hroot a Ea). pose proof (Hzero b Eb). unfold a, b in *. split; lia.
    + right. pose proof (Hroot b Eb). pose proof (Hzero a Ea). unfold a, b in *. split; lia.
  - intros [[Ea ->]|[-> Eb]].
    + replace (j' - j') with 0 by lia. assert (i - i' = 1 \/ i - i' = -1) by lia. destruct H as [->| ->]; reflexivity.
    + replace (i' - i') with 0 by lia. assert (j - j' = 1 \/ j - j' = -1) by lia. destruct H as [->| ->]; reflexivity.
Qed.

(* ---- labels ---- *)
Local Open Scope nat_scope.
Fixpoint lham (a b : list bool) : nat :=
  match a, b with x :: a', y :: b' => (if Bool.eqb x y then 0 else 1) + lham a' b' | _, _ => 0 end.

Lemma lham_refl a : lham a a = 0.
Proof. induction a as [|x a IH]; cbn [lham]; [reflexivity|]. rewrite Bool.eqb_reflx, IH. reflexivity. Qed.
Lemma lham_app a a' b b' : length a = length b -> lham (a ++ a') (b ++ b') = lham a b + lham a' b'.
Proof.
  revert b; induction a as [|x a IH]; intros [|y b] Hl; cbn in Hl; try discriminate; cbn [app lham]; [reflexivity|].
  rewrite IH by lia. lia.
Qed.
Lemma lham_map (f g : nat -> bool) l : lham (map f l) (map g l) = length (filter (fun i => negb (Bool.eqb (f i) (g i))) l).
Proof.
  induction l as [|i l IH]; cbn [map lham filter]; [reflexivity|]. rewrite IH. destruct (Bool.eqb (f i) (g i)); cbn [negb length]; lia.
Qed.
Lemma filter_none {A} (p : A -> bool) l : (forall x, In x l -> p x = false) -> filter p l = [].
Proof. induction l as [|x l IH]; intro H; cbn [filter]; [reflexivity|]. rewrite (H x (or_introl eq_refl)). apply IH. intros y Hy. apply H. now right. Qed.
Lemma filter_eq_seq t h : t < h -> filter (fun i => i =? t) (seq 0 h) = [t].
Proof.
  intro Ht. replace h with (t + S (h - S t)) by lia. rewrite seq_app. cbn [seq Nat.add]. rewrite filter_app. cbn [filter].
  rewrite Nat.eqb_refl. rewrite !filter_none.
  - reflexivity.
  - intros x Hx. apply in_seq in Hx. apply Nat.eqb_neq. lia.
  - intros x Hx. apply in_seq in Hx. apply Nat.eqb_neq. lia.
Qed.

Lemma to_bits_length h n : length (to_bits_msb h n) = h.
Proof. unfold to_bits_msb. now rewrite map_length, seq_length. Qed.

(* two numbers whose xor is a single bit below position h have h-bit strings at Hamming distance one *)
Lemma to_bits_one_bit h a b k : k < h -> N.lxor a b = (2 ^ N.of_nat k)%N -> lham (to_bits_msb h a) (to_bits_msb h b) = 1.
Proof.
  intros Hk E. unfold to_bits_msb. rewrite lham_map.
  rewrite (filter_ext_in _ (fun i => i =? h - 1 - k)).
  - rewrite filter_eq_seq by lia. reflexivity.
  - intros i Hi. apply in_seq in Hi.
    assert (Hx : xorb (N.testbit a (N.of_nat (h - 1 - i))) (N.testbit b (N.of_nat (h - 1 - i))) = (N.of_nat k =? N.of_nat (h - 1 - i))%N).
    { rewrite <- N.lxor_spec, E. apply N.pow2_bits_eqb. }
    destruct (Nat.eqb_spec i (h - 1 - k)) as [Ei|Ei].
    + assert (Ek : (N.of_nat k =? N.of_nat (h - 1 - i))%N = true) by (apply N.eqb_eq; f_equal; lia).
      rewrite Ek in Hx. destruct (N.testbit a _), (N.testbit b _); cbn in *; congruence.
    + assert (Ek : (N.of_nat k =? N.of_nat (h - 1 - i))%N = false) by (apply N.eqb_neq; intro F; apply Nat2N.inj in F; lia).
      rewrite Ek in Hx. destruct (N.testbit a _), (N.testbit b _); cbn in *; congruence.
Qed.

(* Gray label of grid point (i, j) with h bits per axis *)
Definition qam_label (h : nat) (i j : N) : list bool := to_bits_msb h (gray i) ++ to_bits_msb h (gray j).

Lemma gray_step_bit h i : (N.succ i < 2 ^ N.of_nat h)%N -> exists k, k < h /\ N.lxor (gray i) (gray (N.succ i)) = (2 ^ N.of_nat k)%N.
Proof.
  intro Hi. destruct (gray_succ_one_bit i) as [k Ek].
  assert (H1 : (gray i < 2 ^ N.of_nat h)%N) by (apply gray_lt_pow2; lia).
  assert (H2 : (gray (N.succ i) < 2 ^ N.of_nat h)%N) by (apply gray_lt_pow2; exact Hi).
  assert (Hl : (N.lxor (gray i) (gray (N.succ i)) < 2 ^ N.of_nat h)%N) by (apply lxor_lt_pow2; assumption).
  rewrite Ek in Hl. apply N.pow_lt_mono_r_iff in Hl; [|lia].
  exists (N.to_nat k). split; [lia|]. rewrite N2Nat.id. exact Ek.
Qed.

(* the four grid neighbours carry labels at Hamming distance one *)
Theorem qam_gray_neighbours h i j : (N.succ i < 2 ^ N.of_nat h)%N -> (j < 2 ^ N.of_nat h)%N ->
  lham (qam_label h i j) (qam_label h (N.succ i) j) = 1 /\ lham (qam_label h j i) (qam_label h j (N.succ i)) = 1.
Proof.
  intros Hi Hj. destruct (gray_step_bit h i Hi) as [k [Hk Ek]]. unfold qam_label. split.
  - rewrite lham_app by (rewrite !to_bits_length; reflexivity). rewrite (to_bits_one_bit h _ _ k Hk Ek), lham_refl. reflexivity.
  - rewrite lham_app by (rewrite !to_bits_length; reflexivity). rewrite lham_refl, (to_bits_one_bit h _ _ k Hk Ek). reflexivity.
Qed.

(* ---- link with the label-table model that is tied to the implementation (Mod/Labels.v qam_patterns) ---- *)
Lemma nth_flat_map_uniform {A} (f : nat -> nat -> A) k d : forall rows s i j, i < rows -> j < k ->
  nth (i * k + j) (flat_map (fun i => map (f i) (seq 0 k)) (seq s rows)) d = f (s + i) j.
Proof.
  induction rows as [|rows IH]; intros s i j Hi Hj; [lia|]. cbn [seq flat_map].
  destruct i as [|i].
  - cbn [Nat.mul Nat.add]. rewrite app_nth1 by (rewrite map_length, seq_length; exact Hj).
    rewrite (nth_indep _ d (f s 0)) by (rewrite map_length, seq_length; exact Hj).
    rewrite (map_nth (f s) (seq 0 k) 0 j), seq_nth by exact Hj. rewrite Nat.add_0_r. reflexivity.
  - rewrite app_nth2 by (rewrite map_length, seq_length; cbn [Nat.mul]; lia).
    rewrite map_length, seq_length. replace (S i * k + j - k) with (i * k + j) by (cbn [Nat.mul]; lia).
    rewrite IH by lia. f_equal. lia.
Qed.

(* with the special cases of binary_to_gray consistent (kernel-evaluated: exceptions_ok), the model's table of a Gray-labelled
   4^h-QAM lists, at index i * 2^h + j, exactly the label used in qam_gray_neighbours *)
Theorem qam_patterns_are_labels h i j : exceptions_ok = true -> i < order h -> j < order h ->
  nth (i * order h + j) (qam_patterns (2 * h) true) [] = qam_label h (N.of_nat i) (N.of_nat j).
Proof.
  intros Hex Hi Hj. unfold qam_patterns. replace (Nat.div (2 * h) 2) with h by (rewrite Nat.mul_comm, Nat.div_mul; lia).
  rewrite (nth_flat_map_uniform (fun i j => to_bits_msb h (b2g (N.of_nat i)) ++ to_bits_msb h (b2g (N.of_nat j))) (order h) [] (order h) 0 i j Hi Hj).
  cbn [Nat.add]. unfold qam_label. rewrite !(proj1 (exceptions_ok_spec Hex _)). reflexivity.
Qed.

(* ---- PSK labels: circular neighbours (including the wrap-around) differ in one bit, for every number of bits ---- *)
Definition psk_label (b : nat) (i : N) : list bool := to_bits_msb b (gray i).

Theorem psk_gray_neighbours b i : (N.succ i < 2 ^ N.of_nat b)%N -> lham (psk_label b i) (psk_label b (N.succ i)) = 1.
Proof. intro Hi. destruct (gray_step_bit b i Hi) as [k [Hk Ek]]. unfold psk_label. now apply (to_bits_one_bit b _ _ k). Qed.

Theorem psk_gray_wraparound b : lham (psk_label (S b) (2 ^ N.of_nat (S b) - 1)) (psk_label (S b) 0) = 1.
Proof.
  unfold psk_label. apply (to_bits_one_bit (S b) _ _ b); [lia|].
  rewrite Nat2N.inj_succ. apply gray_wrap.
Qed.

Theorem psk_patterns_are_labels b i : i < order b -> nth i (psk_patterns b true) [] = psk_label b (N.of_nat i).
Proof.
  intro Hi. unfold psk_patterns. rewrite (nth_indep _ [] (to_bits_msb b (gray (N.of_nat 0)))) by (rewrite map_length, seq_length; exact Hi).
  rewrite (map_nth (fun i => to_bits_msb b (gray (N.of_nat i))) (seq 0 (order b)) 0 i), seq_nth by exact Hi. reflexivity.
Qed.
