(* Generic nearest-point demodulation over exact rationals for ANY labelled constellation:
   table = list of (point, label).  Hard decision = label of the first point at minimum distance (torch.argmin);
   soft output core = (min squared distance to a point labelled 1) - (min squared distance to a point labelled 0)
   for each bit position (the max-log LLR is a positive multiple of it divided by the noise variance).
   Modulation = the point whose label is the bit group (last matching pattern wins, as the masked assignment loop).
   No proofs here. *)
From Coq Require Import QArith List Bool Arith.
From KV Require Import Mod.Constellation.
Import ListNotations.

Definition entry := (pt * list bool)%type.
(* first index minimising f over a non-empty list: (index, value) *)
Fixpoint argmin_from (f : pt -> Q) (l : list pt) (i bi : nat) (bv : Q) : nat * Q :=
  match l with
  | [] => (bi, bv)
  | p :: t => if Qlt_le_dec (f p) bv then argmin_from f t (S i) i (f p) else argmin_from f t (S i) bi bv
  end.
Definition nearest (pts : list pt) (y : pt) : nat :=
  match pts with [] => O | p :: t => fst (argmin_from (d2 y) t 1 0 (d2 y p)) end.
Definition hard_label (tbl : list entry) (y : pt) : list bool := snd (nth (nearest (map fst tbl) y) tbl ((0, 0), [])).
(* minimum of d2 over the points whose label has bit i equal to b; None when the class is empty *)
Fixpoint list_min (l : list Q) : option Q :=
  match l with
  | [] => None
  | x :: t => match list_min t with None => Some x | Some m => Some (if Qlt_le_dec x m then x else m) end
  end.
Definition class_entries (tbl : list entry) (i : nat) (b : bool) : list entry :=
  filter (fun e => Bool.eqb (nth i (snd e) false) b) tbl.
Definition class_min (tbl : list entry) (i : nat) (b : bool) (y : pt) : option Q :=
  list_min (map (fun e => d2 y (fst e)) (class_entries tbl i b)).
Definition llr_core (tbl : list entry) (i : nat) (y : pt) : Q :=
  match class_min tbl i true y, class_min tbl i false y with
  | Some m1, Some m0 => m1 - m0
  | _, _ => 0
  end.
(* modulator: scan all patterns, the last match wins *)
Definition mod_point (tbl : list entry) (bits : list bool) : option pt :=
  fold_left (fun acc e => if bits_eqb (snd e) bits then Some (fst e) else acc) tbl None.
Fixpoint groups (b : nat) (fuel : nat) (l : list bool) : list (list bool) :=
  match fuel with O => [] | S f => match l with [] => [] | _ => firstn b l :: groups b f (skipn b l) end end.
Definition modulate (tbl : list entry) (b : nat) (bits : list bool) : list (option pt) :=
  map (mod_point tbl) (groups b (length bits) bits).
Definition demodulate (tbl : list entry) (ys : list pt) : list bool := flat_map (hard_label tbl) ys.
(* the checker behind the round trip: points pairwise distinct (exactly) and labels pairwise distinct *)
Definition table_ok (tbl : list entry) : bool := points_distinct (map fst tbl) && nodupb (map snd tbl).
